(** C06 — Modularity is computed as defined and Louvain / Leiden never make it worse.
    Only statements closed by [exact], their assumptions, and non-vacuity examples.
    Models: Model/Modularity.v (get_modularity), Model/Louvain.v (Louvain.fit, optimize_core, Leiden.fit).
    All rationals are exact ([==] is equality of rationals). *)
From SKN Require Import Base.Util Model.Modularity Model.Louvain Proofs.ModularityProofs Proofs.LouvainProofs.

Local Open Scope Q_scope.

(** * 1. get_modularity = its documentation *)

(** Square matrix (graph or directed graph): the returned modularity is
      1/w sum_ij (A_ij - gamma d+_i d-_j / w) delta(c_i, c_j)          for weights='degree',
      sum_ij (A_ij / w - gamma / n^2) delta(c_i, c_j)                  for weights='uniform',
    for every weighted matrix, labelling and resolution on which the function returns. *)
Theorem modularity_def (m : wmat) (labels : list nat) (labels_col : option (list nat)) (wk : weighting)
        (gamma md ft dv : Q) :
  w_nrow m = w_ncol m -> wf_wgraph (w_rows m) ->
  get_modularity m labels labels_col wk gamma = MOk (md, ft, dv) ->
  md == match wk with
        | Degree => spec_modularity (w_rows m) labels gamma
        | Uniform => spec_modularity_uniform (w_rows m) labels gamma
        end.
Proof. exact (modularity_def_square_match m labels labels_col wk gamma md ft dv). Qed.
Print Assumptions modularity_def.

(** Undirected graphs (symmetric matrix): the same value is 1/w sum_ij (A_ij - gamma d_i d_j / w) delta. *)
Theorem modularity_def_undirected (g : wgraph) (labels : list nat) (gamma : Q) :
  wsymmetric g -> spec_modularity g labels gamma == spec_modularity_undirected g labels gamma.
Proof. exact (spec_undirected_eq g labels gamma). Qed.
Print Assumptions modularity_def_undirected.

(** Bipartite form (non-square matrix, labels_row / labels_col): the undirected formula on the graph
    with n1 + n2 nodes and adjacency [[0, B], [B^T, 0]] (w = 2 * 1^T B 1), labels = rows then columns. *)
Theorem modularity_def_bipartite (m : wmat) (labels_row labels_col : list nat) (gamma md ft dv : Q) :
  w_nrow m <> w_ncol m -> wf_wmat m ->
  get_modularity m labels_row (Some labels_col) Degree gamma = MOk (md, ft, dv) ->
  md == spec_modularity_bipartite m labels_row labels_col gamma /\ md == ft - gamma * dv.
Proof. exact (modularity_def_bipartite_deg m labels_row labels_col gamma md ft dv). Qed.
Print Assumptions modularity_def_bipartite.

Theorem modularity_def_bipartite_uniform (m : wmat) (labels_row labels_col : list nat) (gamma md ft dv : Q) :
  w_nrow m <> w_ncol m -> wf_wmat m ->
  get_modularity m labels_row (Some labels_col) Uniform gamma = MOk (md, ft, dv) ->
  md == spec_modularity_uniform (block_undirected m) (labels_row ++ labels_col) gamma /\ md == ft - gamma * dv.
Proof. exact (ModularityProofs.modularity_def_bipartite_uniform m labels_row labels_col gamma md ft dv). Qed.
Print Assumptions modularity_def_bipartite_uniform.

(** The return_all triple: modularity = fit - resolution * diversity, fit = 1/w sum_ij A_ij delta. *)
Theorem modularity_fit_minus_div (m : wmat) (labels : list nat) (labels_col : option (list nat))
        (wk : weighting) (gamma md ft dv : Q) :
  w_nrow m = w_ncol m -> wf_wgraph (w_rows m) ->
  get_modularity m labels labels_col wk gamma = MOk (md, ft, dv) ->
  md == ft - gamma * dv /\ ft == spec_fit (w_rows m) labels.
Proof. exact (modularity_fit_minus_div_square m labels labels_col wk gamma md ft dv). Qed.
Print Assumptions modularity_fit_minus_div.

(** Remark (not a defect of the metric, whose docstring gives no bipartite formula): on a biadjacency
    matrix get_modularity is NOT Barber's bipartite modularity, the objective Louvain's default kind
    optimises on bipartite input. *)
Theorem modularity_bipartite_is_not_barber :
  exists m lr lc md ft dv,
    get_modularity m lr (Some lc) Degree 1 = MOk (md, ft, dv) /\ ~ md == barber_modularity m lr lc 1.
Proof. exact get_modularity_bipartite_not_barber. Qed.
Print Assumptions modularity_bipartite_is_not_barber.

(** * 2. The kernel's delta is the objective gain
    [kinv g ows iws k st]: the kernel's array invariants in state [st] — labels has one entry < k per
    node, out/in_cluster_weights[c] = sum of the out/in weights of the nodes labelled c, and the
    scratch array cluster_weights is zero. For such a state, a node i and ANY candidate label t other
    than its own, the quantity optimize_core compares ([delta_local], after [-= delta]), computed from the
    arrays after the neighbour loop of node i, equals objective(labels[i := t]) - objective(labels),
    constant factor 1, where objective(l) = sum_ij (A_ij - resolution * out_i * in_j) delta(l_i, l_j). *)
Theorem delta_is_gain (g : wgraph) (ows iws sls : list Q) (res : Q) (k : nat) :
  wf_wgraph g -> wsymmetric g ->
  (forall x, (x < length g)%nat -> nthq sls x == entry g x x) ->
  forall (st : kstate) (i t : nat),
  kinv g ows iws k st -> (i < length g)%nat ->
  let labels := k_labels st in
  let label := lab labels i in
  let cw1 := snd (neighbours labels (wrow_of g i) (k_cw st)) in
  t <> label -> (t < k)%nat ->
  delta_local res (nthq ows i) (nthq iws i)
              (delta_leave res (nthq ows i) (nthq iws i) (nthq sls i) (k_out_cw st) (k_in_cw st) cw1 label)
              (k_out_cw st) (k_in_cw st) cw1 t
  == objective g ows iws res (upd labels i t) - objective g ows iws res labels.
Proof. exact (LouvainProofs.delta_is_gain g ows iws sls res k). Qed.
Print Assumptions delta_is_gain.

(** * 3. A pass reports exactly the objective increase; aggregation preserves the objective *)
Theorem pass_increase_exact (g : wgraph) (ows iws sls : list Q) (res : Q) (k : nat) :
  wf_wgraph g -> wsymmetric g ->
  (forall x, (x < length g)%nat -> nthq sls x == entry g x x) ->
  forall st : kstate,
  kinv g ows iws k st ->
  let st' := one_pass g ows iws sls res st in
  kinv g ows iws k st' /\
  k_inc_pass st' == objective g ows iws res (k_labels st') - objective g ows iws res (k_labels st) /\
  0 <= k_inc_pass st' /\
  (cc_inv g (k_labels st) -> cc_inv g (k_labels st')).
Proof. exact (one_pass_ok g ows iws sls res k). Qed.
Print Assumptions pass_increase_exact.

(** The objective of ANY labelling [l2] of the aggregate graph (with aggregated node weights) equals the
    objective of the composed labelling of the graph that was aggregated. *)
Theorem aggregate_preserves_objective (g : wgraph) (labels : list nat) (k : nat) (ows iws : list Q) (res : Q)
        (l2 : list nat) :
  wf_wgraph g -> length labels = length g ->
  (forall i, (i < length g)%nat -> (lab labels i < k)%nat) ->
  objective (aggregate_graph g labels k) (cluster_sums k labels ows) (cluster_sums k labels iws) res l2
  == objective g ows iws res (map (nthn l2) labels).
Proof. intros Hwf Hlen Hlt. exact (aggregate_objective g labels k Hwf Hlen Hlt ows iws res l2). Qed.
Print Assumptions aggregate_preserves_objective.

(** * 4./5. Louvain.fit
    For every input on which pre-processing succeeds and the (fuel-indexed) loop returns:
    objective(final partition) - objective(singletons) = sum of the logged increases, every logged
    increase is >= 0, and two nodes with the same final label are connected in the working graph (the
    adjacency after get_adjacency and the optional shuffle). [r_membership] is the partition before the
    cosmetic relabelling / unshuffling of _post_processing. *)
Theorem louvain_increase_total (fuel kfuel : nat) (kind : modkind) (res tol_opt tol_agg : Q) (n_agg : Z)
        (m : wmat) (fb : bool) (index : option (list nat)) (p : prep) (r : fit_result) :
  pre_processing kind m fb index = MOk p ->
  louvain_loop fuel kfuel res tol_opt tol_agg n_agg (p_adj p) (p_out p) (p_in p)
               (seq 0 (length (p_adj p))) 0 [] marg0 = MOk r ->
  let obj := objective (p_adj p) (p_out p) (p_in p) res in
  let g1 := working_graph kind m fb index in
  obj (r_membership r) - obj (seq 0 (length (p_adj p))) == log_total (r_log r) /\
  0 <= log_total (r_log r) /\
  log_nonneg (r_log r) /\
  length (r_membership r) = length g1 /\
  (forall u v, (u < length g1)%nat -> (v < length g1)%nat ->
     lab (r_membership r) u = lab (r_membership r) v -> connected g1 u v).
Proof. exact (louvain_fit_core fuel kfuel kind res tol_opt tol_agg n_agg m fb index p r). Qed.
Print Assumptions louvain_increase_total.

Theorem clusters_within_components (fuel kfuel : nat) (kind : modkind) (res tol_opt tol_agg : Q) (n_agg : Z)
        (m : wmat) (fb : bool) (index : option (list nat)) (p : prep) (r : fit_result) (u v : nat) :
  pre_processing kind m fb index = MOk p ->
  louvain_loop fuel kfuel res tol_opt tol_agg n_agg (p_adj p) (p_out p) (p_in p)
               (seq 0 (length (p_adj p))) 0 [] marg0 = MOk r ->
  let g1 := working_graph kind m fb index in
  (u < length g1)%nat -> (v < length g1)%nat ->
  lab (r_membership r) u = lab (r_membership r) v -> connected g1 u v.
Proof.
  intros Hp Hl g1.
  exact (proj2 (proj2 (proj2 (proj2 (louvain_fit_core fuel kfuel kind res tol_opt tol_agg n_agg m fb index p r Hp Hl)))) u v).
Qed.
Print Assumptions clusters_within_components.

(** The objective handed to the kernel is the documented objective of the modularity kind on the
    working graph A (docs/reference/clustering.rst), and for 'dugue' the directed modularity of
    get_modularity's docstring. *)
Theorem louvain_objective_is_kind (kind : modkind) (m : wmat) (fb : bool) (index : option (list nat)) (p : prep)
        (res : Q) (labels : list nat) :
  pre_processing kind m fb index = MOk p ->
  let g1 := working_graph kind m fb index in
  wf_wgraph g1 ->
  objective (p_adj p) (p_out p) (p_in p) res labels == kind_objective kind g1 res labels.
Proof. exact (prep_objective kind m fb index p res labels). Qed.
Print Assumptions louvain_objective_is_kind.

Theorem dugue_objective_is_directed_modularity (g : wgraph) (res : Q) (labels : list nat) :
  ~ total_weight g == 0 -> kind_objective Dugue g res labels == spec_modularity g labels res.
Proof. exact (kind_objective_dugue_spec g res labels). Qed.
Print Assumptions dugue_objective_is_directed_modularity.

(** * Leiden.fit
    optimize_refine_core draws its targets with libc rand(): the refined partition of every aggregation
    level is an oracle argument [refine]. For EVERY oracle meeting [refine_contract] (its answer has one
    label per node, refined clusters are subsets of the coarse clusters, nodes with the same refined
    label are connected — what the kernel guarantees, since a node only joins the refined cluster of a
    neighbour inside its own coarse cluster), the same three facts hold for Leiden: the returned
    (coarse) partition gains exactly the sum of the logged increases over singletons, every increase is
    >= 0, clusters lie inside connected components. *)
Theorem leiden_increase_total (refine : nat -> wgraph -> list nat -> list nat)
        (fuel kfuel : nat) (kind : modkind) (res tol_opt tol_agg : Q) (n_agg : Z)
        (m : wmat) (fb : bool) (index : option (list nat)) (p : prep) (r : fit_result) :
  refine_contract refine ->
  pre_processing kind m fb index = MOk p ->
  leiden_loop fuel kfuel res tol_opt tol_agg n_agg refine (p_adj p) (p_out p) (p_in p)
              (seq 0 (length (p_adj p))) (seq 0 (length (p_adj p))) 0 [] marg0 = MOk r ->
  let obj := objective (p_adj p) (p_out p) (p_in p) res in
  let g1 := working_graph kind m fb index in
  obj (r_membership r) - obj (seq 0 (length (p_adj p))) == log_total (r_log r) /\
  0 <= log_total (r_log r) /\
  log_nonneg (r_log r) /\
  length (r_membership r) = length g1 /\
  (forall u v, (u < length g1)%nat -> (v < length g1)%nat ->
     lab (r_membership r) u = lab (r_membership r) v -> connected g1 u v).
Proof. exact (leiden_fit_core refine fuel kfuel kind res tol_opt tol_agg n_agg m fb index p r). Qed.
Print Assumptions leiden_increase_total.

(** * The statements on the returned labels_ (no shuffling) and the documented objective
    [louvain_fit] / [leiden_fit] = the whole of fit (pre-processing, loop, post-processing with optional
    cluster sorting). On any input on which it returns, with A the working adjacency:
      objective_kind(labels_) - objective_kind(singletons) = sum of the logged increases >= 0,
    every logged increase is >= 0, and nodes with equal label are connected in A. *)
Theorem louvain_labels_objective (fuel kfuel : nat) (kind : modkind) (res tol_opt tol_agg : Q) (n_agg : Z)
        (sort_clusters : bool) (m : wmat) (fb : bool) (labels : list nat) (log : list logline) (mg : marg) :
  louvain_fit fuel kfuel kind res tol_opt tol_agg n_agg sort_clusters m fb None = MOk (labels, log, mg) ->
  let g1 := working_graph kind m fb None in
  wf_wgraph g1 ->
  kind_objective kind g1 res labels - kind_objective kind g1 res (seq 0 (length g1)) == log_total log /\
  0 <= log_total log /\ log_nonneg log /\
  length labels = length g1 /\
  (forall u v, (u < length g1)%nat -> (v < length g1)%nat -> lab labels u = lab labels v -> connected g1 u v).
Proof. exact (louvain_fit_labels fuel kfuel kind res tol_opt tol_agg n_agg sort_clusters m fb labels log mg). Qed.
Print Assumptions louvain_labels_objective.

Theorem leiden_labels_objective (refine : nat -> wgraph -> list nat -> list nat)
        (fuel kfuel : nat) (kind : modkind) (res tol_opt tol_agg : Q) (n_agg : Z)
        (sort_clusters : bool) (m : wmat) (fb : bool) (labels : list nat) (log : list logline) (mg : marg) :
  refine_contract refine ->
  leiden_fit fuel kfuel kind res tol_opt tol_agg n_agg sort_clusters refine m fb None = MOk (labels, log, mg) ->
  let g1 := working_graph kind m fb None in
  wf_wgraph g1 ->
  kind_objective kind g1 res labels - kind_objective kind g1 res (seq 0 (length g1)) == log_total log /\
  0 <= log_total log /\ log_nonneg log /\
  length labels = length g1 /\
  (forall u v, (u < length g1)%nat -> (v < length g1)%nat -> lab labels u = lab labels v -> connected g1 u v).
Proof. exact (leiden_fit_labels refine fuel kfuel kind res tol_opt tol_agg n_agg sort_clusters m fb labels log mg). Qed.
Print Assumptions leiden_labels_objective.

(** * Non-vacuity *)
Definition ex_house : wmat :=
  {| w_ncol := 5;
     w_rows := [[(1%nat, 1); (4%nat, 1)]; [(0%nat, 1); (2%nat, 1); (4%nat, 1)]; [(1%nat, 1); (3%nat, 1)];
                [(2%nat, 1); (4%nat, 1)]; [(0%nat, 1); (1%nat, 1); (3%nat, 1)]] |}.

(** get_modularity(house, [0,0,1,1,0]) = 1/9 = 0.11 (the docstring's example), fit 2/3, diversity 5/9. *)
Example c06_metric_nonvacuous :
  w_nrow ex_house = w_ncol ex_house /\ wf_wgraph (w_rows ex_house) /\
  get_modularity ex_house [0; 0; 1; 1; 0]%nat None Degree 1 = MOk (1 # 9, 2 # 3, 5 # 9).
Proof.
  split; [reflexivity|]. split; [apply wf_wgraphb_ok; reflexivity|]. vm_compute. reflexivity.
Qed.

(** Louvain on the house graph: pre-processing succeeds, the loop returns two clusters {0,1,4},{2,3}
    after two aggregations, with logged increases 23/72 and 0. *)
Example c06_louvain_nonvacuous :
  exists p r, pre_processing Dugue ex_house false None = MOk p /\
    louvain_loop 20 100 1 (1 # 1000) (1 # 1000) (-1) (p_adj p) (p_out p) (p_in p)
                 (seq 0 (length (p_adj p))) 0 [] marg0 = MOk r /\
    r_membership r = [0; 0; 1; 1; 0]%nat /\ map l_increase (r_log r) = [23 # 72; 0].
Proof.
  eexists. eexists. split; [vm_compute; reflexivity|]. split; [vm_compute; reflexivity|].
  split; vm_compute; reflexivity.
Qed.

(** The contract is satisfiable (the oracle that refines nothing: every node its own refined cluster),
    and Leiden with it returns on the house graph. *)
Example c06_leiden_nonvacuous :
  refine_contract (fun _ g _ => seq 0 (length g)) /\
  exists p r, pre_processing Dugue ex_house false None = MOk p /\
    leiden_loop 20 100 1 (1 # 1000) (1 # 1000) (-1) (fun _ g _ => seq 0 (length g))
                (p_adj p) (p_out p) (p_in p) (seq 0 (length (p_adj p))) (seq 0 (length (p_adj p))) 0 [] marg0 = MOk r /\
    r_membership r = [0; 0; 1; 1; 0]%nat.
Proof.
  split.
  - intros count g labels Hwf Hlen. split; [apply seq_length|]. split.
    + intros x y Hx Hy E. rewrite !lab_seq in E by assumption. subst y. reflexivity.
    + apply cc_inv_singletons.
  - eexists. eexists. split; [vm_compute; reflexivity|]. split; vm_compute; reflexivity.
Qed.

(** * 6. Termination of the exact-rational model (Proofs/LouvainTermination.v)
    Sections 4./5. above are conditional on the fuel-indexed loops returning. Here: they do return,
    with explicit fuel, for tol_optimization > 0 and tol_aggregation >= 0. *)
From SKN Require Import Proofs.LouvainTermination.
Local Open Scope Q_scope.

(** ** 6.1 The objective is bounded, for EVERY labelling
    [objective_bound g out in res] = sum_ij |A_ij - res * out_i * in_j| (computable from the kernel's inputs);
    no hypothesis on signs or normalisation. *)
Theorem objective_bounded (g : wgraph) (ows iws : list Q) (res : Q) (labels : list nat) :
  - objective_bound g ows iws res <= objective g ows iws res labels /\
  objective g ows iws res labels <= objective_bound g ows iws res.
Proof. exact (objective_abs_bounded g ows iws res labels). Qed.
Print Assumptions objective_bounded.

(** Non-negative adjacency entries and node weights, resolution >= 0:
    -res * (sum out)(sum in) <= objective <= sum_ij A_ij. *)
Theorem objective_bounded_nonnegative (g : wgraph) (ows iws : list Q) (res : Q) (labels : list nat) :
  let n := length g in
  (forall i j, (i < n)%nat -> (j < n)%nat -> 0 <= entry g i j) ->
  (forall i, (i < n)%nat -> 0 <= nthq ows i) -> (forall i, (i < n)%nat -> 0 <= nthq iws i) ->
  0 <= res ->
  - (res * (qsum n (nthq ows) * qsum n (nthq iws))) <= objective g ows iws res labels /\
  objective g ows iws res labels <= total_weight g.
Proof. exact (objective_bounded_nonneg g ows iws res labels). Qed.
Print Assumptions objective_bounded_nonnegative.

(** After Louvain._pre_processing (adjacency normalised to total weight 1, node weights = probabilities),
    for each of the three modularity kinds ('dugue', 'newman', 'potts'), non-negative working adjacency
    and resolution >= 0:   -resolution <= objective(labels) <= 1   for every labelling. *)
Theorem louvain_objective_bounded (kind : modkind) (m : wmat) (fb : bool) (index : option (list nat))
        (p : prep) (res : Q) (labels : list nat) :
  pre_processing kind m fb index = MOk p ->
  let g1 := working_graph kind m fb index in
  (forall i j, (i < length g1)%nat -> (j < length g1)%nat -> 0 <= entry g1 i j) ->
  0 <= res ->
  - res <= objective (p_adj p) (p_out p) (p_in p) res labels /\
  objective (p_adj p) (p_out p) (p_in p) res labels <= 1.
Proof. exact (prep_objective_bounded kind m fb index p res labels). Qed.
Print Assumptions louvain_objective_bounded.

(** The value on the singleton partition, where every optimisation of Louvain starts. *)
Theorem objective_of_singletons (g : wgraph) (ows iws : list Q) (res : Q) :
  let n := length g in
  objective g ows iws res (seq 0 n) == qsum n (fun i => entry g i i - res * nthq ows i * nthq iws i).
Proof. exact (objective_singletons g ows iws res). Qed.
Print Assumptions objective_of_singletons.

(** ** 6.2 optimize_core terminates for tol > 0
    [pass_fuel B q0 tol] = ceil((B - q0) / tol) + 1. For ANY upper bound B of the objective and any start
    labelling whose cluster-weight arrays are consistent (Louvain's and Leiden's calls), the [while]
    loop over passes returns within pass_fuel B objective(start) tol passes: every pass that does not
    stop the loop has increase_pass > tol, and increase_pass is the objective gain (pass_increase_exact).
    Symmetry of the adjacency is what makes increase_pass the gain (Louvain hands the kernel A + A^T). *)
Theorem optimize_core_terminates (fuel : nat) (g : wgraph) (ows iws : list Q) (res tol B : Q)
        (labels : list nat) (ocw icw : list Q) (mg : marg) :
  wf_wgraph g -> wsymmetric g ->
  length labels = length g -> length ocw = length icw ->
  (forall x, (x < length g)%nat -> (lab labels x < length ocw)%nat) ->
  (forall c, (c < length ocw)%nat -> nthq ocw c == csum g labels ows c) ->
  (forall c, (c < length ocw)%nat -> nthq icw c == csum g labels iws c) ->
  0 < tol -> (forall l, objective g ows iws res l <= B) ->
  (pass_fuel B (objective g ows iws res labels) tol <= fuel)%nat ->
  exists st inc, optimize fuel g ows iws res tol labels ocw icw mg = Some (st, inc).
Proof. exact (optimize_terminates fuel g ows iws res tol B labels ocw icw mg). Qed.
Print Assumptions optimize_core_terminates.

(** Louvain's call (labels = arange(n), cluster weights = node weights), fuel computed from the inputs. *)
Theorem optimize_core_terminates_computed (fuel : nat) (g : wgraph) (ows iws : list Q) (res tol : Q) (mg : marg) :
  wf_wgraph g -> wsymmetric g -> length ows = length g -> length iws = length g ->
  0 < tol ->
  let n := length g in
  (pass_fuel (objective_bound g ows iws res) (objective g ows iws res (seq 0 n)) tol <= fuel)%nat ->
  exists st inc, optimize fuel g ows iws res tol (seq 0 n) ows iws mg = Some (st, inc).
Proof. exact (optimize_singletons_terminates fuel g ows iws res tol mg). Qed.
Print Assumptions optimize_core_terminates_computed.

(** tol >= 0, in particular tol_optimization = 0, in EXACT arithmetic: a continuing pass strictly
    increases the objective, which takes at most k^n values (k cluster slots, n nodes): k^n + 1 passes
    suffice. PARTIAL with respect to the property: this is the exact-rational model only; in the float32
    kernel an accepted "gain" can be rounding noise and the loop need not stop (known finding D32). *)
Theorem optimize_core_terminates_tol0_partial (fuel : nat) (g : wgraph) (ows iws : list Q) (res tol : Q)
        (labels : list nat) (ocw icw : list Q) (mg : marg) :
  wf_wgraph g -> wsymmetric g ->
  length labels = length g -> length ocw = length icw ->
  (forall x, (x < length g)%nat -> (lab labels x < length ocw)%nat) ->
  (forall c, (c < length ocw)%nat -> nthq ocw c == csum g labels ows c) ->
  (forall c, (c < length ocw)%nat -> nthq icw c == csum g labels iws c) ->
  0 <= tol ->
  (S (length ocw ^ length g) <= fuel)%nat ->
  exists st inc, optimize fuel g ows iws res tol labels ocw icw mg = Some (st, inc).
Proof. exact (optimize_terminates_exact fuel g ows iws res tol labels ocw icw mg). Qed.
Print Assumptions optimize_core_terminates_tol0_partial.

(** ** 6.3 Louvain.fit terminates
    An aggregation that does not stop the loop has increase > tol_aggregation >= 0, so at least two nodes
    were merged: the aggregate graph has strictly fewer nodes. Fuel = number of nodes of the working graph
    for the aggregation loop; for the pass loop of every level the fuel of 6.2 computed once on the
    pre-processed input (the objective of every level is the objective of the composed labelling of the
    input graph, and it never decreases from level to level). [n_aggregations] plays no role. *)
Theorem louvain_fit_terminates (fuel kfuel : nat) (kind : modkind) (res tol_opt tol_agg : Q) (n_agg : Z)
        (m : wmat) (fb : bool) (index : option (list nat)) (p : prep) (B : Q) :
  pre_processing kind m fb index = MOk p ->
  0 < tol_opt -> 0 <= tol_agg ->
  (forall l, objective (p_adj p) (p_out p) (p_in p) res l <= B) ->
  (pass_fuel B (objective (p_adj p) (p_out p) (p_in p) res (seq 0 (length (p_adj p)))) tol_opt <= kfuel)%nat ->
  (length (p_adj p) <= fuel)%nat ->
  exists r, louvain_loop fuel kfuel res tol_opt tol_agg n_agg (p_adj p) (p_out p) (p_in p)
                         (seq 0 (length (p_adj p))) 0 [] marg0 = MOk r.
Proof. exact (louvain_loop_fit_terminates fuel kfuel kind res tol_opt tol_agg n_agg m fb index p B). Qed.
Print Assumptions louvain_fit_terminates.

(** The whole of fit, with both fuels computed from its arguments:
    [louvain_fuel] = number of nodes of the working graph,
    [louvain_kfuel] = pass_fuel (objective_bound ..) (objective(singletons)) tol_optimization on the
    pre-processed input. The only error fit can return is ValueError (empty / invalid input). *)
Theorem louvain_fit_never_out_of_fuel (fuel kfuel : nat) (kind : modkind) (res tol_opt tol_agg : Q) (n_agg : Z)
        (sort_clusters : bool) (m : wmat) (fb : bool) (index : option (list nat)) :
  0 < tol_opt -> 0 <= tol_agg ->
  (louvain_kfuel kind res tol_opt m fb index <= kfuel)%nat ->
  (louvain_fuel kind m fb index <= fuel)%nat ->
  louvain_fit fuel kfuel kind res tol_opt tol_agg n_agg sort_clusters m fb index <> MErr MOutOfFuel.
Proof.
  exact (LouvainTermination.louvain_fit_never_out_of_fuel fuel kfuel kind res tol_opt tol_agg n_agg
           sort_clusters m fb index).
Qed.
Print Assumptions louvain_fit_never_out_of_fuel.

(** louvain_increase_total without the "model returns" hypothesis. *)
Theorem louvain_increase_total_unconditional (fuel kfuel : nat) (kind : modkind) (res tol_opt tol_agg : Q)
        (n_agg : Z) (m : wmat) (fb : bool) (index : option (list nat)) (p : prep) :
  pre_processing kind m fb index = MOk p ->
  0 < tol_opt -> 0 <= tol_agg ->
  (louvain_kfuel kind res tol_opt m fb index <= kfuel)%nat ->
  (louvain_fuel kind m fb index <= fuel)%nat ->
  exists r,
    louvain_loop fuel kfuel res tol_opt tol_agg n_agg (p_adj p) (p_out p) (p_in p)
                 (seq 0 (length (p_adj p))) 0 [] marg0 = MOk r /\
    let obj := objective (p_adj p) (p_out p) (p_in p) res in
    let g1 := working_graph kind m fb index in
    obj (r_membership r) - obj (seq 0 (length (p_adj p))) == log_total (r_log r) /\
    0 <= log_total (r_log r) /\
    log_nonneg (r_log r) /\
    length (r_membership r) = length g1 /\
    (forall u v, (u < length g1)%nat -> (v < length g1)%nat ->
       lab (r_membership r) u = lab (r_membership r) v -> connected g1 u v).
Proof. exact (louvain_fit_core_unconditional fuel kfuel kind res tol_opt tol_agg n_agg m fb index p). Qed.
Print Assumptions louvain_increase_total_unconditional.

(** Non-vacuity: on the house graph with tol_optimization = 1/100 and tol_aggregation = 0 the computed
    fuels are 5 aggregations and 120 passes, and fit returns with them. *)
Example c06_termination_nonvacuous :
  louvain_fuel Dugue ex_house false None = 5%nat /\
  louvain_kfuel Dugue 1 (1 # 100) ex_house false None = 120%nat /\
  louvain_fit 5 120 Dugue 1 (1 # 100) 0 (-1) true ex_house false None
  = MOk ([0; 0; 1; 1; 0]%nat,
         [{| l_count := 1; l_clusters := 2; l_increase := 23 # 72 |};
          {| l_count := 2; l_clusters := 2; l_increase := 0 |}],
         (Some (1 # 36), 2%nat)).
Proof. split; [vm_compute; reflexivity|]. split; vm_compute; reflexivity. Qed.

(** * 7. Leiden.fit: the label step of _aggregate_refine, the objective across a refined aggregation, and
      termination of the outer loop (Model/Leiden.v, Proofs/LeidenProofs.v) *)
From SKN Require Import Model.Leiden Proofs.LeidenProofs.
Set Warnings "-notation-overridden". (* keep: a line with a parenthesis after the imports *)
Local Open Scope Q_scope.

(** ** 7.1 [labels_ = membership_refined.T.tocsr().dot(membership).indices]
    [Model.Leiden.aggregate_refine_labels] is the step as coded (matrix product, column indices of the stored
    entries); the model of Leiden.fit ([leiden_loop]) uses [coarse_of_refined] (coarse label of the first
    listed member of each refined cluster). For EVERY oracle meeting [refine_contract], at every level:
    the coded step returns exactly [coarse_of_refined] — one entry per aggregated node; the aggregated node
    [rho y] gets the coarse label of y whichever member y of the refined cluster is taken; so composing a
    membership with [labels_refined] and then with these labels gives the coarse label of the level, node
    by node (the coarse partition of the aggregated graph is the coarse partition of the original nodes). *)
Theorem leiden_aggregate_refine_labels (refine : nat -> wgraph -> list nat -> list nat) (count : nat)
        (g : wgraph) (labels : list nat) :
  refine_contract refine -> wf_wgraph g -> length labels = length g -> (0 < length g)%nat ->
  let rho := Louvain.unique_inverse (refine count g labels) in
  let k := n_labels rho in
  let labels' := coarse_of_refined labels rho k in
  aggregate_refine_labels (map Z.of_nat labels) (map Z.of_nat rho) = Clustering.Ok (k, n_labels labels, labels') /\
  length labels' = k /\
  (forall y, (y < length g)%nat -> (lab rho y < k)%nat /\ lab labels' (lab rho y) = lab labels y) /\
  (forall membership, (forall c, In c membership -> (c < length g)%nat) ->
     map (nthn labels') (map (fun c => nthn rho c) membership) = map (fun c => nthn labels c) membership).
Proof. exact (leiden_aggregate_refine_labels_ok refine count g labels). Qed.
Print Assumptions leiden_aggregate_refine_labels.

(** ** 7.2 Refinement does not change the objective of the coarse partition
    (aggregate_preserves_objective of section 3 instantiated at the refined labels, composed with 7.1). *)
Theorem leiden_aggregation_preserves_objective (refine : nat -> wgraph -> list nat -> list nat) (count : nat)
        (g : wgraph) (labels : list nat) (ows iws : list Q) (res : Q) :
  refine_contract refine -> wf_wgraph g -> length labels = length g -> (0 < length g)%nat ->
  let rho := Louvain.unique_inverse (refine count g labels) in
  let k := n_labels rho in
  objective (aggregate_graph g rho k) (cluster_sums k rho ows) (cluster_sums k rho iws) res
            (coarse_of_refined labels rho k)
  == objective g ows iws res labels.
Proof. exact (leiden_aggregation_preserves_objective_pf refine count g labels ows iws res). Qed.
Print Assumptions leiden_aggregation_preserves_objective.

(** ** 7.3 Leiden.fit terminates for tol_optimization > 0 and tol_aggregation > 0
    The node-count argument of 6.3 does not apply: the graph is aggregated by the REFINED partition, which
    need not lose a node when the coarse pass gained. Instead: an aggregation that does not stop the loop
    has increase > tol_aggregation, the increase is the gain of the objective of the coarse partition read
    on the original nodes (7.1, 7.2), and that objective is bounded by B: at most
    pass_fuel B Q0 tol_aggregation = ceil((B - Q0) / tol_aggregation) + 1 aggregations, Q0 the objective of
    the singleton partition. For EVERY refinement oracle meeting the contract; [n_aggregations] plays no role. *)
Theorem leiden_fit_terminates (refine : nat -> wgraph -> list nat -> list nat)
        (fuel kfuel : nat) (kind : modkind) (res tol_opt tol_agg : Q) (n_agg : Z)
        (m : wmat) (fb : bool) (index : option (list nat)) (p : prep) (B : Q) :
  refine_contract refine ->
  pre_processing kind m fb index = MOk p ->
  0 < tol_opt -> 0 < tol_agg ->
  (forall l, objective (p_adj p) (p_out p) (p_in p) res l <= B) ->
  (pass_fuel B (objective (p_adj p) (p_out p) (p_in p) res (seq 0 (length (p_adj p)))) tol_opt <= kfuel)%nat ->
  (pass_fuel B (objective (p_adj p) (p_out p) (p_in p) res (seq 0 (length (p_adj p)))) tol_agg <= fuel)%nat ->
  exists r, leiden_loop fuel kfuel res tol_opt tol_agg n_agg refine (p_adj p) (p_out p) (p_in p)
                        (seq 0 (length (p_adj p))) (seq 0 (length (p_adj p))) 0 [] marg0 = MOk r.
Proof. exact (leiden_loop_fit_terminates refine fuel kfuel kind res tol_opt tol_agg n_agg m fb index p B). Qed.
Print Assumptions leiden_fit_terminates.

(** With [louvain_objective_bounded] (non-negative working adjacency, resolution >= 0): B = 1. *)
Theorem leiden_fit_terminates_nonnegative (refine : nat -> wgraph -> list nat -> list nat)
        (fuel kfuel : nat) (kind : modkind) (res tol_opt tol_agg : Q) (n_agg : Z)
        (m : wmat) (fb : bool) (index : option (list nat)) (p : prep) :
  refine_contract refine ->
  pre_processing kind m fb index = MOk p ->
  let g1 := working_graph kind m fb index in
  (forall i j, (i < length g1)%nat -> (j < length g1)%nat -> 0 <= entry g1 i j) ->
  0 <= res ->
  0 < tol_opt -> 0 < tol_agg ->
  (pass_fuel 1 (objective (p_adj p) (p_out p) (p_in p) res (seq 0 (length (p_adj p)))) tol_opt <= kfuel)%nat ->
  (pass_fuel 1 (objective (p_adj p) (p_out p) (p_in p) res (seq 0 (length (p_adj p)))) tol_agg <= fuel)%nat ->
  exists r, leiden_loop fuel kfuel res tol_opt tol_agg n_agg refine (p_adj p) (p_out p) (p_in p)
                        (seq 0 (length (p_adj p))) (seq 0 (length (p_adj p))) 0 [] marg0 = MOk r.
Proof. exact (leiden_loop_fit_terminates_nonneg refine fuel kfuel kind res tol_opt tol_agg n_agg m fb index p). Qed.
Print Assumptions leiden_fit_terminates_nonnegative.

(** The whole of fit, with both fuels computed from its arguments:
    [leiden_kfuel] = [louvain_kfuel] (pass_fuel (objective_bound ..) Q0 tol_optimization),
    [leiden_fuel] = pass_fuel (objective_bound ..) Q0 tol_aggregation, on the pre-processed input. *)
Theorem leiden_fit_never_out_of_fuel (refine : nat -> wgraph -> list nat -> list nat)
        (fuel kfuel : nat) (kind : modkind) (res tol_opt tol_agg : Q) (n_agg : Z)
        (sort_clusters : bool) (m : wmat) (fb : bool) (index : option (list nat)) :
  refine_contract refine ->
  0 < tol_opt -> 0 < tol_agg ->
  (leiden_kfuel kind res tol_opt m fb index <= kfuel)%nat ->
  (leiden_fuel kind res tol_agg m fb index <= fuel)%nat ->
  leiden_fit fuel kfuel kind res tol_opt tol_agg n_agg sort_clusters refine m fb index <> MErr MOutOfFuel.
Proof.
  exact (leiden_fit_never_out_of_fuel_pf refine fuel kfuel kind res tol_opt tol_agg n_agg sort_clusters m fb index).
Qed.
Print Assumptions leiden_fit_never_out_of_fuel.

(** leiden_increase_total without the "model returns" hypothesis. *)
Theorem leiden_increase_total_unconditional (refine : nat -> wgraph -> list nat -> list nat)
        (fuel kfuel : nat) (kind : modkind) (res tol_opt tol_agg : Q) (n_agg : Z)
        (m : wmat) (fb : bool) (index : option (list nat)) (p : prep) :
  refine_contract refine ->
  pre_processing kind m fb index = MOk p ->
  0 < tol_opt -> 0 < tol_agg ->
  (leiden_kfuel kind res tol_opt m fb index <= kfuel)%nat ->
  (leiden_fuel kind res tol_agg m fb index <= fuel)%nat ->
  exists r,
    leiden_loop fuel kfuel res tol_opt tol_agg n_agg refine (p_adj p) (p_out p) (p_in p)
                (seq 0 (length (p_adj p))) (seq 0 (length (p_adj p))) 0 [] marg0 = MOk r /\
    let obj := objective (p_adj p) (p_out p) (p_in p) res in
    let g1 := working_graph kind m fb index in
    obj (r_membership r) - obj (seq 0 (length (p_adj p))) == log_total (r_log r) /\
    0 <= log_total (r_log r) /\
    log_nonneg (r_log r) /\
    length (r_membership r) = length g1 /\
    (forall u v, (u < length g1)%nat -> (v < length g1)%nat ->
       lab (r_membership r) u = lab (r_membership r) v -> connected g1 u v).
Proof. exact (leiden_fit_core_unconditional refine fuel kfuel kind res tol_opt tol_agg n_agg m fb index p). Qed.
Print Assumptions leiden_increase_total_unconditional.

(** ** 7.4 The two cases left out by 7.3
    n_aggregations >= 1: the test [count == n_aggregations] stops the loop whatever tol_aggregation is
    (tol_optimization > 0 is still needed for the kernel): n_aggregations iterations. *)
Theorem leiden_fit_terminates_n_aggregations (refine : nat -> wgraph -> list nat -> list nat)
        (fuel kfuel : nat) (kind : modkind) (res tol_opt tol_agg : Q) (n_agg : Z)
        (m : wmat) (fb : bool) (index : option (list nat)) (p : prep) :
  refine_contract refine ->
  pre_processing kind m fb index = MOk p ->
  0 < tol_opt -> (1 <= n_agg)%Z ->
  (leiden_kfuel kind res tol_opt m fb index <= kfuel)%nat ->
  (Z.to_nat n_agg <= fuel)%nat ->
  exists r, leiden_loop fuel kfuel res tol_opt tol_agg n_agg refine (p_adj p) (p_out p) (p_in p)
                        (seq 0 (length (p_adj p))) (seq 0 (length (p_adj p))) 0 [] marg0 = MOk r.
Proof. exact (leiden_loop_fit_terminates_n_agg refine fuel kfuel kind res tol_opt tol_agg n_agg m fb index p). Qed.
Print Assumptions leiden_fit_terminates_n_aggregations.

(** tol_aggregation >= 0, in particular 0, in EXACT arithmetic: a continuing aggregation strictly increases
    the objective of the coarse partition of the n original nodes, which takes at most n^n values: n^n + 1
    aggregations. PARTIAL with respect to the property: exact-rational model only (in the float32 kernel an
    accepted "gain" can be rounding noise, known finding D32); the bound is only meant as a statement. *)
Theorem leiden_fit_terminates_tol0_partial (refine : nat -> wgraph -> list nat -> list nat)
        (fuel kfuel : nat) (kind : modkind) (res tol_opt tol_agg : Q) (n_agg : Z)
        (m : wmat) (fb : bool) (index : option (list nat)) (p : prep) :
  refine_contract refine ->
  pre_processing kind m fb index = MOk p ->
  0 < tol_opt -> 0 <= tol_agg ->
  (leiden_kfuel kind res tol_opt m fb index <= kfuel)%nat ->
  (S (length (p_adj p) ^ length (p_adj p)) <= fuel)%nat ->
  exists r, leiden_loop fuel kfuel res tol_opt tol_agg n_agg refine (p_adj p) (p_out p) (p_in p)
                        (seq 0 (length (p_adj p))) (seq 0 (length (p_adj p))) 0 [] marg0 = MOk r.
Proof. exact (leiden_loop_fit_terminates_tol0_partial refine fuel kfuel kind res tol_opt tol_agg n_agg m fb index p). Qed.
Print Assumptions leiden_fit_terminates_tol0_partial.

(** Non-vacuity: on the house graph with tol_optimization = tol_aggregation = 1/100 the computed fuels are
    120 passes and 120 aggregations; with the oracle that refines nothing (it meets the contract:
    c06_leiden_nonvacuous) fit returns with them; and the coded label step on the first level's answer
    (coarse labels 0,0,1,1,0, every node its own refined cluster) returns the coarse labels themselves. *)
Example c06_leiden_termination_nonvacuous :
  leiden_kfuel Dugue 1 (1 # 100) ex_house false None = 120%nat /\
  leiden_fuel Dugue 1 (1 # 100) ex_house false None = 120%nat /\
  (exists log mg, leiden_fit 120 120 Dugue 1 (1 # 100) (1 # 100) (-1) true (fun _ g _ => seq 0 (length g))
                             ex_house false None = MOk ([0; 0; 1; 1; 0]%nat, log, mg)) /\
  aggregate_refine_labels [0; 0; 1; 1; 0]%Z [0; 1; 2; 3; 4]%Z = Clustering.Ok (5%nat, 2%nat, [0; 0; 1; 1; 0]%nat).
Proof.
  split; [vm_compute; reflexivity|]. split; [vm_compute; reflexivity|].
  split; [eexists; eexists; vm_compute; reflexivity|vm_compute; reflexivity].
Qed.

(* =========================================================================================== *)
(** * get_modularity as REGENERATED FROM sknetwork/clustering/metrics.py

    [src_modularity_fit / _div / _mod] (Gen/NpModularity.v) are the values of the variables [fit], [div] and [mod] of
    get_modularity, translated on every run by harness/translators/npvec.py into the array language of Model/NpVec.v
    (inputs: the square adjacency and the stacked label vector that the function's prologue produces, [weights],
    [resolution]); [rvdenote] is that language's NumPy / SciPy semantics over R.  For EVERY matrix (index function), every
    non-negative label vector, both weightings and every resolution the denotation is the documented modularity, and the
    fit and diversity terms add up to it. *)
From SKN Require Import Model.NpExpr Model.NpVec Gen.NpModularity Proofs.NpVecProofs Proofs.NpModularityProofs.
From Coq Require Import Reals Lra.
Local Open Scope R_scope.

Theorem source_modularity_def (n : nat) (A : nat -> nat -> R) (l : list Z) (deg : bool) (gamma : R) :
  labels_ok n l ->
  rvdenote (env_mod n A l deg gamma) src_modularity_fit = Some (WS (fit_def n A l)) /\
  rvdenote (env_mod n A l deg gamma) src_modularity_div = Some (WS (div_def n A l deg)) /\
  rvdenote (env_mod n A l deg gamma) src_modularity_mod = Some (WS (fit_def n A l - gamma * div_def n A l deg)).
Proof. exact (NpModularityProofs.source_modularity_def n A l deg gamma). Qed.
Print Assumptions source_modularity_def.

(** the normalising constants of the in- and out-probabilities coincide (total weight) *)
Theorem source_modularity_totals (n : nat) (A : nat -> nat -> R) :
  rsum n (fun j' => rsum n (fun i => A i j')) = total n A.
Proof. exact (NpModularityProofs.total_in_eq_total_out n A). Qed.
Print Assumptions source_modularity_totals.

Example c06_nonvacuous_source : labels_ok 3 (0 :: 2 :: 0 :: nil)%Z.
Proof. split; [reflexivity|]. intros [|[|[|i]]] Hi; try lia; cbn; lia. Qed.

(** C15 — Linear operators and conversion utilities equal their dense definitions.
    Only statements closed by [exact], their assumptions, and non-vacuity examples.
    Vocabulary (Model/Operators.v, Base/QMat.v): [dense s] is the dense matrix of a sparse matrix (stored values
    summed per coordinate); [=v] / [=m] are pointwise [Qeq] on vectors / matrices; [se_dense], [ce_dense], [pe_dense],
    [ne_dense], [le_dense] build the dense matrix an operator EXPRESSION denotes from first principles
    (madd, mat_mul, transpose_n ...), [slr_eval] etc. run the methods as coded.
    [slr_is v r c D] (resp. [cn_is]) reads: the SparseLR (CoNeighbor) value v is well formed, has shape r x c and
    its sparse part plus low-rank terms (its two factors) denote D. *)
From SKN Require Import Base.Util Base.QMat Model.Operators Proofs.OperatorsProofs.
From Coq Require Import QArith Qabs Permutation.

(* ------------------------------------------------------------------------------------------- *)
(** * All operators: operator.dot(x) and the 2-D branch of _matvec equal the dense matrix times x / X, for every
      well-formed expression — transposed or not, after any chain of the algebraic operations.  (The model follows the
      code after the fix commits 5ac8181a, 042fc436, ca03879a, 1496c670, 2a194d08; the defects they repaired are kept
      as [legacy_*_refuted] below.  Operand mutation by CoNeighbor's operations — known finding D26 — is aliasing,
      outside a pure model: each theorem speaks about the value an operation returns.) *)
Theorem operator_denotes (sqrtf : Q -> Q) (o : op_expr) (x : list Q) :
  Proper (Qeq ==> Qeq) sqrtf -> op_wf o -> length x = snd (op_shape o) ->
  exists y, op_apply sqrtf o x = Ok y /\ y =v mat_vec (op_dense sqrtf o) x.
Proof. exact (OperatorsProofs.operator_denotes sqrtf o x). Qed.
Print Assumptions operator_denotes.

Theorem operator_matmat_denotes (sqrtf : Q -> Q) (k : nat) (o : op_expr) (X : list (list Q)) :
  Proper (Qeq ==> Qeq) sqrtf -> op_wf o -> wf_mat (snd (op_shape o)) k X ->
  op_apply_mat sqrtf k o X =m mat_mul k (op_dense sqrtf o) X.
Proof. exact (OperatorsProofs.operator_matmat_denotes sqrtf k o X). Qed.
Print Assumptions operator_matmat_denotes.

(* ------------------------------------------------------------------------------------------- *)
(** * SparseLR *)
Theorem sparselr_denotes (e : slr_expr) (x : list Q) : se_wf e -> length x = snd (se_shape e) ->
  exists y, lo_dot (slr_shape (slr_eval e)) (slr_matvec (slr_eval e)) x = Ok y /\ y =v mat_vec (se_dense e) x.
Proof. exact (sparselr_dot_denotes e x). Qed.
Print Assumptions sparselr_denotes.

Theorem sparselr_matmat_denotes (k : nat) (e : slr_expr) (X : list (list Q)) :
  se_wf e -> wf_mat (snd (se_shape e)) k X -> slr_matmat k (slr_eval e) X =m mat_mul k (se_dense e) X.
Proof. exact (OperatorsProofs.sparselr_matmat_denotes k e X). Qed.
Print Assumptions sparselr_matmat_denotes.

(** every expression evaluates to a well-formed SparseLR of the expected shape denoting [se_dense e]
    (so the constructor's shape check on the low-rank tuples never fails) *)
Theorem sparselr_expr_denotes (e : slr_expr) :
  se_wf e -> slr_is (slr_eval e) (fst (se_shape e)) (snd (se_shape e)) (se_dense e).
Proof. exact (se_denotes e). Qed.
Print Assumptions sparselr_expr_denotes.

(** one theorem per algebraic operation (value level) *)
Theorem sparselr_matvec_denotes (v : slr) (x : list Q) :
  slr_wfv v -> length x = s_ncol (sl_sp v) -> slr_matvec v x =v mat_vec (slr_dense v) x.
Proof. exact (slr_matvec_denotes v x). Qed.
Print Assumptions sparselr_matvec_denotes.
Theorem sparselr_neg_denotes v r c D : slr_is v r c D -> slr_is (slr_neg v) r c (mneg D).
Proof. exact (slr_neg_is v r c D). Qed.
Print Assumptions sparselr_neg_denotes.
Theorem sparselr_add_denotes v w r c D D' : slr_is v r c D -> slr_is w r c D' -> slr_is (slr_add v w) r c (madd D D').
Proof. exact (slr_add_is v w r c D D'). Qed.
Print Assumptions sparselr_add_denotes.
Theorem sparselr_add_csr_denotes v s r c D :
  slr_is v r c D -> swf s -> s_nrow s = r -> s_ncol s = c -> slr_is (slr_add_csr v s) r c (madd D (dense s)).
Proof. exact (slr_add_csr_is v s r c D). Qed.
Print Assumptions sparselr_add_csr_denotes.
Theorem sparselr_sub_denotes v w r c D D' : slr_is v r c D -> slr_is w r c D' -> slr_is (slr_sub v w) r c (msub D D').
Proof. exact (slr_sub_is v w r c D D'). Qed.
Print Assumptions sparselr_sub_denotes.
Theorem sparselr_sub_csr_denotes v s r c D :
  slr_is v r c D -> swf s -> s_nrow s = r -> s_ncol s = c -> slr_is (slr_sub_csr v s) r c (msub D (dense s)).
Proof. exact (slr_sub_csr_is v s r c D). Qed.
Print Assumptions sparselr_sub_csr_denotes.
Theorem sparselr_mul_denotes q v r c D : slr_is v r c D -> slr_is (slr_mul q v) r c (mscale q D).
Proof. exact (slr_mul_is q v r c D). Qed.
Print Assumptions sparselr_mul_denotes.
Theorem sparselr_left_sparse_dot_denotes M v r c D :
  slr_is v r c D -> swf M -> s_ncol M = r -> slr_is (slr_left M v) (s_nrow M) c (mat_mul c (dense M) D).
Proof. exact (slr_left_is M v r c D). Qed.
Print Assumptions sparselr_left_sparse_dot_denotes.
Theorem sparselr_right_sparse_dot_denotes v M r c D :
  slr_is v r c D -> swf M -> s_nrow M = c -> slr_is (slr_right v M) r (s_ncol M) (mat_mul (s_ncol M) D (dense M)).
Proof. exact (slr_right_is v M r c D). Qed.
Print Assumptions sparselr_right_sparse_dot_denotes.
Theorem sparselr_transpose_denotes v r c D : slr_is v r c D -> slr_is (slr_transpose v) c r (transpose_n c D).
Proof. exact (slr_transpose_is v r c D). Qed.
Print Assumptions sparselr_transpose_denotes.
Theorem sparselr_astype_denotes v r c D : slr_is v r c D -> slr_is (slr_astype v) r c D.
Proof. exact (slr_astype_is v r c D). Qed.
Print Assumptions sparselr_astype_denotes.
Theorem sparselr_sum_denotes v r c D : slr_is v r c D ->
  slr_sum0 v =v col_sums c D /\ slr_sum1 v =v row_sums D /\ slr_sum v == total D.
Proof. exact (fun H => conj (slr_sum0_denotes v r c D H) (conj (slr_sum1_denotes v r c D H) (slr_sum_denotes v r c D H))). Qed.
Print Assumptions sparselr_sum_denotes.
Theorem regularizer_denotes s alpha : swf s ->
  slr_is (regularizer s alpha) (s_nrow s) (s_ncol s) (madd (dense s) (mconst (s_nrow s) (s_ncol s) (alpha / qnat (s_ncol s)))).
Proof. exact (regularizer_is s alpha). Qed.
Print Assumptions regularizer_denotes.
(** normalize(SparseLR) and directed2undirected(SparseLR) *)
Theorem sparselr_normalize_denotes v r c D :
  slr_is v r c D -> slr_is (slr_normalize v) r c (row_scale (map pinv (row_sums D)) D).
Proof. exact (slr_normalize_is v r c D). Qed.
Print Assumptions sparselr_normalize_denotes.
Theorem sparselr_directed2undirected_denotes v n D : slr_is v n n D -> slr_is (slr_d2u v) n n (madd D (transpose_n n D)).
Proof. exact (slr_d2u_is v n D). Qed.
Print Assumptions sparselr_directed2undirected_denotes.

(* ------------------------------------------------------------------------------------------- *)
(** * Normalizer: D^+ (A + reg/n 11^T), D = diag of the row sums of the regularised matrix *)
Theorem normalizer_denotes a reg x : swf a -> (0 < s_ncol a)%nat -> (0 <= reg)%Q -> length x = s_ncol a ->
  nz_matvec (mk_normalizer a reg) x =v mat_vec (normalizer_dense a reg) x.
Proof. exact (normalizer_matvec_denotes a reg x). Qed.
Print Assumptions normalizer_denotes.
Theorem normalizer_matmat_denotes k a reg X : swf a -> (0 < s_ncol a)%nat -> (0 <= reg)%Q -> wf_mat (s_ncol a) k X ->
  nz_matmat k (mk_normalizer a reg) X =m mat_mul k (normalizer_dense a reg) X.
Proof. exact (OperatorsProofs.normalizer_matmat_denotes k a reg X). Qed.
Print Assumptions normalizer_matmat_denotes.
(** operator.T (SciPy's transposed wrapper around _rmatvec) is the transposed dense matrix *)
Theorem normalizer_transpose_denotes a reg x : swf a -> (0 < s_ncol a)%nat -> (0 <= reg)%Q -> length x = s_nrow a ->
  nz_rmatvec (mk_normalizer a reg) x =v mat_vec (transpose_n (s_ncol a) (normalizer_dense a reg)) x.
Proof. exact (normalizer_rmatvec_denotes a reg x). Qed.
Print Assumptions normalizer_transpose_denotes.
Theorem normalizer_transpose_matmat_denotes k a reg X : swf a -> (0 < s_ncol a)%nat -> (0 <= reg)%Q -> wf_mat (s_nrow a) k X ->
  nz_rmatmat k (mk_normalizer a reg) X =m mat_mul k (transpose_n (s_ncol a) (normalizer_dense a reg)) X.
Proof. exact (normalizer_rmatmat_denotes k a reg X). Qed.
Print Assumptions normalizer_transpose_matmat_denotes.
(** any number of transpositions: shape checks pass, result = dense . x *)
Theorem normalizer_expr_denotes e x : ne_wf e -> length x = snd (ne_shape e) ->
  exists y, lo_dot (ne_shape e) (ne_matvec e) x = Ok y /\ y =v mat_vec (ne_dense e) x.
Proof. exact (normalizer_dot_denotes e x). Qed.
Print Assumptions normalizer_expr_denotes.
(** legacy D8 (repaired by 042fc436): _transpose returned self *)
Theorem legacy_normalizer_transpose_refuted :
  exists a x, swf a /\ (0 < s_ncol a)%nat /\ length x = s_nrow a /\
    ~ (nz_matvec (legacy_nz_transpose (mk_normalizer a 0)) x =v mat_vec (transpose_n (s_ncol a) (normalizer_dense a 0)) x).
Proof. exact OperatorsProofs.legacy_normalizer_transpose_refuted. Qed.
Print Assumptions legacy_normalizer_transpose_refuted.

(* ------------------------------------------------------------------------------------------- *)
(** * Laplacian: L = diag(R 1) - R for the regularised adjacency R = A + reg/n 11^T; normalised: N L N with
      N = diag(sqrt(R 1))^+ ; [sqrtf] is any function compatible with [Qeq] *)
Theorem laplacian_denotes sqrtf a reg norm x :
  Proper (Qeq ==> Qeq) sqrtf -> swf a -> s_nrow a = s_ncol a -> (0 < s_nrow a)%nat -> (0 <= reg)%Q -> length x = s_nrow a ->
  lp_matvec (mk_laplacian sqrtf a reg norm) x =v mat_vec (laplacian_dense sqrtf a reg norm) x.
Proof. exact (laplacian_matvec_denotes sqrtf a reg norm x). Qed.
Print Assumptions laplacian_denotes.
Theorem laplacian_matmat_denotes sqrtf k a reg norm X :
  Proper (Qeq ==> Qeq) sqrtf -> swf a -> s_nrow a = s_ncol a -> (0 < s_nrow a)%nat -> (0 <= reg)%Q -> wf_mat (s_nrow a) k X ->
  lp_matmat k (mk_laplacian sqrtf a reg norm) X =m mat_mul k (laplacian_dense sqrtf a reg norm) X.
Proof. exact (OperatorsProofs.laplacian_matmat_denotes sqrtf k a reg norm X). Qed.
Print Assumptions laplacian_matmat_denotes.
(** _transpose (a copy with the sparse part transposed) is the transposed dense matrix, for directed graphs too *)
Theorem laplacian_transpose_denotes sqrtf a reg norm x :
  Proper (Qeq ==> Qeq) sqrtf -> swf a -> s_nrow a = s_ncol a -> (0 < s_nrow a)%nat -> (0 <= reg)%Q -> length x = s_nrow a ->
  lp_matvec (lp_transpose (mk_laplacian sqrtf a reg norm)) x
  =v mat_vec (transpose_n (s_nrow a) (laplacian_dense sqrtf a reg norm)) x.
Proof. exact (laplacian_transpose_matvec_denotes sqrtf a reg norm x). Qed.
Print Assumptions laplacian_transpose_denotes.
(** any chain of transpositions / astype *)
Theorem laplacian_expr_denotes sqrtf e x : Proper (Qeq ==> Qeq) sqrtf -> le_wf e -> length x = le_n e ->
  exists y, lo_dot (lp_n (lp_eval sqrtf e), lp_n (lp_eval sqrtf e)) (lp_matvec (lp_eval sqrtf e)) x = Ok y /\
            y =v mat_vec (le_dense sqrtf e) x.
Proof. exact (laplacian_dot_denotes sqrtf e x). Qed.
Print Assumptions laplacian_expr_denotes.
(** legacy (repaired by ca03879a): _transpose returned self, wrong for a directed graph *)
Theorem legacy_laplacian_transpose_refuted :
  exists a x, swf a /\ s_nrow a = s_ncol a /\ length x = s_nrow a /\
    ~ (lp_matvec (legacy_lp_transpose (mk_laplacian (fun q => q) a 0 false)) x
       =v mat_vec (transpose_n (s_nrow a) (laplacian_dense (fun q => q) a 0 false)) x).
Proof. exact OperatorsProofs.legacy_laplacian_transpose_refuted. Qed.
Print Assumptions legacy_laplacian_transpose_refuted.

(* ------------------------------------------------------------------------------------------- *)
(** * CoNeighbor: A F^+ A^T *)
Theorem coneighbor_denotes a nrm : swf a -> snonneg a ->
  cn_is (mk_coneighbor a nrm) (s_nrow a) (s_nrow a) (coneighbor_dense a nrm).
Proof. exact (coneighbor_base_is a nrm). Qed.
Print Assumptions coneighbor_denotes.
Theorem coneighbor_matvec_denotes v x : cn_wfv v -> length x = cn_ncol v -> cn_matvec v x =v mat_vec (cn_dense v) x.
Proof. exact (OperatorsProofs.coneighbor_matvec_denotes v x). Qed.
Print Assumptions coneighbor_matvec_denotes.
Theorem coneighbor_neg_denotes v r c D : cn_is v r c D -> cn_is (cn_neg v) r c (mneg D).
Proof. exact (cn_neg_is v r c D). Qed.
Print Assumptions coneighbor_neg_denotes.
Theorem coneighbor_mul_denotes q v r c D : cn_is v r c D -> cn_is (cn_mul q v) r c (mscale q D).
Proof. exact (cn_mul_is q v r c D). Qed.
Print Assumptions coneighbor_mul_denotes.
Theorem coneighbor_left_sparse_dot_denotes M v r c D :
  cn_is v r c D -> swf M -> s_ncol M = r -> cn_is (cn_left M v) (s_nrow M) c (mat_mul c (dense M) D).
Proof. exact (cn_left_is M v r c D). Qed.
Print Assumptions coneighbor_left_sparse_dot_denotes.
Theorem coneighbor_right_sparse_dot_denotes v M r c D :
  cn_is v r c D -> swf M -> s_nrow M = c -> cn_is (cn_right v M) r (s_ncol M) (mat_mul (s_ncol M) D (dense M)).
Proof. exact (cn_right_is v M r c D). Qed.
Print Assumptions coneighbor_right_sparse_dot_denotes.
Theorem coneighbor_transpose_denotes v r c D : cn_is v r c D -> cn_is (cn_transpose v) c r (transpose_n c D).
Proof. exact (cn_transpose_is v r c D). Qed.
Print Assumptions coneighbor_transpose_denotes.
(** operator.dot(x) passes LinearOperator's shape checks (the recorded shape follows the factors) and equals dense . x,
    for square and non-square factors, normalized or not *)
Theorem coneighbor_dot_denotes e x : ce_wf e -> length x = snd (ce_shape e) ->
  exists y, cn_dot (cn_eval e) x = Ok y /\ y =v mat_vec (ce_dense e) x.
Proof. exact (OperatorsProofs.coneighbor_dot_denotes e x). Qed.
Print Assumptions coneighbor_dot_denotes.
(** legacy D26 (repaired by 2a194d08): the recorded shape was never updated: after a 2 x 3 left factor the product raised *)
Theorem legacy_coneighbor_sparse_dot_shape_refuted :
  exists M a x, swf M /\ swf a /\ snonneg a /\ s_ncol M = s_nrow a /\ length x = s_nrow a /\
    legacy_cn_dot (legacy_cn_left M (legacy_mk_coneighbor a true)) x = Err.
Proof. exact OperatorsProofs.legacy_coneighbor_sparse_dot_shape_refuted. Qed.
Print Assumptions legacy_coneighbor_sparse_dot_shape_refuted.
(** legacy (repaired by 1496c670): with normalized=False, backward *= c also scaled forward (a view on the same buffer): -op = op *)
Theorem legacy_coneighbor_shared_scaling_refuted :
  exists a x y, swf a /\ snonneg a /\ length x = s_nrow a /\
    legacy_cn_dot (legacy_cn_mul (-(1)) (legacy_mk_coneighbor a false)) x = Ok y /\
    ~ (y =v mat_vec (ce_dense (CNeg (CBase a false))) x).
Proof. exact OperatorsProofs.legacy_coneighbor_shared_scaling_refuted. Qed.
Print Assumptions legacy_coneighbor_shared_scaling_refuted.

(* ------------------------------------------------------------------------------------------- *)
(** * Polynome *)
Theorem horner_eq_power_sum n A f cs x :
  wf_mat n n A -> (forall y, length y = n -> f y =v mat_vec A y) -> cs <> [] -> length x = n ->
  horner f cs x =v vsum n (map (fun k => vscale (nthq cs k) (mat_vec (mat_pow n A k) x)) (seq 0 (length cs))).
Proof. exact (OperatorsProofs.horner_eq_power_sum n A f cs x). Qed.
Print Assumptions horner_eq_power_sum.
Theorem polynome_denotes e x : pe_wf e -> length x = pe_n e ->
  exists y, lo_dot (s_nrow (pl_mat (pl_eval e)), s_ncol (pl_mat (pl_eval e))) (pl_matvec (pl_eval e)) x = Ok y /\
            y =v mat_vec (pe_dense e) x.
Proof. exact (polynome_dot_denotes e x). Qed.
Print Assumptions polynome_denotes.
Theorem polynome_matmat_denotes k e X : pe_wf e -> wf_mat (pe_n e) k X ->
  pl_matmat k (pl_eval e) X =m mat_mul k (pe_dense e) X.
Proof. exact (polynome_expr_matmat_denotes k e X). Qed.
Print Assumptions polynome_matmat_denotes.

(* ------------------------------------------------------------------------------------------- *)
(** * Utilities *)
Theorem pseudo_inverse_keeps_zero w :
  dense (sdiag_pinv w) =m diag (map pinv w) /\
  (forall i, nthq w i == 0 -> nthq (map pinv w) i == 0)%Q /\
  (forall i, (i < length w)%nat -> ~ (nthq w i == 0)%Q -> (nthq (map pinv w) i * nthq w i == 1)%Q).
Proof. exact (OperatorsProofs.pseudo_inverse_keeps_zero w). Qed.
Print Assumptions pseudo_inverse_keeps_zero.
Theorem get_norms_def sqrtf s : Proper (Qeq ==> Qeq) sqrtf -> swf s ->
  snorms1 s =v map srow_norm1 (s_rows s) /\ snorms2 sqrtf s =v map (fun row => sqrtf (srow_norm2sq row)) (s_rows s).
Proof. exact (fun Hs W => conj (get_norms1_def s W) (get_norms2_def sqrtf s Hs W)). Qed.
Print Assumptions get_norms_def.
Theorem normalize_def s : swf s -> dense (snormalize s) =m row_scale (map pinv (map srow_norm1 (s_rows s))) (dense s).
Proof. exact (OperatorsProofs.normalize_def s). Qed.
Print Assumptions normalize_def.
Theorem normalize_rows_sum_1_or_0 s i : swf s -> (i < s_nrow s)%nat ->
  let row := nth i (s_rows s) [] in
  let row' := nth i (s_rows (snormalize s)) [] in
  ((srow_norm1 row == 0)%Q /\ row' = []) \/ (srow_norm1 row' == 1)%Q.
Proof. exact (OperatorsProofs.normalize_rows_sum_1_or_0 s i). Qed.
Print Assumptions normalize_rows_sum_1_or_0.
Theorem normalize2_rows_sum_1_or_0 sqrtf s i : Proper (Qeq ==> Qeq) sqrtf -> swf s -> (i < s_nrow s)%nat ->
  let row := nth i (s_rows s) [] in
  let row' := nth i (s_rows (snormalize2 sqrtf s)) [] in
  (sqrtf (srow_norm2sq row) * sqrtf (srow_norm2sq row) == srow_norm2sq row)%Q ->
  ((sqrtf (srow_norm2sq row) == 0)%Q /\ row' = []) \/ (srow_norm2sq row' == 1)%Q.
Proof. exact (OperatorsProofs.normalize2_rows_sum_1_or_0 sqrtf s i). Qed.
Print Assumptions normalize2_rows_sum_1_or_0.
Theorem laplacian_def a : swf a -> s_nrow a = s_ncol a ->
  dense (get_laplacian a) =m msub (diag (row_sums (dense a))) (dense a).
Proof. exact (OperatorsProofs.laplacian_def a). Qed.
Print Assumptions laplacian_def.
Theorem membership_def labels n_labels m : get_membership labels n_labels = Ok m ->
  s_nrow m = length labels /\ swf m /\
  (forall i j, (i < length labels)%nat -> (j < s_ncol m)%nat ->
     (mget (dense m) i j == if Z.eqb (nth i labels 0%Z) (Z.of_nat j) then 1 else 0)%Q) /\
  from_membership m = Ok (map (fun l => if Z.ltb l 0 then (-1)%Z else l) labels).
Proof. exact (OperatorsProofs.membership_def labels n_labels m). Qed.
Print Assumptions membership_def.
Theorem membership_total labels : labels <> [] -> exists m, get_membership labels None = Ok m.
Proof. exact (OperatorsProofs.membership_total labels). Qed.
Print Assumptions membership_total.
Theorem neighbors_def s i j : (j < s_ncol s)%nat ->
  get_neighbors s i false = map fst (nth i (s_rows s) []) /\
  (In i (get_neighbors s j true) <-> (i < s_nrow s)%nat /\ In j (get_neighbors s i false)) /\
  get_degrees s false = map (@length (nat * Q)) (s_rows s) /\
  nth j (get_degrees s true) 0%nat = sumn (map (fun r => length (filter (fun e => Nat.eqb (fst e) j) r)) (s_rows s)).
Proof.
  exact (fun Hj => conj (OperatorsProofs.neighbors_def s i) (conj (neighbors_transpose_def s i j Hj)
                   (conj (degrees_def s) (degrees_transpose_def s j Hj)))).
Qed.
Print Assumptions neighbors_def.
Theorem weights_def s : swf s ->
  get_weights s false =v row_sums (dense s) /\ get_weights s true =v col_sums (s_ncol s) (dense s).
Proof. exact (OperatorsProofs.weights_def s). Qed.
Print Assumptions weights_def.
Theorem directed2undirected_def a : swf a -> s_nrow a = s_ncol a ->
  dense (directed2undirected a true) =m madd (dense a) (transpose_n (s_ncol a) (dense a)) /\
  (forall i j, (i < s_nrow a)%nat -> (j < s_nrow a)%nat ->
     (mget (dense (directed2undirected a false)) i j
      == if Qeq_bool (mget (dense a) i j + mget (dense a) j i) 0 then 0 else 1)%Q).
Proof. exact (OperatorsProofs.directed2undirected_def a). Qed.
Print Assumptions directed2undirected_def.
Theorem bipartite_block_def b : swf b ->
  dense (bipartite2undirected b)
  =m block (mzero (s_nrow b) (s_nrow b)) (dense b) (transpose_n (s_ncol b) (dense b)) (mzero (s_ncol b) (s_ncol b)) /\
  dense (bipartite2directed b)
  =m block (mzero (s_nrow b) (s_nrow b)) (dense b) (mzero (s_ncol b) (s_nrow b)) (mzero (s_ncol b) (s_ncol b)).
Proof. exact (OperatorsProofs.bipartite_block_def b). Qed.
Print Assumptions bipartite_block_def.
Theorem tfidf_def lnf c : swf c ->
  dense (get_tfidf lnf c) =m col_scale (dense (snormalize c)) (tfidf_idf lnf c) /\
  (forall j, (j < s_ncol c)%nat ->
     nthq (tfidf_idf lnf c) j =
     let f := nth j (get_degrees (spos c) true) 0%nat in if Nat.ltb 0 f then lnf (qnat (s_nrow c) / qnat f)%Q else 0%Q).
Proof. exact (OperatorsProofs.tfidf_def lnf c). Qed.
Print Assumptions tfidf_def.
(** top_k returns min(k, n) distinct indices whose scores are >= every non-returned score (sorted decreasingly if
    asked), for every answer of argsort / argpartition meeting their contracts *)
Theorem top_k_def (argsort : list Q -> list nat) (argpartition : list Q -> nat -> list nat) scores k sort idx :
  (forall l, Permutation (argsort l) (seq 0 (length l))) ->
  (forall l a b, (a <= b)%nat -> (b < length l)%nat ->
     (nthq l (nth a (argsort l) 0%nat) <= nthq l (nth b (argsort l) 0%nat))%Q) ->
  (forall l k, (k < length l)%nat -> Permutation (argpartition l k) (seq 0 (length l))) ->
  (forall l k a b, (k < length l)%nat -> (a < k)%nat -> (k <= b)%nat -> (b < length l)%nat ->
     (nthq l (nth a (argpartition l k) 0%nat) <= nthq l (nth b (argpartition l k) 0%nat))%Q) ->
  top_k argsort argpartition scores k sort = Ok idx ->
  length idx = Nat.min k (length scores) /\ NoDup idx /\ (forall i, In i idx -> (i < length scores)%nat) /\
  (forall i j, In i idx -> (j < length scores)%nat -> ~ In j idx -> (nthq scores j <= nthq scores i)%Q) /\
  (sort = true -> forall a b, (a <= b)%nat -> (b < length idx)%nat ->
                  (nthq scores (nth b idx 0%nat) <= nthq scores (nth a idx 0%nat))%Q).
Proof. exact (OperatorsProofs.top_k_def argsort argpartition scores k sort idx). Qed.
Print Assumptions top_k_def.
(** it always returns *)
Theorem top_k_returns argsort argpartition scores k sort : exists idx, top_k argsort argpartition scores k sort = Ok idx.
Proof. exact (OperatorsProofs.top_k_returns argsort argpartition scores k sort). Qed.
Print Assumptions top_k_returns.
(** legacy D11 (repaired by 5ac8181a): it raised for sort = False, k >= len(scores) *)
Theorem legacy_top_k_unsorted_refuted :
  exists scores k, (length scores <= k)%nat /\ forall argsort argpartition, legacy_top_k argsort argpartition scores k false = Err.
Proof. exact OperatorsProofs.legacy_top_k_unsorted_refuted. Qed.
Print Assumptions legacy_top_k_unsorted_refuted.

(* ------------------------------------------------------------------------------------------- *)
(** * Non-vacuity: a concrete expression meets the hypotheses and the model computes on it *)
Example c15_nonvacuous :
  let a := {| s_ncol := 3; s_rows := [[(1%nat, 1%Q); (2%nat, 2%Q)]; []; [(0%nat, 1 # 2)]] |} in
  let o := OSlr (ST (SAdd (SReg a 1) (SMul 2 (SBase a [([1; 0; 1], [0; 1; 1])%Q])))) in
  op_wf o /\
  exists y, op_apply (fun q => q) o [1; 2; 3]%Q = Ok y /\ y =v [13 # 2; 13; 16]%Q.
Proof.
  split; [|eexists; split; [vm_compute; reflexivity | repeat constructor]].
  simpl. repeat split; repeat constructor.
Qed.
(** a non-square left factor, a scaling of CoNeighbor(normalized=False), transpositions of Normalizer and of a
    directed Laplacian: the sites the legacy code got wrong *)
Example c15_nonvacuous_repaired_sites :
  let a := {| s_ncol := 2; s_rows := [[(0%nat, 1%Q)]; [(0%nat, 1%Q); (1%nat, 1%Q)]] |} in
  let M := {| s_ncol := 2; s_rows := [[(0%nat, 1%Q)]; [(1%nat, 2%Q)]; [(0%nat, 1%Q); (1%nat, 1%Q)]] |} in
  let d := {| s_ncol := 2; s_rows := [[(1%nat, 1%Q)]; []] |} in
  op_wf (OCn (CT (CLeft M (CNeg (CBase a false))))) /\ op_wf (ONorm (NT (NBase M 1))) /\ op_wf (OLap (LT (LBase d 0 false))) /\
  (exists y, op_apply (fun q => q) (OCn (CT (CLeft M (CNeg (CBase a false))))) [1; 2; 3]%Q = Ok y) /\
  (exists y, op_apply (fun q => q) (ONorm (NT (NBase M 1))) [1; 2; 3]%Q = Ok y) /\
  (exists y, op_apply (fun q => q) (OLap (LT (LBase d 0 false))) [1; 2]%Q = Ok y /\ y =v [1; -(1)]%Q).
Proof.
  repeat split; try (simpl; repeat split; repeat constructor; unfold Qle; simpl; lia);
    try (eexists; vm_compute; reflexivity).
  eexists; split; [vm_compute; reflexivity | repeat constructor].
Qed.

(* =========================================================================================== *)
(** * Normalizer as REGENERATED FROM sknetwork/linalg/operators.py

    [src_normalizer_*] (Gen/NpNormalizer.v) are Normalizer(adjacency, regularization)._matvec / _rmatvec (constructor and
    method composed) for a 1-D and for a 2-D operand, translated on every run by harness/translators/npvec.py into the
    array language of Model/NpVec.v.  Over R, for EVERY matrix (index function), every regularization >= 0 and every
    operand, each of the four terms denotes the product with the dense matrix
    N_ij = pinv(sum_j' A_ij' + reg) * (A_ij + reg / n_col), resp. with its transpose. *)
From SKN Require Import Model.NpExpr Model.NpVec Gen.NpNormalizer Proofs.NpVecProofs Proofs.NpNormalizerProofs.
From Coq Require Import Reals Lra.
Local Open Scope R_scope.

Theorem source_normalizer_matvec_1d (n k : nat) (A : nat -> nat -> R) (reg : R) (x : nat -> R) :
  0 <= reg ->
  exists f, rvdenote (env_nv n k A reg k x) src_normalizer_matvec_1d = Some (WV n f) /\
            forall i, (i < n)%nat -> f i = lsum (seq 0 k) (fun j => ndense k A reg i j * x j).
Proof. exact (NpNormalizerProofs.source_normalizer_matvec_1d n k A reg x). Qed.
Print Assumptions source_normalizer_matvec_1d.

Theorem source_normalizer_rmatvec_1d (n k : nat) (A : nat -> nat -> R) (reg : R) (y : nat -> R) :
  0 <= reg ->
  exists f, rvdenote (env_nv n k A reg n y) src_normalizer_rmatvec_1d = Some (WV k f) /\
            forall j, (j < k)%nat -> f j = lsum (seq 0 n) (fun i => ndense k A reg i j * y i).
Proof. exact (NpNormalizerProofs.source_normalizer_rmatvec_1d n k A reg y). Qed.
Print Assumptions source_normalizer_rmatvec_1d.

Theorem source_normalizer_matvec_2d (n k m : nat) (A : nat -> nat -> R) (reg : R) (X : nat -> nat -> R) :
  0 <= reg ->
  exists f, rvdenote (env_nm n k A reg k m X) src_normalizer_matvec_2d = Some (WM n m f) /\
            forall i c, (i < n)%nat -> f i c = lsum (seq 0 k) (fun j => ndense k A reg i j * X j c).
Proof. exact (NpNormalizerProofs.source_normalizer_matvec_2d n k m A reg X). Qed.
Print Assumptions source_normalizer_matvec_2d.

Theorem source_normalizer_rmatvec_2d (n k m : nat) (A : nat -> nat -> R) (reg : R) (Y : nat -> nat -> R) :
  0 <= reg ->
  exists f, rvdenote (env_nm n k A reg n m Y) src_normalizer_rmatvec_2d = Some (WM k m f) /\
            forall j c, (j < k)%nat -> f j c = lsum (seq 0 n) (fun i => ndense k A reg i j * Y i c).
Proof. exact (NpNormalizerProofs.source_normalizer_rmatvec_2d n k m A reg Y). Qed.
Print Assumptions source_normalizer_rmatvec_2d.

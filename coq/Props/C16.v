(** C16 — same input and seed give the same output on any thread count and fit history.
    Only statements closed by [exact], their assumptions, and obligations over terms regenerated from the source. *)
From SKN Require Import Base.Util Model.Prange Proofs.PrangeProofs Proofs.PrangeExtra Gen.Prange.
From Coq Require Import Permutation.
From Coq Require String.
Import Coq.Strings.String.StringSyntax.
Open Scope string_scope.

(** If no iteration of a prange loop writes a cell that another iteration reads or writes, EVERY complete interleaving
    of the iterations' micro-operations (x[c] += e is a read followed by a write) ends in the memory of the sequential loop. *)
Theorem independent_iterations_commute (ps : list prog) (m0 : mem) (sched : list nat) :
  independent ps -> in_range ps (length m0) -> complete ps sched ->
  fst (run sched m0 (init_threads ps)) = fst (run (seq_sched ps) m0 (init_threads ps)).
Proof. exact (PrangeProofs.independent_iterations_commute ps m0 sched). Qed.
Print Assumptions independent_iterations_commute.

(** Loop shape of push.pyx's initialisation: iteration i writes only a[i], reads a[i] and read-only data. *)
Theorem own_cell_loop_schedule_independent (ps : list prog) (m0 : mem) (sched : list nat) :
  (forall a c, a < length ps -> In c (writes (nth a ps [])) -> c = a) ->
  (forall a c, a < length ps -> In c (reads (nth a ps [])) -> c = a \/ length ps <= c) ->
  in_range ps (length m0) -> complete ps sched ->
  fst (run sched m0 (init_threads ps)) = fst (run (seq_sched ps) m0 (init_threads ps)).
Proof. exact (PrangeExtra.own_cell_loop_schedule_independent ps m0 sched). Qed.
Print Assumptions own_cell_loop_schedule_independent.

(** Loop shape of triangles.pyx: the body writes no shared cell; its result is a reduction, which does not depend on
    the order in which the iterations contribute. *)
Theorem write_free_loop_schedule_independent (ps : list prog) (m0 : mem) (sched : list nat) :
  (forall a, a < length ps -> writes (nth a ps []) = []) ->
  in_range ps (length m0) -> complete ps sched ->
  fst (run sched m0 (init_threads ps)) = fst (run (seq_sched ps) m0 (init_threads ps)).
Proof. exact (PrangeExtra.write_free_loop_schedule_independent ps m0 sched). Qed.
Print Assumptions write_free_loop_schedule_independent.

Theorem reduction_order_independent (contrib : nat -> Z) (order1 order2 : list nat) :
  Permutation order1 order2 -> sumz (map contrib order1) = sumz (map contrib order2).
Proof. exact (PrangeProofs.reduction_order_independent contrib order1 order2). Qed.
Print Assumptions reduction_order_independent.

(** The sweep that diteration.pyx ran under prange before its repair (fix 41979071) is NOT a function of its input:
    two complete schedules, two memories. Kept so that the defect's return is recognised by name. *)
Theorem legacy_diteration_prange_refuted :
  exists s1 s2 m0,
    complete legacy_diteration_two_nodes s1 /\ complete legacy_diteration_two_nodes s2 /\
    fst (run s1 m0 (init_threads legacy_diteration_two_nodes)) <>
    fst (run s2 m0 (init_threads legacy_diteration_two_nodes)).
Proof. exact PrangeProofs.legacy_diteration_prange_refuted. Qed.
Print Assumptions legacy_diteration_prange_refuted.

(** Obligation over the prange loops re-extracted from every .pyx on this run: outside push.pyx every prange body is
    write-free (reduction only) or writes only the cell of its own loop variable, and calls no container method;
    push.pyx has exactly its two reviewed loops (initialisation: own-cell writes; inner loop: a write through
    indices[...] and worklist.push, flagged and exercised at run time under several thread counts). *)
Definition loop_safe (l : prange_loop) : bool :=
  forallb (fun w => match w with (_, Own, _) => true | (_, Other, _) => false end) (pl_writes l) &&
  match pl_calls l with [] => true | _ => false end.
Theorem prange_loops_reviewed :
  forallb (fun l => loop_safe l || String.eqb (pl_file l) "sknetwork/linalg/push.pyx") prange_loops = true /\
  filter (fun l => String.eqb (pl_file l) "sknetwork/linalg/push.pyx") prange_loops =
    [ {| pl_file := "sknetwork/linalg/push.pyx"; pl_var := "vertex";
         pl_writes := [("residuals", Own, "+="); ("residuals", Own, "*=")]; pl_reductions := []; pl_calls := [] |};
      {| pl_file := "sknetwork/linalg/push.pyx"; pl_var := "j";
         pl_writes := [("residuals", Other, "+=")]; pl_reductions := []; pl_calls := ["worklist.push"] |} ] /\
  existsb (fun l => String.eqb (pl_file l) "sknetwork/linalg/diteration.pyx") prange_loops = false.
Proof. repeat split; reflexivity. Qed.
Print Assumptions prange_loops_reviewed.

(** Obligation over the randomness call sites re-extracted on this run: no estimator builds its generator in
    __init__ (fix f557bdfd), the ARPACK wrappers pass a start vector (fix 66b80972), libc rand() occurs only in
    leiden_core.pyx (recorded finding D13), and the global NumPy generator is used exactly at the reviewed sites
    (none of which belongs to an estimator with a random_state parameter, except GNNClassifier which seeds it). *)
Theorem randomness_sites_reviewed :
  rng_built_in_init = [] /\ eigsh_has_v0 = true /\ svds_has_v0 = true /\
  libc_rand_files = ["sknetwork/clustering/leiden_core.pyx"] /\
  global_rng_sites =
    ["sknetwork/classification/propagation.py:Propagation.fit:np.random.shuffle";
     "sknetwork/clustering/kcenters.py:KCenters._init_centers:np.random.choice";
     "sknetwork/embedding/force_atlas.py:ForceAtlas.fit:np.random.randn";
     "sknetwork/embedding/spring.py:Spring.fit:np.random.randn";
     "sknetwork/gnn/base_layer.py:BaseLayer._initialize_weights:np.random.randn";
     "sknetwork/gnn/gnn_classifier.py:GNNClassifier.fit:np.random.random";
     "sknetwork/gnn/neighbor_sampler.py:UniformNeighborSampler._sample_indexes:np.random.choice";
     "sknetwork/ranking/closeness.py:Closeness.fit:np.random.choice"].
Proof. repeat split; reflexivity. Qed.
Print Assumptions randomness_sites_reviewed.

(** Non-vacuity: a concrete 3-iteration own-cell loop (cells 0..2 written, cell 3 read-only) is independent and one of
    its non-sequential complete schedules reaches the sequential memory. *)
Example c16_nonvacuous :
  let ps := [[Rd 3; Rd 0; Wr 0 (fun r => (nthz r 0 + nthz r 1)%Z)];
             [Rd 3; Rd 1; Wr 1 (fun r => (nthz r 0 * nthz r 1)%Z)];
             [Rd 2; Wr 2 (fun r => (nthz r 0 + 1)%Z)]] in
  independent_b ps = true /\
  fst (run [2;1;0;1;0;2;0;1] [1;2;3;10]%Z (init_threads ps)) = fst (run (seq_sched ps) [1;2;3;10]%Z (init_threads ps)).
Proof. split; reflexivity. Qed.

(** C16 — same input and seed give the same output on any thread count and fit history.
    Only statements closed by [exact], their assumptions, and obligations over terms regenerated from the source. *)
From SKN Require Import Base.Util Model.Prange Proofs.PrangeProofs Proofs.PrangeExtra Gen.Prange.
From Coq Require Import Permutation.
From Coq Require String.
Import Coq.Strings.String.StringSyntax.
Open Scope string_scope.

(** If no iteration of a prange loop writes a cell that another iteration reads or writes, EVERY complete interleaving
    of the iterations' micro-operations (x[c] += e is a read followed by a write) ends in the memory of the sequential loop. *)
Theorem independent_iterations_commute (ps : list prog) (m0 : mem) (sched : list nat) :
  independent ps -> in_range ps (length m0) -> complete ps sched ->
  fst (run sched m0 (init_threads ps)) = fst (run (seq_sched ps) m0 (init_threads ps)).
Proof. exact (PrangeProofs.independent_iterations_commute ps m0 sched). Qed.
Print Assumptions independent_iterations_commute.

(** Loop shape of push.pyx's initialisation: iteration i writes only a[i], reads a[i] and read-only data. *)
Theorem own_cell_loop_schedule_independent (ps : list prog) (m0 : mem) (sched : list nat) :
  (forall a c, a < length ps -> In c (writes (nth a ps [])) -> c = a) ->
  (forall a c, a < length ps -> In c (reads (nth a ps [])) -> c = a \/ length ps <= c) ->
  in_range ps (length m0) -> complete ps sched ->
  fst (run sched m0 (init_threads ps)) = fst (run (seq_sched ps) m0 (init_threads ps)).
Proof. exact (PrangeExtra.own_cell_loop_schedule_independent ps m0 sched). Qed.
Print Assumptions own_cell_loop_schedule_independent.

(** Loop shape of triangles.pyx: the body writes no shared cell; its result is a reduction, which does not depend on
    the order in which the iterations contribute. *)
Theorem write_free_loop_schedule_independent (ps : list prog) (m0 : mem) (sched : list nat) :
  (forall a, a < length ps -> writes (nth a ps []) = []) ->
  in_range ps (length m0) -> complete ps sched ->
  fst (run sched m0 (init_threads ps)) = fst (run (seq_sched ps) m0 (init_threads ps)).
Proof. exact (PrangeExtra.write_free_loop_schedule_independent ps m0 sched). Qed.
Print Assumptions write_free_loop_schedule_independent.

Theorem reduction_order_independent (contrib : nat -> Z) (order1 order2 : list nat) :
  Permutation order1 order2 -> sumz (map contrib order1) = sumz (map contrib order2).
Proof. exact (PrangeProofs.reduction_order_independent contrib order1 order2). Qed.
Print Assumptions reduction_order_independent.

(** The sweep that diteration.pyx ran under prange before its repair (fix 41979071) is NOT a function of its input:
    two complete schedules, two memories. Kept so that the defect's return is recognised by name. *)
Theorem legacy_diteration_prange_refuted :
  exists s1 s2 m0,
    complete legacy_diteration_two_nodes s1 /\ complete legacy_diteration_two_nodes s2 /\
    fst (run s1 m0 (init_threads legacy_diteration_two_nodes)) <>
    fst (run s2 m0 (init_threads legacy_diteration_two_nodes)).
Proof. exact PrangeProofs.legacy_diteration_prange_refuted. Qed.
Print Assumptions legacy_diteration_prange_refuted.

(** The inner neighbour loop of push.pyx ran under prange before its repair (fix 16742c7c) while every iteration pushed
    into the one work-list: NOT a function of its input (two complete schedules, two work-lists), and rejected by the
    independence checker. *)
Theorem legacy_push_worklist_refuted :
  exists s1 s2 m0,
    complete legacy_push_two_neighbours s1 /\ complete legacy_push_two_neighbours s2 /\
    fst (run s1 m0 (init_threads legacy_push_two_neighbours)) <>
    fst (run s2 m0 (init_threads legacy_push_two_neighbours)) /\
    independent_b legacy_push_two_neighbours = false.
Proof. exact PrangeExtra.legacy_push_worklist_refuted_pf. Qed.
Print Assumptions legacy_push_worklist_refuted.

(** Obligation over the prange loops re-extracted from every .pyx on this run: EVERY prange body is write-free
    (reduction only) or writes only the cell of its own loop variable, and calls no container method - the two loop
    shapes covered by the theorems above; push.pyx keeps exactly one such loop (its initialisation: own-cell writes; the
    inner neighbour loop is sequential since fix 16742c7c) and diteration.pyx none (fix 41979071). *)
Definition loop_safe (l : prange_loop) : bool :=
  forallb (fun w => match w with (_, Own, _) => true | (_, Other, _) => false end) (pl_writes l) &&
  match pl_calls l with [] => true | _ => false end.
Theorem prange_loops_reviewed :
  forallb loop_safe prange_loops = true /\
  filter (fun l => String.eqb (pl_file l) "sknetwork/linalg/push.pyx") prange_loops =
    [ {| pl_file := "sknetwork/linalg/push.pyx"; pl_var := "vertex";
         pl_writes := [("residuals", Own, "+="); ("residuals", Own, "*=")]; pl_reductions := []; pl_calls := [] |} ] /\
  existsb (fun l => String.eqb (pl_file l) "sknetwork/linalg/diteration.pyx") prange_loops = false.
Proof. repeat split; reflexivity. Qed.
Print Assumptions prange_loops_reviewed.

(** Obligation over the randomness call sites re-extracted on this run: no estimator builds its generator in
    __init__ (fix f557bdfd), the ARPACK wrappers pass a start vector (fix 66b80972), libc rand() occurs nowhere
    (fix 0f5490bf: Leiden's refinement kernel draws from a local generator), no function declares a `global` and no kernel module
    keeps an initialised module-level C variable (state that would survive a call: seed C16_9), and the global NumPy generator is used exactly
    at the reviewed sites (none of which belongs to an estimator with a random_state parameter, except GNNClassifier which
    seeds it). *)
Theorem randomness_sites_reviewed :
  rng_built_in_init = [] /\ eigsh_has_v0 = true /\ svds_has_v0 = true /\
  libc_rand_files = [] /\ module_state_sites = [] /\
  global_rng_sites =
    ["sknetwork/classification/propagation.py:Propagation.fit:np.random.shuffle";
     "sknetwork/clustering/kcenters.py:KCenters._init_centers:np.random.choice";
     "sknetwork/embedding/force_atlas.py:ForceAtlas.fit:np.random.randn";
     "sknetwork/embedding/spring.py:Spring.fit:np.random.randn";
     "sknetwork/gnn/base_layer.py:BaseLayer._initialize_weights:np.random.randn";
     "sknetwork/gnn/gnn_classifier.py:GNNClassifier.fit:np.random.random";
     "sknetwork/gnn/neighbor_sampler.py:UniformNeighborSampler._sample_indexes:np.random.choice";
     "sknetwork/ranking/closeness.py:Closeness.fit:np.random.choice"].
Proof. repeat split; reflexivity. Qed.
Print Assumptions randomness_sites_reviewed.

(** Non-vacuity: a concrete 3-iteration own-cell loop (cells 0..2 written, cell 3 read-only) is independent and one of
    its non-sequential complete schedules reaches the sequential memory. *)
Example c16_nonvacuous :
  let ps := [[Rd 3; Rd 0; Wr 0 (fun r => (nthz r 0 + nthz r 1)%Z)];
             [Rd 3; Rd 1; Wr 1 (fun r => (nthz r 0 * nthz r 1)%Z)];
             [Rd 2; Wr 2 (fun r => (nthz r 0 + 1)%Z)]] in
  independent_b ps = true /\
  fst (run [2;1;0;1;0;2;0;1] [1;2;3;10]%Z (init_threads ps)) = fst (run (seq_sched ps) [1;2;3;10]%Z (init_threads ps)).
Proof. split; reflexivity. Qed.

From SKN Require Import Model.FitState Proofs.FitStateProofs Gen.FitState.
Set Warnings "-notation-overridden".
Open Scope list_scope.

(** * Fit history (static tie): what can flow from an earlier [fit] into the next one.
    Model/FitState.v: an estimator is a store of attributes, [fit] a program of reads, writes, conditionals and loops;
    [stale_reads_of] / [unwritten_of] / [writes_of] are the analysis that harness/translators/fitstate.py runs on the
    Python classes (Gen/FitState.v). *)

(** Any two estimators with the same constructor parameters — whatever fits / set_params came before — agree after
    [fit x] on the parameters and on everything [fit] definitely writes, provided every stale read is a parameter. *)
Theorem fit_noninterference (config : list attr) (p : prog) :
  (forall a, In a (stale_reads_of p) -> In a config) ->
  forall (s1 s2 : store) (x : input),
    agree config s1 s2 ->
    agree (config ++ definite_of p) (fit p s1 x) (fit p s2 x).
Proof. exact (FitStateProofs.fit_noninterference config p). Qed.
Print Assumptions fit_noninterference.

(** Refit = fresh fit, for ALL histories of earlier fits: no stale read outside the parameters and no parameter written. *)
Theorem refit_equals_fresh_fit (config : list attr) (p : prog) :
  (forall a, In a (stale_reads_of p) -> In a config) ->
  (forall a, In a (writes_of p) -> ~ In a config) ->
  forall (s0 : store) (history : list input) (x : input),
    agree (config ++ definite_of p) (fit p (after_history p s0 history) x) (fit p s0 x).
Proof. exact (FitStateProofs.refit_equals_fresh_fit config p). Qed.
Print Assumptions refit_equals_fresh_fit.

(** ... and with no stale output, on every attribute that any run of [fit] can write (all others are never touched). *)
Theorem refit_equals_fresh_fit_all_outputs (config : list attr) (p : prog) :
  (forall a, In a (stale_reads_of p) -> In a config) ->
  (forall a, In a (writes_of p) -> ~ In a config) ->
  unwritten_of p = [] ->
  forall (s0 : store) (history : list input) (x : input),
    agree (config ++ writes_of p) (fit p (after_history p s0 history) x) (fit p s0 x).
Proof. exact (FitStateProofs.refit_equals_fresh_fit_all_outputs config p). Qed.
Print Assumptions refit_equals_fresh_fit_all_outputs.

Theorem fit_leaves_the_rest (p : prog) (s : store) (x : input) (a : attr) :
  ~ In a (writes_of p) -> fit p s x a = s a.
Proof. exact (FitStateProofs.fit_leaves_the_rest p s x a). Qed.
Print Assumptions fit_leaves_the_rest.

(** The converse — each hypothesis is needed; these are the three historical defect shapes
    (35c5c5eb scores_/embedding_ of an earlier fit reused; self.bipartite left over; labels_row_ only set when bipartite). *)
Theorem stale_read_refuted :
  stale_reads_of warm_start = ["scores_"] /\ writes_of warm_start = ["scores_"] /\ unwritten_of warm_start = [] /\
  exists (s0 : store) (history : list input) (x : input),
    fit warm_start (after_history warm_start s0 history) x "scores_" <> fit warm_start s0 x "scores_".
Proof. exact FitStateProofs.stale_read_refuted. Qed.
Print Assumptions stale_read_refuted.

Theorem config_overwrite_refuted :
  (forall a, In a (stale_reads_of leftover_flag) -> In a ["bipartite"]) /\
  history_safe ["bipartite"] leftover_flag = false /\
  In "labels_" (definite_of leftover_flag) /\ unwritten_of leftover_flag = [] /\
  exists (s0 : store) (history : list input) (x : input),
    fit leftover_flag (after_history leftover_flag s0 history) x "labels_" <> fit leftover_flag s0 x "labels_".
Proof. exact FitStateProofs.config_overwrite_refuted. Qed.
Print Assumptions config_overwrite_refuted.

Theorem stale_output_refuted :
  history_safe [] row_output = true /\ unwritten_of row_output = ["labels_row_"] /\
  exists (s0 : store) (history : list input) (x : input),
    fit row_output (after_history row_output s0 history) x "labels_" = fit row_output s0 x "labels_" /\
    fit row_output (after_history row_output s0 history) x "labels_row_" <> fit row_output s0 x "labels_row_".
Proof. exact FitStateProofs.stale_output_refuted. Qed.
Print Assumptions stale_output_refuted.

(** Non-vacuity: the repaired programs (reset first / flag recomputed from the input) and a program with a loop meet the
    hypotheses of the theorems above. *)
Theorem repaired_programs_pass :
  history_safe [] warm_start_repaired = true /\ unwritten_of warm_start_repaired = [] /\
  history_safe [] leftover_flag_repaired = true /\ unwritten_of leftover_flag_repaired = [] /\
  history_safe [] row_output_repaired = true /\ unwritten_of row_output_repaired = [] /\
  history_safe ["damping"] loop_prog = true /\ stale_reads_of loop_prog = ["damping"] /\ unwritten_of loop_prog = ["last_"].
Proof. exact FitStateProofs.repaired_programs_pass. Qed.
Print Assumptions repaired_programs_pass.

(** Obligation over the fit-state facts re-extracted from every estimator class on this run (Gen/FitState.v).
    For every class that defines or inherits [fit], every attribute that the analysis cannot clear is listed here with
    the reason it was accepted after reading the code; any other class has NO stale read, reads no constructor-assigned
    attribute that fit overwrites before fit's own definite write, and leaves no output of an earlier fit in place.
    A change of any list breaks this proof: the entry must then be reviewed (and, if it is a real history dependence,
    the fit-history sweep of the check exhibits it). *)
Theorem fit_state_reviewed :
  (* GNNClassifier.fit continues training by design; its documented refit-from-scratch mode is analysed (and run) *)
  fit_state_entry_assumptions = [("GNNClassifier", "reinit", true)] /\
  all_stale_reads =
    [ (* GD.step / ADAM.step(gnn) read gnn.layers and gnn.derivative_weight/_bias, which backward() assigned earlier in
         the same epoch, and assign layer.weight / layer.bias; they touch nothing else of the classifier *)
      ("GNNClassifier", "<self escapes to self.optimizer.step>") ] /\
  all_config_overwritten_read_first =
    [ (* layer objects given to the constructor: under reinit every layer gets weights_initialized = False, so forward()
         draws new weights (NumPy generator seeded by random_state) and overwrites embedding/output before backward() *)
      ("GNNClassifier", "layers");
      (* transcript appended to by print_log, read by nothing (not certified as an accumulator only because self is
         handed to optimizer.step, which does not touch it) *)
      ("GNNClassifier", "log");
      (* under reinit optimizer.t = 0, and ADAM.step re-zeroes its moment buffers when t = 0 (fix dc1b8de1); GD is stateless *)
      ("GNNClassifier", "optimizer");
      (* `if isinstance(self.solver, str): self.solver = LanczosSVD()`: idempotent normalisation of the parameter
         'lanczos' to the solver it denotes; the solver is refitted as a whole before any of its attributes is read *)
      ("GSVD", "solver");
      (* the same idiom in HITS.fit and PCA.fit since the repair c379c7c0 (finding D35: after set_params(solver='lanczos') the
         attribute was a string and fit raised) *)
      ("HITS", "solver");
      ("PCA", "solver");
      ("SVD", "solver") ] /\
  all_stale_outputs =
    [ (* scratch gradients of the training loop: assigned by backward() in every epoch before optimizer.step reads them;
         only n_epochs = 0 leaves the earlier ones in place, and then nothing reads them *)
      ("GNNClassifier", "derivative_bias");
      ("GNNClassifier", "derivative_weight");
      ("GNNClassifier", "log");            (* see above *)
      ("GSVD", "solver");                  (* see above: assigned only while it still is the string *)
      ("HITS", "solver");
      ("PCA", "solver");
      ("SVD", "solver") ] /\
  (* self.log += text in Log.print_log is the only access to log in the whole class: a diagnostic transcript *)
  fit_state_accumulators = [("Leiden", "log"); ("Louvain", "log")] /\
  (* sub-estimators refitted as a whole by self.x.fit*(...) before their results are read; each of them is itself an
     estimator class of this list: LanczosSVD (clean), Louvain built in __init__ (clean up to its log), and the
     embedding method handed to the constructor (Spectral, GSVD, ... : this very obligation) *)
  fit_state_delegations =
    [ ("GSVD", "solver", "fit"); ("HITS", "solver", "fit");
      ("LouvainHierarchy", "_clustering_method", "fit_predict"); ("LouvainIteration", "_clustering_method", "fit_predict");
      ("NNClassifier", "embedding_method", "fit_transform"); ("NNLinker", "embedding_method", "fit_transform");
      ("PCA", "solver", "fit"); ("SVD", "solver", "fit") ] /\
  (* non-vacuity: the estimator classes of the property's anchors are among the analysed classes *)
  forallb (fun c => existsb (String.eqb c) fit_state_classes)
    ["Louvain"; "Leiden"; "KCenters"; "RandomProjection"; "GSVD"; "GNNClassifier"; "PageRank"; "LouvainHierarchy"] = true.
Proof. repeat split; reflexivity. Qed.
Print Assumptions fit_state_reviewed.

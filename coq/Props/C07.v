(** C07 — Hierarchical algorithms always return a valid dendrogram.
    This file contains only statements closed by [exact], their assumptions, and non-vacuity examples.

    Vocabulary (Model/Dendrogram.v, shared with C08): [valid n D] replays the n - 1 rows (left, right, height, size)
    over the dict of live clusters: row t merges two DISTINCT ids that are live at step t (a leaf < n or the result
    n + t' of an earlier row, not merged before), its size is the sum of the two sizes, the last size is n.
    [hmono n D]: no merge is lower than the merge that created one of its children.  [sortedq (heights D)]: heights
    never decrease.  [leaves n D k]: the leaves below cluster k.  [good_dendrogram n D] (Proofs/C07Compose.v) =
    valid + size column = number of leaves below + heights never decrease: what the property demands of each
    dendrogram attribute. *)
From Coq Require Import Permutation QArith.
From SKN Require Import Base.Util Model.Dendrogram Model.Cuts Model.Hierarchy Model.Paris Proofs.DendroBase Proofs.HierarchyBase Proofs.HierarchyProofs Proofs.GetDendrogramProofs Proofs.TreeBuildProofs Proofs.SplitProofs Proofs.ParisProofs Proofs.ParisReducible Proofs.ParisTotal Proofs.ParisWitness Proofs.C07Compose Gen.ParisSrc.
Close Scope Q_scope.

(** * 1. reorder_dendrogram *)

(** For every valid dendrogram in which no merged cluster is lower than a merge that created one of its children,
    [reorder_dendrogram] (stable lexsort on (height, max(i, j)), ids renamed) returns a valid dendrogram with
    non-decreasing heights over the same merges (same leaf sets, heights and sizes). *)
Theorem reorder_valid (n : nat) (D : dendrogram) :
  valid n D = true -> hmono n D = true ->
  exists D', reorder_dendrogram D = Ok D' /\ valid n D' = true /\ sortedq (heights D') = true /\
             Permutation (merge_view n D) (merge_view n D').
Proof. exact (HierarchyProofs.reorder_valid n D). Qed.
Print Assumptions reorder_valid.

(** Without the height hypothesis the output can be invalid (the parent is sorted before the row creating its
    child) — exactly what defect D25 produces. *)
Theorem reorder_parent_below_child_refuted :
  exists n D D', valid n D = true /\ hmono n D = false /\ reorder_dendrogram D = Ok D' /\ valid n D' = false.
Proof. exact HierarchyProofs.reorder_parent_below_child_refuted. Qed.
Print Assumptions reorder_parent_below_child_refuted.

(** [valid] (a replay) is equivalent to a static description: n - 1 rows, no id twice among all children, children
    of row t below n + t, sizes add up. *)
Theorem valid_characterisation (n : nat) (D : dendrogram) :
  valid n D = true <->
  (S (length D) = n /\ NoDup (flat_map children D) /\ ids_lt n D /\ sizes_add n D).
Proof. exact (C07Compose.valid_characterisation n D). Qed.
Print Assumptions valid_characterisation.

(** * 2. get_dendrogram and the Louvain hierarchies *)

(** For every well-formed tree over the leaves 0..n-1 (every list has >= 2 elements, each leaf exactly once) the
    rows produced form a valid dendrogram with n - 1 rows whose size column counts the leaves below each merge;
    no merge is lower than its children (so reordering is safe); the final index is 2n - 2. *)
Theorem get_dendrogram_valid (n : nat) (t : ptree) :
  tree_ok n t ->
  exists D, get_dendrogram t = Ok (D, 2 * n - 2) /\ valid n D = true /\ hmono n D = true /\
            (forall k r, nth_error D k = Some r -> r_size r = length (leaves n D (n + k))).
Proof. exact (GetDendrogramProofs.get_dendrogram_valid n t). Qed.
Print Assumptions get_dendrogram_valid.

(** Regression marker for D23 (before fix fb47193f, [s += 1] per further child of a multi-way merge). *)
Theorem get_dendrogram_legacy_refuted :
  exists n t D idx, tree_ok n t /\ get_dendrogram_legacy t = Ok (D, idx) /\ valid n D = false.
Proof. exact GetDendrogramProofs.get_dendrogram_legacy_refuted. Qed.
Print Assumptions get_dendrogram_legacy_refuted.

(** LouvainHierarchy.fit, for ANY answers of the Louvain oracle respecting its contract (one label per node, then
    one label per cluster of the previous level): a good dendrogram over the n nodes. *)
Theorem louvain_hierarchy_valid (n : nat) (levels : list (list nat)) (t : ptree) :
  2 <= n -> levels_ok n levels -> lh_tree n levels = Ok t ->
  exists D, louvain_hierarchy_fit n levels = Ok D /\ good_dendrogram n D.
Proof. exact (C07Compose.louvain_hierarchy_valid n levels t). Qed.
Print Assumptions louvain_hierarchy_valid.

(** Regression marker for D24 (before fix 35e73141): a single top-level cluster gave an empty dendrogram. *)
Theorem louvain_hierarchy_single_cluster_legacy_refuted :
  louvain_hierarchy_fit_legacy 3 [[0; 0; 0]; [0]] = Err IndexError.
Proof. exact TreeBuildProofs.louvain_hierarchy_legacy_refuted. Qed.
Print Assumptions louvain_hierarchy_single_cluster_legacy_refuted.

(** LouvainIteration.fit, for ANY Louvain oracle returning one label per node and any depth: it never fails and
    returns a good dendrogram. *)
Theorem louvain_iteration_valid (oracle : list nat -> list nat) (has_edge : list nat -> bool) (depth : Z) (n : nat) :
  2 <= n -> (forall l, length (oracle l) = length l) ->
  exists D, louvain_iteration_fit oracle has_edge depth n = Ok D /\ good_dendrogram n D.
Proof. exact (C07Compose.louvain_iteration_valid oracle has_edge depth n). Qed.
Print Assumptions louvain_iteration_valid.

(** * 3. Paris: bookkeeping and rows *)

(** [AggregateGraph.merge]: sizes add, weights add, next_cluster advances by one. *)
Theorem merge_bookkeeping (R : rounding) (g : agraph) (a b : nat) (g' : agraph) (sa sb : nat) :
  ag_merge R g a b = Ok g' -> alookup a (ag_size g) = Some sa -> alookup b (ag_size g) = Some sb ->
  a <> b /\ ag_next g' = S (ag_next g) /\
  ag_size g' = aremove b (aremove a (ag_size g)) ++ [(ag_next g, sa + sb)] /\
  (~ In (ag_next g) (akeys (ag_wout g)) ->
   getq (ag_wout g') (ag_next g) = r64 R (getq (ag_wout g) a + getq (ag_wout g) b)) /\
  (~ In (ag_next g) (akeys (ag_win g)) ->
   getq (ag_win g') (ag_next g) = r64 R (getq (ag_win g) a + getq (ag_win g) b)).
Proof. exact (ParisProofs.merge_bookkeeping R g a b g' sa sb). Qed.
Print Assumptions merge_bookkeeping.

(** The neighbour maps stay symmetric (same stored weight in both directions) along the whole run, for any
    rounding, from any symmetric input. *)
Theorem neighbours_stay_symmetric (R : rounding) (clamp : bool) (fuel n : nat) (G : entries) (wout win : list Q)
        (st : Paris.pstate) :
  NoDup (map (fun e => (e_i e, e_j e)) G) -> (forall i j w, In (i, j, w) G -> In (j, i, w) G /\ i < n /\ j < n) ->
  paris_run R clamp fuel (paris_init (ag_init R n G wout win)) = Some (Ok st) ->
  nb_wf (p_ag st) /\ ParisProofs.nb_symmetric (p_ag st).
Proof. exact (ParisProofs.paris_run_symmetric R clamp fuel n G wout win st). Qed.
Print Assumptions neighbours_stay_symmetric.

(** next_cluster = n + number of merges. *)
Theorem paris_next_cluster (R : rounding) (clamp : bool) (fuel n : nat) (G : entries) (wout win : list Q) (st : Paris.pstate) :
  paris_run R clamp fuel (paris_init (ag_init R n G wout win)) = Some (Ok st) ->
  ag_next (p_ag st) = n + length (p_rows st).
Proof. exact (ParisProofs.paris_next_cluster R clamp fuel n G wout win st). Qed.
Print Assumptions paris_next_cluster.

(** Whenever the nearest-neighbour-chain run ends normally — for ANY rounding (exact or floating point), any input,
    with or without the clamp — the rows in creation order, component-joining rows included, are a valid
    dendrogram: n - 1 rows, row t merges two distinct live clusters, size column = leaves below, last size n. *)
Theorem paris_rows_valid (R : rounding) (clamp : bool) (hinf : Q) (n : nat) (G : entries) (wout win : list Q)
        (D : dendrogram) (m : option Q) (t : nat) :
  paris_core R clamp hinf n G wout win = Some (Ok (D, m, t)) ->
  valid n D = true /\ S (length D) = n /\
  (forall k r, nth_error D k = Some r -> r_size r = length (leaves n D (n + k))) /\
  (D <> [] -> r_size (last D drow0) = n).
Proof. exact (C07Compose.paris_rows_valid_full R clamp hinf n G wout win D m t). Qed.
Print Assumptions paris_rows_valid.

(** * 4. Paris: reducibility, and its failure in float32 *)

(** Mediant inequality behind the linkage: sim(a u b, c) = 2 (p_ac + p_bc) / (den_ac + den_bc). *)
Theorem mediant_le (p1 d1 p2 d2 s : Q) :
  (0 < d1)%Q -> (0 < d2)%Q -> (p1 / d1 <= s)%Q -> (p2 / d2 <= s)%Q -> ((p1 + p2) / (d1 + d2) <= s)%Q.
Proof. exact (ParisReducible.mediant_le p1 d1 p2 d2 s). Qed.
Print Assumptions mediant_le.

(** In exact arithmetic a merge is never lower than the merges that created its children (height = 1 / similarity),
    for every symmetric graph with positive edge weights and positive node weights. *)
Theorem paris_reducible (hinf : Q) (n : nat) (G : entries) (wout win : list Q) (D : dendrogram) (m : option Q) (t : nat) :
  graph_ok n G -> weights_ok n wout -> weights_ok n win ->
  paris_core exact false hinf n G wout win = Some (Ok (D, m, t)) ->
  (forall r, In r D -> (r_height r <= hinf)%Q) ->
  hmono n D = true.
Proof. exact (ParisReducible.paris_reducible hinf n G wout win D m t). Qed.
Print Assumptions paris_reducible.

(** Hence the exact model with reorder = True returns a good dendrogram over the same merges. *)
Theorem paris_exact_valid (hinf : Q) (n : nat) (G : entries) (wout win : list Q) (D : dendrogram) (m : option Q) (t : nat) :
  graph_ok n G -> weights_ok n wout -> weights_ok n win ->
  paris_core exact false hinf n G wout win = Some (Ok (D, m, t)) ->
  (forall r, In r D -> (r_height r <= hinf)%Q) ->
  exists D', reorder_dendrogram D = Ok D' /\ good_dendrogram n D' /\ Permutation (merge_view n D) (merge_view n D').
Proof. exact (C07Compose.paris_exact_valid hinf n G wout win D m t). Qed.
Print Assumptions paris_exact_valid.

(** Totality: for every symmetric graph with positive edge weights and positive node weights (n >= 1) the exact model
    ends normally within its fuel of 3n + 2 steps — never KeyError, never out of fuel (the chain never revisits a
    cluster: no-cycle argument with the smallest-index tie rule) — ... *)
Theorem paris_total (hinf : Q) (n : nat) (G : entries) (wout win : list Q) :
  1 <= n -> graph_ok n G -> weights_ok n wout -> weights_ok n win ->
  exists D m t, paris_core exact false hinf n G wout win = Some (Ok (D, m, t)).
Proof. exact (ParisTotal.paris_total hinf n G wout win). Qed.
Print Assumptions paris_total.

(** ... its rows are a valid dendrogram, and with reorder = True the output is a good dendrogram over the same merges. *)
Theorem paris_exact_total_valid (hinf : Q) (n : nat) (G : entries) (wout win : list Q) :
  1 <= n -> graph_ok n G -> weights_ok n wout -> weights_ok n win ->
  exists D m t, paris_core exact false hinf n G wout win = Some (Ok (D, m, t)) /\ valid n D = true /\
    ((forall r, In r D -> (r_height r <= hinf)%Q) ->
     exists D', reorder_dendrogram D = Ok D' /\ good_dendrogram n D' /\ Permutation (merge_view n D) (merge_view n D')).
Proof. exact (C07Compose.paris_exact_total_valid hinf n G wout win). Qed.
Print Assumptions paris_exact_total_valid.

(** Defect D25: with the roundings of the compiled code (similarities in C floats) the hypothesis of [reorder_valid]
    can fail.  On the 6-node graph [d25_graph] the merges (4,3) and ({3,4},5) have the same height 9/26 in exact
    arithmetic; in IEEE arithmetic the parent comes out strictly lower, and the reordered output merges cluster 8
    before the row that creates it. *)
Theorem paris_float_inversion :
  ran (paris_fit exact d25_hinf true false 6 d25_graph) = true /\
  ran (paris_fit ieee d25_hinf true false 6 d25_graph) = true /\
  ran (paris_fit ieee d25_hinf true true 6 d25_graph) = true /\
  map (fun r => (r_left r, r_right r, r_size r)) d25_float = map (fun r => (r_left r, r_right r, r_size r)) d25_exact /\
  d25_exact = [(1, 0, (3 # 13)%Q, 2); (4, 3, (9 # 26)%Q, 2); (6, 2, (15 # 26)%Q, 3); (7, 5, (9 # 26)%Q, 3);
               (9, 8, (42 # 13)%Q, 6)] /\
  forallb (fun p => close (r_height (fst p)) (r_height (snd p))) (combine d25_float d25_exact) = true /\
  valid 6 d25_exact = true /\ hmono 6 d25_exact = true /\
  valid 6 d25_exact_reordered = true /\ sortedq (heights d25_exact_reordered) = true /\
  valid 6 d25_float = true /\ hmono 6 d25_float = false /\
  Qle_bool (r_height (nth 1 d25_float drow0)) (r_height (nth 3 d25_float drow0)) = false /\
  map (fun r => (r_left r, r_right r, r_size r)) d25_float_reordered =
    [(1, 0, 2); (8, 5, 3); (4, 3, 2); (6, 2, 3); (7, 9, 6)] /\
  valid 6 d25_float_reordered = false.
Proof. exact paris_float_inversion_witness. Qed.
Print Assumptions paris_float_inversion.

(** The proposed repair (height of a merge := max of 1/similarity and its children's heights) is sound for ANY
    rounding: valid and sorted after reordering. *)
Theorem paris_clamped_valid (R : rounding) (hinf : Q) (n : nat) (G : entries) (wout win : list Q) (D : dendrogram)
        (m : option Q) (t : nat) :
  paris_core R true hinf n G wout win = Some (Ok (D, m, t)) ->
  (forall r, In r D -> (r_height r <= hinf)%Q) ->
  exists D', reorder_dendrogram D = Ok D' /\ good_dendrogram n D'.
Proof. exact (C07Compose.paris_clamped_valid R hinf n G wout win D m t). Qed.
Print Assumptions paris_clamped_valid.

(** The model of the CURRENT source ([paris_src_clamp]: regenerated from paris.pyx on every run), for any rounding —
    in particular that of the compiled code: a good dendrogram PROVIDED the source clamps the heights (hypothesis
    false on a tree with defect D25, where [paris_float_inversion] shows it is needed). *)
Theorem paris_source_valid (R : rounding) (hinf : Q) (n : nat) (G : entries) (wout win : list Q) (D : dendrogram)
        (m : option Q) (t : nat) :
  paris_src_clamp = true ->
  paris_core R paris_src_clamp hinf n G wout win = Some (Ok (D, m, t)) ->
  (forall r, In r D -> (r_height r <= hinf)%Q) ->
  exists D', reorder_dendrogram D = Ok D' /\ good_dendrogram n D'.
Proof. exact (C07Compose.paris_source_valid R hinf n G wout win D m t). Qed.
Print Assumptions paris_source_valid.

(** Obligation over the generated term [paris_src_tie_exact] (harness/translators/paris.py, regenerated from
    paris.pyx on every run): the tie branch of the nearest-neighbour scan is exactly [elif sim == max_sim:] followed by
    [nearest_neighbor = min(neighbor, nearest_neighbor)].  [paris_total] above (no KeyError, at most 3n + 2 chain
    steps) is proved for this exact smallest-index tie rule ONLY: with a tolerance test — not transitive, dependent on
    the scan order — the chain can cycle a -> b -> c -> a forever. *)
Theorem paris_source_tie_exact : paris_src_tie_exact = true.
Proof. exact C07Compose.paris_source_tie_exact. Qed.
Print Assumptions paris_source_tie_exact.

(** * 5. split_dendrogram (bipartite input) *)

Theorem split_dendrogram_valid (D : dendrogram) (n1 n2 : nat) :
  1 <= n1 -> 1 <= n2 -> valid (n1 + n2) D = true ->
  exists Dr Dc, split_dendrogram D n1 n2 = Ok (Dr, Dc) /\ valid n1 Dr = true /\ valid n2 Dc = true.
Proof. exact (SplitProofs.split_dendrogram_valid D n1 n2). Qed.
Print Assumptions split_dendrogram_valid.

(** The row (column) dendrogram shows exactly the merges of the full one among clusters that both contain a row
    (column), restricted to the rows (columns), in the same order, at the same heights. *)
Theorem split_dendrogram_agrees (D : dendrogram) (n1 n2 : nat) (Dr Dc : dendrogram) :
  1 <= n1 -> 1 <= n2 -> valid (n1 + n2) D = true -> split_dendrogram D n1 n2 = Ok (Dr, Dc) ->
  own_view n1 Dr = restrict_view (n1 + n2) D 0 n1 /\ own_view n2 Dc = restrict_view (n1 + n2) D n1 n2.
Proof. exact (SplitProofs.split_dendrogram_agrees D n1 n2 Dr Dc). Qed.
Print Assumptions split_dendrogram_agrees.

(** [_split_vars]: good full dendrogram => good row and column dendrograms that agree with it. *)
Theorem split_vars_valid (D : dendrogram) (n1 n2 : nat) :
  1 <= n1 -> 1 <= n2 -> good_dendrogram (n1 + n2) D ->
  exists Dr Dc, split_dendrogram D n1 n2 = Ok (Dr, Dc) /\ good_dendrogram n1 Dr /\ good_dendrogram n2 Dc /\
                own_view n1 Dr = restrict_view (n1 + n2) D 0 n1 /\ own_view n2 Dc = restrict_view (n1 + n2) D n1 n2.
Proof. exact (C07Compose.split_vars_valid D n1 n2). Qed.
Print Assumptions split_vars_valid.

(** * Non-vacuity *)

(** A tree meeting [tree_ok], its dendrogram, and the reordering of a valid, monotone dendrogram with a tie. *)
Example tree_ok_example : tree_ok 4 (PNode [PNode [PLeaf 0; PLeaf 1]; PLeaf 2; PLeaf 3]).
Proof.
  split; [reflexivity|]. split; [|eexists; reflexivity]. apply Permutation_refl.
Qed.

Example get_dendrogram_example :
  get_dendrogram (PNode [PNode [PLeaf 0; PLeaf 1]; PLeaf 2; PLeaf 3])
  = Ok ([(1, 0, (-1 # 1)%Q, 2); (3, 2, 0%Q, 2); (5, 4, 0%Q, 4)], 6).
Proof. exact GetDendrogramProofs.get_dendrogram_example. Qed.

Example reorder_example :
  let D := [(1, 0, (1 # 1)%Q, 2); (3, 2, (1 # 2)%Q, 2); (4, 5, (1 # 1)%Q, 4)] in
  valid 4 D = true /\ hmono 4 D = true /\
  reorder_dendrogram D = Ok [(3, 2, (1 # 2)%Q, 2); (1, 0, (1 # 1)%Q, 2); (5, 4, (1 # 1)%Q, 4)].
Proof. vm_compute. repeat split; reflexivity. Qed.

Example louvain_hierarchy_example :
  levels_ok 5 [[0; 0; 1; 1; 1]; [0; 0]; [0]] /\
  lh_tree 5 [[0; 0; 1; 1; 1]; [0; 0]; [0]] = Ok (PNode [PNode [PLeaf 0; PLeaf 1]; PNode [PLeaf 2; PLeaf 3; PLeaf 4]]) /\
  match louvain_hierarchy_fit 5 [[0; 0; 1; 1; 1]; [0; 0]; [0]] with Ok D => valid 5 D && sortedq (heights D) | Err _ => false end = true.
Proof. split; [simpl; tauto|]. split; vm_compute; reflexivity. Qed.

(** The hypotheses of [paris_reducible] hold on the D25 graph with its degree weights, and the run ends. *)
Example paris_hypotheses_example :
  graph_ok 6 ex_G /\ weights_ok 6 ex_w /\
  match paris_core exact false (1000 # 1)%Q 6 ex_G ex_w ex_w with
  | Some (Ok (D, _, _)) => forallb (fun r => Qle_bool (r_height r) (1000 # 1)%Q) D = true
  | _ => False
  end.
Proof. exact paris_reducible_example_hyps. Qed.

Definition paris_example_check : bool :=
  match paris_core exact false (1000 # 1)%Q 6 ex_G ex_w ex_w with
  | Some (Ok (D, _, _)) => valid 6 D && hmono 6 D
  | _ => false
  end.
Example paris_example : paris_example_check = true.
Proof. vm_compute. reflexivity. Qed.

Example split_example :
  let D := [(0, 2, (1 # 1)%Q, 2); (1, 3, (1 # 1)%Q, 2); (4, 5, (2 # 1)%Q, 4)] in
  valid (2 + 2) D = true /\
  split_dendrogram D 2 2 = Ok ([(0, 1, (2 # 1)%Q, 2)], [(0, 1, (2 # 1)%Q, 2)]).
Proof. vm_compute. split; reflexivity. Qed.

(** * SOURCE LEVEL — split_dendrogram of hierarchy/postprocess.py, regenerated on every run

    [src_split_dendrogram] is the body of split_dendrogram as a statement of the small imperative Python of Model/PyImp.v
    (Gen/PySplit.v, produced by harness/translators/pyimp.py from the current source; ids read from the float array are used as
    dict keys, as in Python where hash(2.0) = hash(2)).  For EVERY dendrogram and shape, running the text leaves in
    [dendrogram_row] / [dendrogram_col] exactly the rows of the model's split_dendrogram (the code handles both sides in one
    loop, the model one side at a time), and raises when the model does; with the theorems above: on a valid dendrogram over
    n1 + n2 leaves the text returns valid row and column dendrograms that agree with the full one. *)
From SKN Require Import Model.PyImp Gen.PySplit Proofs.PyCutsProofs Proofs.PySplitProofs.
From Coq Require Import String.
Local Open Scope string_scope.

Theorem source_split_dendrogram_is_model D n1 n2 (e0 : env) :
  e0 "dendrogram" = Some (embD D) -> e0 "shape" = Some (VList [vnat n1; vnat n2]) ->
  match split_dendrogram D n1 n2 with
  | Ok (Dr, Dc) => exists e', exec src_split_dendrogram e0 = POk e' /\
                              e' "dendrogram_row" = Some (VList (map embNewRow Dr)) /\
                              e' "dendrogram_col" = Some (VList (map embNewRow Dc))
  | Err _ => exists er, exec src_split_dendrogram e0 = PErr er
  end.
Proof. exact (src_split_dendrogram_is_model D n1 n2 e0). Qed.
Print Assumptions source_split_dendrogram_is_model.

Theorem source_split_dendrogram_valid D n1 n2 (e0 : env) :
  1 <= n1 -> 1 <= n2 -> valid (n1 + n2) D = true ->
  e0 "dendrogram" = Some (embD D) -> e0 "shape" = Some (VList [vnat n1; vnat n2]) ->
  exists e' Dr Dc, exec src_split_dendrogram e0 = POk e' /\
    e' "dendrogram_row" = Some (VList (map embNewRow Dr)) /\ e' "dendrogram_col" = Some (VList (map embNewRow Dc)) /\
    valid n1 Dr = true /\ valid n2 Dc = true /\
    own_view n1 Dr = restrict_view (n1 + n2) D 0 n1 /\ own_view n2 Dc = restrict_view (n1 + n2) D n1 n2.
Proof. exact (src_split_dendrogram_valid D n1 n2 e0). Qed.
Print Assumptions source_split_dendrogram_valid.

Theorem source_split_untranslated_reviewed :
  src_split_params = ["dendrogram"; "shape"] /\
  src_split_return = "return (np.array(dendrogram_row), np.array(dendrogram_col))".
Proof. split; reflexivity. Qed.
Print Assumptions source_split_untranslated_reviewed.

Example c07_source_nonvacuous :
  let D := [(0, 2, 1%Q, 2); (1, 3, 2%Q, 2); (4, 5, 3%Q, 4)] in
  run_var src_split_dendrogram [("dendrogram", embD D); ("shape", VList [vnat 2; vnat 2])] "dendrogram_row"
    = POk (Some (VList (map embNewRow [(0, 1, 3%Q, 2)]))) /\
  run_var src_split_dendrogram [("dendrogram", embD D); ("shape", VList [vnat 2; vnat 2])] "dendrogram_col"
    = POk (Some (VList (map embNewRow [(0, 1, 3%Q, 2)]))) /\
  split_dendrogram D 2 2 = Ok ([(0, 1, 3%Q, 2)], [(0, 1, 3%Q, 2)]).
Proof. cbv zeta. repeat split; vm_compute; reflexivity. Qed.

(** C11 — Triangle, clique and core computations are exact, sequential or parallel.
    This file contains only statements closed by [exact], their assumptions, and non-vacuity examples.
    Models: Model/Topology.v (triangles.pyx, cliques.pyx, core.pyx, minheap.pyx, directed2undirected),
    Model/Bfs.v (get_dag). *)
From Coq Require Import String.
From SKN Require Import Base.Util Model.Bfs Model.Topology Proofs.BfsProofs Proofs.TopologyProofs Gen.TrianglesPrange.
From Coq Require Import Permutation Sorted.

(** The two-pointer loop of count_local_triangles_from_dag (advance both on [==] and count, advance i on
    [<], else j; fuel len1 + len2 is enough) returns |l1 /\ l2| on strictly sorted lists. *)
Theorem merge_loop_correct (fuel : nat) (l1 l2 : list nat) :
  StronglySorted lt l1 -> StronglySorted lt l2 -> length l1 + length l2 <= fuel ->
  merge_count fuel l1 l2 = length (filter (fun x => memn x l2) l1).
Proof. exact (merge_count_inter fuel l1 l2). Qed.
Print Assumptions merge_loop_correct.

(** Hence the per-node count is the sum over the out-neighbours v of u of |N+(u) /\ N+(v)|. *)
Theorem count_local_correct (d : graph) (u : nat) :
  (forall v, StronglySorted lt (row d v)) ->
  count_local d u =
  sumn (map (fun v => length (filter (fun x => memn x (row d v)) (row d u))) (row d u)).
Proof. exact (TopologyProofs.count_local_correct d u). Qed.
Print Assumptions count_local_correct.

(** The prange loop only adds per-node results into a [+=] reduction: whatever iterations each thread
    runs and in whatever order (any partition of the node range into per-thread sequences), the total
    equals the sequential sum. *)
Theorem count_triangles_schedule_independent (d : graph) (sched : list (list nat)) :
  Permutation (concat sched) (seq 0 (length d)) ->
  count_triangles_sched d sched = count_triangles_from_dag d.
Proof. exact (TopologyProofs.count_triangles_schedule_independent d sched). Qed.
Print Assumptions count_triangles_schedule_independent.

(** Obligation over the generated description of triangles.pyx (Gen/TrianglesPrange.v, re-extracted from the
    source on every run): there is exactly one prange loop, its body performs no subscripted assignment,
    its only augmented assignment is the scalar reduction [n_triangles +=], it calls only
    count_local_triangles_from_dag, which is [nogil] and performs no subscripted assignment either. *)
Theorem triangles_prange_no_shared_write :
  List.length triangles_prange_loops = 1 /\
  (forall l, In l triangles_prange_loops ->
     pl_writes l = [] /\ pl_reductions l = [("n_triangles", "+")]%string /\ pl_private l = [] /\
     pl_calls l = ["count_local_triangles_from_dag"%string]) /\
  triangles_callee_writes = [] /\ triangles_callee_nogil = true.
Proof.
  split; [reflexivity|]. split; [|split; reflexivity].
  intros l [<-|[]]. repeat split; reflexivity.
Qed.
Print Assumptions triangles_prange_no_shared_write.

(** Front ends, re-extracted from triangles.pyx on every run: count_triangles orients the SYMMETRISED matrix with get_dag's
    default order (the node index - a total order, which is what [count_triangles_exact] needs; an order computed in a
    fixed-width integer type can wrap for large graphs), and get_clustering_coefficient counts the connected triples from the
    degrees of the symmetrised matrix in 64-bit integers (finding D37). *)
Theorem triangles_front_ends :
  triangles_dag_sources = ["get_dag(directed2undirected(adjacency))"]%string /\
  coefficient_degree_sources = ["get_degrees(directed2undirected(adjacency)).astype(`int64`)"; "degrees[degrees>1]"]%string.
Proof. split; reflexivity. Qed.
Print Assumptions triangles_front_ends.

(** count_triangles (= count_triangles_from_dag (get_dag (directed2undirected A))) equals the number of
    triples a < b < c that are pairwise adjacent in the undirected graph of A, for every pattern A
    (directed input, self-loops and duplicate entries included: "the graph is considered undirected"). *)
Theorem count_triangles_exact (g : graph) :
  count_triangles g = triangles_spec (adjb g) (length g).
Proof. exact (TopologyProofs.count_triangles_exact g). Qed.
Print Assumptions count_triangles_exact.

(** Core decomposition, level L1 (remove SOME node of minimum remaining degree, label it with the
    running maximum of the degrees at removal time): for EVERY admissible removal sequence the labels
    are the core numbers — [core_number g v k]: v lies in a set whose members all have >= k neighbours
    inside the set, and in no such set for a larger k. (No hypothesis on g is needed at this level;
    symmetry is what makes the L0 degree array equal the remaining degree. L0 = MinHeap + compute_core
    as coded is tied to this level by compute_core_refines_peel / compute_core_exact at the end of this file.) *)
Theorem peel_is_core_number (g : graph) (choice labels : list nat) :
  peel g choice = Some labels ->
  List.length labels = List.length g /\
  forall v, v < List.length g -> core_number g v (nthn labels v).
Proof. exact (TopologyProofs.peel_is_core_number g choice labels). Qed.
Print Assumptions peel_is_core_number.

(** get_clustering_coefficient = 3 T / (sum_{v : d_v > 1} d_v (d_v - 1) / 2) over Q, with T the number
    of triangles and d_v the number of neighbours of v in the undirected graph; undefined (the code
    returns nan) exactly when there is no connected triple. *)
Theorem clustering_coefficient_def (g : graph) :
  match clustering_coefficient g with
  | Some q => triples_spec2 (adjb g) (List.length g) <> 0 /\
              (q == clustering_spec (adjb g) (List.length g))%Q
  | None => triples_spec2 (adjb g) (List.length g) = 0
  end.
Proof. exact (TopologyProofs.clustering_coefficient_def g). Qed.
Print Assumptions clustering_coefficient_def.

(** The denominator of the coefficient counts connected triples: the sum over the nodes of degree > 1
    of d_v (d_v - 1) is twice the number of paths b - v - c with b < c; hence the coefficient is
    3 T / #connected triples. *)
Theorem connected_triples_spec (adj : nat -> nat -> bool) (n : nat) :
  2 * connected_triples adj n = triples_spec2 adj n.
Proof. exact (TopologyProofs.connected_triples_spec adj n). Qed.
Print Assumptions connected_triples_spec.

(** Cliques, level L1 (count k S = sum_{u in S} count (k-1) (N+(u) /\ S), base case k = 2 as coded):
    on any DAG [d] that orients a symmetric relation [adj] on the nodes < n by an injective key [ord]
    (each row of d lists, without repetition, exactly the neighbours of larger key), the recursion returns
    the number of k-subsets of the nodes that are pairwise adjacent, for every k >= 2. *)
Theorem cliques_L1_exact (adj : nat -> nat -> bool) (ord : nat -> nat) (d : graph) (k : nat) :
  dag_of adj ord (List.length d) d -> 2 <= k ->
  count_cliques_from_dag_L1 d k = cliques_spec adj (List.length d) k.
Proof. exact (TopologyProofs.cliques_L1_exact adj ord d k). Qed.
Print Assumptions cliques_L1_exact.

(** count_cliques (L1) on an undirected graph — symmetric pattern with duplicate-free rows — is the
    number of k-cliques for every k >= 2, whatever permutation np.argsort(core values) returns (the code
    passes that permutation as [order] to get_dag: node i gets key argsort[i]; any injective key works).
    The in-place ListingBox kernel (L0, [count_cliques]) refines L1: see count_cliques_L0_exact at the end
    of this file (the harness still evaluates both on every case and requires equality). *)
Theorem count_cliques_L1_exact (g : graph) (k : nat) (argsort : list nat) :
  wf_graph g -> (forall u, NoDup (row g u)) -> (forall u v, In v (row g u) -> In u (row g v)) ->
  NoDup argsort -> List.length argsort = List.length g -> 2 <= k ->
  count_cliques_L1 g k argsort = Ok (cliques_spec (adjb g) (List.length g) k).
Proof. exact (TopologyProofs.count_cliques_L1_exact g k argsort). Qed.
Print Assumptions count_cliques_L1_exact.

(** MinHeap (L0), partial: IF the heap invariant holds ([val]/[pos] inverse on the live part, every live
    entry at least its parent, parent i = (i-1)//2), pop_min returns the root and the root has minimum
    score among the live entries. (Kept under its original name; the preservation of [heap_ok] by
    insert_key, decrease_key, pop_min/min_heapify and the refinement compute_core (L0) -> peel (L1) that
    were missing when this was stated are now proved: see the last section of this file.) *)
Theorem heap_pop_is_min_partial (h : heap) (scores : list Z) :
  heap_ok h scores -> 0 < h_size h ->
  let m := fst (pop_min h scores) in
  m = nthn (h_val h) 0 /\
  forall i, i < h_size h -> (nthz scores m <= nthz scores (nthn (h_val h) i))%Z.
Proof. exact (TopologyProofs.heap_pop_is_min_partial h scores). Qed.
Print Assumptions heap_pop_is_min_partial.

Theorem heap_ok_b_sound (h : heap) (scores : list Z) : heap_ok_b h scores = true -> heap_ok h scores.
Proof. exact (TopologyProofs.heap_ok_b_sound h scores). Qed.
Print Assumptions heap_ok_b_sound.

(** A popped node keeps its stale pos = 0 (the code never clears it): decrease_key on it is a no-op
    (pos < size passes, but the loop guard starts with pos != 0). *)
Theorem decrease_key_stale_noop (h : heap) (i : nat) (scores : list Z) :
  nthn (h_pos h) i = 0 -> decrease_key h i scores = h.
Proof. exact (TopologyProofs.decrease_key_stale_noop h i scores). Qed.
Print Assumptions decrease_key_stale_noop.

(** Non-vacuity: a 5-node graph (triangle 0-1-2 with a tail 2-3-4) on which every model computes,
    an admissible peeling sequence exists, and a non-trivial schedule satisfies the hypothesis. *)
Example c11_nonvacuous :
  let g := [[1; 2]; [0; 2]; [0; 1; 3]; [2; 4]; [3]] in
  count_triangles g = 1 /\
  count_triangles_sched (tri_dag g) [[4; 0]; []; [2; 3; 1]] = 1 /\
  Permutation (concat [[4; 0]; []; [2; 3; 1]]) (seq 0 (List.length (tri_dag g))) /\
  (forall v, StronglySorted lt (row (tri_dag g) v)) /\
  peel g [4; 3; 0; 1; 2] = Some [2; 2; 2; 1; 1] /\
  compute_core g = Some [2; 2; 2; 1; 1]%Z /\
  clustering_coefficient g = Some (1 # 2)%Q /\
  count_cliques g 3 [4; 3; 0; 1; 2] = Ok 1 /\ count_cliques_L1 g 2 [4; 3; 0; 1; 2] = Ok 5 /\
  cliques_spec (adjb g) 5 3 = 1 /\ core_heap_inv g = true.
Proof.
  cbv zeta. repeat split; try reflexivity.
  - vm_compute. apply Permutation_cons_app with (l1 := [0; 1; 2; 3]) (l2 := []). simpl.
    apply perm_skip. apply Permutation_cons_app with (l1 := [1]) (l2 := [3]). simpl.
    apply perm_swap.
  - intros v. apply tri_dag_sorted.
Qed.

(** The hypotheses of count_cliques_L1_exact are met by the same graph. *)
Example c11_nonvacuous_cliques :
  let g := [[1; 2]; [0; 2]; [0; 1; 3]; [2; 4]; [3]] in
  wf_graph g /\ (forall u, NoDup (row g u)) /\ (forall u v, In v (row g u) -> In u (row g v)) /\
  NoDup [4; 3; 0; 1; 2] /\ List.length [4; 3; 0; 1; 2] = List.length g.
Proof.
  cbv zeta. split; [|split; [|split; [|split; [|reflexivity]]]].
  - intros u v H. do 5 (destruct u as [|u]; [simpl in H; simpl; intuition lia|]).
    destruct u; simpl in H; contradiction.
  - intros u. do 5 (destruct u as [|u]; [unfold row; simpl; repeat constructor; simpl; intuition discriminate|]).
    destruct u; unfold row; simpl; constructor.
  - intros u v H. do 5 (destruct u as [|u]; [simpl in H; intuition (subst; simpl; tauto)|]).
    destruct u; simpl in H; contradiction.
  - repeat constructor; simpl; intuition discriminate.
Qed.

(** The heap invariant is met by the heap compute_core builds on that graph (5 live entries). *)
Example c11_nonvacuous_heap :
  let scores := [2; 2; 3; 2; 1]%Z in
  let h := fold_left (fun mh i => insert_key mh i scores) (seq 0 5) (heap_init 5) in
  heap_ok h scores /\ h_size h = 5 /\ fst (pop_min h scores) = 4.
Proof.
  cbv zeta. split; [apply TopologyProofs.heap_ok_b_sound; reflexivity|]. split; reflexivity.
Qed.

(** * MinHeap and compute_core at the array level (L0), proved (Proofs/HeapProofs.v).
    These close the gap left open above ([heap_pop_is_min_partial] assumed [heap_ok]; L0 was tied to L1
    by the correspondence run only). Vocabulary from Proofs/HeapProofs.v:
    [live h v := exists i, i < h_size h /\ nthn (h_val h) i = v] (v is stored at a live position);
    [core_pop_sequence g] := the list of [min_node]s popped by the loop of compute_core (same loop as
    [core_loop], recording the popped node instead of the labels). *)
From SKN Require Import Proofs.HeapProofs.

(** insert_key keeps the heap invariant: there is room, k indexes [pos], and k is not already in the heap. *)
Theorem heap_ok_insert_key (h : heap) (k : nat) (scores : list Z) :
  heap_ok h scores -> h_size h < List.length (h_val h) -> k < List.length (h_pos h) -> ~ live h k ->
  heap_ok (insert_key h k scores) scores.
Proof. exact (HeapProofs.heap_ok_insert_key h k scores). Qed.
Print Assumptions heap_ok_insert_key.

(** ... and adds exactly k: size + 1, array lengths kept, live nodes = old live nodes + k, the [pos]
    entries of all other non-live nodes (stale entries of popped nodes included) untouched. *)
Theorem insert_key_spec (h : heap) (k : nat) (scores : list Z) :
  heap_ok h scores -> h_size h < List.length (h_val h) -> k < List.length (h_pos h) -> ~ live h k ->
  let h' := insert_key h k scores in
  heap_ok h' scores /\ h_size h' = S (h_size h) /\
  List.length (h_val h') = List.length (h_val h) /\ List.length (h_pos h') = List.length (h_pos h) /\
  (forall v, live h' v <-> live h v \/ v = k) /\
  (forall v, ~ live h v -> v <> k -> nthn (h_pos h') v = nthn (h_pos h) v).
Proof. exact (HeapProofs.insert_key_spec h k scores). Qed.
Print Assumptions insert_key_spec.

(** decrease_key: [s] are the scores at the last heap operation, [s'] the scores now; only the score of
    j changed and it did not increase (compute_core: degrees[j] -= 1). Then the invariant holds again
    w.r.t. [s'], and sizes, lengths, live set and the [pos] of non-live nodes are unchanged ([hframe]).
    Nothing is assumed about j being in the heap: for a popped j (stale [pos], never cleared by the code)
    the live scores are unchanged and the loop finds nothing to do. *)
Theorem heap_ok_decrease_key (h : heap) (j : nat) (s s' : list Z) :
  heap_ok h s -> (forall v, v <> j -> nthz s' v = nthz s v) -> (nthz s' j <= nthz s j)%Z ->
  heap_ok (decrease_key h j s') s' /\
  (List.length (h_val (decrease_key h j s')) = List.length (h_val h) /\
   List.length (h_pos (decrease_key h j s')) = List.length (h_pos h) /\
   h_size (decrease_key h j s') = h_size h /\
   (forall v, live (decrease_key h j s') v <-> live h v) /\
   (forall v, ~ live h v -> nthn (h_pos (decrease_key h j s')) v = nthn (h_pos h) v)).
Proof. exact (HeapProofs.decrease_key_spec h j s s'). Qed.
Print Assumptions heap_ok_decrease_key.

(** pop_min (with min_heapify) keeps the invariant on a non-empty heap. *)
Theorem heap_ok_pop_min (h : heap) (scores : list Z) :
  heap_ok h scores -> 0 < h_size h -> heap_ok (snd (pop_min h scores)) scores.
Proof. exact (HeapProofs.heap_ok_pop_min h scores). Qed.
Print Assumptions heap_ok_pop_min.

(** pop_min returns a live node of minimum score and removes exactly it; the popped node keeps the
    stale position 0 (so that a later decrease_key on it is a no-op, [decrease_key_stale_noop]). *)
Theorem pop_min_returns_min (h : heap) (scores : list Z) :
  heap_ok h scores -> 0 < h_size h ->
  let m := fst (pop_min h scores) in
  let h' := snd (pop_min h scores) in
  live h m /\ (forall v, live h v -> (nthz scores m <= nthz scores v)%Z) /\
  heap_ok h' scores /\ h_size h' = h_size h - 1 /\
  (forall v, live h' v <-> live h v /\ v <> m) /\
  nthn (h_pos h') m = 0.
Proof. exact (HeapProofs.pop_min_returns_min h scores). Qed.
Print Assumptions pop_min_returns_min.

(** Refinement L0 -> L1. On a symmetric pattern with duplicate-free rows (self-loops allowed; symmetry
    implies wf_graph) compute_core terminates within its fuel, the nodes it pops form an ADMISSIBLE removal
    sequence for [peel] (peel returns [None] unless every removed node is alive and of minimum remaining
    degree; the invariant of the proof is: heap_ok w.r.t. [degrees], live nodes = nodes not yet popped,
    degrees[v] = remaining degree of v for every live v), and the labels it writes are those of [peel]. *)
Theorem compute_core_refines_peel (g : graph) :
  (forall u, NoDup (row g u)) -> (forall u v, In v (row g u) -> In u (row g v)) ->
  exists labels, peel g (core_pop_sequence g) = Some labels /\
                 compute_core g = Some (map Z.of_nat labels).
Proof. exact (HeapProofs.compute_core_refines_peel g). Qed.
Print Assumptions compute_core_refines_peel.

(** Hence compute_core as coded (MinHeap arrays included) returns the core numbers. *)
Theorem compute_core_exact (g : graph) :
  (forall u, NoDup (row g u)) -> (forall u v, In v (row g u) -> In u (row g v)) ->
  exists labels, compute_core g = Some (map Z.of_nat labels) /\
                 List.length labels = List.length g /\
                 forall v, v < List.length g -> core_number g v (nthn labels v).
Proof. exact (HeapProofs.compute_core_exact g). Qed.
Print Assumptions compute_core_exact.

(** Non-vacuity: on the 5-node graph above (hypotheses shown in c11_nonvacuous_cliques) the pop sequence is
    a genuine interleaving of heap operations and peel accepts it. *)
Example c11_nonvacuous_core_l0 :
  let g := [[1; 2]; [0; 2]; [0; 1; 3]; [2; 4]; [3]] in
  core_pop_sequence g = [4; 3; 0; 1; 2] /\
  peel g (core_pop_sequence g) = Some [2; 2; 2; 1; 1] /\
  compute_core g = Some (map Z.of_nat [2; 2; 2; 1; 1]).
Proof. cbv zeta. repeat split; reflexivity. Qed.

(** * cliques.pyx at the array level (L0), proved (Proofs/CliqueProofs.v).
    These close the gap left open above ([count_cliques_L1_exact] is about the functional recursion; the
    ListingBox kernel was tied to it by the correspondence run only). Vocabulary from Proofs/CliqueProofs.v:
    [dag_wf d M]: the rows of the DAG d are duplicate-free, their entries are < length d, none is longer than M;
    [shape d K M b]: array lengths (ns, degrees, subs: K+1; lab, every degrees[m], the row table: n;
      subs[m] for m < K: at least M);
    [subl b l] := the first ns[l] entries of sub[l] (the node list of level l);
    [inv d K M l b]: the level invariant, spelled out by [clique_level_invariant_meaning] below;
    [frame d K M l b b']: b' differs from b at most below level l (ns[m], sub[m], deg[m] unchanged for m >= l),
      no label differs, and row v differs only by a permutation of its first deg[l][v] entries, for v in [subl b l];
    [sel_run l b u], [part_run l b1]: the first two inner loops of count_cliques_from_dag for clique_size = l+1
      (selection of the neighbours of u, in-place partition of the windows of the selected nodes);
    [ccfd_ok cs b]: count_cliques_from_dag instrumented with the bounds check of EVERY array access it makes
      (ns[.], lab[.], degrees[.][.], subs[.][.], indptr[.], indices[.] relative to the row), [true] when all pass. *)
From SKN Require Import Proofs.CliqueProofs.
(** (keep a comment line after the import: dependency scan of the harness) *)

(** The level invariant, in full: at level l with S = sub[l][0 : ns[l]] — S is duplicate-free; every v in S is a
    node with lab[v] = l, every other node has a larger label; every row of the (mutable) indices array is a
    permutation of the original row of the DAG; and for v in S the first deg[l][v] entries of row v are, as a
    set, N+(v) /\ S. *)
Theorem clique_level_invariant_meaning (d : graph) (K M l : nat) (b : box) :
  inv d K M l b ->
  let S0 := firstn (nthn (b_ns b) l) (nthl (b_sub b) l) in
  2 <= l <= K /\ nthn (b_ns b) l <= List.length (nthl (b_sub b) l) /\ NoDup S0 /\
  (forall v, In v S0 -> v < List.length d /\ nthn (b_lab b) v = l) /\
  (forall v, v < List.length d -> ~ In v S0 -> l < nthn (b_lab b) v) /\
  (forall v, Permutation (nthl (b_rows b) v) (row d v)) /\
  (forall v, In v S0 ->
     get_deg b l v <= List.length (nthl (b_rows b) v) /\
     forall w, In w (firstn (get_deg b l v) (nthl (b_rows b) v)) <-> In w (row d v) /\ In w S0).
Proof. exact (CliqueProofs.inv_meaning d K M l b). Qed.
Print Assumptions clique_level_invariant_meaning.

(** ListingBox.__cinit__ establishes the invariant at level k (all nodes, lab = k, degrees = out-degrees). *)
Theorem clique_level_invariant_init (d : graph) (K : nat) :
  dag_wf d (max_deg d) -> 2 <= K -> inv d K (max_deg d) K (box_init d K).
Proof. exact (CliqueProofs.inv_init d K). Qed.
Print Assumptions clique_level_invariant_init.

(** One level step: for the i-th node u of level l+1, after the selection loop and the partition loop the
    recursive call is entered in a state satisfying the invariant of level l, whose node list is, up to
    order, N+(u) /\ S. *)
Theorem clique_level_step_invariant (d : graph) (K M l : nat) (b : box) (i : nat) :
  dag_wf d M -> 2 <= l -> inv d K M (S l) b -> i < nthn (b_ns b) (S l) ->
  let u := get_sub b (S l) i in
  let b3 := part_run l (sel_run l b u) in
  inv d K M l b3 /\ Permutation (subl b3 l) (inter (row d u) (subl b (S l))).
Proof. exact (CliqueProofs.level_step_establishes_inv d K M l b i). Qed.
Print Assumptions clique_level_step_invariant.

(** On return from a call at level l (labels restored by the last inner loop of every iteration) the state
    differs from the entry state only as [frame] allows, hence the invariant of level l holds again. *)
Theorem clique_level_invariant_preserved (d : graph) (K M l : nat) (b : box) :
  dag_wf d M -> inv d K M l b ->
  frame d K M l b (snd (count_cliques_from_dag l b)) /\ inv d K M l (snd (count_cliques_from_dag l b)).
Proof. exact (CliqueProofs.count_cliques_from_dag_inv d K M l b). Qed.
Print Assumptions clique_level_invariant_preserved.

(** Refinement L0 -> L1: under the invariant, the count returned by the array-level kernel at level l is the
    L1 recursion on the current node list. *)
Theorem count_cliques_L0_refines_L1 (d : graph) (K M l : nat) (b : box) :
  dag_wf d M -> inv d K M l b ->
  fst (count_cliques_from_dag l b) = cliques_rec d (l - 2) (subl b l).
Proof. exact (CliqueProofs.count_cliques_L0_refines_L1 d K M l b). Qed.
Print Assumptions count_cliques_L0_refines_L1.

(** Hence count_cliques as coded (core-order argsort permutation, get_dag, ListingBox, in-place kernel)
    returns the number of k-cliques, for every k >= 2: same hypotheses as [count_cliques_L1_exact]. *)
Theorem count_cliques_L0_exact (g : graph) (k : nat) (argsort : list nat) :
  wf_graph g -> (forall u, NoDup (row g u)) -> (forall u v, In v (row g u) -> In u (row g v)) ->
  NoDup argsort -> List.length argsort = List.length g -> 2 <= k ->
  count_cliques g k argsort = Ok (cliques_spec (adjb g) (List.length g) k).
Proof. exact (CliqueProofs.count_cliques_L0_exact g k argsort). Qed.
Print Assumptions count_cliques_L0_exact.

(** Safety (used by C17): under the invariant every array access of the kernel is in range, ... *)
Theorem count_cliques_from_dag_safe (d : graph) (K M l : nat) (b : box) :
  dag_wf d M -> inv d K M l b -> ccfd_ok l b = true.
Proof. exact (CliqueProofs.count_cliques_from_dag_safe d K M l b). Qed.
Print Assumptions count_cliques_from_dag_safe.

(** ... in particular on the box and DAG count_cliques builds from an undirected graph. *)
Theorem count_cliques_safe (g : graph) (k : nat) (argsort : list nat) :
  wf_graph g -> (forall u, NoDup (row g u)) -> (forall u v, In v (row g u) -> In u (row g v)) ->
  NoDup argsort -> List.length argsort = List.length g -> 2 <= k ->
  ccfd_ok k (box_init (get_dag g (map Z.of_nat argsort)) k) = true.
Proof. exact (CliqueProofs.count_cliques_safe g k argsort). Qed.
Print Assumptions count_cliques_safe.

(** Non-vacuity: on the 5-node graph above (hypotheses shown in c11_nonvacuous_cliques) and on K4 plus a
    pendant node with k = 4 (two nested levels) the kernel runs, every check passes, and the instrumentation
    does detect an out-of-range column index. *)
Example c11_nonvacuous_cliques_l0 :
  let g := [[1; 2]; [0; 2]; [0; 1; 3]; [2; 4]; [3]] in
  let g4 := [[1; 2; 3]; [0; 2; 3]; [0; 1; 3; 4]; [0; 1; 2]; [2]] in
  count_cliques g 3 [4; 3; 0; 1; 2] = Ok 1 /\
  ccfd_ok 3 (box_init (get_dag g (map Z.of_nat [4; 3; 0; 1; 2])) 3) = true /\
  count_cliques g4 4 [1; 2; 3; 4; 0] = Ok 1 /\ count_cliques g4 3 [1; 2; 3; 4; 0] = Ok 4 /\
  ccfd_ok 4 (box_init (get_dag g4 (map Z.of_nat [1; 2; 3; 4; 0])) 4) = true /\
  ccfd_ok 3 (box_init [[1; 7]; []; []] 3) = false.
Proof. cbv zeta. repeat split; reflexivity. Qed.

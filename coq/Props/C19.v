(** C19 — GNN layers compute the documented message passing and consistent gradients.
    Only statements closed by [exact], their assumptions, and non-vacuity examples.
    Part I (over Q, list, nat) must be closed under the global context.
    Part II (over R, Coquelicot) may depend on the standard library's classical axioms for the reals. *)
From SKN Require Import Base.Util Model.Gnn Model.NpExpr Gen.NpGnn Proofs.GnnProofs Proofs.GnnCalculus Proofs.NpExprProofs.
Set Warnings "-notation-overridden,-ambiguous-paths".
From Coq Require Import QArith Reals Morphisms Lra.
From Coquelicot Require Import Coquelicot.
Local Open Scope nat_scope.

(* =========================================================================================== *)
(** * Part I — exact rational arithmetic *)

(** Pre-activation signal of Convolution.forward = (N(A) + [self] I) X W + b, entry by entry, for
    left / right / both normalisation (and no normalisation), dense or sparse features, with and without
    self embeddings and bias. N(A) is D^+ A, A D^+, (D^1/2)^+ A (D^1/2)^+ with D the OUT-weights. *)
Theorem forward_embedding_formula (sqrtf : Q -> Q) (L : layer) (A : smat) (F : feats) (i k : nat) :
  wf_smat (length A) A ->
  (l_norm L = NBoth -> Proper (Qeq ==> Qeq) sqrtf) ->
  i < length A -> k < l_out L ->
  (dentry (embedding sqrtf L A F) i k ==
   mmul (f_ncol F) (mmul (length A) (nbar sqrtf (l_norm L) (l_self L) A) (fentry F)) (dentry (l_weight L)) i k
   + (if l_use_bias L then nthq (l_bias L) k else 0))%Q.
Proof. exact (embedding_formula sqrtf L A F i k). Qed.
Print Assumptions forward_embedding_formula.

(** forward = activation(N(A) X W + b), row by row. *)
Theorem forward_formula (sqrtf expf : Q -> Q) (L : layer) (A : smat) (F : feats) :
  wf_smat (length A) A ->
  (l_norm L = NBoth -> Proper (Qeq ==> Qeq) sqrtf) ->
  (uses_exp (l_act L) = true -> Proper (Qeq ==> Qeq) expf) ->
  length (forward sqrtf expf L A F) = length A /\
  forall i, i < length A ->
    Forall2 Qeq (nth i (forward sqrtf expf L A F) [])
                (act_row expf (l_act L) (map (spec_embedding sqrtf L A F i) (seq 0 (l_out L)))).
Proof. exact (GnnProofs.forward_formula sqrtf expf L A F). Qed.
Print Assumptions forward_formula.

(** Under the contract s*s = d of the square-root oracle, [both] is D^-1/2 A D^-1/2. *)
Theorem forward_formula_both_contract (sqrtf : Q -> Q) (A : smat) (i j : nat) :
  (forall d, 0 < d -> 0 < sqrtf d /\ sqrtf d * sqrtf d == d)%Q ->
  (0 < deg A i)%Q -> (0 < deg A j)%Q ->
  (nspec sqrtf NBoth A i j * (sqrtf (deg A i) * sqrtf (deg A j)) == sentry A i j)%Q /\
  (nspec sqrtf NBoth A i j * nspec sqrtf NBoth A i j * (deg A i * deg A j) == sentry A i j * sentry A i j)%Q.
Proof. exact (both_is_symmetric_normalisation sqrtf A i j). Qed.
Print Assumptions forward_formula_both_contract.

(** Renumbering the nodes (node j becomes p j; q is the inverse of p) permutes the rows of the output. *)
Theorem forward_equivariant (sqrtf expf : Q -> Q) (L : layer) (A : smat) (F : feats) (p q : list nat) :
  wf_smat (length A) A -> f_nrow F = length A -> inverse_on (length A) p q ->
  forward sqrtf expf L (perm_adj p q A) (perm_feats q F) = perm_rows q (forward sqrtf expf L A F).
Proof. exact (GnnProofs.forward_equivariant sqrtf expf L A F p q). Qed.
Print Assumptions forward_equivariant.

(** UniformNeighborSampler: for every choice stream on which the sampler returns, every sampled row is a
    subset of the row of size at most sample_size (and at most the degree), with unit weights. *)
Theorem sampler_subset (sample_size : nat) (A : smat) (choices : list (list nat)) (A' : smat) :
  sample_rows sample_size A choices = Ok A' ->
  Forall2 (fun r r' : srow =>
             length r' <= sample_size /\ length r' <= length r /\
             forall e, In e r' -> snd e = 1%Q /\ exists e0, In e0 r /\ fst e0 = fst e) A A'.
Proof. exact (sampler_subset_explicit sample_size A choices A'). Qed.
Print Assumptions sampler_subset.

(** _compute_predictions: one label per node, below the output dimension (a single channel counts as the two
    classes 0/1); with several channels the label is an arg-max of the row. *)
Theorem predictions_in_range (output : dmat) (o : nat) :
  1 <= o -> (forall row, In row output -> length row = o) ->
  length (compute_predictions output) = length output /\
  (forall y, In y (compute_predictions output) -> y < Nat.max o 2) /\
  (forall row, In row output -> 2 <= o ->
     predict_row row < o /\ forall x, In x row -> (x <= nthq row (predict_row row))%Q).
Proof. exact (GnnProofs.predictions_in_range output o). Qed.
Print Assumptions predictions_in_range.

(** Softmax / cross-entropy output layer: probability rows sum to 1 (for a positive exp oracle). *)
Theorem probability_rows_sum_1 (sqrtf expf : Q -> Q) (L : layer) (A : smat) (F : feats) :
  (l_act L = Softmax \/ l_act L = CrossEntropyLoss) -> 1 <= l_out L -> (forall x, 0 < expf x)%Q ->
  forall row, In row (forward sqrtf expf L A F) -> length row = l_out L /\ (sumq row == 1)%Q.
Proof. exact (probability_rows sqrtf expf L A F). Qed.
Print Assumptions probability_rows_sum_1.

(** ... which is necessary: a multi-channel BinaryCrossEntropy output layer (independent sigmoids) has rows
    that do not sum to 1. *)
Theorem probability_rows_bce_multi_refuted :
  exists (expf : Q -> Q) (L : layer) (A : smat) (F : feats),
    (forall x, 0 < expf x)%Q /\ l_act L = BinaryCrossEntropyLoss /\ l_out L = 3 /\
    exists row, In row (forward (fun x => x) expf L A F) /\ ~ (sumq row == 1)%Q.
Proof. exact GnnProofs.probability_rows_bce_multi_refuted. Qed.
Print Assumptions probability_rows_bce_multi_refuted.

(** predict_proba returns the output unchanged when there are at least two channels ... *)
Theorem predict_proba_multi (output : dmat) (o : nat) :
  2 <= o -> (forall row, In row output -> length row = o) -> predict_proba output = output.
Proof. exact (GnnProofs.predict_proba_multi output o). Qed.
Print Assumptions predict_proba_multi.

(** ... and for a single channel the two columns (1 - p, p): probability rows summing to 1. *)
Theorem predict_proba_single (output : dmat) :
  (forall row, In row output -> length row = 1) ->
  length (predict_proba output) = length output /\
  forall i, i < length output ->
    exists p, nth i output [] = (p :: nil) /\ nth i (predict_proba output) [] = [(1 - p)%Q; p] /\
              (sumq (nth i (predict_proba output) []) == 1)%Q.
Proof. exact (GnnProofs.predict_proba_single output). Qed.
Print Assumptions predict_proba_single.

(** Legacy (before repo commit 166aefc2): np.vstack called with two positional arguments raised. *)
Theorem predict_proba_single_legacy_refuted :
  exists output : dmat,
    (forall row, In row output -> length row = 1) /\ output <> [] /\
    predict_proba_legacy output = Err TypeError.
Proof. exact GnnProofs.predict_proba_single_legacy_refuted. Qed.
Print Assumptions predict_proba_single_legacy_refuted.

(* =========================================================================================== *)
(** * Part II — derivatives over R *)
Local Open Scope R_scope.

(** ReLu.gradient(signal, direction) = d/d signal (relu(signal) * direction), away from the kink. *)
Theorem relu_grad (x dir : R) :
  x <> 0 -> is_derive (fun t => r_relu t * dir) x (r_relu_gradient x dir).
Proof. exact (GnnCalculus.relu_grad x dir). Qed.
Print Assumptions relu_grad.

Theorem sigmoid_grad (x dir : R) :
  is_derive (fun t => r_sigmoid t * dir) x (r_sigmoid_gradient x dir).
Proof. exact (GnnCalculus.sigmoid_grad x dir). Qed.
Print Assumptions sigmoid_grad.

Theorem softmax_rows_sum_1 (x : list R) : x <> nil -> r_sum (r_softmax_row x) = 1.
Proof. exact (GnnCalculus.softmax_rows_sum_1 x). Qed.
Print Assumptions softmax_rows_sum_1.

(** Softmax.gradient = Jacobian-transpose product: component k is d/d signal_k <softmax(signal), direction>. *)
Theorem softmax_jvp (x d : list R) (k : nat) :
  (k < length x)%nat -> length d = length x ->
  is_derive (fun t => r_dot (r_softmax_row (upd x k t)) d) (nth k x 0) (nth k (r_softmax_gradient x d) 0).
Proof. exact (GnnCalculus.softmax_jvp x d k). Qed.
Print Assumptions softmax_jvp.

(** CrossEntropy.loss_gradient = n * d(mean loss)/d signal[i][k], away from the clipping threshold eps. *)
Theorem ce_grad (eps : R) (S : list (list R)) (labels : list nat) (i k : nat) :
  length labels = length S -> (i < length S)%nat ->
  (k < length (nth i S nil))%nat -> (nth i labels 0%nat < length (nth i S nil))%nat ->
  eps < nth (nth i labels 0%nat) (r_softmax_row (nth i S nil)) 0 < 1 - eps ->
  is_derive (fun t => r_mean_loss (r_ce_loss_row eps) (upd S i (upd (nth i S nil) k t)) labels)
            (nth k (nth i S nil) 0)
            (nth k (r_ce_gradient (nth i S nil) (nth i labels 0%nat)) 0 / INR (length labels)).
Proof. exact (GnnCalculus.ce_grad eps S labels i k). Qed.
Print Assumptions ce_grad.

(** BinaryCrossEntropy.loss_gradient = n * d(mean loss)/d signal[i][0] for ONE output channel, labels in {0,1}. *)
Theorem bce_grad_single (eps x : R) (S : list (list R)) (labels : list nat) (i : nat) :
  length labels = length S -> (i < length S)%nat -> nth i S nil = (x :: nil) ->
  (nth i labels 0 = 0 \/ nth i labels 0 = 1)%nat ->
  eps < r_sigmoid x < 1 - eps ->
  is_derive (fun t => r_mean_loss (r_bce_loss_row eps) (upd S i (t :: nil)) labels) x
            (nth 0 (r_bce_gradient (nth i S nil) (nth i labels 0%nat)) 0 / INR (length labels)).
Proof. exact (GnnCalculus.bce_grad_single eps x S labels i). Qed.
Print Assumptions bce_grad_single.

(** BinaryCrossEntropy.loss_gradient = n * d(mean loss)/d signal[i][k] for SEVERAL output channels
    (one-hot form, repo commit 018b4674), away from the clipping threshold. *)
Theorem bce_grad_multi (eps : R) (S : list (list R)) (labels : list nat) (i k : nat) :
  length labels = length S -> (i < length S)%nat ->
  (2 <= length (nth i S nil))%nat -> (k < length (nth i S nil))%nat ->
  (nth i labels 0%nat < length (nth i S nil))%nat ->
  eps < r_sigmoid (nth k (nth i S nil) 0) < 1 - eps ->
  is_derive (fun t => r_mean_loss (r_bce_loss_row eps) (upd S i (upd (nth i S nil) k t)) labels)
            (nth k (nth i S nil) 0)
            (nth k (r_bce_gradient (nth i S nil) (nth i labels 0%nat)) 0 / INR (length labels)).
Proof. exact (GnnCalculus.bce_grad_multi eps S labels i k). Qed.
Print Assumptions bce_grad_multi.

(** Legacy D18 (before 018b4674): [(probs.T - labels).T] with several channels was NOT the derivative. *)
Theorem bce_grad_multi_legacy_refuted (eps : R) :
  0 < eps < 1 / 2 ->
  exists (x : list R) (y k : nat),
    (2 <= length x)%nat /\ (k < length x)%nat /\ (y < length x)%nat /\
    nth k (r_bce_gradient_legacy x y) 0 <> nth k (r_bce_gradient x y) 0 /\
    ~ is_derive (fun t => r_bce_loss_row eps (upd x k t) y) (nth k x 0) (nth k (r_bce_gradient_legacy x y) 0).
Proof. exact (GnnCalculus.bce_grad_multi_legacy_refuted eps). Qed.
Print Assumptions bce_grad_multi_legacy_refuted.

(* =========================================================================================== *)
(** * Part III — the same statements about the terms REGENERATED FROM THE PYTHON SOURCE

    [src_*] (Gen/NpGnn.v) are the bodies of the static methods of sknetwork/gnn/activation.py and loss.py translated
    on every run into the array-expression language of Model/NpExpr.v; [rdenote] is that language's NumPy semantics
    over R.  Each theorem evaluates the source terms on ARBITRARY input arrays and states the property about the
    result: the denotation of the gradient method is the derivative of (the denotation of) the output / loss method. *)
Local Open Scope R_scope.

Theorem source_relu_gradient_is_derivative (S D : list (list R)) (n k i j : nat) :
  ent S i j <> 0 ->
  exists fo fg,
    rdenote (env_s S n k) src_relu_output = Some (VM n k fo) /\
    rdenote (env_sd S D n k) src_relu_gradient = Some (VM n k fg) /\
    fo i j = r_relu (ent S i j) /\
    is_derive (fun t => r_relu t * ent D i j) (ent S i j) (fg i j).
Proof. exact (NpExprProofs.source_relu_gradient_is_derivative S D n k i j). Qed.
Print Assumptions source_relu_gradient_is_derivative.

Theorem source_sigmoid_gradient_is_derivative (S D : list (list R)) (n k i j : nat) :
  exists fo fg,
    rdenote (env_s S n k) src_sigmoid_output = Some (VM n k fo) /\
    rdenote (env_sd S D n k) src_sigmoid_gradient = Some (VM n k fg) /\
    fo i j = r_sigmoid (ent S i j) /\
    is_derive (fun t => r_sigmoid t * ent D i j) (ent S i j) (fg i j).
Proof. exact (NpExprProofs.source_sigmoid_gradient_is_derivative S D n k i j). Qed.
Print Assumptions source_sigmoid_gradient_is_derivative.

(** Softmax.output: every row is the softmax of the signal row and sums to 1. *)
Theorem source_softmax_output_rows (S : list (list R)) (n k : nat) :
  rect n k S -> (0 < k)%nat ->
  exists fo, rdenote (env_s S n k) src_softmax_output = Some (VM n k fo) /\
    forall i, (i < n)%nat ->
      (forall j, (j < k)%nat -> fo i j = nth j (r_softmax_row (nth i S nil)) 0) /\
      r_sum (r_softmax_row (nth i S nil)) = 1.
Proof. exact (NpExprProofs.source_softmax_output_rows S n k). Qed.
Print Assumptions source_softmax_output_rows.

(** Softmax.gradient(signal, direction)[i][j] = d/d signal[i][j] <softmax(signal[i]), direction[i]>. *)
Theorem source_softmax_gradient_is_jvp (S D : list (list R)) (n k i j : nat) :
  rect n k S -> rect n k D -> (i < n)%nat -> (j < k)%nat ->
  exists fg, rdenote (env_sd S D n k) src_softmax_gradient = Some (VM n k fg) /\
    is_derive (fun t => r_dot (r_softmax_row (upd (nth i S nil) j t)) (nth i D nil)) (ent S i j) (fg i j).
Proof. exact (NpExprProofs.source_softmax_gradient_is_jvp S D n k i j). Qed.
Print Assumptions source_softmax_gradient_is_jvp.

(** CrossEntropy: loss_gradient(signal, labels)[i][j] / n = d loss(signal, labels) / d signal[i][j], where BOTH sides are
    denotations of the source terms (the loss is re-evaluated on the perturbed signal), away from the clip at 1e-10. *)
Theorem source_ce_loss_gradient_is_derivative (S : list (list R)) (labels : list nat) (n k i j : nat) :
  rect n k S -> List.length labels = n -> labels_below k labels = true -> (i < n)%nat -> (j < k)%nat ->
  rlit 1 (-10) < nth (nth i labels 0%nat) (r_softmax_row (nth i S nil)) 0 < 1 - rlit 1 (-10) ->
  exists g L,
    rdenote (env_sl S labels n k) src_ce_loss_gradient = Some (VM n k g) /\
    (forall t, rdenote (env_sl (upd S i (upd (nth i S nil) j t)) labels n k) src_ce_loss = Some (VS (L t))) /\
    is_derive L (ent S i j) (g i j / INR n).
Proof. exact (NpExprProofs.source_ce_loss_gradient_is_derivative S labels n k i j). Qed.
Print Assumptions source_ce_loss_gradient_is_derivative.

(** BinaryCrossEntropy, one output channel, labels in {0,1}, away from the clip at 1e-15. *)
Theorem source_bce_loss_gradient_single_is_derivative (S : list (list R)) (labels : list nat) (n i : nat) (x : R) :
  rect n 1 S -> List.length labels = n -> (i < n)%nat -> nth i S nil = (x :: nil) ->
  (nth i labels 0 = 0 \/ nth i labels 0 = 1)%nat ->
  rlit 1 (-15) < r_sigmoid x < 1 - rlit 1 (-15) ->
  exists g L,
    rdenote (env_sl S labels n 1) src_bce_loss_gradient = Some (VM n 1 g) /\
    (forall t, rdenote (env_sl (upd S i (t :: nil)) labels n 1) src_bce_loss = Some (VS (L t))) /\
    is_derive L x (g i 0%nat / INR n).
Proof. exact (NpExprProofs.source_bce_loss_gradient_single_is_derivative S labels n i x). Qed.
Print Assumptions source_bce_loss_gradient_single_is_derivative.

(** BinaryCrossEntropy, several output channels (one-hot form). *)
Theorem source_bce_loss_gradient_multi_is_derivative (S : list (list R)) (labels : list nat) (n k i j : nat) :
  rect n k S -> List.length labels = n -> labels_below k labels = true -> (2 <= k)%nat ->
  (i < n)%nat -> (j < k)%nat ->
  rlit 1 (-15) < r_sigmoid (ent S i j) < 1 - rlit 1 (-15) ->
  exists g L,
    rdenote (env_sl S labels n k) src_bce_loss_gradient = Some (VM n k g) /\
    (forall t, rdenote (env_sl (upd S i (upd (nth i S nil) j t)) labels n k) src_bce_loss = Some (VS (L t))) /\
    is_derive L (ent S i j) (g i j / INR n).
Proof. exact (NpExprProofs.source_bce_loss_gradient_multi_is_derivative S labels n k i j). Qed.
Print Assumptions source_bce_loss_gradient_multi_is_derivative.

(** The hypotheses of the source theorems are met by a concrete 1 x 2 signal. *)
Example c19_nonvacuous_source :
  rect 1 2 ((0 :: 0 :: nil) :: nil) /\ labels_below 2 (0%nat :: nil) = true /\
  rlit 1 (-10) < nth 0 (r_softmax_row (0 :: 0 :: nil)) 0 < 1 - rlit 1 (-10).
Proof.
  split. { split; [reflexivity|]. intros [|i] Hi; [reflexivity|lia]. }
  split; [reflexivity|].
  unfold rlit, r_softmax_row, g_softmax_row, g_sum. cbn [map fold_right nth].
  rewrite exp_0. assert (H : 0 < powerRZ 10 (-10) < 1/4).
  { cbn. change (Pos.to_nat 10) with 10%nat. cbn [pow]. split; [apply Rinv_0_lt_compat; lra|].
    apply Rmult_lt_reg_l with (10*(10*(10*(10*(10*(10*(10*(10*(10*(10*1)))))))))); [lra|].
    rewrite Rinv_r by lra. lra. }
  lra.
Qed.

(* =========================================================================================== *)
(** * Non-vacuity *)
Local Open Scope nat_scope.

Definition ex_A : smat := [[(1, 1%Q); (2, 2%Q)]; []; [(0, 1%Q); (2, 1%Q)]].
Definition ex_F : feats := Sparse 2 [((0, 1%Q) :: nil); ((1, 3%Q) :: nil); [(0, 5%Q); (1, 6%Q)]].
Definition ex_L : layer :=
  {| l_norm := NRight; l_self := true; l_use_bias := true; l_act := Relu; l_out := 2;
     l_weight := [[1%Q; (-1)%Q]; [(1 # 2)%Q; 1%Q]]; l_bias := [(1 # 4)%Q; (-3)%Q] |}.
Definition idq (x : Q) : Q := x.

(** The hypotheses of forward_formula / forward_equivariant are met by a concrete weighted digraph with a
    zero-degree node and a self loop, sparse features and a non-trivial renumbering, and the model computes. *)
Example c19_nonvacuous_forward :
  wf_smat (length ex_A) ex_A /\ f_nrow ex_F = length ex_A /\ inverse_on (length ex_A) [2; 0; 1] [1; 2; 0] /\
  map (map Qred) (forward idq idq ex_L ex_A ex_F) = [[(37 # 4)%Q; 0%Q]; [(7 # 4)%Q; 0%Q]; [(151 # 12)%Q; 0%Q]] /\
  map (map Qred) (forward idq idq ex_L (perm_adj [2; 0; 1] [1; 2; 0] ex_A) (perm_feats [1; 2; 0] ex_F))
  = [[(7 # 4)%Q; 0%Q]; [(151 # 12)%Q; 0%Q]; [(37 # 4)%Q; 0%Q]].
Proof.
  split; [apply wf_smatb_ok; reflexivity|]. split; [reflexivity|].
  split; [apply inverse_onb_ok; reflexivity|]. split; vm_compute; reflexivity.
Qed.

(** The sampler returns on a concrete stream, and the result is a strict subset. *)
Example c19_nonvacuous_sampler :
  sample_rows 1 ex_A [[1; 0]; []; (0 :: nil)] = Ok [((2, 1%Q) :: nil); []; ((0, 1%Q) :: nil)].
Proof. reflexivity. Qed.

(** Predictions on a concrete output. *)
Example c19_nonvacuous_predictions :
  compute_predictions [[(1 # 4)%Q; (1 # 2)%Q; (1 # 4)%Q]; [(1 # 2)%Q; (1 # 2)%Q; 0%Q]] = [1; 0] /\
  compute_predictions [((3 # 4)%Q :: nil); ((1 # 2)%Q :: nil)] = [1; 0].
Proof. split; reflexivity. Qed.

(** The hypotheses of ce_grad / bce_grad_single / bce_grad_multi are met at signal 0 with eps = 1/4. *)
Example c19_nonvacuous_losses :
  (1 / 4 < nth 1 (r_softmax_row [0; 0]) 0 < 1 - 1 / 4)%R /\ (1 / 4 < r_sigmoid 0 < 1 - 1 / 4)%R /\
  (1 / 4 < r_sigmoid (nth 0 (nth 0 ([0; 0; 0]%R :: nil) nil) 0%R) < 1 - 1 / 4)%R.
Proof.
  split; [|split].
  - unfold r_softmax_row, g_softmax_row. cbn [map g_sum fold_right nth]. rewrite exp_0. lra.
  - unfold r_sigmoid, g_sigmoid. replace (0 - 0)%R with 0%R by ring. rewrite exp_0. lra.
  - cbn [nth]. unfold r_sigmoid, g_sigmoid. replace (0 - 0)%R with 0%R by ring. rewrite exp_0. lra.
Qed.

(* =========================================================================================== *)
(** * Part IV — the layer itself, REGENERATED FROM sknetwork/gnn/layer.py

    [src_conv_embedding_{left,right,both,none}] (Gen/NpConv.v) are the pre-activation embedding of Convolution.forward for
    the four normalisation branches (self_embeddings and use_bias read from the environment), translated on every run by
    harness/translators/npvec.py into the array language of Model/NpVec.v.  Over R, for EVERY adjacency, feature and weight
    matrix and bias (index functions), every normalisation and both options:
        embedding[i][c] = sum_k (sum_j Nbar_ij X_jk) W_kc (+ b_c).
    The layer output is the activation of this embedding (Part III covers the activations' own source terms). *)
From SKN Require Import Model.NpVec Gen.NpConv Proofs.NpVecProofs Proofs.NpConvProofs.
Local Open Scope R_scope.

Theorem source_conv_embedding (nm : cnorm) (se ub : bool) (n d o : nat) (A X W : nat -> nat -> R) (b : nat -> R) :
  exists f, rvdenote (env_conv n d o A X W b se ub) (src_of nm) = Some (WM n o f) /\
            forall i c, (i < n)%nat -> f i c = conv_spec nm se ub n d A X W b i c.
Proof. exact (NpConvProofs.source_conv_embedding nm se ub n d o A X W b). Qed.
Print Assumptions source_conv_embedding.

(** ... "so renumbering the nodes permutes the rows of the output": for EVERY permutation p of the n nodes
    ([perm_on n p]), the embedding computed from the renumbered graph (A' i j = A (p i) (p j)) and the renumbered feature rows
    (X' i = X (p i)) has at row i the row p i of the embedding of the original data, for every normalisation and both options. *)
From SKN Require Import Proofs.NpEquivariance.
Theorem source_conv_renumbering (nm : cnorm) (se ub : bool) (n d o : nat) (p : nat -> nat) (A X W : nat -> nat -> R) (b : nat -> R) :
  perm_on n p ->
  exists f' f,
    rvdenote (env_conv n d o (pmat p A) (fun i k => X (p i) k) W b se ub) (src_of nm) = Some (WM n o f') /\
    rvdenote (env_conv n d o A X W b se ub) (src_of nm) = Some (WM n o f) /\
    forall i c, (i < n)%nat -> f' i c = f (p i) c.
Proof. exact (NpEquivariance.source_conv_renumbering nm se ub n d o p A X W b). Qed.
Print Assumptions source_conv_renumbering.

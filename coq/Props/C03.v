(** C03 - A biadjacency matrix is treated exactly as its bipartite block adjacency (theorem side).
    Model/Format.v models the shared glue: [bipartite2undirected] / [bipartite2directed] (rows first),
    [get_adjacency] (decision expression), [get_values] / [stack_values] (seed addressing),
    [get_adjacency_values], [_split_vars] ([Format.split]) and the estimator skeleton [fit].
    What is NOT proved here: that a given estimator has the skeleton's shape and passes the flags it
    should (observed per estimator by the metamorphic harness).
    This file contains only statements closed by [exact] (one obligation over a generated term is
    closed by case analysis on booleans), their assumptions, and examples. *)
From SKN Require Import Gen.Routing.
From Coq Require Import Permutation Sorted.
From SKN Require Import Base.Util Model.Bfs Model.Format Proofs.BfsProofs Proofs.FormatProofs.

(** 9. The block matrix [[0, B], [B^T, 0]], row nodes first: entry (i, n_row + j) and entry
    (n_row + j, i) are B[i][j]; the two diagonal blocks are zero. *)
Theorem block_denotation (b : wmat) :
  let n_row := length (snd b) in
  let n_col := fst b in
  let a := snd (bipartite2undirected b) in
  fst (bipartite2undirected b) = n_row + n_col /\ length a = n_row + n_col /\
  (forall i j, i < n_row -> (entry a i (n_row + j) == entry (snd b) i j)%Q) /\
  (forall i j, j < n_col -> (entry a (n_row + j) i == entry (snd b) i j)%Q) /\
  (forall i i', i < n_row -> i' < n_row -> (entry a i i' == 0)%Q) /\
  (forall j j', j < n_col -> (entry a (n_row + j) (n_row + j') == 0)%Q).
Proof. exact (FormatProofs.block_denotation b). Qed.
Print Assumptions block_denotation.

(** [[0, B], [0, 0]]: the rows of the column nodes are empty. *)
Theorem block_directed_denotation (b : wmat) :
  let n_row := length (snd b) in
  let n_col := fst b in
  let a := snd (bipartite2directed b) in
  fst (bipartite2directed b) = n_row + n_col /\ length a = n_row + n_col /\
  (forall i j, i < n_row -> (entry a i (n_row + j) == entry (snd b) i j)%Q) /\
  (forall i i', i < n_row -> i' < n_row -> (entry a i i' == 0)%Q) /\
  (forall j k, (entry a (n_row + j) k == 0)%Q).
Proof. exact (FormatProofs.block_directed_denotation b). Qed.
Print Assumptions block_directed_denotation.

(** Pattern version: the same edge set as the block graph the path functions use (Model.Bfs). *)
Theorem block_pattern (b : wmat) :
  let g := pattern (snd (bipartite2undirected b)) in
  let g' := block_undirected (pattern_pmat b) in
  length g = length g' /\ forall u v, In v (row g u) <-> In v (row g' u).
Proof. exact (FormatProofs.block_pattern b). Qed.
Print Assumptions block_pattern.

(** The block matrix of rows in canonical format is in canonical format, and it is a square
    symmetric matrix, so that [get_adjacency] applied to it returns it unchanged. *)
Theorem block_sorted (b : wmat) :
  rows_sorted (snd b) -> rows_sorted (snd (bipartite2undirected b)).
Proof. exact (FormatProofs.block_sorted b). Qed.
Print Assumptions block_sorted.

Theorem block_symmetric (b : wmat) :
  wf_wmat b ->
  is_square (bipartite2undirected b) = true /\
  is_symmetric (snd (bipartite2undirected b)) = true.
Proof. exact (FormatProofs.block_symmetric b). Qed.
Print Assumptions block_symmetric.

(** 10. Seed addressing.  [seed_at v none default i] is what the argument says about node i:
    the array entry, the value of the LAST key i of a dict (else [default]), [none] for None. *)
Theorem stack_values_addresses (n_row n_col : nat) (vrow vcol : vals) (default : Q) (s : list Q) :
  stack_values n_row n_col vrow vcol default = Ok s ->
  let both_none := match vrow, vcol with VNone, VNone => true | _, _ => false end in
  length s = n_row + n_col /\
  (forall i, i < n_row ->
     nthq s i = seed_at vrow (if both_none then 1%Q else default) default i) /\
  (forall j, j < n_col -> nthq s (n_row + j) = seed_at vcol default default j).
Proof. exact (FormatProofs.stack_values_addresses n_row n_col vrow vcol default s). Qed.
Print Assumptions stack_values_addresses.

Theorem get_values_spec (n : nat) (v : vals) (default : Q) (l : list Q) :
  get_values n v default = Ok l ->
  length l = n /\ forall i, i < n -> nthq l i = seed_at v 1%Q default i.
Proof. exact (FormatProofs.get_values_spec n v default l). Qed.
Print Assumptions get_values_spec.

Theorem dict_get_present (d : list (nat * Q)) (i : nat) (x default : Q) :
  NoDup (map fst d) -> In (i, x) d -> dict_get d i default = x.
Proof. exact (FormatProofs.dict_get_present d i x default). Qed.
Print Assumptions dict_get_present.

Theorem dict_get_absent (d : list (nat * Q)) (i : nat) (default : Q) :
  ~ In i (map fst d) -> dict_get d i default = default.
Proof. exact (FormatProofs.dict_get_absent d i default). Qed.
Print Assumptions dict_get_absent.

Theorem stack_split_inverse (n_row n_col : nat) (vrow vcol : vals) (default : Q) (s : list Q) :
  stack_values n_row n_col vrow vcol default = Ok s ->
  exists r c,
    get_values n_row (fst (stack_defaults n_row n_col vrow vcol default)) default = Ok r /\
    get_values n_col (snd (stack_defaults n_row n_col vrow vcol default)) default = Ok c /\
    length r = n_row /\ length c = n_col /\ s = r ++ c /\ Format.split n_row s = (r, c).
Proof. exact (FormatProofs.stack_split_inverse n_row n_col vrow vcol default s). Qed.
Print Assumptions stack_split_inverse.

(** 11. get_adjacency: the bipartite treatment is chosen iff
    force_bipartite \/ not square \/ (not allow_directed /\ not symmetric), "symmetric" being a
    statement about the denotation; the result is then the block matrix, otherwise the input. *)
Theorem get_adjacency_decision (m : wmat) (allow_directed force_bipartite force_directed : bool) :
  let r := get_adjacency m allow_directed force_bipartite force_directed in
  (snd r = true <->
   force_bipartite = true \/ length (snd m) <> fst m \/
   (allow_directed = false /\ ~ forall i j, (entry (snd m) i j == entry (snd m) j i)%Q)) /\
  (snd r = true ->
   fst r = if force_directed then bipartite2directed m else bipartite2undirected m) /\
  (snd r = false -> fst r = m).
Proof. exact (FormatProofs.get_adjacency_decision m allow_directed force_bipartite force_directed). Qed.
Print Assumptions get_adjacency_decision.

Theorem is_symmetric_spec (rows : wrows) :
  is_symmetric rows = true <-> forall i j, (entry rows i j == entry rows j i)%Q.
Proof. exact (FormatProofs.is_symmetric_spec rows). Qed.
Print Assumptions is_symmetric_spec.

(** Obligation over the generated term (Gen/Routing.v, re-extracted from format.py on every run):
    the model's decision expression is the one in the source. *)
Theorem get_adjacency_decision_is_source (m : wmat) (allow_directed force_bipartite : bool) :
  bipartite_decision m allow_directed force_bipartite =
  adj_decision force_bipartite (is_square m) allow_directed (is_symmetric (snd m)).
Proof.
  unfold bipartite_decision, adj_decision.
  destruct force_bipartite, (is_square m), allow_directed, (is_symmetric (snd m)); reflexivity.
Qed.
Print Assumptions get_adjacency_decision_is_source.

(** 12. The pipeline.  True by construction of [fit_bip]: what the statement does is pin the
    addressing conventions down - x_row_ = first n_row entries, x_col_ = the remaining n_col entries
    of the core applied to the block adjacency (row nodes first) and the stacked seed vector. *)
Theorem bipartite_pipeline_eq (F : core) (b : wmat) (vrow vcol : vals) (default : Q)
        (r c : list Q) :
  fit_bip F b vrow vcol default = Ok (r, c) ->
  exists s, stack_values (length (snd b)) (fst b) vrow vcol default = Ok s /\
    let x := fit_sq F (bipartite2undirected b) s in
    (r, c) = Format.split (length (snd b)) x /\ r ++ c = x /\
    (length x = length (snd b) + fst b -> length r = length (snd b) /\ length c = fst b).
Proof. exact (FormatProofs.bipartite_pipeline_eq F b vrow vcol default r c). Qed.
Print Assumptions bipartite_pipeline_eq.

(** The same through the code path the estimators share ([get_adjacency_values], core,
    [_split_vars]) - this one has content: for ANY core F, whenever the skeleton chooses the bipartite
    treatment for B (rectangular, or square with force_bipartite, or because row / column seeds were
    given, or not symmetric with allow_directed = False), its row / column outputs are the two halves
    of what the SAME skeleton returns when it is handed the block adjacency as an ordinary graph with
    the stacked seeds - which it then recognises as square and symmetric and leaves alone. *)
Theorem fit_bipartite_eq_block (F : core) (b : wmat) (allow_directed force_bipartite : bool)
        (values vrow vcol : vals) (default : Q) (r c : list Q) :
  wf_wmat b ->
  fit F b allow_directed force_bipartite false values vrow vcol default = Ok (r, Some c) ->
  exists s,
    match values with
    | VNone => stack_values (length (snd b)) (fst b) vrow vcol default
    | _ => stack_values (length (snd b)) (fst b) values VNone default
    end = Ok s /\
    let x := F (snd (bipartite2undirected b)) s in
    fit F (bipartite2undirected b) allow_directed false false (VArr s) VNone VNone default
      = Ok (x, None) /\
    r = firstn (length (snd b)) x /\ c = skipn (length (snd b)) x.
Proof.
  exact (FormatProofs.fit_bipartite_eq_block F b allow_directed force_bipartite values vrow vcol
                                             default r c).
Qed.
Print Assumptions fit_bipartite_eq_block.

(** Non-vacuity: a 2x3 biadjacency matrix, dict seeds on rows, array seeds on columns. *)
Example c03_nonvacuous :
  let b : wmat := (3, [[(1, 2%Q)]; [(0, 3%Q); (2, 1%Q)]]) in
  let vr := VDict [(1, 5%Q)] in
  let vc := VArr [7; 8; 9]%Q in
  wf_wmat b /\
  bipartite2undirected b =
    (5, [[(3, 2%Q)]; [(2, 3%Q); (4, 1%Q)]; [(1, 3%Q)]; [(0, 2%Q)]; [(1, 1%Q)]]) /\
  bipartite2directed b = (5, [[(3, 2%Q)]; [(2, 3%Q); (4, 1%Q)]; []; []; []]) /\
  stack_values 2 3 vr vc (-1)%Q = Ok [-1; 5; 7; 8; 9]%Q /\
  stack_values 2 3 VNone VNone (-1)%Q = Ok [1; 1; -1; -1; -1]%Q /\
  stack_values 2 3 VNone vc (-1)%Q = Ok [-1; -1; 7; 8; 9]%Q /\
  get_values 3 (VDict [(1, 5%Q); (1, 6%Q)]) 0%Q = Ok [0; 6; 0]%Q /\
  fit_bip matvec b vr vc (-1)%Q = Ok ([16; 30]%Q, [15; -2; 5]%Q) /\
  fit matvec b true false false VNone vr vc (-1)%Q = Ok ([16; 30]%Q, Some [15; -2; 5]%Q) /\
  fit matvec (bipartite2undirected b) true false false (VArr [-1; 5; 7; 8; 9]%Q) VNone VNone (-1)%Q
    = Ok ([16; 30; 15; -2; 5]%Q, None) /\
  snd (get_adjacency b true false false) = true /\
  snd (get_adjacency (bipartite2undirected b) false false false) = false.
Proof.
  cbv zeta. split.
  - unfold wf_wmat, wf_rows. repeat constructor; simpl; lia.
  - repeat split; vm_compute; reflexivity.
Qed.

(** ------------------------------------------------------------------------------------------
    13. The statement instantiated for the REAL estimator models (Proofs/BipartiteInstances.v).

    Above, [fit_bipartite_eq_block] is about the generic skeleton [Format.fit].  Below, the same
    statement is proved for the faithful models of the individual entry points built for the other
    properties, each with its OWN bipartite front end: running the model on the biadjacency matrix B
    (rectangular, or square with force_bipartite, or with row / column arguments) and obtaining
    (r, Some c) implies that the same model run on the block adjacency, taken as an ordinary square
    graph on n_row + n_col nodes with the translated arguments as one vector and no force flag,
    returns (x, None) with r = firstn n_row x and c = skipn n_row x (the unsuffixed output is r).
    Each model's own block construction is (or denotes, entry by entry) the block matrix of item 9.
    Not covered (the models have no separable bipartite front end: they start from the adjacency
    and the label vector the front end produced): Propagation, DiffusionClassifier, the other
    classifiers; Louvain / Leiden (known divergence by design with modularity='dugue'). *)
From SKN Require Base.QMat Model.PageRank Model.Centrality Model.Diffusion Model.Structure Model.Cuts
     Model.Dendrogram Model.Paris Model.Hierarchy Model.Embedding.
From SKN Require Import Proofs.BipartiteInstances.
Set Warnings "-notation-overridden".

(** The block graph as an ordinary square pattern matrix; row source i is node i, column source j
    is node n_row + j. *)
Theorem sq_block_def (m : pmat) :
  sq_block m = {| p_ncol := p_nrow m + p_ncol m; p_rows := block_undirected m |}.
Proof. exact (BipartiteInstances.sq_block_unfold m). Qed.
Print Assumptions sq_block_def.

Theorem stack_sources_def (n_row : nat) (source_row source_col : option (list nat)) :
  stack_sources n_row source_row source_col
  = match source_row with Some s => s | None => [] end
    ++ map (fun j => n_row + j) (match source_col with Some s => s | None => [] end).
Proof. exact (BipartiteInstances.stack_sources_unfold n_row source_row source_col). Qed.
Print Assumptions stack_sources_def.

(** 13.1 get_distances (Model/Bfs.v, the model C10 is about): distances on B with source /
    source_row / source_col (and force_bipartite, and transpose) are the distances on the block graph
    from the sources i and n_row + j, split at n_row. *)
Theorem distances_bipartite_eq_block (m0 : pmat) (source source_row source_col : option (list nat))
        (transpose_flag force_bipartite : bool) (r c : list Z) :
  get_distances m0 source source_row source_col transpose_flag force_bipartite = Ok (r, Some c) ->
  let m := if transpose_flag then transpose m0 else m0 in
  let rows := match source with Some s => Some s | None => source_row end in
  exists x,
    get_distances (sq_block m) (Some (stack_sources (p_nrow m) rows source_col)) None None false false
      = Ok (x, None) /\
    r = firstn (p_nrow m) x /\ c = skipn (p_nrow m) x /\ length x = p_nrow m + p_ncol m.
Proof.
  exact (BipartiteInstances.distances_bipartite_eq_block m0 source source_row source_col
                                                        transpose_flag force_bipartite r c).
Qed.
Print Assumptions distances_bipartite_eq_block.

(** The same against the block matrix of item 9 ([bipartite2undirected] of a weighted matrix): same
    edge set as the block graph of the pattern ([block_pattern]), hence the same distances
    ([bfs_row_order_irrelevant]). *)
Theorem distances_bipartite_eq_format_block (b : wmat) (source source_row source_col : option (list nat))
        (force_bipartite : bool) (r c : list Z) :
  get_distances (pattern_pmat b) source source_row source_col false force_bipartite = Ok (r, Some c) ->
  let n_row := length (snd b) in
  let rows := match source with Some s => Some s | None => source_row end in
  exists x,
    get_distances {| p_ncol := fst (bipartite2undirected b);
                     p_rows := pattern (snd (bipartite2undirected b)) |}
                  (Some (stack_sources n_row rows source_col)) None None false false
      = Ok (x, None) /\
    r = firstn n_row x /\ c = skipn n_row x /\ length x = n_row + fst b.
Proof.
  exact (BipartiteInstances.distances_bipartite_eq_format_block b source source_row source_col
                                                               force_bipartite r c).
Qed.
Print Assumptions distances_bipartite_eq_format_block.

(** 13.2 get_shortest_path: the very same DAG (as a list of rows) whenever the bipartite treatment is
    chosen for B.  [fb_to_force] is the call-site binding of force_bipartite (Gen/Routing.v: true;
    the transpose flag is not bound by the call site: false, see C10.shortest_path_routing). *)
Theorem shortest_path_bipartite_eq_block (fb_to_force : bool) (m : pmat)
        (source source_row source_col : option (list nat)) (force_bipartite : bool) (dag : graph) :
  match source_row, source_col with None, None => fb_to_force && force_bipartite | _, _ => true end
  || negb (Nat.eqb (p_nrow m) (p_ncol m)) = true ->
  get_shortest_path false fb_to_force m source source_row source_col force_bipartite = Ok dag ->
  let rows := match source with Some s => Some s | None => source_row end in
  get_shortest_path false fb_to_force (sq_block m)
                    (Some (stack_sources (p_nrow m) rows source_col)) None None false = Ok dag.
Proof.
  exact (BipartiteInstances.shortest_path_bipartite_eq_block fb_to_force m source source_row source_col
                                                            force_bipartite dag).
Qed.
Print Assumptions shortest_path_bipartite_eq_block.

(** Seeds: the estimator models' own get_values / stack_values are Format's (item 10 applies to
    them), under the obvious translation of their seed arguments. *)
Theorem pr_vals_def :
  pr_vals None = VNone /\
  (forall l, pr_vals (Some (PageRank.SArray l)) = VArr l) /\
  (forall d, pr_vals (Some (PageRank.SDict d)) = VDict d).
Proof. exact BipartiteInstances.pr_vals_unfold. Qed.
Print Assumptions pr_vals_def.

Theorem df_vals_def :
  df_vals None = VNone /\
  (forall l, df_vals (Some (Diffusion.SArray l)) = VArr l) /\
  (forall l, df_vals (Some (Diffusion.SList l)) = VArr l) /\
  (forall d, df_vals (Some (Diffusion.SDict d)) = VDict d).
Proof. exact BipartiteInstances.df_vals_unfold. Qed.
Print Assumptions df_vals_def.

Theorem pagerank_stack_values_is_format (n_row n_col : nat) (vr vc : option PageRank.seedsrc)
        (default : Q) (s : list Q) :
  PageRank.stack_values n_row n_col vr vc default = PageRank.Ok s ->
  stack_values n_row n_col (pr_vals vr) (pr_vals vc) default = Ok s.
Proof. exact (BipartiteInstances.pr_stack_values_format n_row n_col vr vc default s). Qed.
Print Assumptions pagerank_stack_values_is_format.

Theorem diffusion_stack_values_is_format (n_row n_col : nat) (vr vc : option Diffusion.seedsrc)
        (default : Q) (s : list Q) :
  Diffusion.stack_values n_row n_col vr vc default = Diffusion.Ok s ->
  stack_values n_row n_col (df_vals vr) (df_vals vc) default = Ok s.
Proof. exact (BipartiteInstances.df_stack_values_format n_row n_col vr vc default s). Qed.
Print Assumptions diffusion_stack_values_is_format.

(** The models' own block constructions are literally Format's. *)
Theorem pagerank_block_is_format (n_col : nat) (rows : list (list (nat * Q))) :
  PageRank.block_undirected n_col rows = snd (bipartite2undirected (n_col, rows)).
Proof. exact (BipartiteInstances.pr_block_is_format n_col rows). Qed.
Print Assumptions pagerank_block_is_format.

Theorem diffusion_block_is_format (m : Diffusion.wmat) :
  Diffusion.block_undirected m = snd (bipartite2undirected (Diffusion.w_ncol m, Diffusion.w_rows m)).
Proof. exact (BipartiteInstances.df_block_is_format m). Qed.
Print Assumptions diffusion_block_is_format.

(** 13.3 PageRank.fit (Model/PageRank.v, the model C11 is about; all six solvers, the answers of
    bicgstab / ARPACK / argsort being the same oracle arguments on both sides): weights_row /
    weights_col (or weights) on B = the stacked vector s as [weights] on the block adjacency; both
    sides normalise it to probabilities ([to_probs]). *)
Theorem pagerank_bipartite_eq_block (n_col : nat) (rows : PageRank.wgraph) (force_bipartite : bool)
        (values vrow vcol : option PageRank.seedsrc)
        (alpha : Q) (n_iter : nat) (tol : Q) (sv : PageRank.solver) (oracle : list Q) (order : list nat)
        (r c : list Q) :
  match vrow, vcol with None, None => force_bipartite | _, _ => true end
  || negb (Nat.eqb (length rows) n_col) = true ->
  PageRank.pagerank_fit n_col rows force_bipartite values vrow vcol alpha n_iter tol sv oracle order
    = PageRank.Ok (Some (r, c)) ->
  exists s x,
    match values with
    | None => PageRank.stack_values (length rows) n_col vrow vcol 0%Q
    | Some _ => PageRank.stack_values (length rows) n_col values None 0%Q
    end = PageRank.Ok s /\
    match values with
    | None => stack_values (length rows) n_col (pr_vals vrow) (pr_vals vcol) 0%Q
    | Some _ => stack_values (length rows) n_col (pr_vals values) VNone 0%Q
    end = Ok s /\
    PageRank.pagerank_fit (length rows + n_col) (snd (bipartite2undirected (n_col, rows))) false
                          (Some (PageRank.SArray s)) None None alpha n_iter tol sv oracle order
      = PageRank.Ok (Some (x, [])) /\
    r = firstn (length rows) x /\ c = skipn (length rows) x.
Proof.
  exact (BipartiteInstances.pagerank_bipartite_eq_block n_col rows force_bipartite values vrow vcol
                                                       alpha n_iter tol sv oracle order r c).
Qed.
Print Assumptions pagerank_bipartite_eq_block.

(** 13.4 Diffusion.fit and Dirichlet.fit (Model/Diffusion.v, the model C12 is about): values_row /
    values_col (default -1 = "not a seed") on B = the stacked vector on the block adjacency. *)
Theorem diffusion_bipartite_eq_block (n_iter : nat) (alpha : Q) (m : Diffusion.wmat)
        (values vrow vcol : option Diffusion.seedsrc) (init : option Q) (force_bipartite : bool)
        (v r c : list Q) :
  Diffusion.diffusion_fit n_iter alpha m values vrow vcol init force_bipartite
    = Diffusion.Ok (v, Some (r, c)) ->
  exists s x,
    match values with
    | None => Diffusion.stack_values (Diffusion.w_nrow m) (Diffusion.w_ncol m) vrow vcol (-1)%Q
    | Some _ => Diffusion.stack_values (Diffusion.w_nrow m) (Diffusion.w_ncol m) values None (-1)%Q
    end = Diffusion.Ok s /\
    match values with
    | None => stack_values (Diffusion.w_nrow m) (Diffusion.w_ncol m) (df_vals vrow) (df_vals vcol) (-1)%Q
    | Some _ => stack_values (Diffusion.w_nrow m) (Diffusion.w_ncol m) (df_vals values) VNone (-1)%Q
    end = Ok s /\
    Diffusion.diffusion_fit n_iter alpha
      {| Diffusion.w_ncol := Diffusion.w_nrow m + Diffusion.w_ncol m;
         Diffusion.w_rows := Diffusion.block_undirected m |}
      (Some (Diffusion.SArray s)) None None init false
      = Diffusion.Ok (x, None) /\
    v = r /\ r = firstn (Diffusion.w_nrow m) x /\ c = skipn (Diffusion.w_nrow m) x.
Proof.
  exact (BipartiteInstances.diffusion_bipartite_eq_block n_iter alpha m values vrow vcol init
                                                        force_bipartite v r c).
Qed.
Print Assumptions diffusion_bipartite_eq_block.

Theorem dirichlet_bipartite_eq_block (n_iter : nat) (m : Diffusion.wmat)
        (values vrow vcol : option Diffusion.seedsrc) (init : option Q) (force_bipartite : bool)
        (v r c : list Q) :
  Diffusion.dirichlet_fit n_iter m values vrow vcol init force_bipartite
    = Diffusion.Ok (v, Some (r, c)) ->
  exists s x,
    match values with
    | None => Diffusion.stack_values (Diffusion.w_nrow m) (Diffusion.w_ncol m) vrow vcol (-1)%Q
    | Some _ => Diffusion.stack_values (Diffusion.w_nrow m) (Diffusion.w_ncol m) values None (-1)%Q
    end = Diffusion.Ok s /\
    match values with
    | None => stack_values (Diffusion.w_nrow m) (Diffusion.w_ncol m) (df_vals vrow) (df_vals vcol) (-1)%Q
    | Some _ => stack_values (Diffusion.w_nrow m) (Diffusion.w_ncol m) (df_vals values) VNone (-1)%Q
    end = Ok s /\
    Diffusion.dirichlet_fit n_iter
      {| Diffusion.w_ncol := Diffusion.w_nrow m + Diffusion.w_ncol m;
         Diffusion.w_rows := Diffusion.block_undirected m |}
      (Some (Diffusion.SArray s)) None None init false
      = Diffusion.Ok (x, None) /\
    v = r /\ r = firstn (Diffusion.w_nrow m) x /\ c = skipn (Diffusion.w_nrow m) x.
Proof.
  exact (BipartiteInstances.dirichlet_bipartite_eq_block n_iter m values vrow vcol init
                                                        force_bipartite v r c).
Qed.
Print Assumptions dirichlet_bipartite_eq_block.

(** 13.5 Katz.fit.  Model/Centrality.v models the core of Katz ([katz]); the four lines of katz.py
    around it (get_adjacency with its defaults, core, _split_vars) are [katz_fit], over Format's
    get_adjacency. *)
Theorem katz_fit_def (m : wmat) (alpha : Q) (K : nat) :
  katz_fit m alpha K =
  let scores := Centrality.katz (snd (fst (get_adjacency m true false false))) alpha K in
  if snd (get_adjacency m true false false)
  then (firstn (length (snd m)) scores, Some (skipn (length (snd m)) scores))
  else (scores, None).
Proof. exact (BipartiteInstances.katz_fit_unfold m alpha K). Qed.
Print Assumptions katz_fit_def.

Theorem katz_bipartite_eq_block (b : wmat) (alpha : Q) (K : nat) (r c : list Q) :
  katz_fit b alpha K = (r, Some c) ->
  let x := Centrality.katz (snd (bipartite2undirected b)) alpha K in
  katz_fit (bipartite2undirected b) alpha K = (x, None) /\
  r = firstn (length (snd b)) x /\ c = skipn (length (snd b)) x.
Proof. exact (BipartiteInstances.katz_bipartite_eq_block b alpha K r c). Qed.
Print Assumptions katz_bipartite_eq_block.

(** 13.6 get_connected_components / is_connected (Model/Structure.v, the model C09 is about; SciPy's
    connected_components is the oracle [comp]): with the bipartite treatment the oracle is asked
    about the block graph, the very graph it is asked about when the block graph is passed as an
    ordinary square matrix; the labels (rows first, not split by these functions) and the verdict are
    the same. *)
Theorem components_bipartite_eq_block (m : pmat) (fb : bool) :
  snd (Structure.get_adjacency m fb) = true ->
  Structure.cc_adjacency m fb = block_undirected m /\
  Structure.get_adjacency (sq_block m) false = (block_undirected m, false) /\
  (forall comp, Structure.get_connected_components (sq_block m) false comp
                = Structure.get_connected_components m fb comp) /\
  (forall comp, Structure.is_connected (sq_block m) false comp = Structure.is_connected m fb comp) /\
  (forall strong comp,
      Structure.components_contract (Structure.cc_adjacency (sq_block m) false) strong comp <->
      Structure.components_contract (Structure.cc_adjacency m fb) strong comp).
Proof. exact (BipartiteInstances.components_bipartite_eq_block m fb). Qed.
Print Assumptions components_bipartite_eq_block.

(** get_largest_connected_component: the same nodes are selected (column j under its block number
    n_row + j), and the sub-matrix selected on the block graph is the block graph of the sub-matrix
    selected on B (same rows as sets: BFS and get_dag cannot tell them apart). *)
Theorem largest_component_bipartite_index (m : pmat) (fb : bool) (comp : list nat)
        (out : pmat) (index : list nat) :
  snd (Structure.get_adjacency m fb) = true ->
  length comp = p_nrow m + p_ncol m ->
  Structure.get_largest_connected_component m fb comp = Ok (out, index) ->
  exists index_row index_col,
    index = index_row ++ index_col /\
    out = Structure.submatrix m index_row index_col /\
    let index' := index_row ++ map (fun j => p_nrow m + j) index_col in
    Structure.get_largest_connected_component (sq_block m) false comp
    = Ok (Structure.submatrix (sq_block m) index' index', index').
Proof. exact (BipartiteInstances.largest_component_bipartite_index m fb comp out index). Qed.
Print Assumptions largest_component_bipartite_index.

Theorem largest_component_bipartite_matrix (m : pmat) (index_row index_col : list nat) :
  (forall i, In i index_row -> i < p_nrow m) ->
  (forall j, In j index_col -> j < p_ncol m) ->
  let index' := index_row ++ map (fun j => p_nrow m + j) index_col in
  length (p_rows (Structure.submatrix (sq_block m) index' index'))
  = length (block_undirected (Structure.submatrix m index_row index_col)) /\
  forall u v, In v (row (p_rows (Structure.submatrix (sq_block m) index' index')) u) <->
              In v (row (block_undirected (Structure.submatrix m index_row index_col)) u).
Proof. exact (BipartiteInstances.largest_component_bipartite_matrix m index_row index_col). Qed.
Print Assumptions largest_component_bipartite_matrix.

(** 13.7 Paris.fit on a biadjacency matrix (Model/Paris.v + Model/Hierarchy.v, the models C07 is
    about): dendrogram_full_ of B is dendrogram_ of the block adjacency (same merges, same margin and
    tie counters), dendrogram_row_ / dendrogram_col_ are its split_dendrogram.  Paris's own block
    construction (COO triples) denotes [[0, B], [B^T, 0]] with rows first, in Paris's own entry
    function; and, for B given as CSR rows, the same matrix as [bipartite2undirected]. *)
Theorem paris_bipartite_eq_block (R : Paris.rounding) (hinf : Q) (degree reorder : bool) (n1 n2 : nat)
        (B : Paris.entries) (D Dr Dc : Dendrogram.dendrogram) :
  Paris.paris_fit_bipartite R hinf degree reorder n1 n2 B = Some (Cuts.Ok (D, Dr, Dc)) ->
  exists margin ties,
    Paris.paris_fit R hinf degree reorder (n1 + n2) (Paris.biadj_block n1 B)
      = Some (Cuts.Ok (D, margin, ties)) /\
    Hierarchy.split_dendrogram D n1 n2 = Cuts.Ok (Dr, Dc).
Proof. exact (BipartiteInstances.paris_bipartite_eq_block R hinf degree reorder n1 n2 B D Dr Dc). Qed.
Print Assumptions paris_bipartite_eq_block.

Theorem paris_block_denotation (n1 : nat) (B : Paris.entries) :
  (forall e, In e B -> Paris.e_i e < n1) ->
  (forall i j, i < n1 -> Paris.entry (Paris.biadj_block n1 B) i (n1 + j) = Paris.entry B i j) /\
  (forall i j, i < n1 -> Paris.entry (Paris.biadj_block n1 B) (n1 + j) i = Paris.entry B i j) /\
  (forall i i', i < n1 -> i' < n1 -> Paris.entry (Paris.biadj_block n1 B) i i' = 0%Q) /\
  (forall j j', Paris.entry (Paris.biadj_block n1 B) (n1 + j) (n1 + j') = 0%Q).
Proof. exact (BipartiteInstances.paris_block_denotation n1 B). Qed.
Print Assumptions paris_block_denotation.

Theorem coo_of_def (rows : wrows) :
  coo_of rows
  = flat_map (fun i => map (fun e : nat * Q => (i, fst e, snd e)) (nth i rows [])) (seq 0 (length rows)).
Proof. exact (BipartiteInstances.coo_of_unfold rows). Qed.
Print Assumptions coo_of_def.

Theorem paris_block_is_format_block (b : wmat) (u v : nat) :
  u < length (snd b) + fst b -> v < length (snd b) + fst b ->
  (Paris.entry (Paris.biadj_block (length (snd b)) (coo_of (snd b))) u v
   == entry (snd (bipartite2undirected b)) u v)%Q.
Proof. exact (BipartiteInstances.paris_block_is_format_block b u v). Qed.
Print Assumptions paris_block_is_format_block.

(** 13.8 Spectral.fit's front end (Model/Embedding.v, dense matrices; the model C13 is about):
    Embedding's block construction denotes the block matrix, is symmetric, and is left alone by
    get_adjacency (allow_directed = False) when handed back as an ordinary graph; the eigensolver
    wrapper sees the same matrix on both sides, and _split_vars cuts the embedding at n_row. *)
Theorem spectral_block_denotation (nrow ncol : nat) (B : list (list Q)) :
  QMat.wf_mat nrow ncol B ->
  let A := Embedding.block_undirected nrow ncol B in
  QMat.wf_mat (nrow + ncol) (nrow + ncol) A /\
  (forall i j, i < nrow -> j < ncol -> QMat.mget A i (nrow + j) = QMat.mget B i j) /\
  (forall i j, i < nrow -> j < ncol -> QMat.mget A (nrow + j) i = QMat.mget B i j) /\
  (forall i i', i < nrow -> i' < nrow -> QMat.mget A i i' = 0%Q) /\
  (forall j j', j < ncol -> j' < ncol -> QMat.mget A (nrow + j) (nrow + j') = 0%Q).
Proof. exact (BipartiteInstances.emb_block_entries nrow ncol B). Qed.
Print Assumptions spectral_block_denotation.

Theorem spectral_front_end_eq_block (allow_directed force_bipartite : bool) (nrow ncol : nat)
        (B : list (list Q)) :
  QMat.wf_mat nrow ncol B ->
  snd (Embedding.get_adjacency allow_directed force_bipartite nrow ncol B) = true ->
  let A := Embedding.block_undirected nrow ncol B in
  fst (Embedding.get_adjacency allow_directed force_bipartite nrow ncol B) = A /\
  Embedding.get_adjacency allow_directed false (nrow + ncol) (nrow + ncol) A = (A, false) /\
  (forall sqrt_o norm_o rw normalized reg sv sV argsort evals evecs emb,
      Embedding.spectral_fit sqrt_o norm_o rw normalized
        (fst (Embedding.get_adjacency allow_directed force_bipartite nrow ncol B)) reg sv sV argsort
        = (evals, evecs, emb) ->
      Embedding.spectral_fit sqrt_o norm_o rw normalized
        (fst (Embedding.get_adjacency allow_directed false (nrow + ncol) (nrow + ncol) A)) reg sv sV argsort
        = (evals, evecs, emb) /\
      Embedding.split_vars nrow emb = (firstn nrow emb, skipn nrow emb)).
Proof.
  exact (BipartiteInstances.spectral_front_end_eq_block allow_directed force_bipartite nrow ncol B).
Qed.
Print Assumptions spectral_front_end_eq_block.

(** Non-vacuity of the instances: a 2x3 biadjacency matrix with a row and a column argument, and a
    square one with force_bipartite; both sides computed by the models. *)
Example c03_instances_nonvacuous :
  let B : pmat := {| p_ncol := 3; p_rows := [[1]; [0; 2]] |} in
  let S : pmat := {| p_ncol := 2; p_rows := [[1]; [0]] |} in
  let W : list (list (nat * Q)) := [[(1, 2%Q)]; [(0, 3%Q); (2, 1%Q)]] in
  let M : Diffusion.wmat := {| Diffusion.w_ncol := 3; Diffusion.w_rows := W |} in
  let MB : Diffusion.wmat := {| Diffusion.w_ncol := 5; Diffusion.w_rows := Diffusion.block_undirected M |} in
  get_distances B None (Some [0]) (Some [2]) false false = Ok ([0; 1]%Z, Some [2; 1; 0]%Z) /\
  stack_sources 2 (Some [0]) (Some [2]) = [0; 4] /\
  get_distances (sq_block B) (Some [0; 4]) None None false false = Ok ([0; 1; 2; 1; 0]%Z, None) /\
  get_distances S (Some [0]) None None false true = Ok ([0; -1]%Z, Some [-1; 1]%Z) /\
  get_distances (sq_block S) (Some [0]) None None false false = Ok ([0; -1; -1; 1]%Z, None) /\
  get_shortest_path false true B None (Some [0]) (Some [2]) false = Ok [[3]; [2]; []; []; [1]] /\
  get_shortest_path false true (sq_block B) (Some [0; 4]) None None false = Ok [[3]; [2]; []; []; [1]] /\
  PageRank.pagerank_fit 3 W false None (Some (PageRank.SDict [(1, 1%Q)])) (Some (PageRank.SArray [0; 0; 2]%Q))
                        (85 # 100)%Q 3 0%Q PageRank.Piteration [] []
  = PageRank.Ok (Some ([0; 13933 # 24000]%Q, [7667 # 32000; 0; 17267 # 96000]%Q)) /\
  PageRank.pagerank_fit 5 (snd (bipartite2undirected (3, W))) false (Some (PageRank.SArray [0; 1; 0; 0; 2]%Q))
                        None None (85 # 100)%Q 3 0%Q PageRank.Piteration [] []
  = PageRank.Ok (Some ([0; 13933 # 24000; 7667 # 32000; 0; 17267 # 96000]%Q, [])) /\
  Diffusion.dirichlet_fit 2 M None (Some (Diffusion.SDict [(1, 1%Q)])) (Some (Diffusion.SArray [-1; -1; 0]%Q))
                          None false
  = Diffusion.Ok ([1 # 2; 1]%Q, Some ([1 # 2; 1]%Q, [1; 1 # 2; 0]%Q)) /\
  Diffusion.dirichlet_fit 2 MB (Some (Diffusion.SArray [-1; 1; -1; -1; 0]%Q)) None None None false
  = Diffusion.Ok ([1 # 2; 1; 1; 1 # 2; 0]%Q, None) /\
  Diffusion.diffusion_fit 2 (1 # 2)%Q M None (Some (Diffusion.SDict [(1, 1%Q)]))
                          (Some (Diffusion.SArray [-1; -1; 0]%Q)) None false
  = Diffusion.Ok ([1 # 2; 11 # 16]%Q, Some ([1 # 2; 11 # 16]%Q, [23 # 32; 1 # 2; 19 # 32]%Q)) /\
  Diffusion.diffusion_fit 2 (1 # 2)%Q MB (Some (Diffusion.SArray [-1; 1; -1; -1; 0]%Q)) None None None false
  = Diffusion.Ok ([1 # 2; 11 # 16; 23 # 32; 1 # 2; 19 # 32]%Q, None) /\
  katz_fit (3, W) (1 # 2)%Q 3 = ([7 # 8; 2]%Q, Some [5 # 4; 7 # 8; 5 # 4]%Q) /\
  katz_fit (bipartite2undirected (3, W)) (1 # 2)%Q 3 = ([7 # 8; 2; 5 # 4; 7 # 8; 5 # 4]%Q, None) /\
  Structure.get_largest_connected_component B false [0; 0; 0; 0; 0]
  = Ok ({| p_ncol := 3; p_rows := [[1]; [0; 2]] |}, [0; 1; 0; 1; 2]) /\
  Structure.get_largest_connected_component (sq_block B) false [0; 0; 0; 0; 0]
  = Ok ({| p_ncol := 5; p_rows := [[3]; [2; 4]; [1]; [0]; [1]] |}, [0; 1; 2; 3; 4]) /\
  Paris.paris_fit_bipartite Paris.exact 100%Q true true 2 3 (coo_of W)
  = Some (Cuts.Ok ([(3, 0, (1 # 6)%Q, 2); (2, 1, (1 # 3)%Q, 2); (6, 4, (7 # 12)%Q, 3); (7, 5, 100%Q, 5)],
                   [(1, 0, 100%Q, 2)], [(0, 2, (7 # 12)%Q, 2); (3, 1, 100%Q, 3)])).
Proof. cbv zeta. repeat split; vm_compute; reflexivity. Qed.

(** * SOURCE LEVEL — the seed glue of utils/values.py and utils/format.py, regenerated on every run

    [src_get_values], [src_stack_values] and [src_adjacency_values_core] are statements of the small imperative Python of
    Model/PyImp.v produced by harness/translators/pyimp.py from the current text of get_values, stack_values and of the statement
    of get_adjacency_values that computes [values] (callees inlined, their locals renamed).  [embVals] embeds a seed argument
    (None / array or list / dict) into Python values.  For EVERY shape, seed argument and default value, running the text gives
    exactly the vector (or the ValueError / IndexError) of the functional model used by all the theorems above, so the
    addressing "row seed i at i, column seed j at n_row + j, the default value exactly elsewhere" is a statement about the
    source text.  A Python list and a 1-D array are the same value in this semantics; the [which] post-processing and the call
    of get_adjacency are pinned as reviewed text. *)
From SKN Require Import Model.PyImp Gen.PyValues Proofs.PyCutsProofs Proofs.PyValuesProofs.
From Coq Require Import String.
Local Open Scope string_scope.

Theorem source_get_values_is_model n rest v default (e0 : env) :
  e0 "shape" = Some (VList (vnat n :: rest)) -> e0 "values" = Some (embVals v) ->
  e0 "default_value" = Some (VNum default) ->
  match Format.get_values n v default with
  | Bfs.Ok l => exists e', exec src_get_values e0 = POk e' /\ e' "return" = Some (VList (map VNum l))
  | Bfs.Err er => exec src_get_values e0 = PErr (convF er)
  end.
Proof. exact (src_get_values_is_model n rest v default e0). Qed.
Print Assumptions source_get_values_is_model.

Theorem source_stack_values_is_model n_row n_col vrow vcol default (e0 : env) :
  e0 "shape" = Some (VList [vnat n_row; vnat n_col]) -> e0 "values_row" = Some (embVals vrow) ->
  e0 "values_col" = Some (embVals vcol) -> e0 "default_value" = Some (VNum default) ->
  match Format.stack_values n_row n_col vrow vcol default with
  | Bfs.Ok l => exists e', exec src_stack_values e0 = POk e' /\ e' "return" = Some (VList (map VNum l))
  | Bfs.Err er => exec src_stack_values e0 = PErr (convF er)
  end.
Proof. exact (src_stack_values_is_model n_row n_col vrow vcol default e0). Qed.
Print Assumptions source_stack_values_is_model.

Theorem source_stack_values_addresses n_row n_col vrow vcol default s (e0 : env) :
  e0 "shape" = Some (VList [vnat n_row; vnat n_col]) -> e0 "values_row" = Some (embVals vrow) ->
  e0 "values_col" = Some (embVals vcol) -> e0 "default_value" = Some (VNum default) ->
  Format.stack_values n_row n_col vrow vcol default = Bfs.Ok s ->
  exists e', exec src_stack_values e0 = POk e' /\ e' "return" = Some (VList (map VNum s)) /\
    let both_none := match vrow, vcol with Format.VNone, Format.VNone => true | _, _ => false end in
    List.length s = n_row + n_col /\
    (forall i, i < n_row -> nthq s i = Format.seed_at vrow (if both_none then 1%Q else default) default i) /\
    (forall j, j < n_col -> nthq s (n_row + j) = Format.seed_at vcol default default j).
Proof. exact (src_stack_values_addresses n_row n_col vrow vcol default s e0). Qed.
Print Assumptions source_stack_values_addresses.

(** [values_model] is the vector of the model's get_adjacency_values given the decision [bipartite] of get_adjacency
    ([model_adjacency_values_unfold]); the text computes it. *)
Theorem source_adjacency_values_core_is_model bipartite n_row n_col values values_row values_col default (e0 : env) :
  e0 "bipartite" = Some (VBool bipartite) -> e0 "input_matrix.shape" = Some (VList [vnat n_row; vnat n_col]) ->
  e0 "values" = Some (embVals values) -> e0 "values_row" = Some (embVals values_row) ->
  e0 "values_col" = Some (embVals values_col) -> e0 "default_value" = Some (VNum default) ->
  match values_model bipartite n_row n_col values values_row values_col default with
  | Bfs.Ok l => exists e', exec src_adjacency_values_core e0 = POk e' /\ e' "values" = Some (VList (map VNum l))
  | Bfs.Err er => exec src_adjacency_values_core e0 = PErr (convF er)
  end.
Proof. exact (src_adjacency_values_core_is_model bipartite n_row n_col values values_row values_col default e0). Qed.
Print Assumptions source_adjacency_values_core_is_model.

Theorem model_adjacency_values_unfold m ad fb fd values values_row values_col default :
  Format.get_adjacency_values m ad fb fd values values_row values_col default =
  let fb' := match values_row, values_col with Format.VNone, Format.VNone => fb | _, _ => true end in
  let ab := Format.get_adjacency m ad fb' fd in
  match values_model (snd ab) (List.length (snd m)) (fst m) values values_row values_col default with
  | Bfs.Err e => Bfs.Err e
  | Bfs.Ok v => Bfs.Ok (fst ab, v, snd ab)
  end.
Proof. exact (get_adjacency_values_unfold m ad fb fd values values_row values_col default). Qed.
Print Assumptions model_adjacency_values_unfold.

Theorem source_values_untranslated_reviewed :
  src_get_values_params = ["shape"; "values"; "default_value"] /\
  src_stack_values_params = ["shape"; "values_row"; "values_col"; "default_value"] /\
  src_adjacency_values_params = ["input_matrix"; "allow_directed"; "force_bipartite"; "force_directed"; "values";
                                 "values_row"; "values_col"; "default_value"; "which"] /\
  src_adjacency_values_before =
    ["input_matrix = check_format(input_matrix)";
     "if values_row is not None or values_col is not None:
    force_bipartite = True";
     "adjacency, bipartite = get_adjacency(input_matrix, allow_directed=allow_directed, force_bipartite=force_bipartite, force_directed=force_directed)"] /\
  src_adjacency_values_after =
    ["if which == 'probs':
    if values.sum() > 0:
        values /= values.sum()
elif which == 'labels':
    if len(set(values[values >= 0])) == 1:
        values = np.arange(len(values))";
     "return (adjacency, values, bipartite)"].
Proof. exact values_untranslated_reviewed. Qed.
Print Assumptions source_values_untranslated_reviewed.

(** Non-vacuity: the generated statements run inside Coq on a 2 x 3 shape with dict seeds on the rows (given out of order) and
    an array on the columns. *)
Example c03_source_nonvacuous :
  run_var src_stack_values [("shape", VList [vnat 2; vnat 3]);
                            ("values_row", embVals (Format.VDict [(1, 5%Q); (0, 2%Q)]));
                            ("values_col", embVals (Format.VArr [7%Q; 0%Q; 1%Q])); ("default_value", VNum (-1)%Q)] "return"
    = POk (Some (VList (map VNum [2%Q; 5%Q; 7%Q; 0%Q; 1%Q]))) /\
  run_var src_adjacency_values_core [("bipartite", VBool true); ("input_matrix.shape", VList [vnat 2; vnat 3]);
                            ("values", PyImp.VNone); ("values_row", PyImp.VNone);
                            ("values_col", embVals (Format.VDict [(2, 4%Q)])); ("default_value", VNum 0%Q)] "values"
    = POk (Some (VList (map VNum [0%Q; 0%Q; 0%Q; 0%Q; 4%Q]))) /\
  run_var src_get_values [("shape", VList [vnat 2]); ("values", embVals (Format.VDict [(3, 1%Q)])); ("default_value", VNum 0%Q)] "return"
    = PErr PIndexError.
Proof. repeat split; vm_compute; reflexivity. Qed.

(** C03 - A biadjacency matrix is treated exactly as its bipartite block adjacency (theorem side).
    Model/Format.v models the shared glue: [bipartite2undirected] / [bipartite2directed] (rows first),
    [get_adjacency] (decision expression), [get_values] / [stack_values] (seed addressing),
    [get_adjacency_values], [_split_vars] ([Format.split]) and the estimator skeleton [fit].
    What is NOT proved here: that a given estimator has the skeleton's shape and passes the flags it
    should (observed per estimator by the metamorphic harness).
    This file contains only statements closed by [exact] (one obligation over a generated term is
    closed by case analysis on booleans), their assumptions, and examples. *)
From SKN Require Import Gen.Routing.
From Coq Require Import Permutation Sorted.
From SKN Require Import Base.Util Model.Bfs Model.Format Proofs.BfsProofs Proofs.FormatProofs.

(** 9. The block matrix [[0, B], [B^T, 0]], row nodes first: entry (i, n_row + j) and entry
    (n_row + j, i) are B[i][j]; the two diagonal blocks are zero. *)
Theorem block_denotation (b : wmat) :
  let n_row := length (snd b) in
  let n_col := fst b in
  let a := snd (bipartite2undirected b) in
  fst (bipartite2undirected b) = n_row + n_col /\ length a = n_row + n_col /\
  (forall i j, i < n_row -> (entry a i (n_row + j) == entry (snd b) i j)%Q) /\
  (forall i j, j < n_col -> (entry a (n_row + j) i == entry (snd b) i j)%Q) /\
  (forall i i', i < n_row -> i' < n_row -> (entry a i i' == 0)%Q) /\
  (forall j j', j < n_col -> (entry a (n_row + j) (n_row + j') == 0)%Q).
Proof. exact (FormatProofs.block_denotation b). Qed.
Print Assumptions block_denotation.

(** [[0, B], [0, 0]]: the rows of the column nodes are empty. *)
Theorem block_directed_denotation (b : wmat) :
  let n_row := length (snd b) in
  let n_col := fst b in
  let a := snd (bipartite2directed b) in
  fst (bipartite2directed b) = n_row + n_col /\ length a = n_row + n_col /\
  (forall i j, i < n_row -> (entry a i (n_row + j) == entry (snd b) i j)%Q) /\
  (forall i i', i < n_row -> i' < n_row -> (entry a i i' == 0)%Q) /\
  (forall j k, (entry a (n_row + j) k == 0)%Q).
Proof. exact (FormatProofs.block_directed_denotation b). Qed.
Print Assumptions block_directed_denotation.

(** Pattern version: the same edge set as the block graph the path functions use (Model.Bfs). *)
Theorem block_pattern (b : wmat) :
  let g := pattern (snd (bipartite2undirected b)) in
  let g' := block_undirected (pattern_pmat b) in
  length g = length g' /\ forall u v, In v (row g u) <-> In v (row g' u).
Proof. exact (FormatProofs.block_pattern b). Qed.
Print Assumptions block_pattern.

(** The block matrix of rows in canonical format is in canonical format, and it is a square
    symmetric matrix, so that [get_adjacency] applied to it returns it unchanged. *)
Theorem block_sorted (b : wmat) :
  rows_sorted (snd b) -> rows_sorted (snd (bipartite2undirected b)).
Proof. exact (FormatProofs.block_sorted b). Qed.
Print Assumptions block_sorted.

Theorem block_symmetric (b : wmat) :
  wf_wmat b ->
  is_square (bipartite2undirected b) = true /\
  is_symmetric (snd (bipartite2undirected b)) = true.
Proof. exact (FormatProofs.block_symmetric b). Qed.
Print Assumptions block_symmetric.

(** 10. Seed addressing.  [seed_at v none default i] is what the argument says about node i:
    the array entry, the value of the LAST key i of a dict (else [default]), [none] for None. *)
Theorem stack_values_addresses (n_row n_col : nat) (vrow vcol : vals) (default : Q) (s : list Q) :
  stack_values n_row n_col vrow vcol default = Ok s ->
  let both_none := match vrow, vcol with VNone, VNone => true | _, _ => false end in
  length s = n_row + n_col /\
  (forall i, i < n_row ->
     nthq s i = seed_at vrow (if both_none then 1%Q else default) default i) /\
  (forall j, j < n_col -> nthq s (n_row + j) = seed_at vcol default default j).
Proof. exact (FormatProofs.stack_values_addresses n_row n_col vrow vcol default s). Qed.
Print Assumptions stack_values_addresses.

Theorem get_values_spec (n : nat) (v : vals) (default : Q) (l : list Q) :
  get_values n v default = Ok l ->
  length l = n /\ forall i, i < n -> nthq l i = seed_at v 1%Q default i.
Proof. exact (FormatProofs.get_values_spec n v default l). Qed.
Print Assumptions get_values_spec.

Theorem dict_get_present (d : list (nat * Q)) (i : nat) (x default : Q) :
  NoDup (map fst d) -> In (i, x) d -> dict_get d i default = x.
Proof. exact (FormatProofs.dict_get_present d i x default). Qed.
Print Assumptions dict_get_present.

Theorem dict_get_absent (d : list (nat * Q)) (i : nat) (default : Q) :
  ~ In i (map fst d) -> dict_get d i default = default.
Proof. exact (FormatProofs.dict_get_absent d i default). Qed.
Print Assumptions dict_get_absent.

Theorem stack_split_inverse (n_row n_col : nat) (vrow vcol : vals) (default : Q) (s : list Q) :
  stack_values n_row n_col vrow vcol default = Ok s ->
  exists r c,
    get_values n_row (fst (stack_defaults n_row n_col vrow vcol default)) default = Ok r /\
    get_values n_col (snd (stack_defaults n_row n_col vrow vcol default)) default = Ok c /\
    length r = n_row /\ length c = n_col /\ s = r ++ c /\ Format.split n_row s = (r, c).
Proof. exact (FormatProofs.stack_split_inverse n_row n_col vrow vcol default s). Qed.
Print Assumptions stack_split_inverse.

(** 11. get_adjacency: the bipartite treatment is chosen iff
    force_bipartite \/ not square \/ (not allow_directed /\ not symmetric), "symmetric" being a
    statement about the denotation; the result is then the block matrix, otherwise the input. *)
Theorem get_adjacency_decision (m : wmat) (allow_directed force_bipartite force_directed : bool) :
  let r := get_adjacency m allow_directed force_bipartite force_directed in
  (snd r = true <->
   force_bipartite = true \/ length (snd m) <> fst m \/
   (allow_directed = false /\ ~ forall i j, (entry (snd m) i j == entry (snd m) j i)%Q)) /\
  (snd r = true ->
   fst r = if force_directed then bipartite2directed m else bipartite2undirected m) /\
  (snd r = false -> fst r = m).
Proof. exact (FormatProofs.get_adjacency_decision m allow_directed force_bipartite force_directed). Qed.
Print Assumptions get_adjacency_decision.

Theorem is_symmetric_spec (rows : wrows) :
  is_symmetric rows = true <-> forall i j, (entry rows i j == entry rows j i)%Q.
Proof. exact (FormatProofs.is_symmetric_spec rows). Qed.
Print Assumptions is_symmetric_spec.

(** Obligation over the generated term (Gen/Routing.v, re-extracted from format.py on every run):
    the model's decision expression is the one in the source. *)
Theorem get_adjacency_decision_is_source (m : wmat) (allow_directed force_bipartite : bool) :
  bipartite_decision m allow_directed force_bipartite =
  adj_decision force_bipartite (is_square m) allow_directed (is_symmetric (snd m)).
Proof.
  unfold bipartite_decision, adj_decision.
  destruct force_bipartite, (is_square m), allow_directed, (is_symmetric (snd m)); reflexivity.
Qed.
Print Assumptions get_adjacency_decision_is_source.

(** 12. The pipeline.  True by construction of [fit_bip]: what the statement does is pin the
    addressing conventions down - x_row_ = first n_row entries, x_col_ = the remaining n_col entries
    of the core applied to the block adjacency (row nodes first) and the stacked seed vector. *)
Theorem bipartite_pipeline_eq (F : core) (b : wmat) (vrow vcol : vals) (default : Q)
        (r c : list Q) :
  fit_bip F b vrow vcol default = Ok (r, c) ->
  exists s, stack_values (length (snd b)) (fst b) vrow vcol default = Ok s /\
    let x := fit_sq F (bipartite2undirected b) s in
    (r, c) = Format.split (length (snd b)) x /\ r ++ c = x /\
    (length x = length (snd b) + fst b -> length r = length (snd b) /\ length c = fst b).
Proof. exact (FormatProofs.bipartite_pipeline_eq F b vrow vcol default r c). Qed.
Print Assumptions bipartite_pipeline_eq.

(** The same through the code path the estimators share ([get_adjacency_values], core,
    [_split_vars]) - this one has content: for ANY core F, whenever the skeleton chooses the bipartite
    treatment for B (rectangular, or square with force_bipartite, or because row / column seeds were
    given, or not symmetric with allow_directed = False), its row / column outputs are the two halves
    of what the SAME skeleton returns when it is handed the block adjacency as an ordinary graph with
    the stacked seeds - which it then recognises as square and symmetric and leaves alone. *)
Theorem fit_bipartite_eq_block (F : core) (b : wmat) (allow_directed force_bipartite : bool)
        (values vrow vcol : vals) (default : Q) (r c : list Q) :
  wf_wmat b ->
  fit F b allow_directed force_bipartite false values vrow vcol default = Ok (r, Some c) ->
  exists s,
    match values with
    | VNone => stack_values (length (snd b)) (fst b) vrow vcol default
    | _ => stack_values (length (snd b)) (fst b) values VNone default
    end = Ok s /\
    let x := F (snd (bipartite2undirected b)) s in
    fit F (bipartite2undirected b) allow_directed false false (VArr s) VNone VNone default
      = Ok (x, None) /\
    r = firstn (length (snd b)) x /\ c = skipn (length (snd b)) x.
Proof.
  exact (FormatProofs.fit_bipartite_eq_block F b allow_directed force_bipartite values vrow vcol
                                             default r c).
Qed.
Print Assumptions fit_bipartite_eq_block.

(** Non-vacuity: a 2x3 biadjacency matrix, dict seeds on rows, array seeds on columns. *)
Example c03_nonvacuous :
  let b : wmat := (3, [[(1, 2%Q)]; [(0, 3%Q); (2, 1%Q)]]) in
  let vr := VDict [(1, 5%Q)] in
  let vc := VArr [7; 8; 9]%Q in
  wf_wmat b /\
  bipartite2undirected b =
    (5, [[(3, 2%Q)]; [(2, 3%Q); (4, 1%Q)]; [(1, 3%Q)]; [(0, 2%Q)]; [(1, 1%Q)]]) /\
  bipartite2directed b = (5, [[(3, 2%Q)]; [(2, 3%Q); (4, 1%Q)]; []; []; []]) /\
  stack_values 2 3 vr vc (-1)%Q = Ok [-1; 5; 7; 8; 9]%Q /\
  stack_values 2 3 VNone VNone (-1)%Q = Ok [1; 1; -1; -1; -1]%Q /\
  stack_values 2 3 VNone vc (-1)%Q = Ok [-1; -1; 7; 8; 9]%Q /\
  get_values 3 (VDict [(1, 5%Q); (1, 6%Q)]) 0%Q = Ok [0; 6; 0]%Q /\
  fit_bip matvec b vr vc (-1)%Q = Ok ([16; 30]%Q, [15; -2; 5]%Q) /\
  fit matvec b true false false VNone vr vc (-1)%Q = Ok ([16; 30]%Q, Some [15; -2; 5]%Q) /\
  fit matvec (bipartite2undirected b) true false false (VArr [-1; 5; 7; 8; 9]%Q) VNone VNone (-1)%Q
    = Ok ([16; 30; 15; -2; 5]%Q, None) /\
  snd (get_adjacency b true false false) = true /\
  snd (get_adjacency (bipartite2undirected b) false false false) = false.
Proof.
  cbv zeta. split.
  - unfold wf_wmat, wf_rows. repeat constructor; simpl; lia.
  - repeat split; vm_compute; reflexivity.
Qed.

(** C05 — Every clustering is a well-formed partition with consistent secondary outputs.
    This file contains only statements closed by [exact], their assumptions, and non-vacuity examples.
    Models: Model/Clustering.v (everything AROUND the optimisers; the kernels are C06's). *)
From Coq Require Import Permutation Sorted QArith.
From SKN Require Import Base.Util Model.Clustering Proofs.ClusteringProofs.

(** 1. postprocess.reindex_labels, for ANY answer of np.argsort that is a permutation sorting the
    negated counts (the default sort kind is not stable: ties between equal-size clusters are the
    oracle's): same partition as the input, labels exactly 0..k-1, sizes non-increasing in the label. *)
Theorem reindex_labels_spec (argsort : list Z -> list nat) (labels : list Z) :
  (let keys := map (fun c => (- Z.of_nat c)%Z) (unique_counts labels) in argsort_ok keys (argsort keys)) ->
  let out := reindex_labels argsort labels in
  let k := length (nodup Z.eq_dec labels) in
  length out = length labels /\
  (forall i j, i < length labels -> j < length labels ->
               (nthn out i = nthn out j <-> nthz labels i = nthz labels j)) /\
  (forall c, In c out <-> c < k) /\
  (forall a b, a <= b -> b < k -> count_occ Nat.eq_dec out b <= count_occ Nat.eq_dec out a).
Proof. exact (reindex_labels_spec_pf argsort labels). Qed.
Print Assumptions reindex_labels_spec.

(** 2. The compaction [np.unique(labels, return_inverse=True)[1]] (Louvain / Leiden levels,
    PropagationClustering): labels exactly 0..k-1, same partition. *)
Theorem unique_inverse_contiguous (labels : list Z) :
  let out := snd (unique_inverse labels) in
  let k := length (nodup Z.eq_dec labels) in
  length out = length labels /\
  (forall i j, i < length labels -> j < length labels ->
               (nthn out i = nthn out j <-> nthz labels i = nthz labels j)) /\
  (forall c, In c out <-> c < k).
Proof. exact (unique_inverse_contiguous_pf labels). Qed.
Print Assumptions unique_inverse_contiguous.

(** 3. Un-shuffling: node i of the shuffled graph is node index[i] of the input
    ([adjacency[index][:, index]]); the reported label of index[i] is the label computed for i.
    The output is a rearrangement of the computed labels (sizes and label set unchanged). *)
Theorem unshuffle_correct (index labels : list nat) :
  let n := length labels in
  Permutation index (seq 0 n) ->
  let out := unshuffle index labels in
  length out = n /\
  (forall i, i < n -> nthn out (nthn index i) = nthn labels i) /\
  Permutation out labels.
Proof. exact (unshuffle_correct_pf index labels). Qed.
Print Assumptions unshuffle_correct.

(** 3'. Louvain._post_processing as a whole (sort, then un-shuffle), for every flag combination:
    the reported labels induce the computed partition (read through the shuffle), use exactly
    0..k-1, and with sort_clusters the sizes are non-increasing in the label — also after un-shuffling. *)
Theorem post_processing_spec argsort (sort_clusters shuffle_nodes : bool) (index raw : list nat) :
  (sort_clusters = true ->
   let keys := map (fun c => (- Z.of_nat c)%Z) (unique_counts (map Z.of_nat raw)) in
   argsort_ok keys (argsort keys)) ->
  (shuffle_nodes = true -> Permutation index (seq 0 (length raw))) ->
  (sort_clusters = false -> exists k0, forall c, In c raw <-> c < k0) ->
  let n := length raw in
  let out := post_processing argsort sort_clusters shuffle_nodes index raw in
  let img i := if shuffle_nodes then nthn index i else i in
  length out = n /\
  (forall i j, i < n -> j < n -> (nthn out (img i) = nthn out (img j) <-> nthn raw i = nthn raw j)) /\
  exists k, (forall c, In c out <-> c < k) /\
            (sort_clusters = true ->
             forall a b, a <= b -> b < k -> count_occ Nat.eq_dec out b <= count_occ Nat.eq_dec out a).
Proof. exact (post_processing_pf argsort sort_clusters shuffle_nodes index raw). Qed.
Print Assumptions post_processing_spec.

(** 4. [membership = membership.dot(get_membership(labels))] level after level, then
    [membership.indices]: exactly one label per original node, the one obtained by following the
    levels; it is below the final number of clusters. *)
Theorem membership_composition_is_partition (n : nat) (levels : list (list Z)) (k : nat) (M : mat) :
  (forall lab, In lab levels -> forall l, In l lab -> (0 <= l)%Z) ->
  louvain_membership n levels = Ok (k, M) ->
  let labels := indices_of k M in
  labels = map (compose_fn levels) (seq 0 n) /\
  length labels = n /\
  forall v, v < n -> nthn labels v = compose_fn levels v /\ nthn labels v < k.
Proof. exact (membership_composition_pf n levels k M). Qed.
Print Assumptions membership_composition_is_partition.

(** 5. probs_ = normalize(A . membership): every row is non-negative and sums to 1, or to 0 exactly
    when the node has no outgoing weight (non-negative weights, labels >= 0). *)
Theorem probs_rows_sum (A : mat) (labels : list Z) (k : nat) (P G : mat) :
  secondary A labels = Ok (k, P, G) ->
  let n := length labels in
  (forall i j, i < n -> j < n -> (0 <= ent A i j)%Q) ->
  (forall l, In l labels -> (0 <= l)%Z) ->
  forall i, i < n ->
    (forall c, c < k -> (0 <= ent P i c)%Q) /\
    ((0 < row_sum n A i)%Q -> (row_sum k P i == 1)%Q) /\
    ((row_sum k P i == 0)%Q <-> (row_sum n A i == 0)%Q).
Proof. exact (probs_rows_sum_pf A labels k P G). Qed.
Print Assumptions probs_rows_sum.

(** 5'. Bipartite: probs_row_ = normalize(B . M_col), probs_col_ = normalize(B^T . M_row). *)
Theorem probs_rows_sum_bipartite (B : mat) (lrow lcol : list Z) (k : nat) (Pr Pc G : mat) :
  secondary_bip B lrow lcol = Ok (k, Pr, Pc, G) ->
  let nr := length lrow in
  let nc := length lcol in
  (forall i j, i < nr -> j < nc -> (0 <= ent B i j)%Q) ->
  (forall l, In l lrow -> (0 <= l)%Z) -> (forall l, In l lcol -> (0 <= l)%Z) ->
  (forall i, i < nr ->
     (forall c, c < k -> (0 <= ent Pr i c)%Q) /\
     ((0 < row_sum nc B i)%Q -> (row_sum k Pr i == 1)%Q) /\
     ((row_sum k Pr i == 0)%Q <-> (row_sum nc B i == 0)%Q)) /\
  (forall j, j < nc ->
     (forall c, c < k -> (0 <= ent Pc j c)%Q) /\
     ((0 < row_sum nr (mtrans nr nc B) j)%Q -> (row_sum k Pc j == 1)%Q) /\
     ((row_sum k Pc j == 0)%Q <-> (row_sum nr (mtrans nr nc B) j == 0)%Q)).
Proof. exact (probs_rows_sum_bip_pf B lrow lcol k Pr Pc G). Qed.
Print Assumptions probs_rows_sum_bipartite.

(** 6. aggregate_ = M^T (A M): entry (a,b) is the sum of A_ij over i in cluster a, j in cluster b
    (any weights, any labels: negative labels belong to no cluster)... *)
Theorem aggregate_is_block_sum (A : mat) (labels : list Z) (k : nat) (P G : mat) :
  secondary A labels = Ok (k, P, G) ->
  let n := length labels in
  forall a b, a < k -> b < k -> (ent G a b == block_sum n n A (nthz labels) (nthz labels) a b)%Q.
Proof. exact (aggregate_is_block_sum_pf A labels k P G). Qed.
Print Assumptions aggregate_is_block_sum.

(** ... and its total is the total edge weight when every node has a cluster. *)
Theorem aggregate_total_preserved (A : mat) (labels : list Z) (k : nat) (P G : mat) :
  secondary A labels = Ok (k, P, G) ->
  let n := length labels in
  (forall l, In l labels -> (0 <= l)%Z) ->
  (total k k G == total n n A)%Q.
Proof. exact (aggregate_total_preserved_pf A labels k P G). Qed.
Print Assumptions aggregate_total_preserved.

(** 6'. Bipartite: aggregate_ = (M_row^T B) M_col with one label space for rows and columns. *)
Theorem aggregate_bipartite (B : mat) (lrow lcol : list Z) (k : nat) (Pr Pc G : mat) :
  secondary_bip B lrow lcol = Ok (k, Pr, Pc, G) ->
  let nr := length lrow in
  let nc := length lcol in
  (forall a b, a < k -> b < k -> (ent G a b == block_sum nr nc B (nthz lrow) (nthz lcol) a b)%Q) /\
  ((forall l, In l lrow -> (0 <= l)%Z) -> (forall l, In l lcol -> (0 <= l)%Z) ->
   (total k k G == total nr nc B)%Q).
Proof. exact (aggregate_bip_pf B lrow lcol k Pr Pc G). Qed.
Print Assumptions aggregate_bipartite.

(** _split_vars: one label per row and per column; the union of the two label sets is the label set
    of the stacked vector (so rows and columns share 0..k-1, each side alone may skip labels). *)
Theorem split_vars_spec (n_row n_col : nat) (labels : list nat) :
  length labels = n_row + n_col ->
  let r := fst (split_vars n_row labels) in
  let c := snd (split_vars n_row labels) in
  length r = n_row /\ length c = n_col /\ r ++ c = labels /\
  (forall x, In x labels <-> In x r \/ In x c).
Proof. exact (split_vars_pf n_row n_col labels). Qed.
Print Assumptions split_vars_spec.

(** PropagationClustering after Propagation.fit: compaction, then reindex_labels under sort_clusters
    (since /repo 350bc655), then the split: same partition, labels exactly 0..k-1, and with
    sort_clusters sizes non-increasing in the label. *)
Theorem propagation_labels_spec argsort (sort_clusters bipartite : bool) (n_row : nat) (raw : list Z) :
  (sort_clusters = true ->
   let keys := map (fun c => (- Z.of_nat c)%Z) (unique_counts (map Z.of_nat (snd (unique_inverse raw)))) in
   argsort_ok keys (argsort keys)) ->
  let all := propagation_all argsort sort_clusters raw in
  let k := length (nodup Z.eq_dec raw) in
  length all = length raw /\
  (forall i j, i < length raw -> j < length raw -> (nthn all i = nthn all j <-> nthz raw i = nthz raw j)) /\
  (forall c, In c all <-> c < k) /\
  (sort_clusters = true ->
   forall a b, a <= b -> b < k -> count_occ Nat.eq_dec all b <= count_occ Nat.eq_dec all a) /\
  propagation_labels argsort sort_clusters bipartite n_row raw =
    if bipartite then (firstn n_row all, Some (firstn n_row all, skipn n_row all)) else (all, None).
Proof. exact (propagation_labels_pf argsort sort_clusters bipartite n_row raw). Qed.
Print Assumptions propagation_labels_spec.

(** LEGACY, repaired by /repo 350bc655: the model of the old fit (which never read sort_clusters)
    violates the size order.  Kept so that the defect's return is recognised by name. *)
Theorem legacy_propagation_sort_clusters_refuted :
  exists raw : list Z,
    let out := fst (legacy_propagation_labels true false 0 raw) in
    ~ (forall a b, a <= b -> b < 2 -> count_occ Nat.eq_dec out b <= count_occ Nat.eq_dec out a).
Proof. exact legacy_propagation_sort_clusters_refuted_pf. Qed.
Print Assumptions legacy_propagation_sort_clusters_refuted.

(** 7. KCenters, for EVERY random-choice stream within np.random.choice's contract (the draw is an
    element of the array it is given), every PageRank answer, every classifier score matrix and every
    modularity value: n_clusters distinct admissible centers; one label below n_clusters per node
    (per row and per column when bipartite); row / column centers as reported. *)
Theorem kcenters_centers_distinct_admissible
        bipartite pos n_row n_col k n_init max_iter ppr pick scores modularity out :
  (forall r, pick_ok (pick r)) ->
  kcenters_fit bipartite pos n_row n_col k n_init max_iter ppr pick scores modularity = Ok out ->
  length (kc_centers out) = k /\ NoDup (kc_centers out) /\
  (forall c, In c (kc_centers out) -> admissible bipartite pos n_row n_col c) /\
  (kc_centers_row out, kc_centers_col out) = report_centers bipartite pos n_row (kc_centers out).
Proof. exact (kcenters_centers_pf bipartite pos n_row n_col k n_init max_iter ppr pick scores modularity out). Qed.
Print Assumptions kcenters_centers_distinct_admissible.

Theorem kcenters_labels_below_k
        bipartite pos n_row n_col k n_init max_iter ppr pick scores modularity out :
  (forall r, pick_ok (pick r)) ->
  kcenters_fit bipartite pos n_row n_col k n_init max_iter ppr pick scores modularity = Ok out ->
  let n := if bipartite then n_row + n_col else n_row in
  exists lab, (length lab = n /\ forall l, In l lab -> (0 <= l < Z.of_nat k)%Z) /\
    if bipartite then kc_labels out = firstn n_row lab /\ kc_labels_row out = Some (firstn n_row lab) /\
                      kc_labels_col out = Some (skipn n_row lab)
    else kc_labels out = lab /\ kc_labels_row out = None /\ kc_labels_col out = None.
Proof. exact (kcenters_labels_pf bipartite pos n_row n_col k n_init max_iter ppr pick scores modularity out). Qed.
Print Assumptions kcenters_labels_below_k.

(** Reported centers_row_ / centers_col_ of a bipartite graph: distinct, in range, and together they
    are exactly the centers (columns re-based at 0). *)
Theorem kcenters_reported_centers pos n_row n_col centers :
  NoDup centers -> (forall c, In c centers -> admissible true pos n_row n_col c) ->
  match report_centers true pos n_row centers with
  | (cr, cc) =>
      let r := match cr with Some r => r | None => [] end in
      let c := match cc with Some c => c | None => [] end in
      NoDup r /\ NoDup c /\ (forall v, In v r -> v < n_row) /\ (forall v, In v c -> v < n_col) /\
      length r + length c = length centers /\
      (forall v, In v centers <-> (In v r /\ v < n_row) \/ (In (v - n_row) c /\ n_row <= v))
  end.
Proof. exact (report_centers_spec pos n_row n_col centers). Qed.
Print Assumptions kcenters_reported_centers.

(** The run-time check applied to every captured np.argsort answer implies the contract used above. *)
Theorem argsort_check_sound keys perm : argsort_ok_b keys perm = true -> argsort_ok keys perm.
Proof. exact (argsort_ok_b_sound keys perm). Qed.
Print Assumptions argsort_check_sound.

(** Non-vacuity on a concrete 5-node graph: two clusters {0,1} (edge 0-1, a self-loop on 0) and
    {2,3,4} (a triangle), one edge 1-2 between them, raw labels 7,7,3,3,3. *)
Definition ex_A : mat :=
  [[1;1;0;0;0]; [1;0;1;0;0]; [0;1;0;1;1]; [0;0;1;0;1]; [0;0;1;1;0]]%Q.
Definition ex_raw : list Z := [7; 7; 3; 3; 3]%Z.

Example c05_nonvacuous :
  (* the argsort contract is met by the reference argsort on the keys reindex_labels builds *)
  (let keys := map (fun c => (- Z.of_nat c)%Z) (unique_counts ex_raw) in argsort_ok keys (stable_argsort keys)) /\
  reindex_labels stable_argsort ex_raw = [1; 1; 0; 0; 0] /\
  snd (unique_inverse ex_raw) = [1; 1; 0; 0; 0] /\
  unshuffle [3; 0; 4; 1; 2] [0; 1; 0; 1; 0] = [1; 1; 0; 0; 0] /\
  (match louvain_membership 5 [[0; 0; 1; 2; 2]; [1; 0; 0]]%Z with
   | Ok (k, M) => k = 2 /\ indices_of k M = [1; 1; 0; 0; 0]
   | Err _ => False end) /\
  (match secondary ex_A [1; 1; 0; 0; 0]%Z with
   | Ok (k, P, G) => k = 2 /\ map (map Qred) P = [[0; 1]; [1 # 2; 1 # 2]; [2 # 3; 1 # 3]; [1; 0]; [1; 0]]%Q /\
                     map (map Qred) G = [[6; 1]; [1; 3]]%Q /\ Qred (total 5 5 ex_A) = 11%Q
   | Err _ => False end) /\
  (* KCenters on B = 2 x 3, center_position = "col", 2 clusters, choices = first candidate *)
  pick_ok (fun _ c => hd 0 c) /\
  (match kcenters_fit true PCol 2 3 2 1 20 (fun _ _ => [1; 1; 1; 0; 1]%Q) (fun _ _ c => hd 0 c)
                      (fun _ _ => [[1; 0]; [0; 1]; [1; 0]; [0; 1]; [1; 1]]%Q) (fun _ _ => 0%Q) with
   | Ok out => kc_centers out = [2; 3] /\ kc_centers_col out = Some [0; 1] /\
               kc_labels_row out = Some [0; 1]%Z /\ kc_labels_col out = Some [0; 1; 0]%Z
   | Err _ => False end).
Proof.
  split; [apply argsort_check_sound; vm_compute; reflexivity|].
  split; [vm_compute; reflexivity|]. split; [vm_compute; reflexivity|]. split; [vm_compute; reflexivity|].
  split; [vm_compute; split; reflexivity|].
  split; [vm_compute; repeat split; reflexivity|].
  split.
  - intros s c Hc. destruct c as [|a t]; [contradiction | left; reflexivity].
  - vm_compute. repeat split; reflexivity.
Qed.

(** 8. Leiden._aggregate_refine, the LABEL step (Model/Leiden.v, Proofs/LeidenProofs.v):
      [labels_ = membership_refined.T.tocsr().dot(membership).indices].
    The product has one row per refined cluster; [.indices] is a vector with one entry per refined cluster
    only when every row has exactly one stored entry. Under the contract of the refinement kernel
    (refined clusters are subsets of coarse clusters) and np.unique's compaction (every refined label is
    used: [np_unique_refined_labels_used] below) the coded step is well defined and correct: [out] has
    exactly one entry per refined cluster, entry r is the coarse label shared by ALL the members of r, and
    it is below the number of coarse clusters. *)
From SKN Require Import Model.Leiden Proofs.LeidenProofs.
Set Warnings "-notation-overridden". (* keep: a line with a parenthesis after the imports *)

Theorem aggregate_refine_labels_correct (labels refined : list Z) (kr kc : nat) (out : list nat) :
  (forall l, In l labels -> (0 <= l)%Z) -> (forall l, In l refined -> (0 <= l)%Z) ->
  let n := length labels in
  (forall x y, x < n -> y < n -> nthz refined x = nthz refined y -> nthz labels x = nthz labels y) ->
  (forall r, r < kr -> In (Z.of_nat r) refined) ->
  aggregate_refine_labels labels refined = Ok (kr, kc, out) ->
  length refined = n /\
  out = map (coarse_label_of labels refined) (seq 0 kr) /\
  length out = kr /\
  (forall v, v < n -> Z.to_nat (nthz refined v) < kr /\
                      nthn out (Z.to_nat (nthz refined v)) = Z.to_nat (nthz labels v)) /\
  (forall r, r < kr -> nthn out r < kc).
Proof. exact (aggregate_refine_labels_correct_pf labels refined kr kc out). Qed.
Print Assumptions aggregate_refine_labels_correct.

(** [labels_refined] is np.unique's inverse index in Leiden.fit: non-negative, every label used. *)
Theorem np_unique_refined_labels_used (raw : list Z) (kr : nat) (Mr : mat) :
  let refined := map Z.of_nat (snd (unique_inverse raw)) in
  get_membership refined None = Ok (kr, Mr) ->
  (forall l, In l refined -> (0 <= l)%Z) /\ (forall r, r < kr -> In (Z.of_nat r) refined).
Proof. exact (np_unique_all_labels_used raw kr Mr). Qed.
Print Assumptions np_unique_refined_labels_used.

(** One label per node across aggregation levels, Leiden case. Following the levels, then
    [labels_refined] (the membership composed when the loop continues) and the coded coarse labels of the
    aggregated nodes, gives the same label as following the levels and then the coarse labels of the
    level itself (the membership composed by the [stop] branch, [labels_original]): the coarse partition
    of the aggregated graph IS the coarse partition of the original nodes. With theorem 4 this is the
    label reported for every original node. *)
Theorem leiden_membership_composition (levels : list (list Z)) (labels refined : list Z) (kr kc : nat)
        (out : list nat) (v : nat) :
  (forall l, In l labels -> (0 <= l)%Z) -> (forall l, In l refined -> (0 <= l)%Z) ->
  let n := length labels in
  (forall x y, x < n -> y < n -> nthz refined x = nthz refined y -> nthz labels x = nthz labels y) ->
  (forall r, r < kr -> In (Z.of_nat r) refined) ->
  aggregate_refine_labels labels refined = Ok (kr, kc, out) ->
  compose_fn levels v < n ->
  compose_fn (levels ++ [refined]) v < kr /\
  compose_fn (levels ++ [refined; map Z.of_nat out]) v = compose_fn (levels ++ [labels]) v.
Proof. exact (leiden_composition_pf levels labels refined kr kc out v). Qed.
Print Assumptions leiden_membership_composition.

(** Non-vacuity: 6 nodes, coarse labels 1,1,0,0,1,2, refined labels 0,3,1,1,0,2 (four refined clusters
    inside three coarse ones): labels_ = [1; 0; 2; 1] (the value scipy returns). Without the contract
    (refined cluster 0 = {0,1,2} meets the coarse clusters 1 and 0) [.indices] has 5 entries for 3
    aggregated nodes: the hypothesis cannot be dropped. *)
Example c05_leiden_nonvacuous :
  aggregate_refine_labels [1; 1; 0; 0; 1; 2]%Z [0; 3; 1; 1; 0; 2]%Z = Ok (4, 3, [1; 0; 2; 1]) /\
  (forall x y, x < 6 -> y < 6 -> nthz [0; 3; 1; 1; 0; 2]%Z x = nthz [0; 3; 1; 1; 0; 2]%Z y ->
               nthz [1; 1; 0; 0; 1; 2]%Z x = nthz [1; 1; 0; 0; 1; 2]%Z y) /\
  (forall r, r < 4 -> In (Z.of_nat r) [0; 3; 1; 1; 0; 2]%Z) /\
  aggregate_refine_labels [1; 1; 0; 0; 1; 2]%Z [0; 0; 0; 1; 1; 2]%Z = Ok (3, 3, [0; 1; 0; 1; 2]).
Proof.
  split; [vm_compute; reflexivity|]. split; [|split; [|vm_compute; reflexivity]].
  - intros x y Hx Hy.
    do 6 (destruct x as [|x]; [do 6 (destruct y as [|y]; [vm_compute; congruence|]); lia|]). lia.
  - intros r Hr. do 4 (destruct r as [|r]; [vm_compute; tauto|]). lia.
Qed.

(* =========================================================================================== *)
(** * Secondary outputs as REGENERATED FROM sknetwork/clustering/base.py

    [src_secondary_*] (Gen/NpSecondary.v) are the expressions that BaseClustering._secondary_outputs assigns to [probs_],
    [aggregate_] (square case) and to [probs_row_], [probs_col_], [aggregate_] (bipartite case), translated on every run
    by harness/translators/npvec.py into the array language of Model/NpVec.v; [rvdenote] is its NumPy / SciPy semantics
    over R.  For EVERY non-negative matrix (index function) and every non-negative label vectors: one non-negative row per
    node that sums to 1 (to 0 when the node has no outgoing weight); the aggregate is the sum of the edge weights between
    clusters and its total is the total edge weight. *)
From SKN Require Import Model.NpExpr Model.NpVec Gen.NpSecondary Proofs.NpVecProofs Proofs.NpModularityProofs Proofs.NpSecondaryProofs.
From Coq Require Import Reals Lra.
Local Open Scope R_scope.

Theorem source_secondary_probs (n : nat) (A : nat -> nat -> R) (l : list Z) :
  labels_ok n l -> nonneg_mat n A ->
  exists f, rvdenote (env_sec n A l) src_secondary_probs = Some (WM n (nlab l) f) /\
    forall i, (i < n)%nat ->
      (forall c, (c < nlab l)%nat -> 0 <= f i c) /\
      (0 < rsum n (A i) -> rsum (nlab l) (f i) = 1) /\
      (rsum n (A i) = 0 -> forall c, (c < nlab l)%nat -> f i c = 0).
Proof. exact (NpSecondaryProofs.source_secondary_probs n A l). Qed.
Print Assumptions source_secondary_probs.

Theorem source_secondary_aggregate (n : nat) (A : nat -> nat -> R) (l : list Z) :
  labels_ok n l ->
  exists f, rvdenote (env_sec n A l) src_secondary_aggregate = Some (WM (nlab l) (nlab l) f) /\
    (forall c d, f c d = rsum n (fun i => rsum n (fun j => NpModularityProofs.ind l i c * A i j * NpModularityProofs.ind l j d))) /\
    rsum (nlab l) (fun c => rsum (nlab l) (f c)) = rsum n (fun i => rsum n (A i)).
Proof. exact (NpSecondaryProofs.source_secondary_aggregate n A l). Qed.
Print Assumptions source_secondary_aggregate.

Theorem source_secondary_probs_row (n1 n2 : nat) (B : nat -> nat -> R) (lr lc : list Z) :
  labels_ok n1 lr -> labels_ok n2 lc -> nonneg_rect n1 n2 B ->
  exists f, rvdenote (env_sec_bip n1 n2 B lr lc) src_secondary_probs_row = Some (WM n1 (nlab2 lr lc) f) /\
    forall i, (i < n1)%nat ->
      (forall c, (c < nlab2 lr lc)%nat -> 0 <= f i c) /\
      (0 < rsum n2 (B i) -> rsum (nlab2 lr lc) (f i) = 1) /\
      (rsum n2 (B i) = 0 -> forall c, (c < nlab2 lr lc)%nat -> f i c = 0).
Proof. exact (NpSecondaryProofs.source_secondary_probs_row n1 n2 B lr lc). Qed.
Print Assumptions source_secondary_probs_row.

Theorem source_secondary_probs_col (n1 n2 : nat) (B : nat -> nat -> R) (lr lc : list Z) :
  labels_ok n1 lr -> labels_ok n2 lc -> nonneg_rect n1 n2 B ->
  exists f, rvdenote (env_sec_bip n1 n2 B lr lc) src_secondary_probs_col = Some (WM n2 (nlab2 lr lc) f) /\
    forall j, (j < n2)%nat ->
      (forall c, (c < nlab2 lr lc)%nat -> 0 <= f j c) /\
      (0 < rsum n1 (fun i => B i j) -> rsum (nlab2 lr lc) (f j) = 1) /\
      (rsum n1 (fun i => B i j) = 0 -> forall c, (c < nlab2 lr lc)%nat -> f j c = 0).
Proof. exact (NpSecondaryProofs.source_secondary_probs_col n1 n2 B lr lc). Qed.
Print Assumptions source_secondary_probs_col.

Theorem source_secondary_aggregate_bip (n1 n2 : nat) (B : nat -> nat -> R) (lr lc : list Z) :
  labels_ok n1 lr -> labels_ok n2 lc ->
  exists f, rvdenote (env_sec_bip n1 n2 B lr lc) src_secondary_aggregate_bip = Some (WM (nlab2 lr lc) (nlab2 lr lc) f) /\
    (forall c d, f c d = rsum n1 (fun i => rsum n2 (fun j => NpModularityProofs.ind lr i c * B i j * NpModularityProofs.ind lc j d))) /\
    rsum (nlab2 lr lc) (fun c => rsum (nlab2 lr lc) (f c)) = rsum n1 (fun i => rsum n2 (B i)).
Proof. exact (NpSecondaryProofs.source_secondary_aggregate_bip n1 n2 B lr lc). Qed.
Print Assumptions source_secondary_aggregate_bip.

Example c05_nonvacuous_source : labels_ok 3 (1 :: 0 :: 1 :: nil)%Z /\ nonneg_mat 3 (fun i j => if Nat.eqb i j then 0 else 1).
Proof.
  split.
  - split; [reflexivity|]. intros [|[|[|i]]] Hi; try lia; cbn; lia.
  - intros i j _ _. destruct (Nat.eqb i j); lra.
Qed.

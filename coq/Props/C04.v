(** C04 — Centrality scores equal their mathematical definitions, whatever the solver.
    Only statements closed by [exact], their assumptions, and non-vacuity examples.

    Vocabulary (Model/PageRank.v, Model/Centrality.v): a weighted digraph is a list of rows of
    (column, weight); [P g] is its row-normalised transition matrix with null rows for the nodes
    without out-links; [PT alpha P] = alpha P^T; [mv n M z] = M z; [norm1], [vsum] are the L1 norm and
    the sum over the first n coordinates; [V l] reads a list as a vector;
    [is_solution n P alpha y x]  :  x = alpha P^T x + (1 - alpha) y;
    [is_pagerank n P alpha y p]  :  p = x / sum x for a solution x (the PageRank vector of the property);
    [good_graph g]               :  column indices < n, weights >= 0. *)
From Coq Require Import Qabs.
From SKN Require Import Base.Util Model.Bfs Proofs.BfsProofs Model.PageRank Model.Centrality
     Proofs.PageRankProofs Proofs.CentralityProofs.

(* ---------------------------------------------------------------------------------------------- *)
(** ** 1. Contraction, uniqueness, soundness of the residual validator *)

(** A non-negative matrix whose column sums are at most alpha contracts the L1 norm by alpha. *)
Theorem norm1_contract (n : nat) (M : mat) (alpha : Q) (z : vec) :
  (forall i j, i < n -> j < n -> (0 <= M i j)%Q) ->
  (forall j, j < n -> (bsum n (fun i => M i j) <= alpha)%Q) ->
  (norm1 n (mv n M z) <= alpha * norm1 n z)%Q.
Proof. exact (norm1_contract_gen n M alpha z). Qed.
Print Assumptions norm1_contract.

(** For alpha < 1 the PageRank equation has at most one solution, and the PageRank vector is unique. *)
Theorem pagerank_solution_unique (g : wgraph) (alpha : Q) (y x x' : vec) :
  good_graph g -> (0 <= alpha < 1)%Q ->
  is_solution (length g) (P g) alpha y x -> is_solution (length g) (P g) alpha y x' ->
  forall j, j < length g -> (x j == x' j)%Q.
Proof. exact (solution_unique g alpha y x x'). Qed.
Print Assumptions pagerank_solution_unique.

Theorem pagerank_vector_unique (g : wgraph) (alpha : Q) (y p p' : vec) :
  good_graph g -> (0 <= alpha < 1)%Q ->
  is_pagerank (length g) (P g) alpha y p -> is_pagerank (length g) (P g) alpha y p' ->
  forall j, j < length g -> (p j == p' j)%Q.
Proof. exact (pagerank_unique g alpha y p p'). Qed.
Print Assumptions pagerank_vector_unique.

(** A vector whose residual is at most eps is within eps / (1 - alpha) of the solution (L1). *)
Theorem residual_bound (g : wgraph) (alpha : Q) (y x xs : vec) (eps : Q) :
  good_graph g -> (0 <= alpha < 1)%Q ->
  (norm1 (length g) (fun j => x j - (mv (length g) (PT alpha (P g)) x j + (1 - alpha) * y j)) <= eps)%Q ->
  is_solution (length g) (P g) alpha y xs ->
  (norm1 (length g) (fun j => x j - xs j) <= eps / (1 - alpha))%Q.
Proof. exact (residual_bound_graph g alpha y x xs eps). Qed.
Print Assumptions residual_bound.

(** The executable validator run by the harness on the implementation's outputs: when it accepts
    (p, eps), the normalised p is within eps (L1) of the PageRank vector, whenever the equation has a
    solution (and then the solution's mass is non-zero, so the PageRank vector exists). *)
Theorem residual_check_sound (g : wgraph) (alpha : Q) (y p : list Q) (eps : Q) :
  residual_check g alpha y p eps = true ->
  good_graph g /\ (0 <= alpha < 1)%Q /\
  forall xs, is_solution (length g) (P g) alpha (V y) xs ->
    ~ (vsum (length g) xs == 0)%Q /\ ~ (vsum (length g) (V p) == 0)%Q /\
    (norm1 (length g) (fun j => V p j / vsum (length g) (V p) - xs j / vsum (length g) xs) <= eps)%Q.
Proof. exact (residual_check_sound_proof g alpha y p eps). Qed.
Print Assumptions residual_check_sound.

(* ---------------------------------------------------------------------------------------------- *)
(** ** 2. The coded RandomSurferOperator and power iteration *)

(** [surfer_matvec] (a.dot(x) + b * restart.dot(x)) keeps the total mass when the seeds sum to 1,
    sinks included; it is the transition kernel of the surfer of the property text. *)
Theorem surfer_operator_stochastic (g : wgraph) (alpha : Q) (y x : list Q) :
  good_graph g -> (0 <= alpha)%Q -> (vsum (length g) (V y) == 1)%Q ->
  (vsum (length g) (V (surfer_matvec g alpha y x)) == vsum (length g) (V x))%Q /\
  forall j, j < length g ->
    (V (surfer_matvec g alpha y x) j == mv (length g) (surfer_kernel (P g) (has_out g) alpha (V y)) (V x) j)%Q.
Proof. exact (surfer_operator_stochastic_proof g alpha y x). Qed.
Print Assumptions surfer_operator_stochastic.

(** Any probability vector fixed by one coded power-iteration step (operator, then division by the
    sum) is the PageRank vector; so is any stationary distribution of the surfer's chain. *)
Theorem piteration_fixed_point (g : wgraph) (alpha : Q) (y x : list Q) :
  good_graph g -> (0 <= alpha < 1)%Q ->
  (vsum (length g) (V y) == 1)%Q -> (vsum (length g) (V x) == 1)%Q ->
  (forall j, j < length g -> (V (piteration_step (surfer_matvec g alpha y) x) j == V x j)%Q) ->
  is_pagerank (length g) (P g) alpha (V y) (V x).
Proof. exact (piteration_fixed_point_proof g alpha y x). Qed.
Print Assumptions piteration_fixed_point.

Theorem surfer_stationary_is_pagerank (g : wgraph) (alpha : Q) (y p : vec) :
  good_graph g -> (0 <= alpha < 1)%Q ->
  is_stationary (length g) (surfer_kernel (P g) (has_out g) alpha y) p ->
  is_pagerank (length g) (P g) alpha y p.
Proof. exact (stationary_is_pagerank g alpha y p). Qed.
Print Assumptions surfer_stationary_is_pagerank.

(** Power iteration as coded (n_iter steps from x; early exit when two successive iterates are closer
    than tol, returning the OLDER one): for a non-negative restart distribution the distance to the
    stationary distribution p of the surfer (= the PageRank vector, previous theorem) never grows, and it
    ends below alpha^n_iter times the initial distance or below tol / (1 - alpha). *)
Theorem piteration_error (g : wgraph) (alpha : Q) (y : list Q) (p : vec) (n_iter : nat) (tol : Q) (x : list Q) :
  good_graph g -> (0 <= alpha < 1)%Q -> length x = length g ->
  (forall j, j < length g -> (0 <= V y j)%Q) -> (vsum (length g) (V y) == 1)%Q ->
  (vsum (length g) (V x) == 1)%Q ->
  is_stationary (length g) (surfer_kernel (P g) (has_out g) alpha (V y)) p ->
  let r := piteration_loop n_iter (surfer_matvec g alpha y) tol x in
  let e0 := norm1 (length g) (fun j => V x j - p j)%Q in
  let e := norm1 (length g) (fun j => V r j - p j)%Q in
  (vsum (length g) (V r) == 1)%Q /\ (e <= e0)%Q /\ ((e <= apow alpha n_iter * e0)%Q \/ (e <= tol / (1 - alpha))%Q).
Proof. exact (piteration_error_proof g alpha y p n_iter tol x). Qed.
Print Assumptions piteration_error.

(** Regression witness (defect D2, repaired): the operator as it was before the repair,
    b = (1 - alpha out) * y elementwise and b * sum(x), has on the graph 0 -> 1 with uniform restart and
    alpha = 4/7 the normalised fixed point x = (1/4, 3/4), whereas the PageRank vector is (7/18, 11/18)
    — which the current operator does fix. *)
Theorem old_operator_refuted :
  exists (g : wgraph) (alpha : Q) (y x xs : list Q),
    good_graph g /\ (0 <= alpha < 1)%Q /\ (vsum (length g) (V y) == 1)%Q /\ (vsum (length g) (V x) == 1)%Q /\
    piteration_step (old_surfer_matvec g alpha y) x = x /\
    solution_check g alpha y xs = true /\
    ~ (V x O == V xs O / vsum (length g) (V xs))%Q /\
    piteration_step (surfer_matvec g alpha y) (vnormalize xs) = vnormalize xs.
Proof. exact old_operator_refuted_proof. Qed.
Print Assumptions old_operator_refuted.

(* ---------------------------------------------------------------------------------------------- *)
(** ** 3. Horner's scheme and the RH solver *)

(** Polynome._matvec computes sum_k coeffs[k] M^k x. *)
Theorem horner_eq_power_sum (n : nat) (M : mat) (coeffs x : list Q) :
  length x = n -> coeffs <> [] ->
  length (horner (mvl n M) coeffs x) = n /\
  forall j, j < n -> (V (horner (mvl n M) coeffs x) j == power_sum n M coeffs (V x) j)%Q.
Proof. exact (horner_eq_power_sum_proof n M coeffs x). Qed.
Print Assumptions horner_eq_power_sum.

(** RH returns s = sum_{k <= K} (alpha P^T)^k y; its residual for x = alpha P^T x + y is at most
    alpha^(K+1) |y|_1, and (1 - alpha) s is within that distance of the solution. *)
Theorem rh_error (g : wgraph) (alpha : Q) (y : list Q) (K : nat) :
  good_graph g -> (0 <= alpha)%Q -> length y = length g ->
  let n := length g in
  let M := PT alpha (P g) in
  let s := rh g alpha y K in
  veq n s (fun j => bsum (S K) (fun k => pow_mv n M k (V y) j)) /\
  (norm1 n (fun j => V s j - (mv n M (V s) j + V y j)) <= apow alpha (S K) * norm1 n (V y))%Q.
Proof. exact (rh_error_proof g alpha y K). Qed.
Print Assumptions rh_error.

Theorem rh_converges (g : wgraph) (alpha : Q) (y : list Q) (K : nat) (xs : vec) :
  good_graph g -> (0 <= alpha < 1)%Q -> length y = length g ->
  is_solution (length g) (P g) alpha (V y) xs ->
  (norm1 (length g) (fun j => (1 - alpha) * V (rh g alpha y K) j - xs j)
   <= apow alpha (S K) * norm1 (length g) (V y))%Q.
Proof. exact (rh_close_to_solution g alpha y K xs). Qed.
Print Assumptions rh_converges.

(* ---------------------------------------------------------------------------------------------- *)
(** ** 4. D-iteration (sequential sweep, as coded after the repair of D3) *)

(** For ANY number of sweeps and any tolerance: with z = xs - scores (xs any solution),
    z - alpha P^T z = fluid, fluid >= 0, residu = total fluid (that is [dit_inv]); hence
    |xs - scores|_1 <= residu / (1 - alpha); and when the kernel returns through its tolerance test
    the error is below tol. *)
Theorem diteration_invariant (g : wgraph) (alpha : Q) (y : list Q) (n_iter : nat) (tol : Q) (xs : vec) :
  good_graph g -> (0 <= alpha < 1)%Q -> length y = length g ->
  (forall j, j < length g -> (0 <= V y j)%Q) -> (vsum (length g) (V y) == 1)%Q ->
  is_solution (length g) (P g) alpha (V y) xs ->
  let st := diteration_state g alpha y n_iter tol in
  dit_inv g alpha xs (fst st) /\
  (0 <= d_residu (fst st))%Q /\
  (norm1 (length g) (fun j => xs j - V (d_scores (fst st)) j) <= d_residu (fst st) / (1 - alpha))%Q /\
  (snd st = true -> (norm1 (length g) (fun j => xs j - V (d_scores (fst st)) j) < tol)%Q).
Proof. exact (diteration_invariant_proof g alpha y n_iter tol xs). Qed.
Print Assumptions diteration_invariant.

(** Each sweep multiplies the remaining mass by at most alpha: after n_iter sweeps (tolerance test
    disabled) at most alpha^n_iter (1 - alpha) fluid is left and the error is at most alpha^n_iter. *)
Theorem diteration_mass_decreases (g : wgraph) (alpha : Q) (y : list Q) (n_iter : nat) (xs : vec) :
  good_graph g -> (0 <= alpha < 1)%Q -> length y = length g ->
  (forall j, j < length g -> (0 <= V y j)%Q) -> (vsum (length g) (V y) == 1)%Q ->
  is_solution (length g) (P g) alpha (V y) xs ->
  (d_residu (fst (diteration_state g alpha y n_iter 0)) <= apow alpha n_iter * (1 - alpha))%Q /\
  (norm1 (length g) (fun j => xs j - V (diteration g alpha y n_iter 0) j) <= apow alpha n_iter)%Q.
Proof. exact (diteration_mass_decreases_proof g alpha y n_iter xs). Qed.
Print Assumptions diteration_mass_decreases.

(* ---------------------------------------------------------------------------------------------- *)
(** ** 5. The push kernel (recorded finding D4: solver = 'push' is excluded from every positive theorem
       above — none of them mentions [push_pagerank] — and refuted here) *)

(** On the house graph, uniform restart, alpha = 0.85, for every order argsort may return and for
    tolerances 1e-1, 1e-3, 1e-9, the faithful model of push.pyx ends (work-list empty) more than 0.02
    (L1) away from the PageRank vector, which [solution_check] certifies exactly. *)
Theorem push_refuted :
  good_graph house /\
  solution_check house (85 # 100) (repeat (1 # 5)%Q 5) house_solution = true /\
  forall order tol, In order (perms [0; 1; 2; 3; 4]) -> In tol [1 # 10; 1 # 1000; 1 # 1000000000]%Q ->
    push_far house (85 # 100) (repeat (1 # 5)%Q 5) house_solution (2 # 100) order tol = true.
Proof. exact push_refuted_proof. Qed.
Print Assumptions push_refuted.

(* ---------------------------------------------------------------------------------------------- *)
(** ** 6. Katz, closeness, betweenness, HITS *)

(** Katz.fit = sum_{k=1..K} alpha^k ((A^T)^k 1) with A the 0/1 PATTERN of the adjacency matrix
    (the code casts to bool: weights are ignored; the docstring says "adjacency matrix"). *)
Theorem katz_def (g : wgraph) (alpha : Q) (K : nat) :
  length (katz g alpha K) = length g /\
  forall j, j < length g -> (V (katz g alpha K) j == katz_spec (pattern g) alpha K j)%Q.
Proof. exact (katz_def_proof g alpha K). Qed.
Print Assumptions katz_def.

(** Closeness (method='exact'): (n - 1) / sum_j d(i, j) with d the exact hop distance (C10), and 0
    for a node that does not reach every node. *)
Theorem closeness_def (p : graph) (i : nat) :
  i < length p ->
  exists dist,
    bfs p (single_source (length p) i) = Some dist /\ length dist = length p /\
    (forall v, v < length p ->
       (forall k, nthz dist v = Z.of_nat k <-> hop p (single_source (length p) i) v k) /\
       (nthz dist v = (-1)%Z <-> forall k, ~ reachk p (single_source (length p) i) k v)) /\
    (V (closeness_exact p) i ==
       (if existsb (fun d => (d <? 0)%Z) dist then 0 else closeness_spec (length p) dist))%Q.
Proof. exact (closeness_def_proof p i). Qed.
Print Assumptions closeness_def.

(** PARTIAL (bounded): the coded Brandes accumulation equals the textbook betweenness (sum over
    ordered pairs s <> v <> t of sigma_st(v) / sigma_st, halved for a symmetric adjacency) on every
    digraph with at most 3 nodes (loops allowed) and every loop-free digraph on 4 nodes.
    (Kept under its original name as a bounded cross-check by computation. The unbounded statement that was
    missing when this was written - sigma / delta recurrences by induction over the BFS order - is now
    proved for every graph: see section 7, brandes_exact.) *)
Theorem brandes_exact_small_partial :
  forallb (fun g => list_eqb (betweenness g) (betweenness_spec g))
          (all_digraphs 1 true ++ all_digraphs 2 true ++ all_digraphs 3 true ++ all_digraphs 4 false) = true.
Proof. exact brandes_exact_small_partial_proof. Qed.
Print Assumptions brandes_exact_small_partial.

(** HITS wrapper, conditional on the SVD oracle: when the singular vector handed back by the solver has
    entries of one sign (the Perron vector up to the solver's sign), the wrapper returns |u| entrywise. *)
Theorem hits_wrapper (u : list Q) :
  (forall x, In x u -> (0 <= x)%Q) \/ (forall x, In x u -> (x <= 0)%Q) ->
  Forall2 Qeq (sign_fix u) (map Qabs u).
Proof. exact (hits_wrapper_proof u). Qed.
Print Assumptions hits_wrapper.

(** Regression witnesses for the branches repaired in this round. *)
Theorem old_hits_sign_refuted :
  exists u : list Q,
    u = [- (1 # 2); - (3 # 4); 1 # 100000000000000000; 1 # 100000000000000000; 1 # 100000000000000000]%Q /\
    old_sign_fix u = [0; 0; 1 # 100000000000000000; 1 # 100000000000000000; 1 # 100000000000000000]%Q /\
    sign_fix u = [1 # 2; 3 # 4; 0; 0; 0]%Q.
Proof. exact old_hits_sign_refuted_proof. Qed.
Print Assumptions old_hits_sign_refuted.

Theorem old_closeness_approx_refuted :
  exists (p : graph) (sources : list nat),
    sources = [1; 0; 2] /\ p = [[1]; [0; 2]; [1]] /\
    list_eqb (closeness_approx p sources) (closeness_exact p) = true /\
    list_eqb (old_closeness_approx p sources) (closeness_exact p) = false.
Proof. exact old_closeness_approx_refuted_proof. Qed.
Print Assumptions old_closeness_approx_refuted.

Theorem old_betweenness_refuted :
  exists g : wgraph,
    g = [[(1, 1%Q)]; [(2, 1%Q)]; []] /\ is_symmetric g = false /\
    betweenness g = betweenness_spec g /\ betweenness_spec g = [0; 1; 0]%Q /\
    old_betweenness g = [0; 1 # 2; 0]%Q.
Proof. exact old_betweenness_refuted_proof. Qed.
Print Assumptions old_betweenness_refuted.

(* ---------------------------------------------------------------------------------------------- *)
(** ** Non-vacuity: a graph with a sink meeting every hypothesis, on which the models compute and the
       validator accepts the true vector and rejects a wrong one. *)
Example c04_nonvacuous :
  let g : wgraph := [[(1, 2%Q); (2, 1%Q)]; [(2, 3%Q)]; []] in
  let y := [1 # 2; 1 # 4; 1 # 4]%Q in
  let alpha := (1 # 2)%Q in
  let xs := [1 # 4; 5 # 24; 13 # 48]%Q in
  good_graph g /\ (vsum 3 (V y) == 1)%Q /\ (forall j, j < 3 -> (0 <= V y j)%Q) /\
  solution_check g alpha y xs = true /\
  residual_check g alpha y xs (1 # 1000000) = true /\
  residual_check g alpha y [1 # 3; 1 # 3; 1 # 3]%Q (1 # 100) = false /\
  rh g alpha y 2 = [1 # 2; 5 # 12; 13 # 24]%Q /\
  diteration g alpha y 1 0 = xs /\
  piteration_step (surfer_matvec g alpha y) (vnormalize xs) = vnormalize xs.
Proof.
  cbv zeta. repeat split; try reflexivity; try (vm_compute; congruence).
  intros j Hj. destruct j as [|[|[|j]]]; cbn; try lia; discriminate.
Qed.

(* ---------------------------------------------------------------------------------------------- *)
(** ** 7. Betweenness without a size bound (Proofs/BrandesProofs.v; supersedes the bounded
       [brandes_exact_small_partial] above)

    Vocabulary. [p : graph] is the 0/1 pattern ([row p u] = stored column indices of row u).
    Hypotheses: every stored column index is < n, and no row stores the same column twice (the
    specification's walk matrix is 0/1, the code would count a duplicated CSR entry twice). No
    connectivity hypothesis is needed: unreachable nodes contribute 0.
    [brandes_forward p s] = [brandes_bfs n p st0 []], the BFS loop of the code from source s (st0: queue
    [s], dists -1 except dists[s] = 0, sigma 0 except sigma[s] = 1, preds empty), returning the final
    state and the stack [seen]; [hop p (single_source n s) v k]: k is the least number of arcs of a walk
    from s to v (C10's vocabulary); [shortest_paths p s t d]: the explicit list of the walks of d arcs
    from s to t, as lists of d + 1 nodes; [back_step] is the body of the backward while loop. *)
From SKN Require Import Proofs.BrandesProofs.
Set Warnings "-notation-overridden".

(** What [shortest_paths] enumerates (independent specification of "path"), without repetition. *)
Theorem shortest_paths_spec (p : graph) (s t d : nat) (l : list nat) :
  In l (shortest_paths p s t d) <-> length l = S d /\ hd 0 l = s /\ last l 0 = t /\ is_walk p l.
Proof. exact (shortest_paths_spec_proof p s t d l). Qed.
Print Assumptions shortest_paths_spec.

Theorem shortest_paths_nodup (p : graph) (s t d : nat) :
  (forall u, NoDup (row p u)) -> NoDup (shortest_paths p s t d).
Proof. exact (shortest_paths_nodup_proof p s t d). Qed.
Print Assumptions shortest_paths_nodup.

(** Forward phase: the queue empties within the n pops allowed; dists are the exact hop distances
    (-1 = unreachable); sigma[v] = NUMBER of shortest paths from s to v (0 when unreachable); preds[v]
    lists, each once, exactly the in-neighbours u of v with dist u + 1 = dist v. *)
Theorem brandes_sigma_counts_shortest_paths (p : graph) (s : nat) :
  (forall u v, In v (row p u) -> v < length p) -> (forall u, NoDup (row p u)) -> s < length p ->
  let st := fst (brandes_forward p s) in
  let seen := snd (brandes_forward p s) in
  b_queue st = [] /\ NoDup seen /\
  forall v, v < length p ->
    (forall k, nthz (b_dists st) v = Z.of_nat k <-> hop p (single_source (length p) s) v k) /\
    (nthz (b_dists st) v = (-1)%Z <-> forall k, ~ reachk p (single_source (length p) s) k v) /\
    (In v seen <-> (0 <= nthz (b_dists st) v)%Z) /\
    (forall k, hop p (single_source (length p) s) v k ->
       nthz (b_sigma st) v = Z.of_nat (length (shortest_paths p s v k))) /\
    (nthz (b_dists st) v = (-1)%Z -> nthz (b_sigma st) v = 0%Z) /\
    NoDup (nth v (b_preds st) []) /\
    (forall u, In u (nth v (b_preds st) []) <->
       In v (row p u) /\ (0 <= nthz (b_dists st) u)%Z /\ (nthz (b_dists st) u + 1 = nthz (b_dists st) v)%Z).
Proof. exact (brandes_sigma_counts_shortest_paths_proof p s). Qed.
Print Assumptions brandes_sigma_counts_shortest_paths.

(** The pair dependency sigma_st(v) / sigma_st of the specification, in explicit path counts, and the
    identity sigma_st(v) = sigma_sv * sigma_vt: among the walks of a + b arcs from u to t, those whose
    a-th node is v are as many as (walks of a arcs u -> v) x (walks of b arcs v -> t). *)
Theorem pair_dependency_paths (p : graph) (s t v dt dv : nat) :
  (forall u w, In w (row p u) -> w < length p) -> (forall u, NoDup (row p u)) ->
  s < length p -> t < length p -> v < length p ->
  hop p (single_source (length p) s) t dt -> hop p (single_source (length p) s) v dv ->
  (pair_dependency p s t v ==
   if Nat.leb dv dt
   then qn (length (shortest_paths p s v dv)) * qn (length (shortest_paths p v t (dt - dv)))
        / qn (length (shortest_paths p s t dt))
   else 0)%Q.
Proof. exact (pair_dependency_paths_proof p s t v dt dv). Qed.
Print Assumptions pair_dependency_paths.

Theorem paths_through (p : graph) (a b u v t : nat) :
  length (filter (fun l => Nat.eqb (nth a l 0) v) (shortest_paths p u t (a + b))) =
  length (shortest_paths p u v a) * length (shortest_paths p v t b).
Proof. exact (paths_through_proof p a b u v t). Qed.
Print Assumptions paths_through.

(** Backward phase (the code pops [seen], i.e. the reverse discovery order): the accumulated delta
    satisfies Brandes' recurrence over the predecessor lists; on every node reachable from s it IS the
    dependency sum_{t <> v} sigma_st(v) / sigma_st (Brandes' theorem); that dependency is 0 on the
    unreachable nodes; and [brandes_source] adds exactly it to scores[v] for v <> s. *)
Theorem brandes_delta_recurrence (p : graph) (s : nat) (sc0 : list Q) :
  (forall u v, In v (row p u) -> v < length p) -> (forall u, NoDup (row p u)) ->
  s < length p -> length sc0 = length p ->
  let st := fst (brandes_forward p s) in
  let seen := snd (brandes_forward p s) in
  let acc := fold_left (back_step s (b_sigma st) (b_preds st)) seen (repeat 0%Q (length p), sc0) in
  let dep := fun v => bsum (length p) (fun t => if Nat.eqb t v then 0%Q else pair_dependency p s t v) in
  brandes_source p sc0 s = snd acc /\
  (forall v, v < length p ->
     (V (fst acc) v == bsum (length p) (fun w =>
        if memn v (nth w (b_preds st) [])
        then zq (nthz (b_sigma st) v) / zq (nthz (b_sigma st) w) * (1 + V (fst acc) w) else 0))%Q) /\
  (forall v, v < length p -> (0 <= nthz (b_dists st) v)%Z -> (V (fst acc) v == dep v)%Q) /\
  (forall v, v < length p -> (nthz (b_dists st) v < 0)%Z -> (dep v == 0)%Q) /\
  (forall v, v < length p -> (V (snd acc) v == V sc0 v + (if Nat.eqb v s then 0 else dep v))%Q).
Proof. exact (brandes_delta_recurrence_proof p s sc0). Qed.
Print Assumptions brandes_delta_recurrence.

(** Betweenness.fit as coded = the textbook betweenness, for EVERY size: the sum over ordered pairs
    (s, t), s <> v <> t, s <> t, of sigma_st(v) / sigma_st, halved exactly when the adjacency is
    symmetric.  ([check_connected] of the code is not needed for the identity.) *)
Theorem brandes_exact (g : wgraph) :
  (forall u v, In v (row (pattern g) u) -> v < length g) ->
  (forall u, NoDup (row (pattern g) u)) ->
  length (betweenness g) = length g /\
  forall v, v < length g ->
    (V (betweenness g) v == V (betweenness_spec g) v)%Q /\
    (V (betweenness_spec g) v ==
       let n := length g in
       let ordered := bsum n (fun s => bsum n (fun t =>
          if Nat.eqb s v || Nat.eqb t v || Nat.eqb s t then 0 else pair_dependency (pattern g) s t v)) in
       if is_symmetric g then ordered / 2 else ordered)%Q.
Proof. exact (brandes_exact_explicit g). Qed.
Print Assumptions brandes_exact.

(** The same with the hypotheses decided by the executable [rows_ok] (used by the harness). *)
Theorem brandes_exact_rows_ok (g : wgraph) :
  rows_ok (pattern g) = true ->
  length (betweenness g) = length g /\
  forall v, v < length g -> (V (betweenness g) v == V (betweenness_spec g) v)%Q.
Proof. exact (brandes_exact_checked g). Qed.
Print Assumptions brandes_exact_rows_ok.

(** Undirected case: when the stored pattern is symmetric and [is_symmetric] holds (so the code
    halves), the score of v is the sum over UNORDERED pairs {s, t} (t < s, each once), s <> v <> t,
    of sigma_st(v) / sigma_st. *)
Theorem brandes_undirected (g : wgraph) :
  (forall u v, In v (row (pattern g) u) -> v < length g) ->
  (forall u, NoDup (row (pattern g) u)) ->
  (forall u v, In v (row (pattern g) u) <-> In u (row (pattern g) v)) ->
  is_symmetric g = true ->
  forall v, v < length g ->
    (V (betweenness g) v ==
     bsum (length g) (fun s => bsum s (fun t =>
       if Nat.eqb s v || Nat.eqb t v then 0 else pair_dependency (pattern g) s t v)))%Q.
Proof. exact (brandes_undirected_proof g). Qed.
Print Assumptions brandes_undirected.

(** Non-vacuity: a directed diamond with a tail (two shortest paths 0 -> 3 and 0 -> 4, not connected
    strongly, not symmetric) and an undirected 4-cycle (symmetric: halved) meet the hypotheses. *)
Example brandes_nonvacuous :
  let g := graph_of_arcs 5 [(0,1);(0,2);(1,3);(2,3);(3,4)] in
  let h := graph_of_arcs 4 [(0,1);(1,0);(1,2);(2,1);(0,3);(3,0);(3,2);(2,3)] in
  rows_ok (pattern g) = true /\ is_symmetric g = false /\ betweenness g = [0; 1; 1; 3; 0]%Q /\
  b_sigma (fst (brandes_forward (pattern g) 0)) = [1; 1; 1; 2; 2]%Z /\
  b_preds (fst (brandes_forward (pattern g) 0)) = [[]; [0]; [0]; [1; 2]; [3]] /\
  shortest_paths (pattern g) 0 4 3 = [[0; 1; 3; 4]; [0; 2; 3; 4]] /\
  rows_ok (pattern h) = true /\ is_symmetric h = true /\ betweenness h = [1 # 2; 1 # 2; 1 # 2; 1 # 2]%Q.
Proof. cbv zeta. repeat split; vm_compute; reflexivity. Qed.

(* =========================================================================================== *)
(** * The random-surfer operator as REGENERATED FROM sknetwork/linalg/ppr_solver.py

    [src_rso_matvec] (Gen/NpRso.v) is RandomSurferOperator(adjacency, seeds, damping_factor)._matvec(x) — constructor and
    method composed, sparse-matrix branch — translated on every run by harness/translators/npvec.py into the array
    language of Model/NpVec.v; it is the operator that the piteration, lanczos and bicgstab solvers of get_pagerank share.
    Over R, for EVERY non-negative adjacency matrix (index function), restart distribution summing to 1, damping factor and
    vector: the operator preserves the total mass, and a fixed point of mass 1 solves x = a P'^T x + (1 - a) y where a node
    without out-links restarts from y (uniqueness of that solution is the theorem pagerank_solution_unique above). *)
From SKN Require Import Model.NpExpr Model.NpVec Gen.NpRso Proofs.NpVecProofs Proofs.NpRsoProofs.
From Coq Require Import Reals Lra.
Local Open Scope R_scope.

Theorem source_rso_mass_and_fixed_point (n : nat) (A : nat -> nat -> R) (s : nat -> R) (alpha : R) (x : nat -> R) :
  nonneg_mat n A -> rsum n s = 1 ->
  exists f, rvdenote (env_rso n A s x alpha) src_rso_matvec = Some (WV n f) /\
    rsum n f = rsum n x /\
    ((forall i, (i < n)%nat -> f i = x i) -> rsum n x = 1 ->
     forall i, (i < n)%nat -> x i = alpha * rsum n (fun j => patched n A s j i * x j) + (1 - alpha) * s i).
Proof. exact (NpRsoProofs.source_rso_mass_and_fixed_point n A s alpha x). Qed.
Print Assumptions source_rso_mass_and_fixed_point.

Example c04_nonvacuous_source :
  nonneg_mat 2 (fun i j => if Nat.eqb i 0 then (if Nat.eqb j 1 then 3 else 0) else 0) /\ rsum 2 (fun i => if Nat.eqb i 0 then 1 else 0) = 1.
Proof.
  split.
  - intros i j _ _. destruct (Nat.eqb i 0); [destruct (Nat.eqb j 1)|]; lra.
  - unfold rsum, vsum, Gnn.g_sum. cbn. lra.
Qed.

(** C01 - Results do not depend on the container format (theorem side).
    The model of the shared glue is Model/Format.v: the five containers [check_format] accepts,
    their denotation [den], and [to_csr] = what [sparse.csr_matrix(x)] produces.
    Not expressible here and therefore decided by the harness only: that no call modifies its
    arguments (aliasing), and that each estimator really starts with [check_format].
    This file contains only statements closed by [exact], their assumptions, and examples. *)
From Coq Require Import Permutation Sorted.
From SKN Require Import Base.Util Model.Bfs Model.Format Proofs.BfsProofs Proofs.FormatProofs.

(** 1. Conversion to CSR keeps the matrix: for every accepted container (Dense, Coo with duplicates in
    any order, Csc, Lil, Csr with unsorted rows / duplicates) the stored CSR entries, duplicates
    summed, are the denotation of the input - everywhere, also outside the shape (both sides 0). *)
Theorem to_csr_denotation (c : container) :
  wf_shape c -> forall i j, (entry (snd (to_csr c)) i j == den c i j)%Q.
Proof. exact (FormatProofs.to_csr_denotation c). Qed.
Print Assumptions to_csr_denotation.

Theorem to_csr_shape (c : container) :
  fst (to_csr c) = c_ncol c /\ length (snd (to_csr c)) = c_nrow c.
Proof. exact (FormatProofs.to_csr_shape c). Qed.
Print Assumptions to_csr_shape.

(** 2. For every container but CSR the result is in canonical format: each row strictly increasing in
    the column index, hence without duplicates.  ([canonical] = the invariants SciPy's own CSC / LIL
    classes maintain; it is [True] for Dense and Coo.) *)
Theorem to_csr_sorted (c : container) :
  is_csr c = false -> canonical c -> rows_sorted (snd (to_csr c)).
Proof. exact (FormatProofs.to_csr_sorted c). Qed.
Print Assumptions to_csr_sorted.

(** 3. Canonical form: two non-CSR containers of equal shape with pointwise equal denotations convert
    to the same CSR matrix - same column lists, [==] values - once stored zeros are dropped. *)
Theorem to_csr_canonical (c1 c2 : container) :
  is_csr c1 = false -> is_csr c2 = false ->
  wf_shape c1 -> wf_shape c2 -> canonical c1 -> canonical c2 ->
  c_nrow c1 = c_nrow c2 -> c_ncol c1 = c_ncol c2 ->
  (forall i j, (den c1 i j == den c2 i j)%Q) ->
  fst (to_csr c1) = fst (to_csr c2) /\
  rows_eq (eliminate_zeros (snd (to_csr c1))) (eliminate_zeros (snd (to_csr c2))).
Proof. exact (FormatProofs.to_csr_canonical c1 c2). Qed.
Print Assumptions to_csr_canonical.

(** ... and [eliminate_zeros] cannot be left out: COO duplicates that cancel stay stored (so [nnz],
    and the pattern a structural kernel walks, may differ from the dense array of equal value). *)
Theorem to_csr_canonical_needs_eliminate_zeros :
  exists c1 c2,
    is_csr c1 = false /\ is_csr c2 = false /\ wf_shape c1 /\ wf_shape c2 /\
    c_nrow c1 = c_nrow c2 /\ c_ncol c1 = c_ncol c2 /\
    (forall i j, (den c1 i j == den c2 i j)%Q) /\
    map (map fst) (snd (to_csr c1)) <> map (map fst) (snd (to_csr c2)).
Proof. exact FormatProofs.to_csr_canonical_needs_eliminate_zeros. Qed.
Print Assumptions to_csr_canonical_needs_eliminate_zeros.

(** CSR with shuffled indices (what [A[idx][:, idx]] or [A.dot(B)] produce): the denotation and the
    pattern (as edge sets) are those of the sorted matrix. *)
Theorem csr_shuffle_invariant (rows rows' : wrows) :
  Forall2 (@Permutation (nat * Q)) rows rows' ->
  (forall i j, (entry rows i j == entry rows' i j)%Q) /\
  same_rows (pattern rows) (pattern rows').
Proof. exact (FormatProofs.csr_shuffle_invariant rows rows'). Qed.
Print Assumptions csr_shuffle_invariant.

(** 4. Unsorted indices and duplicates cannot change hop distances or DAG edges: two graphs whose
    rows have the same elements ([same_rows g g' := length g = length g' /\
    forall u v, In v (row g u) <-> In v (row g' u)]) give the same [bfs] result for every source
    mask, and [get_dag] keeps the same edge sets for every order vector. *)
Theorem bfs_row_order_irrelevant (g g' : graph) :
  same_rows g g' ->
  (forall src, bfs g src = bfs g' src) /\
  (forall order, same_rows (get_dag g order) (get_dag g' order)).
Proof. exact (FormatProofs.bfs_row_order_irrelevant g g'). Qed.
Print Assumptions bfs_row_order_irrelevant.

(** Non-vacuity: one 2x3 matrix in four containers (COO unordered with a duplicate that is summed);
    hypotheses hold; all convert to the same CSR; a shuffled CSR with a duplicate index gives the
    same distances. *)
Example c01_nonvacuous :
  let d := Dense [[0; 2; 0]; [3; 0; 1]]%Q in
  let c := Coo 2 3 [(1, 2, 1%Q); (0, 1, 1%Q); (1, 0, 3%Q); (0, 1, 1%Q)] in
  let s := Csc 2 [[(1, 3%Q)]; [(0, 2%Q)]; [(1, 1%Q)]] in
  let l := Lil 3 [[(1, 2%Q)]; [(0, 3%Q); (2, 1%Q)]] in
  (wf_shape d /\ wf_shape c /\ wf_shape s /\ wf_shape l /\ canonical s /\ canonical l) /\
  to_csr d = (3, [[(1, 2%Q)]; [(0, 3%Q); (2, 1%Q)]]) /\
  to_csr c = to_csr d /\ to_csr s = to_csr d /\ to_csr l = to_csr d /\
  same_rows [[1; 2]; [2]; []] [[2; 1; 2]; [2]; []] /\
  bfs [[2; 1; 2]; [2]; []] [true; false; false] = Some [0; 1; 1]%Z /\
  bfs [[1; 2]; [2]; []] [true; false; false] = Some [0; 1; 1]%Z.
Proof.
  cbv zeta. split; [|split; [|split; [|split; [|split; [|split; [|split]]]]]]; try (vm_compute; reflexivity).
  - cbv [wf_shape canonical wf_rows rows_sorted row_sorted dense_ncol]. simpl.
    repeat split; repeat constructor; simpl; intuition lia.
  - split; [reflexivity|]. intros [|[|[|u]]] v; simpl; try tauto; destruct u; simpl; tauto.
Qed.

(* -------------------------------------------------------------------------------------------------- *)
(** * Corollaries for the REAL kernel models (Proofs/EquivarianceProofs.v): the kernel depends only on what the
    stored matrix DENOTES - not on the order of the stored indices of a row, not on how a weight is split over
    repeated positions, not on the container it came from.  Structural kernels through their exactness theorems
    (C11), numerical kernels through the denotation of the sparse product.  The model modules are only Required
    (their names clash): statements use qualified names such as [Topology.compute_core], [Diffusion.matvec]. *)
From SKN Require Model.Topology Model.Diffusion Proofs.DiffusionProofs Model.Vote Proofs.VoteProofs Model.PageRank Proofs.PageRankProofs Proofs.EquivarianceProofs.
Set Warnings "-notation-overridden".

(** 5. Structural kernels of Model/Topology.v and the order of the stored indices (through the exactness
    theorems of C11).  count_triangles depends on the edge SET only: rows with the same elements - any order,
    repeated indices - give the same count (and the same clustering coefficient follows). *)
Theorem count_triangles_row_order_irrelevant (g g' : graph) :
  same_rows g g' -> Topology.count_triangles g = Topology.count_triangles g'.
Proof. exact (EquivarianceProofs.EqT.count_triangles_row_order_irrelevant g g'). Qed.
Print Assumptions count_triangles_row_order_irrelevant.

(** compute_core and count_cliques require duplicate-free rows (a repeated index is counted twice in the
    degree); on such rows, stored in any order, they return the same labels / counts - although the MinHeap
    pops, and the ListingBox re-orders, differently. *)
Theorem core_row_order_irrelevant (g g' : graph) :
  length g = length g' -> (forall u, Permutation (row g u) (row g' u)) ->
  (forall u, NoDup (row g u)) -> (forall u v, In v (row g u) -> In u (row g v)) ->
  Topology.compute_core g' = Topology.compute_core g.
Proof. exact (EquivarianceProofs.EqT.core_row_order_irrelevant g g'). Qed.
Print Assumptions core_row_order_irrelevant.

Theorem count_cliques_row_order_irrelevant (g g' : graph) (k : nat) (argsort argsort' : list nat) :
  length g = length g' -> (forall u, Permutation (row g u) (row g' u)) ->
  (forall u, NoDup (row g u)) -> (forall u v, In v (row g u) -> In u (row g v)) ->
  NoDup argsort -> length argsort = length g -> NoDup argsort' -> length argsort' = length g -> 2 <= k ->
  Topology.count_cliques g' k argsort' = Topology.count_cliques g k argsort.
Proof. exact (EquivarianceProofs.EqT.count_cliques_row_order_irrelevant g g' k argsort argsort'). Qed.
Print Assumptions count_cliques_row_order_irrelevant.

(** Non-vacuity: the same graph with shuffled rows (and, for the triangle count, a repeated index). *)
Example c01_nonvacuous_topology :
  let g := [[1; 2]; [0; 2]; [0; 1; 3]; [2; 4]; [3]] in
  let g' := [[2; 1]; [0; 2]; [3; 0; 1]; [4; 2]; [3]] in
  let g'' := [[2; 1; 2]; [0; 2]; [3; 0; 1; 3]; [4; 2]; [3]] in
  length g = length g' /\ (forall u, Permutation (row g u) (row g' u)) /\ same_rows g g'' /\
  Topology.count_triangles g'' = 1 /\ Topology.count_triangles g = 1 /\
  Topology.compute_core g' = Some [2; 2; 2; 1; 1]%Z /\ Topology.compute_core g = Some [2; 2; 2; 1; 1]%Z /\
  Topology.count_cliques g' 3 [4; 3; 0; 1; 2] = Ok 1.
Proof.
  cbv zeta. split; [reflexivity|]. split; [|split].
  - intros u. do 5 (destruct u as [|u]; [unfold row; simpl;
      first [apply Permutation_refl | apply perm_swap
            | apply (Permutation_cons_app [3] []); apply Permutation_refl
            | apply Permutation_sym; apply (Permutation_cons_app [0; 1] []); apply Permutation_refl]|]).
    destruct u; apply Permutation_refl.
  - split; [reflexivity|].
    intros u v. do 5 (destruct u as [|u]; [unfold row; simpl; tauto|]). destruct u; simpl; tauto.
  - repeat split; vm_compute; reflexivity.
Qed.

(** 6. Heat diffusion, Dirichlet (Model/Diffusion.v) and the vote kernel (Model/Vote.v): the order of the stored
    entries of a row is invisible. *)

(** The order of the stored entries of a row (unsorted indices) is invisible to the reducing product,
    to the normalisation (up to [==] on the weights), and hence to both iterations and both [fit]s. *)
Theorem diffusion_matvec_row_order_irrelevant (rows rows' : list Diffusion.wrow) (v : list Q) :
  Forall2 (@Permutation (nat * Q)) rows rows' -> Diffusion.matvec rows v = Diffusion.matvec rows' v.
Proof. exact (EquivarianceProofs.EqC.matvec_row_order_irrelevant rows rows' v). Qed.
Print Assumptions diffusion_matvec_row_order_irrelevant.

Theorem diffusion_normalize_row_order (rows rows' : list Diffusion.wrow) :
  Forall2 (@Permutation (nat * Q)) rows rows' ->
  Forall2 (fun r r' : list (nat * Q) =>
             exists m, Permutation r m /\
                       Forall2 (fun e e' : nat * Q => fst e = fst e' /\ (snd e == snd e')%Q) m r')
          (Diffusion.normalize rows) (Diffusion.normalize rows').
Proof. exact (EquivarianceProofs.EqC.normalize_row_order rows rows'). Qed.
Print Assumptions diffusion_normalize_row_order.

Theorem dirichlet_core_row_order_irrelevant (n_iter : nat) (rows rows' : list Diffusion.wrow)
        (border : list bool) (temps : list Q) :
  Forall2 (@Permutation (nat * Q)) rows rows' ->
  Diffusion.dirichlet_core n_iter rows border temps = Diffusion.dirichlet_core n_iter rows' border temps.
Proof. exact (EquivarianceProofs.EqC.dirichlet_core_row_order_irrelevant n_iter rows rows' border temps). Qed.
Print Assumptions dirichlet_core_row_order_irrelevant.

Theorem diffusion_core_row_order_irrelevant (n_iter : nat) (alpha : Q) (rows rows' : list Diffusion.wrow)
        (temps : list Q) :
  Forall2 (@Permutation (nat * Q)) rows rows' ->
  Diffusion.diffusion_core n_iter alpha rows temps = Diffusion.diffusion_core n_iter alpha rows' temps.
Proof. exact (EquivarianceProofs.EqC.diffusion_core_row_order_irrelevant n_iter alpha rows rows' temps). Qed.
Print Assumptions diffusion_core_row_order_irrelevant.

(** Whole [fit], every input form (square or bipartite, any form of seeds, errors included). *)
Theorem dirichlet_fit_row_order_irrelevant (n_iter : nat) (m m' : Diffusion.wmat)
        (values values_row values_col : option Diffusion.seedsrc) (init : option Q) (force_bipartite : bool) :
  Diffusion.w_ncol m = Diffusion.w_ncol m' ->
  Forall2 (@Permutation (nat * Q)) (Diffusion.w_rows m) (Diffusion.w_rows m') ->
  Diffusion.dirichlet_fit n_iter m values values_row values_col init force_bipartite
  = Diffusion.dirichlet_fit n_iter m' values values_row values_col init force_bipartite.
Proof. exact (EquivarianceProofs.EqC.dirichlet_fit_row_order_irrelevant n_iter m m' values values_row values_col init force_bipartite). Qed.
Print Assumptions dirichlet_fit_row_order_irrelevant.

Theorem diffusion_fit_row_order_irrelevant (n_iter : nat) (alpha : Q) (m m' : Diffusion.wmat)
        (values values_row values_col : option Diffusion.seedsrc) (init : option Q) (force_bipartite : bool) :
  Diffusion.w_ncol m = Diffusion.w_ncol m' ->
  Forall2 (@Permutation (nat * Q)) (Diffusion.w_rows m) (Diffusion.w_rows m') ->
  Diffusion.diffusion_fit n_iter alpha m values values_row values_col init force_bipartite
  = Diffusion.diffusion_fit n_iter alpha m' values values_row values_col init force_bipartite.
Proof. exact (EquivarianceProofs.EqC.diffusion_fit_row_order_irrelevant n_iter alpha m m' values values_row values_col init force_bipartite). Qed.
Print Assumptions diffusion_fit_row_order_irrelevant.

(** The weighted graph of C14 (path with a chord, 4 nodes, seeds 0 and 3 at nodes 0 and 3) with row 1 listed in another order and its entry (1,0) = 2 split into 1/2 + 3/2, stored in
    two different orders: the transposes (hence the operators of Diffusion.fit) differ as lists. *)
Example partC_row_order_nonvacuous :
  let rows : list Diffusion.wrow :=
    [ [(1, 2%Q)]; [(0, (1 # 2)%Q); (2, 1%Q); (0, (3 # 2)%Q); (3, 1%Q)]; [(1, 1%Q); (3, 3%Q)]; [(1, 1%Q); (2, 3%Q)] ] in
  let rows' : list Diffusion.wrow :=
    [ [(1, 2%Q)]; [(3, 1%Q); (0, (3 # 2)%Q); (0, (1 # 2)%Q); (2, 1%Q)]; [(3, 3%Q); (1, 1%Q)]; [(1, 1%Q); (2, 3%Q)] ] in
  Forall2 (@Permutation (nat * Q)) rows rows' /\ rows <> rows' /\
  Diffusion.w_rows (Diffusion.transpose {| Diffusion.w_ncol := 4; Diffusion.w_rows := rows |})
    <> Diffusion.w_rows (Diffusion.transpose {| Diffusion.w_ncol := 4; Diffusion.w_rows := rows' |}) /\
  Diffusion.diffusion_fit 3 (1 # 2)%Q {| Diffusion.w_ncol := 4; Diffusion.w_rows := rows' |}
    (Some (Diffusion.SArray [0; -1; -1; 3]%Q)) None None None false
  = Diffusion.diffusion_fit 3 (1 # 2)%Q {| Diffusion.w_ncol := 4; Diffusion.w_rows := rows |}
      (Some (Diffusion.SArray [0; -1; -1; 3]%Q)) None None None false /\
  Diffusion.dirichlet_fit 3 {| Diffusion.w_ncol := 4; Diffusion.w_rows := rows' |}
    (Some (Diffusion.SArray [0; -1; -1; 3]%Q)) None None None true
  = Diffusion.dirichlet_fit 3 {| Diffusion.w_ncol := 4; Diffusion.w_rows := rows |}
      (Some (Diffusion.SArray [0; -1; -1; 3]%Q)) None None None true /\
  exists out, Diffusion.dirichlet_fit 3 {| Diffusion.w_ncol := 4; Diffusion.w_rows := rows |}
                (Some (Diffusion.SArray [0; -1; -1; 3]%Q)) None None None true = Diffusion.Ok out.
Proof.
  cbv zeta. split; [|split; [|split; [|split; [|split]]]].
  - constructor; [apply Permutation_refl|]. constructor; [|constructor; [apply perm_swap|constructor; [apply Permutation_refl|constructor]]].
    apply Permutation_sym.
    apply perm_trans with (l' := [(0, (3 # 2)%Q); (0, (1 # 2)%Q); (2, 1%Q); (3, 1%Q)]).
    + apply (Permutation_cons_append [(0, (3 # 2)%Q); (0, (1 # 2)%Q); (2, 1%Q)] (3, 1%Q)).
    + apply perm_trans with (l' := [(0, (1 # 2)%Q); (0, (3 # 2)%Q); (2, 1%Q); (3, 1%Q)]); [apply perm_swap|].
      apply perm_skip. apply perm_swap.
  - intros E. inversion E.
  - vm_compute. intros E. inversion E.
  - vm_compute. reflexivity.
  - vm_compute. reflexivity.
  - eexists. vm_compute. reflexivity.
Qed.

(** The vote kernel (classification/vote.pyx, model Model/Vote.v on flat CSR arrays).  For a kernel that
    clears votes_neigh for every node and reads the weight at the edge position ([clr], [wpos]: the
    repaired source), the labels after one sweep do not depend on the order in which each row stores its
    (neighbour, weight) pairs: the arg-max breaks ties by label VALUE (std::set order and strict [>]: the
    smallest label wins), not by position in the row, and the vote counters are only compared.
    Same [indptr], same array lengths; each direction transports a run without out-of-bounds access. *)
Theorem vote_row_order_irrelevant (kv : Vote.kvariant) (indptr indices indices' : list nat)
        (data data' : list Q) (labels : list Z) (index : list nat) (labels' : list Z) :
  Vote.clr kv = true -> Vote.wpos kv = true ->
  length indices = length indices' -> length data = length data' ->
  (forall i, In i index ->
     Permutation (Vote.nbrs_weighted indptr indices data i) (Vote.nbrs_weighted indptr indices' data' i)) ->
  (Vote.vote_update kv indptr indices data labels index = Vote.VOk labels' <->
   Vote.vote_update kv indptr indices' data' labels index = Vote.VOk labels').
Proof. exact (EquivarianceProofs.EqC_Vote.vote_row_order_irrelevant kv indptr indices indices' data data' labels index labels'). Qed.
Print Assumptions vote_row_order_irrelevant.

(** Non-vacuity, with a tie: node 0 has neighbours 2 (label 1) and 3 (label 0) with equal weights, node 1
    has neighbours 2 and 3 with weights 1 and 5; the rows of nodes 0 and 1 are stored in both orders.
    The repaired kernel returns the same labels (node 0: tie, smallest label 0 wins in both orders). *)
Example vote_row_order_nonvacuous :
  let indptr := [0; 2; 4; 4; 4] in
  let labels := [-1; -1; 1; 0]%Z in
  let indices := [2; 3; 2; 3] in   let data := [1; 1; 1; 5]%Q in
  let indices' := [3; 2; 3; 2] in  let data' := [1; 1; 5; 1]%Q in
  (forall i, In i [0; 1] ->
     Permutation (Vote.nbrs_weighted indptr indices data i) (Vote.nbrs_weighted indptr indices' data' i)) /\
  Vote.vote_update Vote.repaired_kernel indptr indices data labels [0; 1] = Vote.VOk [0; 0; 1; 0]%Z /\
  Vote.vote_update Vote.repaired_kernel indptr indices' data' labels [0; 1] = Vote.VOk [0; 0; 1; 0]%Z.
Proof.
  cbv zeta. split; [|split; vm_compute; reflexivity].
  intros i [E|[E|[]]]; subst i; vm_compute; apply perm_swap.
Qed.

(** The hypotheses [clr] / [wpos] are needed: the kernel BEFORE the repair (votes_neigh never cleared,
    weight read at the neighbour's node index) pairs the labels of the second node with the weights
    gathered for the first one, so the stored order of row 0 changes the label of node 1. *)
Example vote_row_order_matters_legacy :
  let indptr := [0; 2; 4; 4; 4] in
  let labels := [-1; -1; 0; 1]%Z in
  let data := [1; 1; 1; 5]%Q in
  (forall i, In i [0; 1] ->
     Permutation (Vote.nbrs_weighted indptr [2; 3; 2; 3] data i)
                 (Vote.nbrs_weighted indptr [3; 2; 2; 3] data i)) /\
  Vote.vote_update Vote.legacy_kernel indptr [2; 3; 2; 3] data labels [0; 1] = Vote.VOk [1; 1; 0; 1]%Z /\
  Vote.vote_update Vote.legacy_kernel indptr [3; 2; 2; 3] data labels [0; 1] = Vote.VOk [1; 0; 0; 1]%Z.
Proof.
  cbv zeta. split; [|split; vm_compute; reflexivity].
  intros i [E|[E|[]]]; subst i; vm_compute; [apply perm_swap|apply Permutation_refl].
Qed.

(** 7. A kernel depends only on the DENOTATION of what is stored.  The sparse product every iterative
    algorithm is built from ([matvec]: accumulate value * x[column] over the stored entries of the row, in
    stored order) gives the same result, entry by entry, on two stored matrices with pointwise equal
    denotations - whatever the order of the stored entries, repeated positions (summed), explicit zeros. *)
Theorem matvec_depends_on_denotation (n : nat) (a a' : wrows) (x : list Q) :
  wf_rows n a -> wf_rows n a' -> length a = length a' ->
  (forall i j, (entry a i j == entry a' i j)%Q) ->
  Forall2 Qeq (matvec a x) (matvec a' x).
Proof. exact (EquivarianceProofs.matvec_depends_on_denotation n a a' x). Qed.
Print Assumptions matvec_depends_on_denotation.

(** ... hence on the CSR matrices check_format builds from any two accepted containers of the same matrix. *)
Theorem matvec_container_independent (c1 c2 : container) (x : list Q) :
  wf_shape c1 -> wf_shape c2 -> c_nrow c1 = c_nrow c2 -> c_ncol c1 = c_ncol c2 ->
  (forall i j, (den c1 i j == den c2 i j)%Q) ->
  wf_wmat (to_csr c1) -> wf_wmat (to_csr c2) ->
  Forall2 Qeq (matvec (snd (to_csr c1)) x) (matvec (snd (to_csr c2)) x).
Proof. exact (EquivarianceProofs.matvec_container_independent c1 c2 x). Qed.
Print Assumptions matvec_container_independent.

(** A REAL kernel end to end: the iteration of Dirichlet.fit (Model/Diffusion.v: row normalisation with the
    pseudo-inverse of the row norms, product, clamping of the seeds; the model stores reduced fractions) on
    two stored matrices with non-negative weights ([Diffusion.wf_rows n]: column indices < n, weights >= 0)
    and equal denotations returns literally the same values after every number of iterations.  (Non-negativity
    is needed: the row NORM sums |value| over the stored entries, so (j, 1), (j, -1) and nothing stored differ.) *)
Theorem dirichlet_depends_on_denotation (n k : nat) (rows rows' : wrows) (border : list bool) (temps : list Q) :
  Diffusion.wf_rows n rows -> Diffusion.wf_rows n rows' -> length rows = length rows' ->
  (forall i j, (entry rows i j == entry rows' i j)%Q) ->
  Diffusion.dirichlet_core k rows border temps = Diffusion.dirichlet_core k rows' border temps.
Proof. exact (EquivarianceProofs.EqDen.dirichlet_depends_on_denotation n k rows rows' border temps). Qed.
Print Assumptions dirichlet_depends_on_denotation.

Theorem dirichlet_container_independent (n k : nat) (c1 c2 : container) (border : list bool) (temps : list Q) :
  wf_shape c1 -> wf_shape c2 -> c_nrow c1 = c_nrow c2 ->
  (forall i j, (den c1 i j == den c2 i j)%Q) ->
  Diffusion.wf_rows n (snd (to_csr c1)) -> Diffusion.wf_rows n (snd (to_csr c2)) ->
  Diffusion.dirichlet_core k (snd (to_csr c1)) border temps =
  Diffusion.dirichlet_core k (snd (to_csr c2)) border temps.
Proof. exact (EquivarianceProofs.EqDen.dirichlet_container_independent n k c1 c2 border temps). Qed.
Print Assumptions dirichlet_container_independent.

(** Non-vacuity: the path 0 - 1 - 2 with weights 2 and 1 as a dense array, as COO triples in arbitrary order
    with the weight 2 split over two triples, and as CSR with unsorted rows and a split entry: hypotheses hold,
    denotations agree, the stored rows differ, the Dirichlet iterates are equal and not trivial. *)
Example c01_nonvacuous_denotation :
  let d := Dense [[0; 2; 0]; [2; 0; 1]; [0; 1; 0]]%Q in
  let c := Coo 3 3 [(2, 1, 1%Q); (0, 1, 1%Q); (1, 0, 2%Q); (1, 2, 1%Q); (0, 1, 1%Q)] in
  let s := Csr 3 [[(1, 2%Q)]; [(2, 1%Q); (0, 1%Q); (0, 1%Q)]; [(1, 1%Q)]] in
  let border := [true; false; true] in
  let temps := [1; 0; 3]%Q in
  (wf_shape d /\ wf_shape c /\ wf_shape s) /\
  (Diffusion.wf_rows 3 (snd (to_csr d)) /\ Diffusion.wf_rows 3 (snd (to_csr c)) /\
   Diffusion.wf_rows 3 (snd (to_csr s))) /\
  (forall i j, (den d i j == den s i j)%Q) /\
  snd (to_csr s) <> snd (to_csr d) /\
  Diffusion.dirichlet_core 2 (snd (to_csr d)) border temps = [1; 5 # 3; 3]%Q /\
  Diffusion.dirichlet_core 2 (snd (to_csr c)) border temps = [1; 5 # 3; 3]%Q /\
  Diffusion.dirichlet_core 2 (snd (to_csr s)) border temps = [1; 5 # 3; 3]%Q.
Proof.
  cbv zeta. split; [|split; [|split; [|split]]].
  - cbv [wf_shape wf_rows dense_ncol]. simpl. repeat split; repeat constructor; simpl; lia.
  - split; [|split]; intros r e Hr He; vm_compute in Hr;
      repeat (destruct Hr as [<-|Hr]; [vm_compute in He;
        repeat (destruct He as [<-|He]; [split; [simpl; lia|unfold Qle; simpl; lia]|]); contradiction|]);
      contradiction.
  - intros i j.
    do 3 (destruct i as [|i]; [do 3 (destruct j as [|j]; [vm_compute; reflexivity|]);
                               destruct j; vm_compute; reflexivity|]).
    destruct i, j; vm_compute; reflexivity.
  - vm_compute. discriminate.
  - repeat split; vm_compute; reflexivity.
Qed.

(** PageRank (Model/PageRank.v).  For two stored graphs with column indices in range and non-negative weights
    ([good_graph]) whose rows have pointwise equal denotations ([PageRank.entry r j] = sum of the stored weights of
    row r at column j), RandomSurferOperator._matvec, the whole power iteration (solver 'piteration': every iterate,
    the early exit included) and the Horner solver ('RH') return literally the same vectors. *)
Theorem pagerank_operator_depends_on_denotation (g g' : PageRank.wgraph) (alpha : Q) (y x : list Q) :
  PageRankProofs.good_graph g -> PageRankProofs.good_graph g' -> length g = length g' ->
  (forall i j, (PageRank.entry (PageRank.wrow_of g i) j == PageRank.entry (PageRank.wrow_of g' i) j)%Q) ->
  PageRank.surfer_matvec g alpha y x = PageRank.surfer_matvec g' alpha y x.
Proof. exact (fun Hg Hg' HL Hd => EquivarianceProofs.EqDenPR.surfer_matvec_den g g' Hg Hg' HL Hd alpha y x). Qed.
Print Assumptions pagerank_operator_depends_on_denotation.

Theorem piteration_depends_on_denotation (g g' : PageRank.wgraph) (alpha : Q) (y : list Q) (n_iter : nat) (tol : Q) :
  PageRankProofs.good_graph g -> PageRankProofs.good_graph g' -> length g = length g' ->
  (forall i j, (PageRank.entry (PageRank.wrow_of g i) j == PageRank.entry (PageRank.wrow_of g' i) j)%Q) ->
  PageRank.piteration g alpha y n_iter tol = PageRank.piteration g' alpha y n_iter tol.
Proof. exact (fun Hg Hg' HL Hd => EquivarianceProofs.EqDenPR.piteration_den g g' Hg Hg' HL Hd alpha y n_iter tol). Qed.
Print Assumptions piteration_depends_on_denotation.

Theorem rh_depends_on_denotation (g g' : PageRank.wgraph) (alpha : Q) (y : list Q) (n_iter : nat) :
  PageRankProofs.good_graph g -> PageRankProofs.good_graph g' -> length g = length g' ->
  (forall i j, (PageRank.entry (PageRank.wrow_of g i) j == PageRank.entry (PageRank.wrow_of g' i) j)%Q) ->
  PageRank.rh g alpha y n_iter = PageRank.rh g' alpha y n_iter.
Proof. exact (fun Hg Hg' HL Hd => EquivarianceProofs.EqDenPR.rh_den g g' Hg Hg' HL Hd alpha y n_iter). Qed.
Print Assumptions rh_depends_on_denotation.

(** Non-vacuity: a graph with a sink in canonical form, and with unsorted rows and a weight split over two stored
    entries; three power-iteration steps give the same non-trivial vector. *)
Example c01_nonvacuous_pagerank_denotation :
  let g : PageRank.wgraph := [[(1, 2%Q); (2, 1%Q)]; [(2, 3%Q)]; []] in
  let g' : PageRank.wgraph := [[(2, 1%Q); (1, 1%Q); (1, 1%Q)]; [(2, 1%Q); (2, 2%Q)]; []] in
  let y := [1 # 2; 1 # 4; 1 # 4]%Q in
  PageRankProofs.good_graph g /\ PageRankProofs.good_graph g' /\ g <> g' /\
  (forall i j, (PageRank.entry (PageRank.wrow_of g i) j == PageRank.entry (PageRank.wrow_of g' i) j)%Q) /\
  PageRank.piteration g (1 # 2) y 3 0 = PageRank.piteration g' (1 # 2) y 3 0 /\
  PageRank.piteration g (1 # 2) y 3 0 <> y.
Proof.
  cbv zeta. split; [split; reflexivity|]. split; [split; reflexivity|]. split; [discriminate|]. split.
  - intros i j.
    do 3 (destruct i as [|i]; [do 3 (destruct j as [|j]; [vm_compute; reflexivity|]);
                               destruct j; vm_compute; reflexivity|]).
    destruct i, j; vm_compute; reflexivity.
  - split; vm_compute; [reflexivity|discriminate].
Qed.

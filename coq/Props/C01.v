(** C01 - Results do not depend on the container format (theorem side).
    The model of the shared glue is Model/Format.v: the five containers [check_format] accepts,
    their denotation [den], and [to_csr] = what [sparse.csr_matrix(x)] produces.
    That no call modifies its arguments: section 8 (frame theorem of the alias analysis + the pinned facts of
    Gen/ArgMut.v) and run-time snapshots; that each estimator really starts with [check_format]: harness only.
    This file contains only statements closed by [exact], their assumptions, and examples. *)
From Coq Require Import Permutation Sorted.
From SKN Require Import Base.Util Model.Bfs Model.Format Proofs.BfsProofs Proofs.FormatProofs.

(** 1. Conversion to CSR keeps the matrix: for every accepted container (Dense, Coo with duplicates in
    any order, Csc, Lil, Csr with unsorted rows / duplicates) the stored CSR entries, duplicates
    summed, are the denotation of the input - everywhere, also outside the shape (both sides 0). *)
Theorem to_csr_denotation (c : container) :
  wf_shape c -> forall i j, (entry (snd (to_csr c)) i j == den c i j)%Q.
Proof. exact (FormatProofs.to_csr_denotation c). Qed.
Print Assumptions to_csr_denotation.

Theorem to_csr_shape (c : container) :
  fst (to_csr c) = c_ncol c /\ length (snd (to_csr c)) = c_nrow c.
Proof. exact (FormatProofs.to_csr_shape c). Qed.
Print Assumptions to_csr_shape.

(** 2. For every container but CSR the result is in canonical format: each row strictly increasing in
    the column index, hence without duplicates.  ([canonical] = the invariants SciPy's own CSC / LIL
    classes maintain; it is [True] for Dense and Coo.) *)
Theorem to_csr_sorted (c : container) :
  is_csr c = false -> canonical c -> rows_sorted (snd (to_csr c)).
Proof. exact (FormatProofs.to_csr_sorted c). Qed.
Print Assumptions to_csr_sorted.

(** 3. Canonical form: two non-CSR containers of equal shape with pointwise equal denotations convert
    to the same CSR matrix - same column lists, [==] values - once stored zeros are dropped. *)
Theorem to_csr_canonical (c1 c2 : container) :
  is_csr c1 = false -> is_csr c2 = false ->
  wf_shape c1 -> wf_shape c2 -> canonical c1 -> canonical c2 ->
  c_nrow c1 = c_nrow c2 -> c_ncol c1 = c_ncol c2 ->
  (forall i j, (den c1 i j == den c2 i j)%Q) ->
  fst (to_csr c1) = fst (to_csr c2) /\
  rows_eq (eliminate_zeros (snd (to_csr c1))) (eliminate_zeros (snd (to_csr c2))).
Proof. exact (FormatProofs.to_csr_canonical c1 c2). Qed.
Print Assumptions to_csr_canonical.

(** ... and [eliminate_zeros] cannot be left out: COO duplicates that cancel stay stored (so [nnz],
    and the pattern a structural kernel walks, may differ from the dense array of equal value). *)
Theorem to_csr_canonical_needs_eliminate_zeros :
  exists c1 c2,
    is_csr c1 = false /\ is_csr c2 = false /\ wf_shape c1 /\ wf_shape c2 /\
    c_nrow c1 = c_nrow c2 /\ c_ncol c1 = c_ncol c2 /\
    (forall i j, (den c1 i j == den c2 i j)%Q) /\
    map (map fst) (snd (to_csr c1)) <> map (map fst) (snd (to_csr c2)).
Proof. exact FormatProofs.to_csr_canonical_needs_eliminate_zeros. Qed.
Print Assumptions to_csr_canonical_needs_eliminate_zeros.

(** CSR with shuffled indices (what [A[idx][:, idx]] or [A.dot(B)] produce): the denotation and the
    pattern (as edge sets) are those of the sorted matrix. *)
Theorem csr_shuffle_invariant (rows rows' : wrows) :
  Forall2 (@Permutation (nat * Q)) rows rows' ->
  (forall i j, (entry rows i j == entry rows' i j)%Q) /\
  same_rows (pattern rows) (pattern rows').
Proof. exact (FormatProofs.csr_shuffle_invariant rows rows'). Qed.
Print Assumptions csr_shuffle_invariant.

(** 4. Unsorted indices and duplicates cannot change hop distances or DAG edges: two graphs whose
    rows have the same elements ([same_rows g g' := length g = length g' /\
    forall u v, In v (row g u) <-> In v (row g' u)]) give the same [bfs] result for every source
    mask, and [get_dag] keeps the same edge sets for every order vector. *)
Theorem bfs_row_order_irrelevant (g g' : graph) :
  same_rows g g' ->
  (forall src, bfs g src = bfs g' src) /\
  (forall order, same_rows (get_dag g order) (get_dag g' order)).
Proof. exact (FormatProofs.bfs_row_order_irrelevant g g'). Qed.
Print Assumptions bfs_row_order_irrelevant.

(** Non-vacuity: one 2x3 matrix in four containers (COO unordered with a duplicate that is summed);
    hypotheses hold; all convert to the same CSR; a shuffled CSR with a duplicate index gives the
    same distances. *)
Example c01_nonvacuous :
  let d := Dense [[0; 2; 0]; [3; 0; 1]]%Q in
  let c := Coo 2 3 [(1, 2, 1%Q); (0, 1, 1%Q); (1, 0, 3%Q); (0, 1, 1%Q)] in
  let s := Csc 2 [[(1, 3%Q)]; [(0, 2%Q)]; [(1, 1%Q)]] in
  let l := Lil 3 [[(1, 2%Q)]; [(0, 3%Q); (2, 1%Q)]] in
  (wf_shape d /\ wf_shape c /\ wf_shape s /\ wf_shape l /\ canonical s /\ canonical l) /\
  to_csr d = (3, [[(1, 2%Q)]; [(0, 3%Q); (2, 1%Q)]]) /\
  to_csr c = to_csr d /\ to_csr s = to_csr d /\ to_csr l = to_csr d /\
  same_rows [[1; 2]; [2]; []] [[2; 1; 2]; [2]; []] /\
  bfs [[2; 1; 2]; [2]; []] [true; false; false] = Some [0; 1; 1]%Z /\
  bfs [[1; 2]; [2]; []] [true; false; false] = Some [0; 1; 1]%Z.
Proof.
  cbv zeta. split; [|split; [|split; [|split; [|split; [|split; [|split]]]]]]; try (vm_compute; reflexivity).
  - cbv [wf_shape canonical wf_rows rows_sorted row_sorted dense_ncol]. simpl.
    repeat split; repeat constructor; simpl; intuition lia.
  - split; [reflexivity|]. intros [|[|[|u]]] v; simpl; try tauto; destruct u; simpl; tauto.
Qed.

(* -------------------------------------------------------------------------------------------------- *)
(** * Corollaries for the REAL kernel models (Proofs/EquivarianceProofs.v): the kernel depends only on what the
    stored matrix DENOTES - not on the order of the stored indices of a row, not on how a weight is split over
    repeated positions, not on the container it came from.  Structural kernels through their exactness theorems
    (C11), numerical kernels through the denotation of the sparse product.  The model modules are only Required
    (their names clash): statements use qualified names such as [Topology.compute_core], [Diffusion.matvec]. *)
From SKN Require Model.Topology Model.Diffusion Proofs.DiffusionProofs Model.Vote Proofs.VoteProofs Model.PageRank Proofs.PageRankProofs Proofs.EquivarianceProofs.
Set Warnings "-notation-overridden".

(** 5. Structural kernels of Model/Topology.v and the order of the stored indices (through the exactness
    theorems of C11).  count_triangles depends on the edge SET only: rows with the same elements - any order,
    repeated indices - give the same count (and the same clustering coefficient follows). *)
Theorem count_triangles_row_order_irrelevant (g g' : graph) :
  same_rows g g' -> Topology.count_triangles g = Topology.count_triangles g'.
Proof. exact (EquivarianceProofs.EqT.count_triangles_row_order_irrelevant g g'). Qed.
Print Assumptions count_triangles_row_order_irrelevant.

(** compute_core and count_cliques require duplicate-free rows (a repeated index is counted twice in the
    degree); on such rows, stored in any order, they return the same labels / counts - although the MinHeap
    pops, and the ListingBox re-orders, differently. *)
Theorem core_row_order_irrelevant (g g' : graph) :
  length g = length g' -> (forall u, Permutation (row g u) (row g' u)) ->
  (forall u, NoDup (row g u)) -> (forall u v, In v (row g u) -> In u (row g v)) ->
  Topology.compute_core g' = Topology.compute_core g.
Proof. exact (EquivarianceProofs.EqT.core_row_order_irrelevant g g'). Qed.
Print Assumptions core_row_order_irrelevant.

Theorem count_cliques_row_order_irrelevant (g g' : graph) (k : nat) (argsort argsort' : list nat) :
  length g = length g' -> (forall u, Permutation (row g u) (row g' u)) ->
  (forall u, NoDup (row g u)) -> (forall u v, In v (row g u) -> In u (row g v)) ->
  NoDup argsort -> length argsort = length g -> NoDup argsort' -> length argsort' = length g -> 2 <= k ->
  Topology.count_cliques g' k argsort' = Topology.count_cliques g k argsort.
Proof. exact (EquivarianceProofs.EqT.count_cliques_row_order_irrelevant g g' k argsort argsort'). Qed.
Print Assumptions count_cliques_row_order_irrelevant.

(** Non-vacuity: the same graph with shuffled rows (and, for the triangle count, a repeated index). *)
Example c01_nonvacuous_topology :
  let g := [[1; 2]; [0; 2]; [0; 1; 3]; [2; 4]; [3]] in
  let g' := [[2; 1]; [0; 2]; [3; 0; 1]; [4; 2]; [3]] in
  let g'' := [[2; 1; 2]; [0; 2]; [3; 0; 1; 3]; [4; 2]; [3]] in
  length g = length g' /\ (forall u, Permutation (row g u) (row g' u)) /\ same_rows g g'' /\
  Topology.count_triangles g'' = 1 /\ Topology.count_triangles g = 1 /\
  Topology.compute_core g' = Some [2; 2; 2; 1; 1]%Z /\ Topology.compute_core g = Some [2; 2; 2; 1; 1]%Z /\
  Topology.count_cliques g' 3 [4; 3; 0; 1; 2] = Ok 1.
Proof.
  cbv zeta. split; [reflexivity|]. split; [|split].
  - intros u. do 5 (destruct u as [|u]; [unfold row; simpl;
      first [apply Permutation_refl | apply perm_swap
            | apply (Permutation_cons_app [3] []); apply Permutation_refl
            | apply Permutation_sym; apply (Permutation_cons_app [0; 1] []); apply Permutation_refl]|]).
    destruct u; apply Permutation_refl.
  - split; [reflexivity|].
    intros u v. do 5 (destruct u as [|u]; [unfold row; simpl; tauto|]). destruct u; simpl; tauto.
  - repeat split; vm_compute; reflexivity.
Qed.

(** 6. Heat diffusion, Dirichlet (Model/Diffusion.v) and the vote kernel (Model/Vote.v): the order of the stored
    entries of a row is invisible. *)

(** The order of the stored entries of a row (unsorted indices) is invisible to the reducing product,
    to the normalisation (up to [==] on the weights), and hence to both iterations and both [fit]s. *)
Theorem diffusion_matvec_row_order_irrelevant (rows rows' : list Diffusion.wrow) (v : list Q) :
  Forall2 (@Permutation (nat * Q)) rows rows' -> Diffusion.matvec rows v = Diffusion.matvec rows' v.
Proof. exact (EquivarianceProofs.EqC.matvec_row_order_irrelevant rows rows' v). Qed.
Print Assumptions diffusion_matvec_row_order_irrelevant.

Theorem diffusion_normalize_row_order (rows rows' : list Diffusion.wrow) :
  Forall2 (@Permutation (nat * Q)) rows rows' ->
  Forall2 (fun r r' : list (nat * Q) =>
             exists m, Permutation r m /\
                       Forall2 (fun e e' : nat * Q => fst e = fst e' /\ (snd e == snd e')%Q) m r')
          (Diffusion.normalize rows) (Diffusion.normalize rows').
Proof. exact (EquivarianceProofs.EqC.normalize_row_order rows rows'). Qed.
Print Assumptions diffusion_normalize_row_order.

Theorem dirichlet_core_row_order_irrelevant (n_iter : nat) (rows rows' : list Diffusion.wrow)
        (border : list bool) (temps : list Q) :
  Forall2 (@Permutation (nat * Q)) rows rows' ->
  Diffusion.dirichlet_core n_iter rows border temps = Diffusion.dirichlet_core n_iter rows' border temps.
Proof. exact (EquivarianceProofs.EqC.dirichlet_core_row_order_irrelevant n_iter rows rows' border temps). Qed.
Print Assumptions dirichlet_core_row_order_irrelevant.

Theorem diffusion_core_row_order_irrelevant (n_iter : nat) (alpha : Q) (rows rows' : list Diffusion.wrow)
        (temps : list Q) :
  Forall2 (@Permutation (nat * Q)) rows rows' ->
  Diffusion.diffusion_core n_iter alpha rows temps = Diffusion.diffusion_core n_iter alpha rows' temps.
Proof. exact (EquivarianceProofs.EqC.diffusion_core_row_order_irrelevant n_iter alpha rows rows' temps). Qed.
Print Assumptions diffusion_core_row_order_irrelevant.

(** Whole [fit], every input form (square or bipartite, any form of seeds, errors included). *)
Theorem dirichlet_fit_row_order_irrelevant (n_iter : nat) (m m' : Diffusion.wmat)
        (values values_row values_col : option Diffusion.seedsrc) (init : option Q) (force_bipartite : bool) :
  Diffusion.w_ncol m = Diffusion.w_ncol m' ->
  Forall2 (@Permutation (nat * Q)) (Diffusion.w_rows m) (Diffusion.w_rows m') ->
  Diffusion.dirichlet_fit n_iter m values values_row values_col init force_bipartite
  = Diffusion.dirichlet_fit n_iter m' values values_row values_col init force_bipartite.
Proof. exact (EquivarianceProofs.EqC.dirichlet_fit_row_order_irrelevant n_iter m m' values values_row values_col init force_bipartite). Qed.
Print Assumptions dirichlet_fit_row_order_irrelevant.

Theorem diffusion_fit_row_order_irrelevant (n_iter : nat) (alpha : Q) (m m' : Diffusion.wmat)
        (values values_row values_col : option Diffusion.seedsrc) (init : option Q) (force_bipartite : bool) :
  Diffusion.w_ncol m = Diffusion.w_ncol m' ->
  Forall2 (@Permutation (nat * Q)) (Diffusion.w_rows m) (Diffusion.w_rows m') ->
  Diffusion.diffusion_fit n_iter alpha m values values_row values_col init force_bipartite
  = Diffusion.diffusion_fit n_iter alpha m' values values_row values_col init force_bipartite.
Proof. exact (EquivarianceProofs.EqC.diffusion_fit_row_order_irrelevant n_iter alpha m m' values values_row values_col init force_bipartite). Qed.
Print Assumptions diffusion_fit_row_order_irrelevant.

(** The weighted graph of C14 (path with a chord, 4 nodes, seeds 0 and 3 at nodes 0 and 3) with row 1 listed in another order and its entry (1,0) = 2 split into 1/2 + 3/2, stored in
    two different orders: the transposes (hence the operators of Diffusion.fit) differ as lists. *)
Example partC_row_order_nonvacuous :
  let rows : list Diffusion.wrow :=
    [ [(1, 2%Q)]; [(0, (1 # 2)%Q); (2, 1%Q); (0, (3 # 2)%Q); (3, 1%Q)]; [(1, 1%Q); (3, 3%Q)]; [(1, 1%Q); (2, 3%Q)] ] in
  let rows' : list Diffusion.wrow :=
    [ [(1, 2%Q)]; [(3, 1%Q); (0, (3 # 2)%Q); (0, (1 # 2)%Q); (2, 1%Q)]; [(3, 3%Q); (1, 1%Q)]; [(1, 1%Q); (2, 3%Q)] ] in
  Forall2 (@Permutation (nat * Q)) rows rows' /\ rows <> rows' /\
  Diffusion.w_rows (Diffusion.transpose {| Diffusion.w_ncol := 4; Diffusion.w_rows := rows |})
    <> Diffusion.w_rows (Diffusion.transpose {| Diffusion.w_ncol := 4; Diffusion.w_rows := rows' |}) /\
  Diffusion.diffusion_fit 3 (1 # 2)%Q {| Diffusion.w_ncol := 4; Diffusion.w_rows := rows' |}
    (Some (Diffusion.SArray [0; -1; -1; 3]%Q)) None None None false
  = Diffusion.diffusion_fit 3 (1 # 2)%Q {| Diffusion.w_ncol := 4; Diffusion.w_rows := rows |}
      (Some (Diffusion.SArray [0; -1; -1; 3]%Q)) None None None false /\
  Diffusion.dirichlet_fit 3 {| Diffusion.w_ncol := 4; Diffusion.w_rows := rows' |}
    (Some (Diffusion.SArray [0; -1; -1; 3]%Q)) None None None true
  = Diffusion.dirichlet_fit 3 {| Diffusion.w_ncol := 4; Diffusion.w_rows := rows |}
      (Some (Diffusion.SArray [0; -1; -1; 3]%Q)) None None None true /\
  exists out, Diffusion.dirichlet_fit 3 {| Diffusion.w_ncol := 4; Diffusion.w_rows := rows |}
                (Some (Diffusion.SArray [0; -1; -1; 3]%Q)) None None None true = Diffusion.Ok out.
Proof.
  cbv zeta. split; [|split; [|split; [|split; [|split]]]].
  - constructor; [apply Permutation_refl|]. constructor; [|constructor; [apply perm_swap|constructor; [apply Permutation_refl|constructor]]].
    apply Permutation_sym.
    apply perm_trans with (l' := [(0, (3 # 2)%Q); (0, (1 # 2)%Q); (2, 1%Q); (3, 1%Q)]).
    + apply (Permutation_cons_append [(0, (3 # 2)%Q); (0, (1 # 2)%Q); (2, 1%Q)] (3, 1%Q)).
    + apply perm_trans with (l' := [(0, (1 # 2)%Q); (0, (3 # 2)%Q); (2, 1%Q); (3, 1%Q)]); [apply perm_swap|].
      apply perm_skip. apply perm_swap.
  - intros E. inversion E.
  - vm_compute. intros E. inversion E.
  - vm_compute. reflexivity.
  - vm_compute. reflexivity.
  - eexists. vm_compute. reflexivity.
Qed.

(** The vote kernel (classification/vote.pyx, model Model/Vote.v on flat CSR arrays).  For a kernel that
    clears votes_neigh for every node and reads the weight at the edge position ([clr], [wpos]: the
    repaired source), the labels after one sweep do not depend on the order in which each row stores its
    (neighbour, weight) pairs: the arg-max breaks ties by label VALUE (std::set order and strict [>]: the
    smallest label wins), not by position in the row, and the vote counters are only compared.
    Same [indptr], same array lengths; each direction transports a run without out-of-bounds access. *)
Theorem vote_row_order_irrelevant (kv : Vote.kvariant) (indptr indices indices' : list nat)
        (data data' : list Q) (labels : list Z) (index : list nat) (labels' : list Z) :
  Vote.clr kv = true -> Vote.wpos kv = true ->
  length indices = length indices' -> length data = length data' ->
  (forall i, In i index ->
     Permutation (Vote.nbrs_weighted indptr indices data i) (Vote.nbrs_weighted indptr indices' data' i)) ->
  (Vote.vote_update kv indptr indices data labels index = Vote.VOk labels' <->
   Vote.vote_update kv indptr indices' data' labels index = Vote.VOk labels').
Proof. exact (EquivarianceProofs.EqC_Vote.vote_row_order_irrelevant kv indptr indices indices' data data' labels index labels'). Qed.
Print Assumptions vote_row_order_irrelevant.

(** Non-vacuity, with a tie: node 0 has neighbours 2 (label 1) and 3 (label 0) with equal weights, node 1
    has neighbours 2 and 3 with weights 1 and 5; the rows of nodes 0 and 1 are stored in both orders.
    The repaired kernel returns the same labels (node 0: tie, smallest label 0 wins in both orders). *)
Example vote_row_order_nonvacuous :
  let indptr := [0; 2; 4; 4; 4] in
  let labels := [-1; -1; 1; 0]%Z in
  let indices := [2; 3; 2; 3] in   let data := [1; 1; 1; 5]%Q in
  let indices' := [3; 2; 3; 2] in  let data' := [1; 1; 5; 1]%Q in
  (forall i, In i [0; 1] ->
     Permutation (Vote.nbrs_weighted indptr indices data i) (Vote.nbrs_weighted indptr indices' data' i)) /\
  Vote.vote_update Vote.repaired_kernel indptr indices data labels [0; 1] = Vote.VOk [0; 0; 1; 0]%Z /\
  Vote.vote_update Vote.repaired_kernel indptr indices' data' labels [0; 1] = Vote.VOk [0; 0; 1; 0]%Z.
Proof.
  cbv zeta. split; [|split; vm_compute; reflexivity].
  intros i [E|[E|[]]]; subst i; vm_compute; apply perm_swap.
Qed.

(** The hypotheses [clr] / [wpos] are needed: the kernel BEFORE the repair (votes_neigh never cleared,
    weight read at the neighbour's node index) pairs the labels of the second node with the weights
    gathered for the first one, so the stored order of row 0 changes the label of node 1. *)
Example vote_row_order_matters_legacy :
  let indptr := [0; 2; 4; 4; 4] in
  let labels := [-1; -1; 0; 1]%Z in
  let data := [1; 1; 1; 5]%Q in
  (forall i, In i [0; 1] ->
     Permutation (Vote.nbrs_weighted indptr [2; 3; 2; 3] data i)
                 (Vote.nbrs_weighted indptr [3; 2; 2; 3] data i)) /\
  Vote.vote_update Vote.legacy_kernel indptr [2; 3; 2; 3] data labels [0; 1] = Vote.VOk [1; 1; 0; 1]%Z /\
  Vote.vote_update Vote.legacy_kernel indptr [3; 2; 2; 3] data labels [0; 1] = Vote.VOk [1; 0; 0; 1]%Z.
Proof.
  cbv zeta. split; [|split; vm_compute; reflexivity].
  intros i [E|[E|[]]]; subst i; vm_compute; [apply perm_swap|apply Permutation_refl].
Qed.

(** 7. A kernel depends only on the DENOTATION of what is stored.  The sparse product every iterative
    algorithm is built from ([matvec]: accumulate value * x[column] over the stored entries of the row, in
    stored order) gives the same result, entry by entry, on two stored matrices with pointwise equal
    denotations - whatever the order of the stored entries, repeated positions (summed), explicit zeros. *)
Theorem matvec_depends_on_denotation (n : nat) (a a' : wrows) (x : list Q) :
  wf_rows n a -> wf_rows n a' -> length a = length a' ->
  (forall i j, (entry a i j == entry a' i j)%Q) ->
  Forall2 Qeq (matvec a x) (matvec a' x).
Proof. exact (EquivarianceProofs.matvec_depends_on_denotation n a a' x). Qed.
Print Assumptions matvec_depends_on_denotation.

(** ... hence on the CSR matrices check_format builds from any two accepted containers of the same matrix. *)
Theorem matvec_container_independent (c1 c2 : container) (x : list Q) :
  wf_shape c1 -> wf_shape c2 -> c_nrow c1 = c_nrow c2 -> c_ncol c1 = c_ncol c2 ->
  (forall i j, (den c1 i j == den c2 i j)%Q) ->
  wf_wmat (to_csr c1) -> wf_wmat (to_csr c2) ->
  Forall2 Qeq (matvec (snd (to_csr c1)) x) (matvec (snd (to_csr c2)) x).
Proof. exact (EquivarianceProofs.matvec_container_independent c1 c2 x). Qed.
Print Assumptions matvec_container_independent.

(** A REAL kernel end to end: the iteration of Dirichlet.fit (Model/Diffusion.v: row normalisation with the
    pseudo-inverse of the row norms, product, clamping of the seeds; the model stores reduced fractions) on
    two stored matrices with non-negative weights ([Diffusion.wf_rows n]: column indices < n, weights >= 0)
    and equal denotations returns literally the same values after every number of iterations.  (Non-negativity
    is needed: the row NORM sums |value| over the stored entries, so (j, 1), (j, -1) and nothing stored differ.) *)
Theorem dirichlet_depends_on_denotation (n k : nat) (rows rows' : wrows) (border : list bool) (temps : list Q) :
  Diffusion.wf_rows n rows -> Diffusion.wf_rows n rows' -> length rows = length rows' ->
  (forall i j, (entry rows i j == entry rows' i j)%Q) ->
  Diffusion.dirichlet_core k rows border temps = Diffusion.dirichlet_core k rows' border temps.
Proof. exact (EquivarianceProofs.EqDen.dirichlet_depends_on_denotation n k rows rows' border temps). Qed.
Print Assumptions dirichlet_depends_on_denotation.

Theorem dirichlet_container_independent (n k : nat) (c1 c2 : container) (border : list bool) (temps : list Q) :
  wf_shape c1 -> wf_shape c2 -> c_nrow c1 = c_nrow c2 ->
  (forall i j, (den c1 i j == den c2 i j)%Q) ->
  Diffusion.wf_rows n (snd (to_csr c1)) -> Diffusion.wf_rows n (snd (to_csr c2)) ->
  Diffusion.dirichlet_core k (snd (to_csr c1)) border temps =
  Diffusion.dirichlet_core k (snd (to_csr c2)) border temps.
Proof. exact (EquivarianceProofs.EqDen.dirichlet_container_independent n k c1 c2 border temps). Qed.
Print Assumptions dirichlet_container_independent.

(** Non-vacuity: the path 0 - 1 - 2 with weights 2 and 1 as a dense array, as COO triples in arbitrary order
    with the weight 2 split over two triples, and as CSR with unsorted rows and a split entry: hypotheses hold,
    denotations agree, the stored rows differ, the Dirichlet iterates are equal and not trivial. *)
Example c01_nonvacuous_denotation :
  let d := Dense [[0; 2; 0]; [2; 0; 1]; [0; 1; 0]]%Q in
  let c := Coo 3 3 [(2, 1, 1%Q); (0, 1, 1%Q); (1, 0, 2%Q); (1, 2, 1%Q); (0, 1, 1%Q)] in
  let s := Csr 3 [[(1, 2%Q)]; [(2, 1%Q); (0, 1%Q); (0, 1%Q)]; [(1, 1%Q)]] in
  let border := [true; false; true] in
  let temps := [1; 0; 3]%Q in
  (wf_shape d /\ wf_shape c /\ wf_shape s) /\
  (Diffusion.wf_rows 3 (snd (to_csr d)) /\ Diffusion.wf_rows 3 (snd (to_csr c)) /\
   Diffusion.wf_rows 3 (snd (to_csr s))) /\
  (forall i j, (den d i j == den s i j)%Q) /\
  snd (to_csr s) <> snd (to_csr d) /\
  Diffusion.dirichlet_core 2 (snd (to_csr d)) border temps = [1; 5 # 3; 3]%Q /\
  Diffusion.dirichlet_core 2 (snd (to_csr c)) border temps = [1; 5 # 3; 3]%Q /\
  Diffusion.dirichlet_core 2 (snd (to_csr s)) border temps = [1; 5 # 3; 3]%Q.
Proof.
  cbv zeta. split; [|split; [|split; [|split]]].
  - cbv [wf_shape wf_rows dense_ncol]. simpl. repeat split; repeat constructor; simpl; lia.
  - split; [|split]; intros r e Hr He; vm_compute in Hr;
      repeat (destruct Hr as [<-|Hr]; [vm_compute in He;
        repeat (destruct He as [<-|He]; [split; [simpl; lia|unfold Qle; simpl; lia]|]); contradiction|]);
      contradiction.
  - intros i j.
    do 3 (destruct i as [|i]; [do 3 (destruct j as [|j]; [vm_compute; reflexivity|]);
                               destruct j; vm_compute; reflexivity|]).
    destruct i, j; vm_compute; reflexivity.
  - vm_compute. discriminate.
  - repeat split; vm_compute; reflexivity.
Qed.

(** PageRank (Model/PageRank.v).  For two stored graphs with column indices in range and non-negative weights
    ([good_graph]) whose rows have pointwise equal denotations ([PageRank.entry r j] = sum of the stored weights of
    row r at column j), RandomSurferOperator._matvec, the whole power iteration (solver 'piteration': every iterate,
    the early exit included) and the Horner solver ('RH') return literally the same vectors. *)
Theorem pagerank_operator_depends_on_denotation (g g' : PageRank.wgraph) (alpha : Q) (y x : list Q) :
  PageRankProofs.good_graph g -> PageRankProofs.good_graph g' -> length g = length g' ->
  (forall i j, (PageRank.entry (PageRank.wrow_of g i) j == PageRank.entry (PageRank.wrow_of g' i) j)%Q) ->
  PageRank.surfer_matvec g alpha y x = PageRank.surfer_matvec g' alpha y x.
Proof. exact (fun Hg Hg' HL Hd => EquivarianceProofs.EqDenPR.surfer_matvec_den g g' Hg Hg' HL Hd alpha y x). Qed.
Print Assumptions pagerank_operator_depends_on_denotation.

Theorem piteration_depends_on_denotation (g g' : PageRank.wgraph) (alpha : Q) (y : list Q) (n_iter : nat) (tol : Q) :
  PageRankProofs.good_graph g -> PageRankProofs.good_graph g' -> length g = length g' ->
  (forall i j, (PageRank.entry (PageRank.wrow_of g i) j == PageRank.entry (PageRank.wrow_of g' i) j)%Q) ->
  PageRank.piteration g alpha y n_iter tol = PageRank.piteration g' alpha y n_iter tol.
Proof. exact (fun Hg Hg' HL Hd => EquivarianceProofs.EqDenPR.piteration_den g g' Hg Hg' HL Hd alpha y n_iter tol). Qed.
Print Assumptions piteration_depends_on_denotation.

Theorem rh_depends_on_denotation (g g' : PageRank.wgraph) (alpha : Q) (y : list Q) (n_iter : nat) :
  PageRankProofs.good_graph g -> PageRankProofs.good_graph g' -> length g = length g' ->
  (forall i j, (PageRank.entry (PageRank.wrow_of g i) j == PageRank.entry (PageRank.wrow_of g' i) j)%Q) ->
  PageRank.rh g alpha y n_iter = PageRank.rh g' alpha y n_iter.
Proof. exact (fun Hg Hg' HL Hd => EquivarianceProofs.EqDenPR.rh_den g g' Hg Hg' HL Hd alpha y n_iter). Qed.
Print Assumptions rh_depends_on_denotation.

(** Non-vacuity: a graph with a sink in canonical form, and with unsorted rows and a weight split over two stored
    entries; three power-iteration steps give the same non-trivial vector. *)
Example c01_nonvacuous_pagerank_denotation :
  let g : PageRank.wgraph := [[(1, 2%Q); (2, 1%Q)]; [(2, 3%Q)]; []] in
  let g' : PageRank.wgraph := [[(2, 1%Q); (1, 1%Q); (1, 1%Q)]; [(2, 1%Q); (2, 2%Q)]; []] in
  let y := [1 # 2; 1 # 4; 1 # 4]%Q in
  PageRankProofs.good_graph g /\ PageRankProofs.good_graph g' /\ g <> g' /\
  (forall i j, (PageRank.entry (PageRank.wrow_of g i) j == PageRank.entry (PageRank.wrow_of g' i) j)%Q) /\
  PageRank.piteration g (1 # 2) y 3 0 = PageRank.piteration g' (1 # 2) y 3 0 /\
  PageRank.piteration g (1 # 2) y 3 0 <> y.
Proof.
  cbv zeta. split; [split; reflexivity|]. split; [split; reflexivity|]. split; [discriminate|]. split.
  - intros i j.
    do 3 (destruct i as [|i]; [do 3 (destruct j as [|j]; [vm_compute; reflexivity|]);
                               destruct j; vm_compute; reflexivity|]).
    destruct i, j; vm_compute; reflexivity.
  - split; vm_compute; [reflexivity|discriminate].
Qed.

(* -------------------------------------------------------------------------------------------------- *)
(** * 8. "No call modifies anything the caller passed in" - the static tie.

    Model/ArgFrame.v: a tiny imperative language over a heap of arrays (locations -> list Z; a variable is a VIEW =
    location + offset) with alias [x := y], slice view [x := y[off:]], fresh copy, pure computation into a fresh
    buffer, in-place write [x[i] := e], branch, and call (inlined: the body runs in a new frame whose formals are bound
    to the views of the actuals; the result is bound to the view of the returned variable), and the may-alias /
    may-mutate analysis [may_mutate] (per variable the set of PARAMETERS whose buffer it may share; strong updates on
    names, joins at branches, calls analysed in the abstract frame built from the alias sets of the actuals).
    harness/translators/argmut.py runs that analysis (same abstract domain, plus summaries / fixed points for Python's
    loops, attributes, classes and Cython kernels - rules and trusted base in its header) over every function of
    /repo's working tree and writes Gen/ArgMut.v; the obligations at the end pin its output. *)
From Coq Require String.
From SKN Require Model.ArgFrame Proofs.ArgFrameProofs Gen.ArgMut.
Set Warnings "-notation-overridden".

(** FRAME.  For every program, every entry environment (parameters bound to locations of the heap; two parameters may
    share a location) and every heap: if the analysis reports that no parameter may be mutated, a terminating run
    leaves EVERY array of the entry heap unchanged. *)
Theorem arg_frame_all (p : ArgFrame.prog) (e0 : ArgFrame.env) (h0 : ArgFrame.heap) (e' : ArgFrame.env) (h' : ArgFrame.heap) :
  ArgFrame.wf_entry e0 h0 ->
  ArgFrame.exec_prog p (e0, h0) = Some (e', h') ->
  ArgFrame.may_mutate e0 p = [] ->
  forall l, l < length h0 -> nth_error h' l = nth_error h0 l.
Proof. exact (ArgFrameProofs.frame_all p e0 h0 e' h'). Qed.
Print Assumptions arg_frame_all.

(** ... and per location / per parameter: an array of the entry heap is unchanged as soon as no parameter bound to it
    at entry is in the reported set (the report is exact about WHICH arguments may be written). *)
Theorem arg_frame_loc (p : ArgFrame.prog) (e0 : ArgFrame.env) (h0 : ArgFrame.heap) (e' : ArgFrame.env) (h' : ArgFrame.heap)
        (l : ArgFrame.loc) :
  ArgFrame.wf_entry e0 h0 ->
  ArgFrame.exec_prog p (e0, h0) = Some (e', h') ->
  l < length h0 ->
  (forall q o, ArgFrame.lookup q e0 = Some (l, o) -> ~ In q (ArgFrame.may_mutate e0 p)) ->
  nth_error h' l = nth_error h0 l.
Proof. exact (ArgFrameProofs.frame_loc p e0 h0 e' h' l). Qed.
Print Assumptions arg_frame_loc.

Theorem arg_frame_param (p : ArgFrame.prog) (e0 : ArgFrame.env) (h0 : ArgFrame.heap) (e' : ArgFrame.env) (h' : ArgFrame.heap)
        (x : ArgFrame.var) (l : ArgFrame.loc) (o : nat) :
  ArgFrame.wf_entry e0 h0 -> ArgFrame.exec_prog p (e0, h0) = Some (e', h') ->
  ArgFrame.lookup x e0 = Some (l, o) ->
  (forall q o', ArgFrame.lookup q e0 = Some (l, o') -> ~ In q (ArgFrame.may_mutate e0 p)) ->
  nth_error h' l = nth_error h0 l.
Proof. exact (ArgFrameProofs.frame_param p e0 h0 e' h' x l o). Qed.
Print Assumptions arg_frame_param.

(** MONOTONICITY.  The analysis is monotone in the abstract environment and in the accumulator, and replacing aliases /
    views by fresh copies ([more_copies]: any number of [x := y] / [x := y[off:]] turned into [x := copy y], also inside
    branches and call bodies) can only SHRINK the reported set. *)
Theorem arg_analysis_monotone (p : ArgFrame.prog) (a a' : ArgFrame.aenv) (m m' : list ArgFrame.var) :
  (forall x, incl (ArgFrame.aget x a) (ArgFrame.aget x a')) -> incl m m' ->
  (forall x, incl (ArgFrame.aget x (fst (ArgFrame.an_prog p a m))) (ArgFrame.aget x (fst (ArgFrame.an_prog p a' m')))) /\
  incl (snd (ArgFrame.an_prog p a m)) (snd (ArgFrame.an_prog p a' m')).
Proof. exact (ArgFrameProofs.analysis_monotone p a a' m m'). Qed.
Print Assumptions arg_analysis_monotone.

Theorem arg_more_copies_shrinks (e0 : ArgFrame.env) (p p' : ArgFrame.prog) :
  ArgFrame.more_copies p p' -> incl (ArgFrame.may_mutate e0 p') (ArgFrame.may_mutate e0 p).
Proof. exact (ArgFrameProofs.more_copies_shrinks e0 p p'). Qed.
Print Assumptions arg_more_copies_shrinks.

(** A program without any in-place write (also inside branches and call bodies) is reported clean. *)
Theorem arg_no_write_clean (e0 : ArgFrame.env) (p : ArgFrame.prog) :
  ArgFrameProofs.no_write_prog p -> ArgFrame.may_mutate e0 p = [].
Proof. exact (ArgFrameProofs.no_write_clean e0 p). Qed.
Print Assumptions arg_no_write_clean.

(** REFUTATION WITNESSES: the historical shapes (parameter 0 bound to the array [1; 2; 3] at location 0).  The analysis
    flags them AND the execution really changes the caller's array:
    - get_values:  [values = np.asarray(values); values[0] *= 2]           (write through an asarray alias);
    - a slice:     [tail = position[1:]; tail[0] += 5]                     (basic slicing is a view);
    - check_format on a CSR input: [adj = check(adjacency); adj[1] = 0] where [check] returns its own parameter;
    - a Cython kernel that fills its memoryview, called on an alias of the argument. *)
Theorem arg_asarray_alias_refuted :
  ArgFrame.may_mutate ArgFrame.entry0 ArgFrame.prog_asarray = [0] /\
  exists e' h', ArgFrame.exec_prog ArgFrame.prog_asarray (ArgFrame.entry0, ArgFrame.heap0) = Some (e', h') /\
                nth_error h' 0 <> nth_error ArgFrame.heap0 0.
Proof. exact ArgFrameProofs.asarray_alias_refuted. Qed.
Print Assumptions arg_asarray_alias_refuted.

Theorem arg_slice_view_refuted :
  ArgFrame.may_mutate ArgFrame.entry0 ArgFrame.prog_slice = [0] /\
  exists e' h', ArgFrame.exec_prog ArgFrame.prog_slice (ArgFrame.entry0, ArgFrame.heap0) = Some (e', h') /\
                nth_error h' 0 <> nth_error ArgFrame.heap0 0.
Proof. exact ArgFrameProofs.slice_view_refuted. Qed.
Print Assumptions arg_slice_view_refuted.

Theorem arg_passthrough_helper_refuted :
  ArgFrame.may_mutate ArgFrame.entry0 ArgFrame.prog_helper = [0] /\
  exists e' h', ArgFrame.exec_prog ArgFrame.prog_helper (ArgFrame.entry0, ArgFrame.heap0) = Some (e', h') /\
                nth_error h' 0 <> nth_error ArgFrame.heap0 0.
Proof. exact ArgFrameProofs.passthrough_helper_refuted. Qed.
Print Assumptions arg_passthrough_helper_refuted.

Theorem arg_kernel_write_refuted :
  ArgFrame.may_mutate ArgFrame.entry0 ArgFrame.prog_kernel = [0] /\
  exists e' h', ArgFrame.exec_prog ArgFrame.prog_kernel (ArgFrame.entry0, ArgFrame.heap0) = Some (e', h') /\
                nth_error h' 0 <> nth_error ArgFrame.heap0 0.
Proof. exact ArgFrameProofs.kernel_write_refuted. Qed.
Print Assumptions arg_kernel_write_refuted.

(** ... and the repaired variants (one [copy] added: [values.astype(float)], [position.copy()], a helper that returns
    [sparse.csr_matrix(dense)]) are reported clean and leave the array as it was (non-vacuity of the frame theorem). *)
Theorem arg_repaired_variants_clean :
  ArgFrame.may_mutate ArgFrame.entry0 ArgFrame.prog_asarray_fixed = [] /\
  ArgFrame.may_mutate ArgFrame.entry0 ArgFrame.prog_slice_fixed = [] /\
  ArgFrame.may_mutate ArgFrame.entry0 ArgFrame.prog_helper_fixed = [] /\
  (exists e' h', ArgFrame.exec_prog ArgFrame.prog_asarray_fixed (ArgFrame.entry0, ArgFrame.heap0) = Some (e', h') /\
                 nth_error h' 0 = nth_error ArgFrame.heap0 0) /\
  (exists e' h', ArgFrame.exec_prog ArgFrame.prog_slice_fixed (ArgFrame.entry0, ArgFrame.heap0) = Some (e', h') /\
                 nth_error h' 0 = nth_error ArgFrame.heap0 0) /\
  (exists e' h', ArgFrame.exec_prog ArgFrame.prog_helper_fixed (ArgFrame.entry0, ArgFrame.heap0) = Some (e', h') /\
                 nth_error h' 0 = nth_error ArgFrame.heap0 0).
Proof. exact ArgFrameProofs.repaired_variants_clean. Qed.
Print Assumptions arg_repaired_variants_clean.

Example arg_frame_nonvacuous :
  ArgFrame.wf_entry ArgFrame.entry0 ArgFrame.heap0 /\
  ArgFrame.more_copies ArgFrame.prog_asarray ArgFrame.prog_asarray_fixed /\
  incl (ArgFrame.may_mutate ArgFrame.entry0 ArgFrame.prog_asarray_fixed) (ArgFrame.may_mutate ArgFrame.entry0 ArgFrame.prog_asarray) /\
  ~ incl (ArgFrame.may_mutate ArgFrame.entry0 ArgFrame.prog_asarray) (ArgFrame.may_mutate ArgFrame.entry0 ArgFrame.prog_asarray_fixed).
Proof.
  split; [exact ArgFrameProofs.wf_entry0|]. split; [exact ArgFrameProofs.asarray_fixed_more_copies|].
  exact ArgFrameProofs.asarray_report_strict.
Qed.

(** OBLIGATIONS on the facts re-extracted from /repo at every run (Gen/ArgMut.v).  Each entry = (public function,
    parameter, "file:function" whose body writes through an alias of that parameter); the alias path and the very
    statements, with their current line numbers, are in Gen/ArgMut.v.  The list below was reviewed entry by entry against
    the code; a source edit that lets ANY public entry point (630 of them: functions, methods of public classes - each
    class with the methods it inherits - and Cython kernels) write into a caller's object through a new (function,
    parameter, writer) makes [reflexivity] fail.  Defects found by this list and repaired since: visualize_graph called
    eliminate_zeros() on the caller's CSR matrix (c6c9d03d). *)
Import String.StringSyntax.
Local Open Scope string_scope.

Theorem arg_mutations_reviewed :
  map (fun e : String.string * String.string * String.string * String.string => let '(f, p, w, _) := e in (f, p, w)) ArgMut.arg_mutations =
  [
   (* in/out buffers of compiled kernels (Cython memoryviews filled by contract: labels, cluster weights, scores / fluid).  Internal
      modules, not exported by any package __init__; NO Python-level caller reaches them with a caller-owned array - every call
      site passes a fresh .astype(..) / np.zeros(..) / .copy() (otherwise an entry for that caller would be listed here);
      count_cliques_from_dag is a cdef function (not callable from Python), box its own ListingBox. *)
   ("classification.vote.vote_update", "labels", "sknetwork/classification/vote.pyx:vote_update");
   ("clustering.leiden_core.optimize_refine_core", "cluster_weights", "sknetwork/clustering/leiden_core.pyx:optimize_refine_core");
   ("clustering.leiden_core.optimize_refine_core", "in_cluster_weights", "sknetwork/clustering/leiden_core.pyx:optimize_refine_core");
   ("clustering.leiden_core.optimize_refine_core", "labels_refined", "sknetwork/clustering/leiden_core.pyx:optimize_refine_core");
   ("clustering.leiden_core.optimize_refine_core", "out_cluster_weights", "sknetwork/clustering/leiden_core.pyx:optimize_refine_core");
   ("clustering.louvain_core.optimize_core", "cluster_weights", "sknetwork/clustering/louvain_core.pyx:optimize_core");
   ("clustering.louvain_core.optimize_core", "in_cluster_weights", "sknetwork/clustering/louvain_core.pyx:optimize_core");
   ("clustering.louvain_core.optimize_core", "labels", "sknetwork/clustering/louvain_core.pyx:optimize_core");
   ("clustering.louvain_core.optimize_core", "out_cluster_weights", "sknetwork/clustering/louvain_core.pyx:optimize_core");
   (* GNN: layer / optimizer OBJECTS handed to GNNClassifier are its trainable state by design (fit re-initialises the weights,
      check_loss replaces the activation of the last layer by the matching loss, the optimizers rebind layer.weight / layer.bias);
      these are attribute REBINDINGS on objects, no array the caller passed is written, and objects of this kind are not in the
      property's list (matrices, label / weight / value arrays and dicts, feature matrices, initial positions). *)
   ("gnn.gnn_classifier.GNNClassifier.__init__", "layers", "sknetwork/gnn/gnn_classifier.py:GNNClassifier.fit");
   ("gnn.gnn_classifier.GNNClassifier.__init__", "layers", "sknetwork/gnn/utils.py:check_loss");
   ("gnn.gnn_classifier.GNNClassifier.__init__", "optimizer", "sknetwork/gnn/gnn_classifier.py:GNNClassifier.fit");
   ("gnn.optimizer.ADAM.step", "gnn", "sknetwork/gnn/optimizer.py:ADAM.step");
   ("gnn.optimizer.GD.step", "gnn", "sknetwork/gnn/optimizer.py:GD.step");
   ("gnn.utils.check_loss", "layer", "sknetwork/gnn/utils.py:check_loss");
   (* get_dendrogram(tree, dendrogram, index, depth, size, copy_tree): the documented contract - "copy_tree: if True, ensure the
      passed tree remains unchanged", i.e. by default the work list `tree` is consumed; dendrogram / index / size are the accumulators
      "for recursive use" (index is an int: += rebinds).  Not exported by sknetwork.hierarchy; its only callers (LouvainHierarchy,
      LouvainIteration) pass a tree they have just built.  The harness checks that copy_tree=True really protects the tree. *)
   ("hierarchy.postprocess.get_dendrogram", "dendrogram", "sknetwork/hierarchy/postprocess.py:get_dendrogram");
   ("hierarchy.postprocess.get_dendrogram", "index", "sknetwork/hierarchy/postprocess.py:get_dendrogram");
   ("hierarchy.postprocess.get_dendrogram", "size", "sknetwork/hierarchy/postprocess.py:get_dendrogram");
   ("hierarchy.postprocess.get_dendrogram", "tree", "sknetwork/hierarchy/postprocess.py:get_dendrogram");
   (* compiled kernels, as above *)
   ("linalg.diteration.diffusion", "fluid", "sknetwork/linalg/diteration.pyx:diffusion");
   ("linalg.diteration.diffusion", "scores", "sknetwork/linalg/diteration.pyx:diffusion");
   ("topology.cliques.count_cliques_from_dag", "box", "sknetwork/topology/cliques.pyx:count_cliques_from_dag");
   ("topology.weisfeiler_lehman_core.weisfeiler_lehman_coloring", "labels", "sknetwork/topology/weisfeiler_lehman_core.pyx:weisfeiler_lehman_coloring");
   (* svg_dendrogram_top / _left(..., width, height, ...): image width / height in pixels - numbers by contract (visualize_dendrogram passes
      its float parameters): `width *= scale`, `height += 2 * margin` rebind the local name.  Not annotated, hence listed. *)
   ("visualization.dendrograms.svg_dendrogram_left", "height", "sknetwork/visualization/dendrograms.py:svg_dendrogram_left");
   ("visualization.dendrograms.svg_dendrogram_left", "width", "sknetwork/visualization/dendrograms.py:svg_dendrogram_left");
   ("visualization.dendrograms.svg_dendrogram_top", "height", "sknetwork/visualization/dendrograms.py:svg_dendrogram_top");
   ("visualization.dendrograms.svg_dendrogram_top", "width", "sknetwork/visualization/dendrograms.py:svg_dendrogram_top");
   (* svg_text(pos, ...) shifts its own 2-vector `pos` by the text margin (helper, not exported by sknetwork.visualization); every caller
      passes a row of the freshly built array returned by rescale() (np.vstack(..).T) - no entry for visualize_graph / visualize_bigraph. *)
   ("visualization.graphs.svg_text", "pos", "sknetwork/visualization/graphs.py:svg_text")
  ].
Proof. reflexivity. Qed.
Print Assumptions arg_mutations_reviewed.

(** The same analysis when an argument may have ANY type, not only the documented (annotated) ones: one more writer,
    get_norms (linalg/normalizer.py), which copies a csr_matrix, converts an ndarray, leaves a LinearOperator alone, and
    for anything else - a SciPy sparse matrix that is not CSR - rebinds [.data] of the object it was given
    ([input_matrix.data = np.abs(input_matrix.data)], [** 2] for p = 2).  get_norms / normalize document "numpy array or
    sparse CSR matrix or LinearOperator", and so do the callers listed here (csr_matrix, or csr_matrix / LinearOperator);
    inside sknetwork a non-CSR matrix only reaches normalize as a fresh [adjacency.T] / [input_matrix.T] object, whose
    [.data] attribute is not the caller's.  Outside the property's quantifier (scope rule A3: documented input types);
    pinned so that a new route to it is seen. *)
Theorem arg_mutations_undocumented_types_reviewed :
  map (fun e : String.string * String.string * String.string * String.string => let '(f, p, w, _) := e in (f, p, w)) ArgMut.arg_mutations_undocumented_types =
  [
   ("classification.knn.NNClassifier.fit", "input_matrix", "sknetwork/linalg/normalizer.py:get_norms");
   ("classification.knn.NNClassifier.fit_predict<BaseClassifier>", "args", "sknetwork/linalg/normalizer.py:get_norms");
   ("classification.knn.NNClassifier.fit_predict<BaseClassifier>", "kwargs", "sknetwork/linalg/normalizer.py:get_norms");
   ("classification.knn.NNClassifier.fit_predict_proba<BaseClassifier>", "args", "sknetwork/linalg/normalizer.py:get_norms");
   ("classification.knn.NNClassifier.fit_predict_proba<BaseClassifier>", "kwargs", "sknetwork/linalg/normalizer.py:get_norms");
   ("classification.knn.NNClassifier.fit_transform<BaseClassifier>", "args", "sknetwork/linalg/normalizer.py:get_norms");
   ("classification.knn.NNClassifier.fit_transform<BaseClassifier>", "kwargs", "sknetwork/linalg/normalizer.py:get_norms");
   ("embedding.louvain_embedding.LouvainEmbedding.fit", "input_matrix", "sknetwork/linalg/normalizer.py:get_norms");
   ("embedding.louvain_embedding.LouvainEmbedding.fit_transform<BaseEmbedding>", "args", "sknetwork/linalg/normalizer.py:get_norms");
   ("embedding.louvain_embedding.LouvainEmbedding.fit_transform<BaseEmbedding>", "kwargs", "sknetwork/linalg/normalizer.py:get_norms");
   ("embedding.svd.PCA.__init__", "solver", "sknetwork/linalg/normalizer.py:get_norms");
   ("linalg.normalizer.get_norms", "matrix", "sknetwork/linalg/normalizer.py:get_norms");
   ("linalg.normalizer.normalize", "matrix", "sknetwork/linalg/normalizer.py:get_norms");
   ("linalg.ppr_solver.RandomSurferOperator.__init__", "adjacency", "sknetwork/linalg/normalizer.py:get_norms");
   ("linalg.ppr_solver.get_pagerank", "adjacency", "sknetwork/linalg/normalizer.py:get_norms");
   ("utils.tfidf.get_tfidf", "count_matrix", "sknetwork/linalg/normalizer.py:get_norms")
  ].
Proof. reflexivity. Qed.
Print Assumptions arg_mutations_undocumented_types_reviewed.

(** The scan is not vacuous: it covers the whole tree. *)
Theorem arg_scan_coverage :
  Nat.leb 800 ArgMut.n_functions_scanned = true /\ Nat.leb 600 ArgMut.n_public_entry_points = true.
Proof. split; reflexivity. Qed.
Print Assumptions arg_scan_coverage.

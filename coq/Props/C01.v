(** C01 - Results do not depend on the container format (theorem side).
    The model of the shared glue is Model/Format.v: the five containers [check_format] accepts,
    their denotation [den], and [to_csr] = what [sparse.csr_matrix(x)] produces.
    Not expressible here and therefore decided by the harness only: that no call modifies its
    arguments (aliasing), and that each estimator really starts with [check_format].
    This file contains only statements closed by [exact], their assumptions, and examples. *)
From Coq Require Import Permutation Sorted.
From SKN Require Import Base.Util Model.Bfs Model.Format Proofs.BfsProofs Proofs.FormatProofs.

(** 1. Conversion to CSR keeps the matrix: for every accepted container (Dense, Coo with duplicates in
    any order, Csc, Lil, Csr with unsorted rows / duplicates) the stored CSR entries, duplicates
    summed, are the denotation of the input - everywhere, also outside the shape (both sides 0). *)
Theorem to_csr_denotation (c : container) :
  wf_shape c -> forall i j, (entry (snd (to_csr c)) i j == den c i j)%Q.
Proof. exact (FormatProofs.to_csr_denotation c). Qed.
Print Assumptions to_csr_denotation.

Theorem to_csr_shape (c : container) :
  fst (to_csr c) = c_ncol c /\ length (snd (to_csr c)) = c_nrow c.
Proof. exact (FormatProofs.to_csr_shape c). Qed.
Print Assumptions to_csr_shape.

(** 2. For every container but CSR the result is in canonical format: each row strictly increasing in
    the column index, hence without duplicates.  ([canonical] = the invariants SciPy's own CSC / LIL
    classes maintain; it is [True] for Dense and Coo.) *)
Theorem to_csr_sorted (c : container) :
  is_csr c = false -> canonical c -> rows_sorted (snd (to_csr c)).
Proof. exact (FormatProofs.to_csr_sorted c). Qed.
Print Assumptions to_csr_sorted.

(** 3. Canonical form: two non-CSR containers of equal shape with pointwise equal denotations convert
    to the same CSR matrix - same column lists, [==] values - once stored zeros are dropped. *)
Theorem to_csr_canonical (c1 c2 : container) :
  is_csr c1 = false -> is_csr c2 = false ->
  wf_shape c1 -> wf_shape c2 -> canonical c1 -> canonical c2 ->
  c_nrow c1 = c_nrow c2 -> c_ncol c1 = c_ncol c2 ->
  (forall i j, (den c1 i j == den c2 i j)%Q) ->
  fst (to_csr c1) = fst (to_csr c2) /\
  rows_eq (eliminate_zeros (snd (to_csr c1))) (eliminate_zeros (snd (to_csr c2))).
Proof. exact (FormatProofs.to_csr_canonical c1 c2). Qed.
Print Assumptions to_csr_canonical.

(** ... and [eliminate_zeros] cannot be left out: COO duplicates that cancel stay stored (so [nnz],
    and the pattern a structural kernel walks, may differ from the dense array of equal value). *)
Theorem to_csr_canonical_needs_eliminate_zeros :
  exists c1 c2,
    is_csr c1 = false /\ is_csr c2 = false /\ wf_shape c1 /\ wf_shape c2 /\
    c_nrow c1 = c_nrow c2 /\ c_ncol c1 = c_ncol c2 /\
    (forall i j, (den c1 i j == den c2 i j)%Q) /\
    map (map fst) (snd (to_csr c1)) <> map (map fst) (snd (to_csr c2)).
Proof. exact FormatProofs.to_csr_canonical_needs_eliminate_zeros. Qed.
Print Assumptions to_csr_canonical_needs_eliminate_zeros.

(** CSR with shuffled indices (what [A[idx][:, idx]] or [A.dot(B)] produce): the denotation and the
    pattern (as edge sets) are those of the sorted matrix. *)
Theorem csr_shuffle_invariant (rows rows' : wrows) :
  Forall2 (@Permutation (nat * Q)) rows rows' ->
  (forall i j, (entry rows i j == entry rows' i j)%Q) /\
  same_rows (pattern rows) (pattern rows').
Proof. exact (FormatProofs.csr_shuffle_invariant rows rows'). Qed.
Print Assumptions csr_shuffle_invariant.

(** 4. Unsorted indices and duplicates cannot change hop distances or DAG edges: two graphs whose
    rows have the same elements ([same_rows g g' := length g = length g' /\
    forall u v, In v (row g u) <-> In v (row g' u)]) give the same [bfs] result for every source
    mask, and [get_dag] keeps the same edge sets for every order vector. *)
Theorem bfs_row_order_irrelevant (g g' : graph) :
  same_rows g g' ->
  (forall src, bfs g src = bfs g' src) /\
  (forall order, same_rows (get_dag g order) (get_dag g' order)).
Proof. exact (FormatProofs.bfs_row_order_irrelevant g g'). Qed.
Print Assumptions bfs_row_order_irrelevant.

(** Non-vacuity: one 2x3 matrix in four containers (COO unordered with a duplicate that is summed);
    hypotheses hold; all convert to the same CSR; a shuffled CSR with a duplicate index gives the
    same distances. *)
Example c01_nonvacuous :
  let d := Dense [[0; 2; 0]; [3; 0; 1]]%Q in
  let c := Coo 2 3 [(1, 2, 1%Q); (0, 1, 1%Q); (1, 0, 3%Q); (0, 1, 1%Q)] in
  let s := Csc 2 [[(1, 3%Q)]; [(0, 2%Q)]; [(1, 1%Q)]] in
  let l := Lil 3 [[(1, 2%Q)]; [(0, 3%Q); (2, 1%Q)]] in
  (wf_shape d /\ wf_shape c /\ wf_shape s /\ wf_shape l /\ canonical s /\ canonical l) /\
  to_csr d = (3, [[(1, 2%Q)]; [(0, 3%Q); (2, 1%Q)]]) /\
  to_csr c = to_csr d /\ to_csr s = to_csr d /\ to_csr l = to_csr d /\
  same_rows [[1; 2]; [2]; []] [[2; 1; 2]; [2]; []] /\
  bfs [[2; 1; 2]; [2]; []] [true; false; false] = Some [0; 1; 1]%Z /\
  bfs [[1; 2]; [2]; []] [true; false; false] = Some [0; 1; 1]%Z.
Proof.
  cbv zeta. split; [|split; [|split; [|split; [|split; [|split; [|split]]]]]]; try (vm_compute; reflexivity).
  - cbv [wf_shape canonical wf_rows rows_sorted row_sorted dense_ncol]. simpl.
    repeat split; repeat constructor; simpl; intuition lia.
  - split; [reflexivity|]. intros [|[|[|u]]] v; simpl; try tauto; destruct u; simpl; tauto.
Qed.

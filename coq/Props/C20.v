(** C20 — Drawings are well-formed SVG showing every node and edge once.
    This file contains only statements closed by [exact] (obligations over the generated terms of
    Gen/Sanitise.v are closed by computation), their assumptions, and non-vacuity examples.

    Vocabulary (Model/Xml.v, Model/Svg.v):
    - [wf_document_root root s]: [s] is derivable in the well-formedness grammar of the XML subset
      (one root element with tag [root], attributes double-quoted with pairwise distinct names,
      character data without raw less-than sign, without ampersand other than entity references and
      without the sequence ]]>), optionally surrounded by white space;
    - [safe_field]: a string without less-than sign, ampersand and double quote (numbers and colours
      rendered by Python); names ([t_name], the [text] arguments) are ARBITRARY strings;
    - [sanitise l s]: [s.replace(c1, r1).replace(c2, r2)...] for the pairs of [l] in order;
    - [svg_text_repl], [dendrogram_top_repl], [dendrogram_left_repl]: the replacement lists found in
      svg_text (graphs.py), svg_dendrogram_top and svg_dendrogram_left (dendrograms.py),
      regenerated from the source on every run. *)
From SKN Require Import Model.Xml Proofs.XmlProofs Model.Svg Proofs.SvgProofs Gen.Sanitise.
From Coq Require Import String Ascii List Bool.
Import ListNotations.
Open Scope string_scope.

(** ** 1. The sanitiser *)

(** For EVERY string [s] and every replacement list accepted by [sanitiser_ok]: the sanitised text
    has no raw less-than sign, every ampersand in it starts an entity reference, and it does not
    contain ]]> — it is character data. *)
Theorem sanitised_text_safe (l : list (ascii * string)) (s : string) :
  sanitiser_ok l = true ->
  no_char "<" (sanitise l s) = true /\ amp_ok (sanitise l s) = true /\ no_cdata_end (sanitise l s) = true.
Proof. exact (SvgProofs.sanitised_text_safe l s). Qed.
Print Assumptions sanitised_text_safe.

(** What [sanitiser_ok] demands includes: the ampersand, the less-than and the greater-than sign
    are among the replaced characters. *)
Theorem sanitiser_ok_replaces (l : list (ascii * string)) :
  sanitiser_ok l = true -> replaces "&" l = true /\ replaces "<" l = true /\ replaces ">" l = true.
Proof. exact (SvgProofs.sanitiser_ok_replaces l). Qed.
Print Assumptions sanitiser_ok_replaces.

(** Obligation over the generated terms: the replacement list of EACH of the three label sites of
    the current source is accepted (in particular each replaces both the ampersand and the
    less-than sign, in an order and with replacement strings that cannot re-introduce either). *)
Theorem svg_text_site_ok : sanitiser_ok svg_text_repl = true.
Proof. reflexivity. Qed.
Print Assumptions svg_text_site_ok.

Theorem dendrogram_sites_ok :
  sanitiser_ok dendrogram_top_repl = true /\ sanitiser_ok dendrogram_left_repl = true /\
  replaces "&" dendrogram_top_repl = true /\ replaces "<" dendrogram_top_repl = true /\
  replaces "&" dendrogram_left_repl = true /\ replaces "<" dendrogram_left_repl = true.
Proof. repeat split; reflexivity. Qed.
Print Assumptions dendrogram_sites_ok.

(** ** 2. The checker run on the implementation's strings is sound *)

Theorem wf_check_sound (s : string) : wf_check s = true -> wf_document s.
Proof. exact (XmlProofs.wf_check_sound s). Qed.
Print Assumptions wf_check_sound.

Theorem wf_check_root_sound (root s : string) : wf_check_root root s = true -> wf_document_root root s.
Proof. exact (XmlProofs.wf_check_root_sound root s). Qed.
Print Assumptions wf_check_root_sound.

(** ** 3. Every templater yields a well-formed element, for all names and all safe fields *)

(** svg_text of the current source, for every [text] and every [position]. *)
Theorem svg_text_wf (x y text font_size position : string) :
  safe_field x = true -> safe_field y = true -> safe_field font_size = true ->
  wf_elem "text" (svg_text x y text font_size position).
Proof. exact (SvgProofs.svg_text_wf svg_text_repl x y text font_size position svg_text_site_ok). Qed.
Print Assumptions svg_text_wf.

Theorem svg_node_wf (x y size color stroke_width stroke_color : string) :
  safe_field x = true -> safe_field y = true -> safe_field size = true -> safe_field color = true ->
  safe_field stroke_width = true -> safe_field stroke_color = true ->
  exists e, svg_node x y size color stroke_width stroke_color = e ++ nl /\ wf_elem "circle" e.
Proof. exact (SvgProofs.svg_node_wf x y size color stroke_width stroke_color). Qed.
Print Assumptions svg_node_wf.

(** A pie-chart wedge (svg_pie_chart_node emits one per column, or falls back to svg_node). *)
Theorem svg_wedge_wf (x y size stroke_width stroke_color : string) (w : wedge) :
  safe_field x = true -> safe_field y = true -> safe_field size = true ->
  safe_field stroke_width = true -> safe_field stroke_color = true -> wedge_safe w = true ->
  (exists e, svg_wedge x y size stroke_width stroke_color w = e ++ nl /\ wf_elem "path" e) /\
  starts "<path d=" (svg_wedge x y size stroke_width stroke_color w) = true.
Proof. exact (SvgProofs.svg_wedge_wf x y size stroke_width stroke_color w). Qed.
Print Assumptions svg_wedge_wf.

Theorem svg_edge_wf (x1 y1 x2 y2 edge_width edge_color : string) :
  safe_field x1 = true -> safe_field y1 = true -> safe_field x2 = true -> safe_field y2 = true ->
  safe_field edge_width = true -> safe_field edge_color = true ->
  (exists e, svg_edge x1 y1 x2 y2 edge_width edge_color = e ++ nl /\ wf_elem "path" e) /\
  starts "<path stroke-width=" (svg_edge x1 y1 x2 y2 edge_width edge_color) = true.
Proof. exact (SvgProofs.svg_edge_wf x1 y1 x2 y2 edge_width edge_color). Qed.
Print Assumptions svg_edge_wf.

(** svg_edge_directed: one path element when the positions are distinct, nothing otherwise. *)
Theorem svg_edge_directed_wf (x1 y1 x2 y2 edge_width edge_color : string) :
  safe_field x1 = true -> safe_field y1 = true -> safe_field x2 = true -> safe_field y2 = true ->
  safe_field edge_width = true -> safe_field edge_color = true ->
  (exists e, svg_edge_directed true x1 y1 x2 y2 edge_width edge_color = e ++ nl /\ wf_elem "path" e) /\
  starts "<path stroke-width=" (svg_edge_directed true x1 y1 x2 y2 edge_width edge_color) = true /\
  svg_edge_directed false x1 y1 x2 y2 edge_width edge_color = "".
Proof. exact (SvgProofs.svg_edge_directed_wf x1 y1 x2 y2 edge_width edge_color). Qed.
Print Assumptions svg_edge_directed_wf.

(** The arrow-head definition emitted once per edge colour of a directed drawing. *)
Theorem svg_marker_wf (color : string) :
  safe_field color = true -> exists e, svg_marker color = e ++ nl /\ wf_elem "defs" e.
Proof. exact (SvgProofs.svg_marker_wf color). Qed.
Print Assumptions svg_marker_wf.

(** visualize_graph of the current source: for ALL lists of edges, nodes and names, every option. *)
Theorem svg_graph_wf (width height : string) (display_edges directed : bool) (markers : list string)
        (edges residual : list edge) (nodes : list node) (names : option (list label))
        (font_size name_position : string) :
  safe_field width = true -> safe_field height = true -> safe_field font_size = true ->
  forallb safe_field markers = true -> forallb edge_safe edges = true -> forallb edge_safe residual = true ->
  forallb node_safe nodes = true -> labels_safe names = true ->
  wf_document_root "svg"
    (visualize_graph width height display_edges directed markers edges residual nodes names font_size name_position).
Proof.
  exact (visualize_graph_wf svg_text_repl width height display_edges directed markers edges residual nodes names
                            font_size name_position svg_text_site_ok).
Qed.
Print Assumptions svg_graph_wf.

(** visualize_bigraph of the current source. *)
Theorem svg_bigraph_wf (width height : string) (display_edges : bool) (edges residual : list edge)
        (nodes_row nodes_col : list node) (names_row names_col : option (list label)) (font_size : string) :
  safe_field width = true -> safe_field height = true -> safe_field font_size = true ->
  forallb edge_safe edges = true -> forallb edge_safe residual = true ->
  forallb node_safe nodes_row = true -> forallb node_safe nodes_col = true ->
  labels_safe names_row = true -> labels_safe names_col = true ->
  wf_document_root "svg"
    (visualize_bigraph width height display_edges edges residual nodes_row nodes_col names_row names_col font_size).
Proof.
  exact (visualize_bigraph_wf svg_text_repl width height display_edges edges residual nodes_row nodes_col
                              names_row names_col font_size svg_text_site_ok).
Qed.
Print Assumptions svg_bigraph_wf.

(** ** 4. Counts: the document is the root tag, the marker definitions, and then exactly one edge
    path per displayed edge (every stored / residual entry of an undirected drawing, those between
    distinct positions of a directed one), one node shape (a circle, or a non-empty group of
    pie-chart wedges) per node, and one text element per name. *)
Theorem svg_counts (width height : string) (display_edges directed : bool) (markers : list string)
        (edges residual : list edge) (nodes : list node) (names : option (list label))
        (font_size name_position : string) :
  safe_field font_size = true ->
  forallb edge_safe edges = true -> forallb edge_safe residual = true ->
  forallb node_safe nodes = true -> labels_safe names = true ->
  exists defs E N T,
    visualize_graph width height display_edges directed markers edges residual nodes names font_size name_position
    = svg_header width height ++ defs ++ sconcat E ++ sconcat N ++ sconcat T ++ "</svg>" ++ nl /\
    defs = (if display_edges && directed then sconcat (map svg_marker markers) else "") /\
    Forall edge_path E /\
    length E = (if display_edges then length (filter (drawn directed) (edges ++ residual)) else 0) /\
    Forall node_shape N /\ length N = length nodes /\
    Forall (wf_elem "text") T /\ length T = n_labels names.
Proof.
  exact (visualize_graph_counts svg_text_repl width height display_edges directed markers edges residual nodes names
                                font_size name_position svg_text_site_ok).
Qed.
Print Assumptions svg_counts.

Theorem svg_bigraph_counts (width height : string) (display_edges : bool) (edges residual : list edge)
        (nodes_row nodes_col : list node) (names_row names_col : option (list label)) (font_size : string) :
  safe_field font_size = true ->
  forallb edge_safe edges = true -> forallb edge_safe residual = true ->
  forallb node_safe nodes_row = true -> forallb node_safe nodes_col = true ->
  labels_safe names_row = true -> labels_safe names_col = true ->
  exists E N T,
    visualize_bigraph width height display_edges edges residual nodes_row nodes_col names_row names_col font_size
    = svg_header2 width height ++ nl ++ sconcat E ++ sconcat N ++ sconcat T ++ "</svg>" ++ nl /\
    Forall edge_path E /\
    length E = (if display_edges then length edges + length residual else 0) /\
    Forall node_shape N /\ length N = length nodes_row + length nodes_col /\
    Forall (wf_elem "text") T /\ length T = n_labels names_row + n_labels names_col.
Proof.
  exact (visualize_bigraph_counts svg_text_repl width height display_edges edges residual nodes_row nodes_col
                                  names_row names_col font_size svg_text_site_ok).
Qed.
Print Assumptions svg_bigraph_counts.

(** The same counts read off the STRING: the number of positions at which a text element, a circle,
    an edge path ([P_edge], the opening of svg_edge / svg_edge_directed) or a pie-chart wedge
    ([P_wedge]) starts, in the whole document, names included (a name can never fake an element:
    it is sanitised). Circles are the nodes drawn by svg_node; every other node is a pie chart
    and contributes its wedges. *)
Theorem svg_counts_on_string (width height : string) (display_edges directed : bool) (markers : list string)
        (edges residual : list edge) (nodes : list node) (names : option (list label))
        (font_size name_position : string) :
  safe_field width = true -> safe_field height = true -> safe_field font_size = true ->
  forallb safe_field markers = true -> forallb edge_safe edges = true -> forallb edge_safe residual = true ->
  forallb node_safe nodes = true -> labels_safe names = true ->
  let doc := visualize_graph width height display_edges directed markers edges residual nodes names
                             font_size name_position in
  count_starts P_text doc = n_labels names /\
  count_starts P_circle doc = length (filter is_circle_node nodes) /\
  count_starts P_edge doc = (if display_edges then length (filter (drawn directed) (edges ++ residual)) else 0) /\
  count_starts P_wedge doc = total_wedges nodes.
Proof.
  exact (visualize_graph_string_counts svg_text_repl width height display_edges directed markers edges residual
           nodes names font_size name_position svg_text_site_ok).
Qed.
Print Assumptions svg_counts_on_string.

Theorem svg_bigraph_counts_on_string (width height : string) (display_edges : bool) (edges residual : list edge)
        (nodes_row nodes_col : list node) (names_row names_col : option (list label)) (font_size : string) :
  safe_field width = true -> safe_field height = true -> safe_field font_size = true ->
  forallb edge_safe edges = true -> forallb edge_safe residual = true ->
  forallb node_safe nodes_row = true -> forallb node_safe nodes_col = true ->
  labels_safe names_row = true -> labels_safe names_col = true ->
  let doc := visualize_bigraph width height display_edges edges residual nodes_row nodes_col names_row names_col
                               font_size in
  count_starts P_text doc = n_labels names_row + n_labels names_col /\
  count_starts P_circle doc = length (filter is_circle_node (nodes_row ++ nodes_col)) /\
  count_starts P_edge doc = (if display_edges then length edges + length residual else 0) /\
  count_starts P_wedge doc = total_wedges nodes_row + total_wedges nodes_col.
Proof.
  exact (visualize_bigraph_string_counts svg_text_repl width height display_edges edges residual nodes_row nodes_col
           names_row names_col font_size svg_text_site_ok).
Qed.
Print Assumptions svg_bigraph_counts_on_string.

(** ** 5. Dendrograms *)

(** For ANY pair of replacement lists: if the list of the site that is used is accepted, the
    dendrogram document is well-formed for all names. *)
Theorem svg_dendrogram_wf_if (repl_top repl_left : list (ascii * string)) (rotate : bool) (width height : string)
        (names : option (list label)) (rotate_names : bool) (font_size line_width : string) (merges : list merge) :
  sanitiser_ok (if rotate then repl_left else repl_top) = true ->
  safe_field width = true -> safe_field height = true -> safe_field font_size = true ->
  safe_field line_width = true -> labels_safe names = true -> forallb merge_safe merges = true ->
  wf_document_root "svg"
    (visualize_dendrogram_with repl_top repl_left rotate width height names rotate_names font_size line_width merges).
Proof.
  exact (visualize_dendrogram_wf repl_top repl_left rotate width height names rotate_names font_size line_width merges).
Qed.
Print Assumptions svg_dendrogram_wf_if.

(** visualize_dendrogram of the current source (both sites, obligation [dendrogram_sites_ok]). *)
Theorem svg_dendrogram_wf (rotate : bool) (width height : string) (names : option (list label))
        (rotate_names : bool) (font_size line_width : string) (merges : list merge) :
  safe_field width = true -> safe_field height = true -> safe_field font_size = true ->
  safe_field line_width = true -> labels_safe names = true -> forallb merge_safe merges = true ->
  wf_document_root "svg"
    (visualize_dendrogram rotate width height names rotate_names font_size line_width merges).
Proof.
  exact (visualize_dendrogram_wf dendrogram_top_repl dendrogram_left_repl rotate width height names rotate_names
           font_size line_width merges
           (if rotate as b return (sanitiser_ok (if b then dendrogram_left_repl else dendrogram_top_repl) = true)
            then proj1 (proj2 dendrogram_sites_ok) else proj1 dendrogram_sites_ok)).
Qed.
Print Assumptions svg_dendrogram_wf.

(** One text element per name, three paths per merge, nothing else. *)
Theorem svg_dendrogram_counts (rotate : bool) (width height : string) (names : option (list label))
        (rotate_names : bool) (font_size line_width : string) (merges : list merge) :
  safe_field font_size = true -> safe_field line_width = true ->
  labels_safe names = true -> forallb merge_safe merges = true ->
  exists T P,
    visualize_dendrogram rotate width height names rotate_names font_size line_width merges
    = svg_header2 width height ++ sconcat T ++ sconcat P ++ "</svg>" /\
    Forall (wf_elem "text") T /\ length T = n_labels names /\
    Forall line_path P /\ length P = 3 * length merges.
Proof.
  exact (visualize_dendrogram_counts dendrogram_top_repl dendrogram_left_repl rotate width height names rotate_names
           font_size line_width merges
           (if rotate as b return (sanitiser_ok (if b then dendrogram_left_repl else dendrogram_top_repl) = true)
            then proj1 (proj2 dendrogram_sites_ok) else proj1 dendrogram_sites_ok)).
Qed.
Print Assumptions svg_dendrogram_counts.

Theorem svg_dendrogram_counts_on_string (rotate : bool) (width height : string) (names : option (list label))
        (rotate_names : bool) (font_size line_width : string) (merges : list merge) :
  safe_field width = true -> safe_field height = true -> safe_field font_size = true ->
  safe_field line_width = true -> labels_safe names = true -> forallb merge_safe merges = true ->
  let doc := visualize_dendrogram rotate width height names rotate_names font_size line_width merges in
  count_starts P_text doc = n_labels names /\ count_starts P_circle doc = 0 /\
  count_starts P_edge doc = 3 * length merges /\ count_starts P_wedge doc = 0.
Proof.
  exact (visualize_dendrogram_string_counts dendrogram_top_repl dendrogram_left_repl rotate width height names
           rotate_names font_size line_width merges
           (if rotate as b return (sanitiser_ok (if b then dendrogram_left_repl else dendrogram_top_repl) = true)
            then proj1 (proj2 dendrogram_sites_ok) else proj1 dendrogram_sites_ok)).
Qed.
Print Assumptions svg_dendrogram_counts_on_string.

(** The hypothesis of [svg_dendrogram_wf_if] is necessary: with the replacement list the two
    dendrogram label sites had before they were aligned with svg_text (ampersand only), a name
    containing a less-than sign yields a document that is not well-formed — every field safe. *)
Theorem svg_dendrogram_wf_refuted :
  sanitiser_ok legacy_dendrogram_repl = false /\
  forall rotate, ~ wf_document (refuting_dendrogram rotate).
Proof. exact SvgProofs.svg_dendrogram_wf_refuted. Qed.
Print Assumptions svg_dendrogram_wf_refuted.

(** ** Non-vacuity *)

(** A directed drawing with a marker, an edge between coinciding positions (not drawn), a disk, a
    pie chart, and names made of XML-special and non-ASCII characters: the hypotheses of
    [svg_graph_wf] hold, the document passes the checker, and the sanitiser acts as in the code. *)
Example c20_nonvacuous :
  let e1 := {| e_x1 := "20"; e_y1 := "320"; e_x2 := "153"; e_y2 := "79"; e_width := "1"; e_color := "gray"; e_distinct := true |} in
  let e2 := {| e_x1 := "20"; e_y1 := "320"; e_x2 := "20"; e_y2 := "320"; e_width := "1"; e_color := "gray"; e_distinct := false |} in
  let w := {| w_x0 := "27.0"; w_y0 := "320.0"; w_large := "0"; w_x1 := "13.0"; w_y1 := "320.0"; w_color := "blue" |} in
  let n1 := {| n_xi := "20"; n_yi := "320"; n_x := "20.0"; n_y := "320.0"; n_size := "7.0"; n_width := "1.0"; n_shape := Disk "rgb(58, 76, 192)" |} in
  let n2 := {| n_xi := "153"; n_yi := "79"; n_x := "153.3"; n_y := "79.9"; n_size := "7.0"; n_width := "3.0"; n_shape := Pie false [w; w] |} in
  let names := Some [ {| t_x := "30"; t_y := "320"; t_name := "a<b & ""c"" ]]>" |};
                      {| t_x := "163"; t_y := "79"; t_name := "é中😀'" |} ] in
  let doc := visualize_graph "476.0" "340" true true ["gray"] [e1; e2] [] [n1; n2] names "12" "above" in
  forallb edge_safe [e1; e2] = true /\ forallb node_safe [n1; n2] = true /\ labels_safe names = true /\
  wf_check_root "svg" doc = true /\
  length (filter (drawn true) [e1; e2]) = 1 /\
  (count_starts P_text doc, count_starts P_circle doc, count_starts P_edge doc, count_starts P_wedge doc) = (2, 1, 1, 2) /\
  sanitise svg_text_repl "a<b & ""c"" ]]>" = "a b   ""c"" ]] ".
Proof. vm_compute. repeat split; reflexivity. Qed.

(** C13 — Semi-supervised predictions respect the seeds and the local evidence.
    Only statements closed by [exact], their assumptions, and non-vacuity examples.
    Models: Model/Vote.v (vote_update, flat level), Model/Classify.v (Propagation, DiffusionClassifier,
    NNClassifier, RankClassifier, NNLinker, metrics). [pvariant] / [kvariant] are the facts of the source the
    models are parametrised by; their current values are Gen/VoteConsts.v (re-read from /repo on every run). *)
From SKN Require Import Base.Util Model.Vote Model.Bfs Model.Classify Proofs.VoteProofs Proofs.ClassifyProofs Gen.VoteConsts.
From Coq Require Import Permutation Sorted.

(** * 1. Metrics = confusion-matrix / textbook definitions *)

(** accuracy = trace / total of the confusion matrix; both fail on exactly the same inputs *)
Theorem metrics_def_accuracy (lt lp : list Z) :
  match accuracy lt lp, confusion lt lp with
  | Some a, Some C => (a == qnat (trace C) / qnat (total C))%Q /\ 0 < total C
  | None, None => True
  | _, _ => False
  end.
Proof. exact (accuracy_def lt lp). Qed.
Print Assumptions metrics_def_accuracy.

(** per-class precision, recall, F1 computed from the confusion matrix (as get_f1_scores does) equal
    TP/(TP+FP), TP/(TP+FN), 2TP/(2TP+FP+FN) over the counted samples (0 when the denominator vanishes) *)
Theorem metrics_def_prf (lt lp : list Z) (f1 pr rc : list Q) :
  f1_scores lt lp = Some (f1, pr, rc) ->
  let m := masked lt lp in
  let K := n_labels lt lp in
  length f1 = K /\ length pr = K /\ length rc = K /\
  forall k, k < K ->
    (nthq pr k == spec_precision m (Z.of_nat k))%Q /\
    (nthq rc k == spec_recall m (Z.of_nat k))%Q /\
    (nthq f1 k == spec_f1 m (Z.of_nat k))%Q.
Proof. exact (prf_def lt lp f1 pr rc). Qed.
Print Assumptions metrics_def_prf.

(** averages as the source computes them: micro = accuracy; macro = mean over ALL max+1 labels *)
Theorem metrics_def_averages (lt lp : list Z) :
  average_f1 lt lp Micro = accuracy lt lp /\
  (forall f1 pr rc, f1_scores lt lp = Some (f1, pr, rc) ->
     exists x, average_f1 lt lp Macro = Some x /\
               (x == sumq (map (fun k => spec_f1 (masked lt lp) (Z.of_nat k)) (seq 0 (n_labels lt lp)))
                     / qnat (n_labels lt lp))%Q) /\
  (f1_scores lt lp = None -> average_f1 lt lp Macro = None /\ average_f1 lt lp Weighted = None).
Proof. exact (average_def lt lp). Qed.
Print Assumptions metrics_def_averages.

(** weighted = F1 of each label of labels_true weighted by its number of occurrences in labels_true *)
Theorem metrics_def_weighted (lt lp : list Z) (f1 pr rc : list Q) :
  f1_scores lt lp = Some (f1, pr, rc) ->
  let cnt := fun l => count_if (fun t => (t =? l)%Z) lt in
  exists x, average_f1 lt lp Weighted = Some x /\
    (x == sumq (map (fun l => spec_f1 (masked lt lp) l * qnat (cnt l)) (uniq_labels lt))
          / qnat (sumn (map cnt (uniq_labels lt))))%Q.
Proof. exact (weighted_def lt lp f1 pr rc). Qed.
Print Assumptions metrics_def_weighted.

(** * 2. Label sets and probability rows *)

(** Propagation, every source variant, every order / oracle answer: each predicted label is -1 or a seed
    label (non-negative outside clustering mode) *)
Theorem labels_in_seed_set_or_minus1 pv c seeds order oracle weighted n_iter fuel res :
  propagation pv c seeds order oracle weighted n_iter fuel = POk res ->
  length (pr_labels res) = length seeds /\
  forall x, In x (pr_labels res) ->
    x = (-1)%Z \/ (In x seeds /\ (clustering_mode (pv_ctest pv) seeds = false -> (0 <= x)%Z)).
Proof. exact (propagation_labels pv c seeds order oracle weighted n_iter fuel res). Qed.
Print Assumptions labels_in_seed_set_or_minus1.

(** Propagation: one row per node, non-negative, summing to 1 (or to 0); non-negative weights *)
Theorem probs_rows (adj : adjrows) (labels : list Z) :
  (forall r, In r adj -> Forall (fun p : nat * Q => 0 <= snd p)%Q r) ->
  Forall prob_row (prop_probs adj labels) /\
  Forall (fun r => length r = n_cols labels) (prop_probs adj labels) /\
  length (prop_probs adj labels) = length adj.
Proof. exact (prop_probs_rows adj labels). Qed.
Print Assumptions probs_rows.

(** RankClassifier (PageRankClassifier), for any ranking oracle returning one non-negative score per node
    and class: labels are seed labels (never -1), rows are probability rows over the seed labels *)
Theorem labels_and_probs_rank (seeds : list Z) (scores : mat) :
  scores_ok seeds scores -> uniq_labels seeds <> [] ->
  let '(labels, probs) := rank_classify seeds scores in
  length labels = length scores /\ length probs = length scores /\
  (forall l, In l labels -> In l seeds /\ (0 <= l)%Z) /\
  Forall (fun r : list (Z * Q) => map fst r = uniq_labels seeds /\ prob_row (map snd r)) probs.
Proof. exact (rank_classify_ok seeds scores). Qed.
Print Assumptions labels_and_probs_rank.

(** DiffusionClassifier / NNClassifier rows (exp oracle with non-negative values) *)
Theorem probs_rows_diffusion adj labels n_iter centering scale expf lab probs :
  (forall r, In r adj -> Forall (fun p : nat * Q => 0 <= snd p)%Q r) ->
  (forall x, 0 <= expf x)%Q ->
  dc_fit adj labels n_iter centering scale expf = Some (lab, probs) ->
  Forall prob_row probs.
Proof. exact (dc_probs_rows adj labels n_iter centering scale expf lab probs). Qed.
Print Assumptions probs_rows_diffusion.

Theorem probs_rows_nn labels index_train index_test n_neighbors argparts :
  Forall prob_row (fst (nn_fit_core labels index_train index_test n_neighbors argparts)).
Proof. exact (nn_probs_rows labels index_train index_test n_neighbors argparts). Qed.
Print Assumptions probs_rows_nn.

(** * 3. Fixed point = local arg-max *)

(** Obligations over the generated term (Gen/VoteConsts.v, re-read from /repo on every run): the kernel of the
    current source reads the weight of the edge, clears its scratch list, sizes votes by the labels, the unit
    weights are one per edge (D5 / 32660cf6); the clustering test is sign-aware (D21 / 4b87643c); the
    'increasing' / 'decreasing' orders keep exactly the free nodes (c0b9c86b). Each fails if the defect comes back. *)
Theorem source_kernel_repaired :
  wpos src_kernel = true /\ clr src_kernel = true /\ vlab src_kernel = true /\
  pv_kernel src_variant = src_kernel /\ pv_ones src_variant = Ones_nnz.
Proof. repeat split; reflexivity. Qed.
Print Assumptions source_kernel_repaired.

Theorem source_clustering_test_sign_aware : pv_ctest src_variant <> CT_distinct.
Proof. intros H; cbv in H; discriminate H. Qed.
Print Assumptions source_clustering_test_sign_aware.

Theorem source_order_keeps_free_nodes : pv_order src_variant = OI_filter.
Proof. reflexivity. Qed.
Print Assumptions source_order_keeps_free_nodes.

(** The current source, every node order (any shuffle / any argsort answer), weighted (non-negative weights) or
    not: when the loop stopped because a sweep changed nothing, every non-seed node with a labelled neighbour holds
    a label of maximal total vote among its neighbours (edge weights when weighted, counts otherwise). *)
Theorem propagation_fixed_point_argmax c seeds order oracle weighted n_iter fuel res :
  (weighted = true -> Forall (fun w => 0 <= w)%Q (c_data c)) ->
  oracle_contract order oracle seeds ->
  propagation src_variant c seeds order oracle weighted n_iter fuel = POk res ->
  pr_fixed res = true -> 0 < pr_sweeps res ->
  forall i, i < length seeds -> (nthz seeds i < 0)%Z ->
    has_labelled_neighbour (prop_nbrs c weighted i) (pr_labels res) ->
    local_max (prop_nbrs c weighted i) (pr_labels res) i.
Proof.
  exact (propagation_fixed_point_argmax_repaired src_variant c seeds order oracle weighted n_iter fuel res
           eq_refl eq_refl source_clustering_test_sign_aware source_order_keeps_free_nodes).
Qed.
Print Assumptions propagation_fixed_point_argmax.

(** the general statement, for every variant of the source (unweighted: every kernel; weighted: kernels reading
    the weight of the edge and clearing their scratch list), outside clustering mode, admissible orders *)
Theorem propagation_fixed_point_argmax_variants pv c seeds order oracle weighted n_iter fuel res :
  (weighted = true ->
   wpos (pv_kernel pv) = true /\ clr (pv_kernel pv) = true /\ Forall (fun w => 0 <= w)%Q (c_data c)) ->
  clustering_mode (pv_ctest pv) seeds = false -> order_ok (pv_order pv) order oracle seeds ->
  propagation pv c seeds order oracle weighted n_iter fuel = POk res ->
  pr_fixed res = true -> 0 < pr_sweeps res ->
  forall i, i < length seeds -> (nthz seeds i < 0)%Z ->
    has_labelled_neighbour (prop_nbrs c weighted i) (pr_labels res) ->
    local_max (prop_nbrs c weighted i) (pr_labels res) i.
Proof. exact (propagation_fixed_point_argmax_model pv c seeds order oracle weighted n_iter fuel res). Qed.
Print Assumptions propagation_fixed_point_argmax_variants.

(** the same at the level of one call of the kernel (any update list without repetition) *)
Theorem vote_fixed_point_unweighted kv indptr indices m labels index labels' :
  vote_update kv indptr indices (repeat 1%Q m) labels index = VOk labels' ->
  NoDup index ->
  (forall i, In i index -> nthz labels' i = nthz labels i) ->
  labels' = labels /\
  forall i, In i index -> has_labelled_neighbour (nbrs_unit indptr indices i) labels' ->
            local_max (nbrs_unit indptr indices i) labels' i.
Proof. exact (VoteProofs.vote_fixed_point_unweighted kv indptr indices m labels index labels'). Qed.
Print Assumptions vote_fixed_point_unweighted.

Theorem vote_fixed_point_weighted kv indptr indices data labels index labels' :
  wpos kv = true -> clr kv = true ->
  Forall (fun w => 0 <= w)%Q data ->
  vote_update kv indptr indices data labels index = VOk labels' ->
  NoDup index ->
  (forall i, In i index -> nthz labels' i = nthz labels i) ->
  labels' = labels /\
  forall i, In i index -> has_labelled_neighbour (nbrs_weighted indptr indices data i) labels' ->
            local_max (nbrs_weighted indptr indices data i) labels' i.
Proof. exact (VoteProofs.vote_fixed_point_weighted kv indptr indices data labels index labels'). Qed.
Print Assumptions vote_fixed_point_weighted.

(** D5, the LEGACY kernel (before 32660cf6: weight read at data[node], votes_neigh never cleared): a fixed point
    of weighted propagation where node 3 keeps label 0 against weights 2 > 1 *)
Theorem vote_weighted_refuted :
  vote_update_legacy wit_indptr wit_indices wit_data wit_labels wit_index = VOk wit_labels /\
  NoDup wit_index /\ Forall (fun w => 0 < w)%Q wit_data /\
  In 3 wit_index /\
  has_labelled_neighbour (nbrs_weighted wit_indptr wit_indices wit_data 3) wit_labels /\
  ~ local_max (nbrs_weighted wit_indptr wit_indices wit_data 3) wit_labels 3.
Proof. exact vote_weighted_refuted_legacy. Qed.
Print Assumptions vote_weighted_refuted.

Theorem propagation_weighted_refuted :
  (exists res', propagation pv_32660cf6 wit_csr [-1; 0; 1; -1]%Z ONone [] true None 10 = POk res' /\
                pr_labels res' = [-1; 0; 1; 1]%Z) /\
  exists res, propagation pv_legacy wit_csr [-1; 0; 1; -1]%Z ONone [] true None 10 = POk res /\
    pr_fixed res = true /\ 0 < pr_sweeps res /\ clustering_mode CT_distinct [-1; 0; 1; -1]%Z = false /\
    Forall (fun w => 0 < w)%Q (c_data wit_csr) /\
    In 3 (pr_index res) /\
    has_labelled_neighbour (nbrs_weighted wit_indptr wit_indices wit_data 3) (pr_labels res) /\
    ~ local_max (nbrs_weighted wit_indptr wit_indices wit_data 3) (pr_labels res) 3.
Proof. exact propagation_weighted_refuted_legacy. Qed.
Print Assumptions propagation_weighted_refuted.

(** * 4. Seeds keep their labels *)

(** The current source, every node order and oracle answer: with at least one unlabelled node, every seed keeps
    its label. (A vector of n distinct non-negative labels is the documented clustering mode.) *)
Theorem propagation_seeds_fixed c seeds order oracle weighted n_iter fuel res :
  (exists i, i < length seeds /\ (nthz seeds i < 0)%Z) ->
  oracle_contract order oracle seeds ->
  propagation src_variant c seeds order oracle weighted n_iter fuel = POk res ->
  forall i, i < length seeds -> (0 <= nthz seeds i)%Z -> nthz (pr_labels res) i = nthz seeds i.
Proof.
  exact (propagation_seeds_fixed_repaired src_variant c seeds order oracle weighted n_iter fuel res
           source_clustering_test_sign_aware source_order_keeps_free_nodes).
Qed.
Print Assumptions propagation_seeds_fixed.

(** the general statement for every variant of the source *)
Theorem propagation_seeds_fixed_variants pv c seeds order oracle weighted n_iter fuel res :
  propagation pv c seeds order oracle weighted n_iter fuel = POk res ->
  clustering_mode (pv_ctest pv) seeds = false -> order_ok (pv_order pv) order oracle seeds ->
  forall i, i < length seeds -> (0 <= nthz seeds i)%Z -> nthz (pr_labels res) i = nthz seeds i.
Proof. exact (propagation_seeds_fixed_model pv c seeds order oracle weighted n_iter fuel res). Qed.
Print Assumptions propagation_seeds_fixed_variants.

(** a clustering test that looks at the signs leaves clustering mode as soon as one node is unlabelled *)
Theorem clustering_mode_needs_no_unlabelled ct seeds :
  ct <> CT_distinct -> (exists i, i < length seeds /\ (nthz seeds i < 0)%Z) -> clustering_mode ct seeds = false.
Proof. exact (clustering_mode_unlabelled ct seeds). Qed.
Print Assumptions clustering_mode_needs_no_unlabelled.

(** D21, LEGACY source (before 4b87643c, test len(set(labels)) == n): n-1 distinct labels and one unlabelled node were
    taken for clustering mode; [[0,4,0],[4,0,0],[0,0,0]] with seeds {0:0, 1:1} returned [1,1,-1] *)
Theorem propagation_seeds_fixed_refuted_legacy :
  let c := {| c_indptr := [0; 1; 2; 2]; c_indices := [1; 0]; c_data := [4; 4]%Q |} in
  let seeds := [0; 1; -1]%Z in
  exists res, propagation pv_32660cf6 c seeds ONone [] true None 10 = POk res /\
    pr_labels res = [1; 1; -1]%Z /\ nthz seeds 0 = 0%Z /\ nthz (pr_labels res) 0 <> nthz seeds 0 /\
    clustering_mode CT_distinct seeds = true.
Proof. exact ClassifyProofs.propagation_seeds_fixed_refuted_legacy. Qed.
Print Assumptions propagation_seeds_fixed_refuted_legacy.

(** LEGACY source (before c0b9c86b), node_order = 'increasing' with a valid argsort answer: seed 3 lost its label,
    node 0 was never updated *)
Theorem propagation_seeds_fixed_order_refuted_legacy :
  let c := {| c_indptr := [0; 2; 5; 7; 8]; c_indices := [1; 2; 0; 2; 3; 0; 1; 1];
              c_data := [1; 1; 1; 1; 1; 1; 1; 1]%Q |} in
  let seeds := [-1; 0; -1; 1]%Z in
  let inw := [2; 3; 2; 1]%Z in
  let oracle := [3; 0; 2; 1] in
  Permutation oracle (seq 0 4) /\ Sorted Z.le (map (nthz inw) oracle) /\
  clustering_mode CT_distinct seeds = false /\
  exists res, propagation pv_32660cf6 c seeds OIncreasing oracle true (Some 5) 5 = POk res /\
    pr_index res = [3; 2] /\ pr_labels res = [-1; 0; 0; 0]%Z /\
    nthz seeds 3 = 1%Z /\ nthz (pr_labels res) 3 <> nthz seeds 3.
Proof. exact propagation_order_refuted_legacy. Qed.
Print Assumptions propagation_seeds_fixed_order_refuted_legacy.

(** the repaired variant on both witnesses *)
Theorem propagation_repaired_on_legacy_witnesses :
  (exists res, propagation pv_repaired {| c_indptr := [0; 1; 2; 2]; c_indices := [1; 0]; c_data := [4; 4]%Q |}
                           [0; 1; -1]%Z ONone [] true None 10 = POk res /\ pr_labels res = [0; 1; -1]%Z) /\
  (exists res, propagation pv_repaired
                 {| c_indptr := [0; 2; 5; 7; 8]; c_indices := [1; 2; 0; 2; 3; 0; 1; 1];
                    c_data := [1; 1; 1; 1; 1; 1; 1; 1]%Q |}
                 [-1; 0; -1; 1]%Z OIncreasing [3; 0; 2; 1] true (Some 5) 5 = POk res /\
               pr_index res = [0; 2] /\ pr_labels res = [0; 0; 0; 1]%Z).
Proof. exact repaired_on_legacy_witnesses. Qed.
Print Assumptions propagation_repaired_on_legacy_witnesses.

(** * 5. DiffusionClassifier, NNClassifier, NNLinker *)

Theorem diffusion_seeds_fixed adj labels n_iter centering scale expf lab probs :
  (forall r, In r adj -> Forall (fun p : nat * Q => 0 <= snd p)%Q r) ->
  length adj = length labels ->
  dc_fit adj labels n_iter centering scale expf = Some (lab, probs) ->
  forall v, v < length labels -> (0 <= nthz labels v)%Z -> nthz lab v = nthz labels v.
Proof. exact (dc_seeds_fixed adj labels n_iter centering scale expf lab probs). Qed.
Print Assumptions diffusion_seeds_fixed.

(** label -1 exactly on the nodes that no walk from a seed reaches; every other label is a seed label *)
Theorem diffusion_minus1_iff_unreached adj labels n_iter centering scale expf lab probs :
  (forall r, In r adj -> Forall (fun p : nat * Q => 0 <= snd p)%Q r) ->
  length adj = length labels ->
  dc_fit adj labels n_iter centering scale expf = Some (lab, probs) ->
  length lab = length labels /\
  forall v, v < length labels ->
    (nthz lab v = (-1)%Z <-> forall k, ~ reachk (map (map fst) adj) (map (fun l => (0 <=? l)%Z) labels) k v) /\
    (nthz lab v <> (-1)%Z -> In (nthz lab v) labels /\ (0 <= nthz lab v)%Z).
Proof. exact (dc_minus1_iff_unreached adj labels n_iter centering scale expf lab probs). Qed.
Print Assumptions diffusion_minus1_iff_unreached.

(** NNClassifier._fit_core, any embedding and any argpartition answers *)
Theorem nn_seeds_fixed labels index_train index_test n_neighbors argparts s :
  NoDup index_train -> In s index_train -> ~ In s index_test -> s < length labels -> (0 <= nthz labels s)%Z ->
  nthz (snd (nn_fit_core labels index_train index_test n_neighbors argparts)) s = nthz labels s.
Proof. exact (ClassifyProofs.nn_seeds_fixed labels index_train index_test n_neighbors argparts s). Qed.
Print Assumptions nn_seeds_fixed.

(** NNLinker, for any top-k oracle satisfying its contract: at most k links, distinct columns, all at or above the
    threshold, none weaker than a candidate that was not kept *)
Theorem nnlinker_topk_threshold (sims : list Q) (k : nat) (thr : Q) (ap : list nat) :
  argpartition_ok sims k ap ->
  let row := nnlinker_row sims k thr ap in
  length row <= k /\ NoDup (map fst row) /\
  (forall c s, In (c, s) row -> c < length sims /\ s = nthq sims c /\ (thr <= s)%Q) /\
  (forall c s d, In (c, s) row -> d < length sims -> ~ In d (map fst row) -> (nthq sims d <= s)%Q).
Proof. exact (nnlinker_row_ok sims k thr ap). Qed.
Print Assumptions nnlinker_topk_threshold.

Theorem nnlinker_rows_are_topk emb mask n_neighbors thr aps i row :
  In (i, row) (nnlinker_fit_core emb mask n_neighbors thr aps) ->
  let n := length emb in
  let index_col := if length mask <? n then seq (length mask) (n - length mask) else seq 0 n in
  exists ap, In ap aps /\
    row = nnlinker_row (map (fun c => dotq (mrow emb c) (mrow emb i)) index_col)
                       (check_n_neighbors n_neighbors (length index_col)) thr ap.
Proof. exact (nnlinker_fit_core_rows emb mask n_neighbors thr aps i row). Qed.
Print Assumptions nnlinker_rows_are_topk.

(** * Non-vacuity: concrete inputs meeting the hypotheses, on which the models compute *)

(** path 0-1-2-3 with unequal weights, seeds {0:0, 3:1}: the repaired source stops at a fixed point after 2 sweeps *)
Example c13_nonvacuous_propagation :
  let c := {| c_indptr := [0; 1; 3; 5; 6]; c_indices := [1; 0; 2; 1; 3; 2]; c_data := [3; 3; 1; 1; 2; 2]%Q |} in
  let seeds := [0; -1; -1; 1]%Z in
  (exists i, i < length seeds /\ (nthz seeds i < 0)%Z) /\ oracle_contract ONone [] seeds /\
  Forall (fun w => 0 <= w)%Q (c_data c) /\
  exists res, propagation src_variant c seeds ONone [] true None 10 = POk res /\
    pr_labels res = [0; 0; 1; 1]%Z /\ pr_fixed res = true /\ pr_sweeps res = 2 /\
    has_labelled_neighbour (prop_nbrs c true 1) (pr_labels res) /\
    local_max_b (prop_nbrs c true 1) (pr_labels res) 1 = true.
Proof.
  cbv zeta. split; [exists 1; split; [simpl; lia|reflexivity]|]. split; [exact I|]. split; [repeat constructor; discriminate|].
  eexists. split; [vm_compute; reflexivity|]. cbn [pr_labels pr_fixed pr_sweeps].
  split; [reflexivity|]. split; [reflexivity|]. split; [reflexivity|]. split.
  - exists (0, 3%Q). split; [vm_compute; auto|]. vm_compute. discriminate.
  - vm_compute. reflexivity.
Qed.

Example c13_nonvacuous_diffusion :
  let adj := [[(1, 2%Q)]; [(0, 2%Q); (2, 1%Q)]; [(1, 1%Q)]; []] in
  exists probs, dc_fit adj [3; -1; 7; -1]%Z 2 false 5%Q (fun x => x) = Some ([3; 3; 7; -1]%Z, probs).
Proof. cbv zeta. eexists. vm_compute. reflexivity. Qed.

Example c13_nonvacuous_nnlinker :
  let sims := [1; (1 # 2); (3 # 4); 0]%Q in
  argpartition_ok sims 2 [0; 2; 1; 3] /\ nnlinker_row sims 2 (4 # 5)%Q [0; 2; 1; 3] = [(0, 1%Q)].
Proof.
  cbv zeta. split; [|vm_compute; reflexivity]. split.
  - simpl. apply perm_skip. apply perm_swap.
  - intros a b Ha Hb. simpl in Ha, Hb.
    destruct Ha as [<-|[<-|[]]]; destruct Hb as [<-|[<-|[]]]; vm_compute; discriminate.
Qed.

Example c13_nonvacuous_metrics :
  exists f1 pr rc, f1_scores [0; 1; 1; -1; 2]%Z [0; 1; 0; 1; 2]%Z = Some (f1, pr, rc) /\
                   accuracy [0; 1; 1; -1; 2]%Z [0; 1; 0; 1; 2]%Z = Some (3 # 4)%Q.
Proof. do 3 eexists. split; vm_compute; reflexivity. Qed.

(* =========================================================================================== *)
(** * The classification metrics as REGENERATED FROM sknetwork/classification/metrics.py

    [src_cls_accuracy / _confusion / _f1 / _precisions / _recalls / _f1_only / _micro / _macro / _weighted] (Gen/NpClsMetrics.v)
    are the bodies of get_accuracy_score, get_confusion_matrix, get_f1_scores (its three vectors) and the three branches of
    get_average_f1_score, translated on every run by harness/translators/npclsmetrics.py into the array language of
    Model/NpVec.v (calls between these functions inlined); [rvdenote] is that language's NumPy / SciPy semantics over R.
    For ALL label vectors of equal length: with at least one counted sample (both labels non-negative) the denotations are
    the confusion-matrix definitions below; without one, every function is undefined (the ValueError of the source).
    [cnt lt lp i j] is the number of counted samples with true label i and predicted label j, [row_total] / [col_total] its
    row and column sums over the K = largest label + 1 classes. *)
From SKN Require Import Model.NpExpr Model.NpVec Gen.NpClsMetrics Proofs.NpVecProofs Proofs.NpClsMetricsProofs.
From Coq Require Import Reals Lra.
Local Open Scope R_scope.

Theorem source_metrics_confusion (lt lp : list Z) :
  List.length lp = List.length lt -> has_counted lt lp ->
  exists f, rvdenote (env_cls lt lp) src_cls_confusion = Some (WM (klab lt lp) (klab lt lp) f) /\
    (forall i j, f i j = cnt lt lp i j) /\
    lsum (seq 0 (klab lt lp)) (fun i => lsum (seq 0 (klab lt lp)) (f i)) = INR (ncounted lt lp).
Proof. exact (NpClsMetricsProofs.source_cls_confusion lt lp). Qed.
Print Assumptions source_metrics_confusion.

(** accuracy = agreeing counted samples / counted samples = trace / total of the count matrix; micro-F1 is the same number *)
Theorem source_metrics_accuracy (lt lp : list Z) :
  List.length lp = List.length lt -> has_counted lt lp ->
  exists x, rvdenote (env_cls lt lp) src_cls_accuracy = Some (WS x) /\
    x = agree lt lp / INR (ncounted lt lp) /\
    x = lsum (seq 0 (klab lt lp)) (fun k => cnt lt lp k k) / lsum (seq 0 (klab lt lp)) (row_total lt lp) /\
    rvdenote (env_cls lt lp) src_cls_micro = Some (WS x).
Proof. exact (NpClsMetricsProofs.source_cls_accuracy lt lp). Qed.
Print Assumptions source_metrics_accuracy.

(** recall = TP / row sum, precision = TP / column sum, F1 = 2 TP / (row sum + column sum), 0 where the denominator is null;
    get_f1_scores(..., False) returns the same F1 vector *)
Theorem source_metrics_f1_scores (lt lp : list Z) :
  List.length lp = List.length lt -> has_counted lt lp ->
  exists F P Rc,
    rvdenote (env_cls lt lp) src_cls_f1 = Some (WV (klab lt lp) F) /\
    rvdenote (env_cls lt lp) src_cls_precisions = Some (WV (klab lt lp) P) /\
    rvdenote (env_cls lt lp) src_cls_recalls = Some (WV (klab lt lp) Rc) /\
    rvdenote (env_cls lt lp) src_cls_f1_only = Some (WV (klab lt lp) F) /\
    forall k, (k < klab lt lp)%nat ->
      Rc k = pos_div (cnt lt lp k k) (row_total lt lp k) /\
      P k = pos_div (cnt lt lp k k) (col_total lt lp k) /\
      F k = f1_def (cnt lt lp k k) (row_total lt lp k) (col_total lt lp k).
Proof. exact (NpClsMetricsProofs.source_cls_f1_scores lt lp). Qed.
Print Assumptions source_metrics_f1_scores.

(** macro = mean of F1 over ALL K labels (absent labels count as 0) *)
Theorem source_metrics_macro (lt lp : list Z) :
  List.length lp = List.length lt -> has_counted lt lp ->
  exists x, rvdenote (env_cls lt lp) src_cls_macro = Some (WS x) /\
    x = lsum (seq 0 (klab lt lp)) (fun k => f1_def (cnt lt lp k k) (row_total lt lp k) (col_total lt lp k)) / INR (klab lt lp).
Proof. exact (NpClsMetricsProofs.source_cls_macro lt lp). Qed.
Print Assumptions source_metrics_macro.

(** weighted = the F1 of the true class, averaged over the samples that have a true label *)
Theorem source_metrics_weighted (lt lp : list Z) :
  List.length lp = List.length lt -> has_counted lt lp ->
  exists x, rvdenote (env_cls lt lp) src_cls_weighted = Some (WS x) /\
    x = lsum (seq 0 (List.length lt))
          (fun p => if tmask lt p
                    then f1_def (cnt lt lp (Z.to_nat (zl lt p)) (Z.to_nat (zl lt p))) (row_total lt lp (Z.to_nat (zl lt p)))
                                (col_total lt lp (Z.to_nat (zl lt p)))
                    else 0)
        / lsum (seq 0 (List.length lt)) (fun p => b2r (tmask lt p)).
Proof. exact (NpClsMetricsProofs.source_cls_weighted lt lp). Qed.
Print Assumptions source_metrics_weighted.

(** no counted sample: every metric is undefined *)
Theorem source_metrics_undefined (lt lp : list Z) :
  List.length lp = List.length lt -> ncounted lt lp = O ->
  rvdenote (env_cls lt lp) src_cls_confusion = None /\ rvdenote (env_cls lt lp) src_cls_accuracy = None /\
  rvdenote (env_cls lt lp) src_cls_f1 = None /\ rvdenote (env_cls lt lp) src_cls_precisions = None /\
  rvdenote (env_cls lt lp) src_cls_recalls = None /\ rvdenote (env_cls lt lp) src_cls_f1_only = None /\
  rvdenote (env_cls lt lp) src_cls_macro = None /\ rvdenote (env_cls lt lp) src_cls_weighted = None.
Proof.
  intros Hl Hc. split; [exact (NpClsMetricsProofs.source_cls_confusion_none lt lp Hl Hc)|].
  split; [exact (NpClsMetricsProofs.source_cls_accuracy_none lt lp Hl Hc)|].
  exact (NpClsMetricsProofs.source_cls_f1_scores_none lt lp Hl Hc).
Qed.
Print Assumptions source_metrics_undefined.

Example c13_nonvacuous_source_metrics :
  List.length (0 :: 1 :: 0 :: 1 :: 2 :: nil)%Z = List.length (0 :: 1 :: 1 :: (-1) :: 2 :: nil)%Z /\
  has_counted (0 :: 1 :: 1 :: (-1) :: 2 :: nil)%Z (0 :: 1 :: 0 :: 1 :: 2 :: nil)%Z /\
  ncounted ((-1) :: 0 :: nil)%Z (0 :: (-1) :: nil)%Z = O.
Proof. split; [reflexivity|]. split; [unfold has_counted; vm_compute; discriminate | vm_compute; reflexivity]. Qed.

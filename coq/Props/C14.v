(** C14 — Heat diffusion obeys the maximum principle and tends to the harmonic solution.
    Only statements closed by [exact], their assumptions, and non-vacuity examples.
    Model: Model/Diffusion.v (sknetwork/regression/diffusion.py and the helpers it calls), over Q. *)
From SKN Require Import Base.Util Model.Diffusion Proofs.DiffusionProofs.
From Coq Require Import Qabs Lqa.
Close Scope Q_scope.
Open Scope nat_scope.

(** 1. A convex combination of values in [lo, hi] lies in [lo, hi]. *)
Theorem convex_bounds (p v : list Q) (lo hi : Q) :
  length p = length v ->
  (forall x, In x p -> (0 <= x)%Q) ->
  (sumq p == 1)%Q ->
  (forall x, In x v -> (lo <= x <= hi)%Q) ->
  (lo <= sumq (map2 Qmult p v) <= hi)%Q.
Proof. exact (DiffusionProofs.convex_bounds p v lo hi). Qed.
Print Assumptions convex_bounds.

(** 2. Diffusion.fit, as coded (normalised TRANSPOSED adjacency, identity on its null rows, damping
    (1-a) I + a P): for every input matrix with non-negative weights (sinks and sources allowed, square or
    bipartite), every n_iter, every damping factor in [0,1], every form of seeds and every init within the
    seed range, all returned values (values_, values_row_, values_col_) lie between the smallest and the
    largest seed temperature.  No hypothesis on sinks is needed: the coded operator is stochastic. *)
Theorem diffusion_bounds n_iter alpha m values values_row values_col init force_bipartite adj seeds bip out :
  nonneg_rows (w_rows m) -> (0 <= alpha <= 1)%Q ->
  get_adjacency_values m force_bipartite values values_row values_col = Ok (adj, seeds, bip) ->
  (forall t, init = Some t -> (seed_min seeds <= t <= seed_max seeds)%Q) ->
  diffusion_fit n_iter alpha m values values_row values_col init force_bipartite = Ok out ->
  out_in (seed_min seeds) (seed_max seeds) out.
Proof. exact (diffusion_fit_bounds_minmax n_iter alpha m values values_row values_col init force_bipartite adj seeds bip out). Qed.
Print Assumptions diffusion_bounds.

(** The same for any interval [lo, hi] containing the seeds (and init). *)
Theorem diffusion_bounds_interval n_iter alpha m values values_row values_col init force_bipartite adj seeds bip out lo hi :
  nonneg_rows (w_rows m) -> (0 <= alpha <= 1)%Q ->
  get_adjacency_values m force_bipartite values values_row values_col = Ok (adj, seeds, bip) ->
  (forall x, In x seeds -> (0 <= x)%Q -> (lo <= x <= hi)%Q) ->
  (forall t, init = Some t -> (lo <= t <= hi)%Q) ->
  diffusion_fit n_iter alpha m values values_row values_col init force_bipartite = Ok out ->
  out_in lo hi out /\ length (stacked out) = length adj.
Proof. exact (diffusion_fit_bounds n_iter alpha m values values_row values_col init force_bipartite adj seeds bip out lo hi). Qed.
Print Assumptions diffusion_bounds_interval.

(** 3. Dirichlet.fit: same interval, provided every node that is NOT a seed has positive out-weight in the
    adjacency the algorithm works on ([no_free_sink]; weaker than "every node has an outgoing edge"). *)
Theorem dirichlet_bounds n_iter m values values_row values_col init force_bipartite adj seeds bip out :
  wf_wmat m ->
  get_adjacency_values m force_bipartite values values_row values_col = Ok (adj, seeds, bip) ->
  no_free_sink adj (map is_seed seeds) ->
  (forall t, init = Some t -> (seed_min seeds <= t <= seed_max seeds)%Q) ->
  dirichlet_fit n_iter m values values_row values_col init force_bipartite = Ok out ->
  out_in (seed_min seeds) (seed_max seeds) out.
Proof. exact (dirichlet_fit_bounds_minmax n_iter m values values_row values_col init force_bipartite adj seeds bip out). Qed.
Print Assumptions dirichlet_bounds.

(** The hypothesis on sinks is necessary for Dirichlet (a free sink drops to 0, below the seeds). *)
Theorem dirichlet_bounds_needs_no_sink :
  exists m values out,
    wf_wmat m /\ dirichlet_fit 1 m (Some values) None None None false = Ok out /\ ~ out_in 2 2 out.
Proof. exact DiffusionProofs.dirichlet_bounds_needs_no_sink. Qed.
Print Assumptions dirichlet_bounds_needs_no_sink.

(** Dirichlet returns every seed temperature unchanged (syntactic equality, temperature 0 included),
    for every graph, with or without sinks. [stacked out] is values_ (or values_row_ ++ values_col_). *)
Theorem dirichlet_seeds_unchanged n_iter m values values_row values_col init force_bipartite adj seeds bip out i :
  get_adjacency_values m force_bipartite values values_row values_col = Ok (adj, seeds, bip) ->
  dirichlet_fit n_iter m values values_row values_col init force_bipartite = Ok out ->
  i < length seeds -> (0 <= nthq seeds i)%Q ->
  nthq (stacked out) i = nthq seeds i.
Proof. exact (dirichlet_fit_seeds n_iter m values values_row values_col init force_bipartite adj seeds bip out i). Qed.
Print Assumptions dirichlet_seeds_unchanged.

(** 4. Array, list and dict forms of the same seeds give the same initial temperatures and the same
    boundary; every entry >= 0 (0 included: the code tests [seeds >= 0]) is a seed with its own value. *)
Theorem seeds_honoured n v d init :
  length v = n -> dict_represents n d v ->
  exists dv,
    get_values n (Some (SArray v)) (-1)%Q = Ok v /\
    get_values n (Some (SList v)) (-1)%Q = Ok v /\
    get_values n (Some (SDict d)) (-1)%Q = Ok dv /\
    init_temperatures dv init = init_temperatures v init /\
    forall temps border i,
      init_temperatures v init = Ok (temps, border) -> i < n -> (0 <= nthq v i)%Q ->
      nthb border i = true /\ nthq temps i = nthq v i.
Proof. exact (seeds_honoured_lemma n v d init). Qed.
Print Assumptions seeds_honoured.

(** 5. Uniqueness of the harmonic extension: on a connected graph (explicit path predicate over edges
    of positive weight) with a non-empty boundary, two functions that equal the seeds on the boundary and
    the weighted mean of their neighbours elsewhere are equal.  Symmetry of the graph is not needed:
    it suffices that every node reaches the boundary ([harmonic_unique_reach]). *)
Theorem harmonic_unique adj border temps f g :
  wf_rows (length adj) adj -> connected adj ->
  (exists s, s < length adj /\ nthb border s = true) ->
  harmonic adj border temps f -> harmonic adj border temps g ->
  forall i, i < length adj -> (nthq f i == nthq g i)%Q.
Proof. exact (harmonic_unique_connected adj border temps f g). Qed.
Print Assumptions harmonic_unique.

Theorem harmonic_unique_reach adj border temps f g :
  wf_rows (length adj) adj -> reaches_border adj border ->
  harmonic adj border temps f -> harmonic adj border temps g ->
  forall i, i < length adj -> (nthq f i == nthq g i)%Q.
Proof. exact (DiffusionProofs.harmonic_unique_reach adj border temps f g). Qed.
Print Assumptions harmonic_unique_reach.

(** 6. One Dirichlet step does not increase the sup-distance to a harmonic function, hence the distance
    of the returned values to the harmonic solution is at most that of the initial temperatures. *)
Theorem dirichlet_nonexpansive adj border temps h v d :
  wf_rows (length adj) adj -> no_free_sink adj border ->
  harmonic adj border temps h ->
  dist_le (length adj) v h d ->
  dist_le (length adj) (dirichlet_step (normalize adj) border temps v) h d.
Proof. exact (dirichlet_step_nonexpansive adj border temps h v d). Qed.
Print Assumptions dirichlet_nonexpansive.

Theorem dirichlet_distance_monotone k adj border temps h d :
  wf_rows (length adj) adj -> no_free_sink adj border ->
  harmonic adj border temps h ->
  dist_le (length adj) temps h d ->
  dist_le (length adj) (dirichlet_core k adj border temps) h d.
Proof. exact (dirichlet_core_nonexpansive k adj border temps h d). Qed.
Print Assumptions dirichlet_distance_monotone.

(** The limit: on a graph in which every node reaches the boundary along edges of positive weight (in
    particular a connected undirected graph with a non-empty seed set), the values computed by Dirichlet
    converge, as n_iter grows, to the harmonic function h (unique by [harmonic_unique]): for every eps > 0
    there is N such that for every n_iter >= N all values are within eps of h.  The existence of h is a
    hypothesis here; the harness computes h by exact rational elimination and establishes [harmonic] for
    each tested case through [harmonic_check_sound]. *)
Theorem dirichlet_converges adj border temps h :
  wf_rows (length adj) adj -> connected adj ->
  (exists s, s < length adj /\ nthb border s = true) ->
  harmonic adj border temps h ->
  forall eps, (0 < eps)%Q -> exists N, forall k, N <= k ->
    dist_le (length adj) (dirichlet_core k adj border temps) h eps.
Proof. exact (dirichlet_converges_connected adj border temps h). Qed.
Print Assumptions dirichlet_converges.

Theorem dirichlet_converges_reach adj border temps h :
  wf_rows (length adj) adj -> reaches_border adj border ->
  harmonic adj border temps h ->
  forall eps, (0 < eps)%Q -> exists N, forall k, N <= k ->
    dist_le (length adj) (dirichlet_core k adj border temps) h eps.
Proof. exact (dirichlet_converges_lemma adj border temps h). Qed.
Print Assumptions dirichlet_converges_reach.

Theorem harmonic_check_sound adj border temps f :
  harmonic_checkb adj border temps f = true -> harmonic adj border temps f.
Proof. exact (harmonic_checkb_sound adj border temps f). Qed.
Print Assumptions harmonic_check_sound.

(** Non-vacuity: a weighted undirected path-with-chord on 4 nodes, seeds at nodes 0 (temperature 0) and 3
    (temperature 3): the hypotheses of the theorems hold, both models run, the Dirichlet iterates stay in
    [0, 3], and the harmonic solution (0, 7/5, 13/5, 3) is accepted by the executable checker. *)
Definition ex_adj : list wrow :=
  [ [(1, 2%Q)];
    [(0, 2%Q); (2, 1%Q); (3, 1%Q)];
    [(1, 1%Q); (3, 3%Q)];
    [(1, 1%Q); (2, 3%Q)] ].
Definition ex_m : wmat := {| w_ncol := 4; w_rows := ex_adj |}.
Definition ex_seeds : list Q := [0; -1; -1; 3]%Q.

Example c14_nonvacuous :
  wf_wmat ex_m /\ symmetric_adj ex_adj /\
  get_adjacency_values ex_m false (Some (SDict [(3, 3%Q); (0, 0%Q)])) None None = Ok (ex_adj, ex_seeds, false) /\
  no_free_sink ex_adj (map is_seed ex_seeds) /\
  seed_min ex_seeds = 0%Q /\ seed_max ex_seeds = 3%Q /\
  dirichlet_fit 2 ex_m (Some (SList ex_seeds)) None None None false
    = Ok ([0; (45 # 32); (81 # 32); 3]%Q, None) /\
  diffusion_fit 1 (1 # 2)%Q ex_m (Some (SArray ex_seeds)) None None None false
    = Ok ([(3 # 4); (21 # 16); (33 # 16); (9 # 4)]%Q, None) /\
  harmonic_checkb ex_adj (map is_seed ex_seeds) ex_seeds [0; (7 # 5); (13 # 5); 3]%Q = true.
Proof.
  split; [|split; [|split; [|split]]].
  - intros r e Hr He. simpl in Hr.
    repeat (destruct Hr as [Hr|Hr]; [subst r; simpl in He;
      repeat (destruct He as [He|He]; [subst e; simpl; split; [lia|lra]|]); contradiction|]).
    contradiction.
  - intros i j w H.
    destruct i as [|[|[|[|i]]]]; simpl in H;
      repeat (destruct H as [H|H]; [inversion H; subst; simpl; tauto|]); try contradiction.
    destruct i; contradiction.
  - vm_compute. reflexivity.
  - intros i Hi B. destruct i as [|[|[|[|i]]]]; simpl in Hi; try lia; simpl in B; try discriminate;
      vm_compute; reflexivity.
  - repeat split; vm_compute; reflexivity.
Qed.

(** The example graph is connected (every node is adjacent to node 1) and (0, 7/5, 13/5, 3) is harmonic on
    it, so [harmonic_unique] and [dirichlet_converges] apply to it with a non-empty boundary. *)
Example c14_connected_harmonic :
  connected ex_adj /\
  (exists s, s < length ex_adj /\ nthb (map is_seed ex_seeds) s = true) /\
  harmonic ex_adj (map is_seed ex_seeds) ex_seeds [0; (7 # 5); (13 # 5); 3]%Q.
Proof.
  split; [|split].
  - assert (E : forall a b w, In (b, w) (wrow_of ex_adj a) -> (0 < w)%Q -> edge ex_adj a b)
      by (intros a b w H1 H2; exists w; split; assumption).
    intros i j Hi Hj. simpl in Hi, Hj. apply (path_trans ex_adj i 1 j).
    + destruct i as [|[|[|[|i]]]]; try lia.
      * apply (path_step ex_adj 0 1 1); [apply (E 0 1 2%Q); [simpl; tauto|lra]|apply path_refl].
      * apply path_refl.
      * apply (path_step ex_adj 2 1 1); [apply (E 2 1 1%Q); [simpl; tauto|lra]|apply path_refl].
      * apply (path_step ex_adj 3 1 1); [apply (E 3 1 1%Q); [simpl; tauto|lra]|apply path_refl].
    + destruct j as [|[|[|[|j]]]]; try lia.
      * apply (path_step ex_adj 1 0 0); [apply (E 1 0 2%Q); [simpl; tauto|lra]|apply path_refl].
      * apply path_refl.
      * apply (path_step ex_adj 1 2 2); [apply (E 1 2 1%Q); [simpl; tauto|lra]|apply path_refl].
      * apply (path_step ex_adj 1 3 3); [apply (E 1 3 1%Q); [simpl; tauto|lra]|apply path_refl].
  - exists 0. split; [simpl; lia|vm_compute; reflexivity].
  - apply harmonic_check_sound. vm_compute. reflexivity.
Qed.

(* =========================================================================================== *)
(** * The same clauses about the terms REGENERATED FROM sknetwork/regression/diffusion.py

    [src_dirichlet_fit] / [src_diffusion_fit] (Gen/NpDiffusion.v) are the numeric cores of Dirichlet.fit and Diffusion.fit
    (with init_temperatures inlined), translated on every run by harness/translators/npvec.py into the array language
    of Model/NpVec.v; [rvdenote] is that language's NumPy / SciPy semantics over R.  The theorems evaluate the source
    terms on ARBITRARY non-negative adjacency matrices (as index functions), seed vectors, [init] and iteration counts. *)
From SKN Require Import Model.NpExpr Model.NpVec Gen.NpDiffusion Proofs.NpVecProofs.
From Coq Require Import Reals Lra.
Local Open Scope R_scope.

(** Dirichlet: on a graph where every node has an outgoing edge, every value lies between the smallest and the largest
    initial temperature, for any number of iterations, and the seeds keep their temperatures. *)
Theorem source_dirichlet_bounds_and_clamp (n : nat) (A : nat -> nat -> R) (s : nat -> R) (init : vvalue R) (k : nat)
        (alpha lo hi : R) :
  nonneg_mat n A -> (forall i, (i < n)%nat -> 0 < rsum n (A i)) -> init_ok init ->
  (forall i, (i < n)%nat -> lo <= temp0 n s init i <= hi) ->
  exists f, rvdenote (env_fit n A s init k alpha) src_dirichlet_fit = Some (WV n f) /\
            (forall i, (i < n)%nat -> lo <= f i <= hi) /\
            (forall i, (i < n)%nat -> 0 <= s i -> f i = s i).
Proof. exact (NpVecProofs.source_dirichlet_bounds_and_clamp n A s init k alpha lo hi). Qed.
Print Assumptions source_dirichlet_bounds_and_clamp.

(** Diffusion: the same interval, for every damping factor in [0,1], with no condition on sinks (the coded operator
    (1 - a) I + a (normalize(A^T) + diag(null rows)) is row-stochastic). *)
Theorem source_diffusion_bounds (n : nat) (A : nat -> nat -> R) (s : nat -> R) (init : vvalue R) (k : nat)
        (alpha lo hi : R) :
  nonneg_mat n A -> 0 <= alpha <= 1 -> init_ok init ->
  (forall i, (i < n)%nat -> lo <= temp0 n s init i <= hi) ->
  exists f, rvdenote (env_fit n A s init k alpha) src_diffusion_fit = Some (WV n f) /\
            (forall i, (i < n)%nat -> lo <= f i <= hi).
Proof. exact (NpVecProofs.source_diffusion_bounds n A s init k alpha lo hi). Qed.
Print Assumptions source_diffusion_bounds.

(** With init=None the initial temperatures lie between the smallest and the largest SEED temperature. *)
Theorem source_seed_mean_in_range (n : nat) (s : nat -> R) (lo hi : R) :
  (exists i, (i < n)%nat /\ 0 <= s i) -> (forall i, (i < n)%nat -> 0 <= s i -> lo <= s i <= hi) ->
  forall i, (i < n)%nat -> lo <= temp0 n s WNone i <= hi.
Proof. exact (NpVecProofs.seed_mean_in_range n s lo hi). Qed.
Print Assumptions source_seed_mean_in_range.

(** The hypotheses are met by a concrete weighted 2-node graph with one seed. *)
Example c14_nonvacuous_source :
  nonneg_mat 2 (fun i j => if Nat.eqb i j then 0 else 2) /\
  (forall i, (i < 2)%nat -> 0 < rsum 2 ((fun i j => if Nat.eqb i j then 0 else 2) i)) /\
  init_ok (@WNone R) /\ (exists i, (i < 2)%nat /\ 0 <= (fun i => if Nat.eqb i 0 then 3 else -1) i).
Proof.
  split; [|split; [|split]].
  - intros i j _ _. destruct (Nat.eqb i j); lra.
  - intros [|[|i]] Hi; try lia; unfold rsum, vsum, Gnn.g_sum; cbn; lra.
  - left. reflexivity.
  - exists 0%nat. split; [lia | cbn; lra].
Qed.

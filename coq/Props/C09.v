(** C09 — Spectral and SVD embeddings satisfy the equations that define them.

    WHAT IS PROVED HERE AND WHAT IS NOT.  ARPACK (eigsh / svds) is an oracle.  The theorems below are of
    two kinds:

    (A) PROOF-OF-WRAPPER (for all inputs, over Q, axiom-free): IF the solver's raw answer satisfies the
        eigen / singular equation of the operator scikit-network hands to it, THEN what the estimator
        returns (after index selection, skipping the first pair, the D^{-1/2} back-transform, 1 - mu,
        diagonal weightings, singular-value scalings, normalisation) satisfies the equation of the
        DOCUMENTED matrix (regularised transition matrix P = D^-1 (A + reg 11^T/n), Laplacian D - A,
        weighted matrix D1^-a1 (A + reg 11^T/n) D2^-a2, centred matrix A - 1 mean^T), predict
        reproduces fit, normalised rows have norm 1, RandomProjection and LouvainEmbedding equal their
        closed forms.  Square roots and real powers are oracle FUNCTIONS [Q -> Q] constrained only by
        the algebraic contract the proof needs (s * s = d;  s^(1-a) * s^a = s), so no real numbers
        and no axioms are involved.
    (B) PER-RUN CERTIFIED RESIDUALS: [eig_residual_check] / [svd_residual_check] are executable; their
        soundness theorems say that a [true] answer bounds the residual of the documented matrix exactly.
        The harness converts the implementation's float outputs exactly to rationals and evaluates the
        checks inside Coq.  That ARPACK returned the EXTREME pairs in the documented order is NOT proved:
        it is tested against a dense NumPy decomposition (harness/props/c09.py).
    This file contains only statements closed by [exact], their assumptions, and non-vacuity examples. *)
From SKN Require Import Base.Util Base.QMat Model.Embedding Proofs.EmbeddingProofs.
From Coq Require Import QArith Qabs Morphisms Sorted.
Local Open Scope Q_scope.

(** (A1) Spectral, decomposition = 'rw'.  [sv], [sV] are LanczosEig's eigenvalues / eigenvectors of the
    operator [spectral_operator] (= N (D + reg - A - reg 11^T/n) N with N = diag(1/sqrt(d_i + reg))),
    [argsort] is np.argsort(sv).  For the k-th RETURNED pair (j = argsort[1:][k]): the eigenvalue is
    1 - mu_j and (eigenvalue, eigenvector column) is an eigenpair of the regularised transition matrix. *)
Theorem spectral_backtransform (sqrt_o : Q -> Q) (n : nat) (A : mat) (reg : Q) (sv : vec) (sV : mat)
        (argsort : list nat) (k : nat) :
  (0 < n)%nat -> wf_mat n n A -> 0 <= reg -> length sV = n ->
  (forall i, (i < n)%nat -> let d := nthq (lap_weights A) i + reg in sqrt_o d * sqrt_o d == d /\ ~ d == 0) ->
  (k < length (tl argsort))%nat ->
  let j := nth k (tl argsort) 0%nat in
  spectral_operator sqrt_o true A reg (col j sV) =v vscale (nthq sv j) (col j sV) ->
  let evals := fst (spectral_core sqrt_o true A reg sv sV argsort) in
  let evecs := snd (spectral_core sqrt_o true A reg sv sV argsort) in
  nthq evals k == 1 - nthq sv j /\
  mat_vec (transition (reg_adj n A reg)) (col k evecs) =v vscale (nthq evals k) (col k evecs).
Proof. exact (spectral_backtransform_rw sqrt_o n A reg sv sV argsort k). Qed.
Print Assumptions spectral_backtransform.

(** (A1') decomposition = 'laplacian': the operator handed to the solver IS L = D' - A' of the regularised
    adjacency A' = A + reg 11^T/n (D' its degrees), so the returned pairs are eigenpairs of L directly. *)
Theorem spectral_laplacian_direct (sqrt_o : Q -> Q) (n : nat) (A : mat) (reg : Q) (sv : vec) (sV : mat)
        (argsort : list nat) (k : nat) :
  (0 < n)%nat -> wf_mat n n A -> 0 <= reg -> length sV = n ->
  (k < length (tl argsort))%nat ->
  let j := nth k (tl argsort) 0%nat in
  spectral_operator sqrt_o false A reg (col j sV) =v vscale (nthq sv j) (col j sV) ->
  let evals := fst (spectral_core sqrt_o false A reg sv sV argsort) in
  let evecs := snd (spectral_core sqrt_o false A reg sv sV argsort) in
  nthq evals k = nthq sv j /\
  laplacian_apply (reg_adj n A reg) (col k evecs) =v vscale (nthq evals k) (col k evecs).
Proof. exact (spectral_backtransform_laplacian sqrt_o n A reg sv sV argsort k). Qed.
Print Assumptions spectral_laplacian_direct.

(** (A1'') documented ordering, given np.argsort's contract: increasing for the Laplacian, decreasing for
    the transition matrix, and the skipped pair is the extreme one. *)
Theorem spectral_order (sqrt_o : Q -> Q) (A : mat) (reg : Q) (sv : vec) (sV : mat) (argsort : list nat) :
  StronglySorted Qle (map (nthq sv) argsort) ->
  Sorted Qle (fst (spectral_core sqrt_o false A reg sv sV argsort)) /\
  Sorted (fun a b => b <= a) (fst (spectral_core sqrt_o true A reg sv sV argsort)) /\
  (forall x, In x (fst (spectral_core sqrt_o false A reg sv sV argsort)) -> nthq sv (hd 0%nat argsort) <= x) /\
  (forall x, In x (fst (spectral_core sqrt_o true A reg sv sV argsort)) -> x <= 1 - nthq sv (hd 0%nat argsort)).
Proof. exact (EmbeddingProofs.spectral_order sqrt_o A reg sv sV argsort). Qed.
Print Assumptions spectral_order.

(** (A2) GSVD / SVD: the operator handed to the solver is D1^-a1 (A + reg 11^T/n_col) D2^-a2 with
    D1, D2 the row / column sums of the regularised matrix ([prow], [pcol] = power oracles). *)
Theorem gsvd_operator_is_weighted_matrix (prow pcol : Q -> Q) (nrow ncol : nat) (A : mat) (reg : Q) (v : vec) :
  wf_mat nrow ncol A ->
  let W := gsvd_weights nrow ncol A reg in
  slr_matvec (gsvd_operator prow pcol nrow ncol A reg) v =v
  vmul (gsvd_diag prow (fst W)) (mat_vec (reg_adj ncol A reg) (vmul (gsvd_diag pcol (snd W)) v)).
Proof. exact (gsvd_operator_matvec prow pcol nrow ncol A reg v). Qed.
Print Assumptions gsvd_operator_is_weighted_matrix.

(** (A2') the embedding is formed from the selected triples as documented:
    embedding_row = D1^-a1 U Sigma^(1-fs), embedding_col = D2^-a2 V Sigma^fs (before normalisation). *)
Theorem gsvd_embedding_def (prow pcol psl psr : Q -> Q) (nrow ncol : nat) (A : mat) (reg : Q)
        (sU : mat) (sS : vec) (sV : mat) (index : list nat) (k : nat) :
  wf_mat nrow ncol A -> length sU = nrow -> length sV = ncol -> (k < length index)%nat ->
  let j := nth k index 0%nat in
  let W := gsvd_weights nrow ncol A reg in
  let '(sv, Ul, Vr, emb_row, emb_col) := gsvd_core prow pcol psl psr nrow ncol A reg sU sS sV index in
  nthq sv k = nthq sS j /\ col k Ul = col j sU /\ col k Vr = col j sV /\
  (forall i, (i < nrow)%nat ->
     mget emb_row i k == pinv (prow (nthq (fst W) i)) * mget sU i j * psl (nthq sS j)) /\
  (forall i, (i < ncol)%nat ->
     mget emb_col i k == pinv (pcol (nthq (snd W) i)) * mget sV i j * psr (nthq sS j)).
Proof. exact (gsvd_embedding_entries prow pcol psl psr nrow ncol A reg sU sS sV index k). Qed.
Print Assumptions gsvd_embedding_def.

(** (A2'') predict on row i of the fitted matrix reproduces embedding_row_[i], with or without
    normalisation, given M v_j = sigma_j u_j for the selected triples and sigma_j^fs <> 0. *)
Theorem gsvd_predict_reproduces_fit (prow pcol psl psr norm_o : Q -> Q) (normalized : bool) (nrow ncol : nat)
        (A : mat) (reg : Q) (sU : mat) (sS : vec) (sV : mat) (index : list nat) (i : nat) :
  wf_mat nrow ncol A -> length sU = nrow -> (i < nrow)%nat ->
  Proper (Qeq ==> Qeq) norm_o ->
  (forall k, (k < length index)%nat -> let j := nth k index 0%nat in
     slr_matvec (gsvd_operator prow pcol nrow ncol A reg) (col j sV) =v vscale (nthq sS j) (col j sU) /\
     psl (nthq sS j) * psr (nthq sS j) == nthq sS j /\ ~ psr (nthq sS j) == 0) ->
  let '(sv, Ul, Vr, emb_row, emb_col) :=
      gsvd_fit prow pcol psl psr norm_o normalized nrow ncol A reg sU sS sV index in
  gsvd_predict_row prow pcol psr norm_o normalized ncol reg (snd (gsvd_weights nrow ncol A reg)) sv Vr (nth i A [])
  =v nth i emb_row [].
Proof. exact (gsvd_predict_reproduces_fit_full prow pcol psl psr norm_o normalized nrow ncol A reg sU sS sV index i). Qed.
Print Assumptions gsvd_predict_reproduces_fit.

(** RECORDED FINDING (zero singular value): the hypothesis [~ psr (sigma_j) == 0] above is necessary.
    With n_components above the rank of the weighted matrix, a returned singular value is 0; GSVD.predict
    divides by sigma^fs (NaN / garbage in floats, 0 in Q) and cannot reproduce the fitted row. *)
Theorem gsvd_predict_zero_singular_refuted :
  exists (A sU sV : mat) (sS : vec) (index : list nat) (psl psr : Q -> Q),
    let one := fun _ : Q => 1 in
    wf_mat 3 3 A /\ length sU = 3%nat /\
    (forall k, (k < length index)%nat -> let j := nth k index 0%nat in
       slr_matvec (gsvd_operator one one 3 3 A 0) (col j sV) =v vscale (nthq sS j) (col j sU) /\
       psl (nthq sS j) * psr (nthq sS j) == nthq sS j) /\
    ~ (gsvd_predict_row one one psr (fun q => q) false 3 0 (snd (gsvd_weights 3 3 A 0))
                        (gsvd_sv sS index) (take_cols index sV) (nth 0 A [])
       =v nth 0 (gsvd_emb_row one psl 3 3 A 0 sU sS index) []).
Proof. exact EmbeddingProofs.gsvd_predict_zero_singular_refuted. Qed.
Print Assumptions gsvd_predict_zero_singular_refuted.

(** (A3) PCA: the SparseLR operator (and its transpose, which svds also calls) is the centred matrix
    A - 1 mean^T, mean_j = column mean. *)
Theorem pca_centering (nrow ncol : nat) (A : mat) : wf_mat nrow ncol A ->
  (forall v, slr_matvec (pca_operator nrow ncol A) v =v mat_vec (centered nrow ncol A) v) /\
  (forall u, slr_matvec (slr_transpose ncol (pca_operator nrow ncol A)) u =v
             mat_vec (transpose_n ncol (centered nrow ncol A)) u) /\
  (forall i j, (i < nrow)%nat -> (j < ncol)%nat ->
     mget (centered nrow ncol A) i j == mget A i j - sumq (col j A) / qn nrow).
Proof. exact (pca_centering_both nrow ncol A). Qed.
Print Assumptions pca_centering.

(** (A3') PCA.predict (code repaired by 11827c95: fit normalises both embeddings when asked and stores
    mean_col_; predict(x) = (x V - mean_col V) / sigma) reproduces the fitted row, given the singular
    equation of the centred operator and sigma_k <> 0.  The defects of the former code are kept as
    [legacy_pca_normalized_refuted] / [legacy_pca_predict_refuted] in Proofs/EmbeddingProofs.v
    (models [pca_fit_legacy], [pca_predict_row_legacy]). *)
Theorem pca_predict_reproduces_fit (norm_o : Q -> Q) (normalized : bool) (nrow ncol : nat) (A : mat)
        (sU : mat) (sS : vec) (sV : mat) (i : nat) :
  wf_mat nrow ncol A -> wf_mat nrow (length sS) sU -> length sV = ncol -> (i < nrow)%nat ->
  Proper (Qeq ==> Qeq) norm_o ->
  (forall k, (k < length sS)%nat ->
     slr_matvec (pca_operator nrow ncol A) (col k sV) =v vscale (nthq sS k) (col k sU) /\ ~ nthq sS k == 0) ->
  let '(emb_row, emb_col, sv) := pca_fit norm_o normalized sU sS sV in
  pca_predict_row norm_o normalized (pca_mean_col nrow ncol A) sv sV (nth i A []) =v nth i emb_row [].
Proof. exact (pca_predict_reproduces_fit_full norm_o normalized nrow ncol A sU sS sV i). Qed.
Print Assumptions pca_predict_reproduces_fit.

(** (A4) normalize(p = 2) (used by Spectral, GSVD, SVD, PCA, RandomProjection): every non-null row gets
    squared norm 1 (null rows stay null). *)
Theorem normalized_unit_norm (norm_o : Q -> Q) (E : mat) (i : nat) :
  (i < length E)%nat ->
  (let s := sqnorm (nth i E []) in norm_o s * norm_o s == s) ->
  ~ Forall (fun x => x == 0) (nth i E []) ->
  sqnorm (nth i (normalize2 norm_o E) []) == 1.
Proof. exact (normalize2_unit norm_o E i). Qed.
Print Assumptions normalized_unit_norm.

(** (A5) RandomProjection: column j of the embedding is (I + alpha M + ... + (alpha M)^K) g_j with M the
    regularised adjacency or its transition matrix and g_j column j of the (orthonormalised) random matrix. *)
Theorem random_projection_closed_form (random_walk : bool) (n k : nat) (A : mat) (reg alpha : Q) (K : nat) (G : mat) (j : nat) :
  (0 < n)%nat -> wf_mat n n A -> 0 <= reg -> wf_mat n k G -> (j < k)%nat ->
  col j (random_projection_core random_walk n k A reg alpha K G) =v
  rp_spec (rp_matrix random_walk n A reg) alpha K (col j G).
Proof. exact (random_projection_closed_form_cols random_walk n k A reg alpha K G j). Qed.
Print Assumptions random_projection_closed_form.

(** (A6) LouvainEmbedding: entry (i, c) is the share of row i's weight carried by the nodes of cluster c. *)
Theorem louvain_embedding_def (A : mat) (labels : list Z) (i c : nat) :
  (i < length A)%nat -> (c < n_labels labels)%nat -> length (nth i A []) = length labels ->
  mget (louvain_embedding A labels) i c ==
  pinv (sumq (map Qabs (nth i A []))) * cluster_weight (nth i A []) labels c.
Proof. exact (louvain_embedding_entry A labels i c). Qed.
Print Assumptions louvain_embedding_def.

(** (B) Residual validators: a [true] answer certifies the residual bound exactly. *)
Theorem eig_residual_sound (M : mat) (lam : Q) (v : vec) (eps : Q) : 0 <= eps ->
  eig_residual_check M lam v eps = true ->
  wf_mat (length v) (length v) M /\
  linf (vsub (mat_vec M v) (vscale lam v)) <= eps /\
  forall i, (i < length v)%nat -> Qabs (dot (nth i M []) v - lam * nthq v i) <= eps.
Proof. exact (EmbeddingProofs.eig_residual_sound M lam v eps). Qed.
Print Assumptions eig_residual_sound.

Theorem svd_residual_sound (M : mat) (u : vec) (sigma : Q) (v : vec) (eps : Q) : 0 <= eps ->
  svd_residual_check M u sigma v eps = true ->
  wf_mat (length u) (length v) M /\
  linf (vsub (mat_vec M v) (vscale sigma u)) <= eps /\
  linf (vsub (mat_vec (transpose_n (length v) M) u) (vscale sigma v)) <= eps /\
  (forall i, (i < length u)%nat -> Qabs (dot (nth i M []) v - sigma * nthq u i) <= eps) /\
  (forall j, (j < length v)%nat -> Qabs (dot (col j M) u - sigma * nthq v j) <= eps).
Proof. exact (EmbeddingProofs.svd_residual_sound M u sigma v eps). Qed.
Print Assumptions svd_residual_sound.

(** Non-vacuity.  The 4-cycle with weights 2 (degrees 4, sqrt oracle = 2): the solver pair
    (mu = 1, u = (1, 0, -1, 0)) meets every hypothesis of [spectral_backtransform]; the model returns the
    eigenvalue 0 of P with the vector u / 2, and the validator accepts it. *)
Definition c4 : mat := [[0; 2; 0; 2]; [2; 0; 2; 0]; [0; 2; 0; 2]; [2; 0; 2; 0]].
Definition c4_sV : mat := [[1; 1]; [1; 0]; [1; -(1)]; [1; 0]].
Example c09_nonvacuous_spectral :
  wf_mat 4 4 c4 /\
  (forall i, (i < 4)%nat -> let d := nthq (lap_weights c4) i + 0 in (fun _ => 2) d * (fun _ => 2) d == d /\ ~ d == 0) /\
  spectral_operator (fun _ => 2) true c4 0 (col 1 c4_sV) =v vscale 1 (col 1 c4_sV) /\
  spectral_core (fun _ => 2) true c4 0 [0; 1] c4_sV [0%nat; 1%nat] = ([1 - 1], [[/ 2 * 1]; [/ 2 * 0]; [/ 2 * -(1)]; [/ 2 * 0]]) /\
  eig_residual_check (transition (reg_adj 4 c4 0)) 0 [1 # 2; 0; -(1 # 2); 0] (1 # 1000) = true.
Proof.
  split; [split; [reflexivity | repeat constructor]|].
  split.
  { intros i Hi. do 4 (destruct i as [|i]; [vm_compute; split; [reflexivity | discriminate]|]). lia. }
  split; [vm_compute; repeat (constructor; try reflexivity)|].
  split; reflexivity.
Qed.

(** A 2 x 2 diagonal matrix with its exact singular triples (SVD: prow = pcol = 1; fs = 0: psl = id, psr = 1):
    the hypotheses of [gsvd_predict_reproduces_fit] hold and predict returns the fitted rows. *)
Example c09_nonvacuous_gsvd :
  let A := [[2; 0]; [0; 1]] in let I2 := [[1; 0]; [0; 1]] in
  let one := fun _ : Q => 1 in let id := fun q : Q => q in
  (forall k, (k < 2)%nat -> let j := nth k [0%nat; 1%nat] 0%nat in
     slr_matvec (gsvd_operator one one 2 2 A 0) (col j I2) =v vscale (nthq [2; 1] j) (col j I2) /\
     id (nthq [2; 1] j) * one (nthq [2; 1] j) == nthq [2; 1] j /\ ~ one (nthq [2; 1] j) == 0) /\
  map (map Qred) (gsvd_emb_row one id 2 2 A 0 I2 [2; 1] [0%nat; 1%nat]) = [[2; 0]; [0; 1]] /\
  map Qred (gsvd_predict_row one one one id false 2 0 (snd (gsvd_weights 2 2 A 0)) [2; 1] I2 [2; 0]) = [2; 0] /\
  svd_residual_check A [1; 0] 2 [1; 0] 0 = true.
Proof.
  cbv zeta. split.
  { intros k Hk. do 2 (destruct k as [|k]; [vm_compute; split; [repeat (constructor; try reflexivity) | split; [reflexivity | discriminate]]|]). lia. }
  repeat split; reflexivity.
Qed.

(* =========================================================================================== *)
(** * LouvainEmbedding's closed form as REGENERATED FROM sknetwork/embedding/louvain_embedding.py

    [src_louvain_embedding] / [src_louvain_embedding_col] (Gen/NpLouvainEmbedding.v) are the values that
    LouvainEmbedding.fit assigns to [embedding_] and [embedding_col_] (after reindex_labels), translated on every run by
    harness/translators/npvec.py into the array language of Model/NpVec.v.  Over R, for EVERY matrix (index function) and
    every label vector they equal the closed form: entry (i, c) is the share of the weight of row i (resp. column j) that
    goes to cluster c; on a non-negative matrix with labels in range every row is a probability vector (or null). *)
From SKN Require Import Model.NpExpr Model.NpVec Gen.NpLouvainEmbedding Proofs.NpVecProofs Proofs.NpModularityProofs
                        Proofs.NpSecondaryProofs Proofs.NpLouvainEmbeddingProofs.
From Coq Require Import Reals Lra.
Local Open Scope R_scope.

Theorem source_louvain_embedding_closed_form (n1 n2 : nat) (B : nat -> nat -> R) (l : list Z) :
  List.length l = n2 ->
  exists f, rvdenote (env_le n1 n2 B l) src_louvain_embedding = Some (WM n1 (nlab l) f) /\
            forall i c, f i c = le_closed n2 B l i c.
Proof. exact (NpLouvainEmbeddingProofs.source_louvain_embedding_closed_form n1 n2 B l). Qed.
Print Assumptions source_louvain_embedding_closed_form.

Theorem source_louvain_embedding_col_closed_form (n1 n2 : nat) (B : nat -> nat -> R) (l : list Z) :
  List.length l = n1 ->
  exists f, rvdenote (env_le_col n1 n2 B l) src_louvain_embedding_col = Some (WM n2 (nlab l) f) /\
            forall j c, f j c = le_closed n1 (fun j i => B i j) l j c.
Proof. exact (NpLouvainEmbeddingProofs.source_louvain_embedding_col_closed_form n1 n2 B l). Qed.
Print Assumptions source_louvain_embedding_col_closed_form.

Theorem source_louvain_embedding_rows (n1 n2 : nat) (B : nat -> nat -> R) (l : list Z) (i : nat) :
  labels_ok n2 l -> nonneg_rect n1 n2 B -> (i < n1)%nat ->
  (forall c, (c < nlab l)%nat -> 0 <= le_closed n2 B l i c) /\
  (0 < lsum (seq 0 n2) (B i) -> lsum (seq 0 (nlab l)) (le_closed n2 B l i) = 1).
Proof. exact (NpLouvainEmbeddingProofs.source_louvain_embedding_rows n1 n2 B l i). Qed.
Print Assumptions source_louvain_embedding_rows.

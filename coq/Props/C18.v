(** C18 — Graphs are ingested and persisted faithfully.
    Statements closed by [exact], their assumptions, and non-vacuity examples.
    [Gen/PathCheck.v] and [Gen/ParseCalls.v] are regenerated from sknetwork/data/load.py and parse.py on every run. *)
From Coq Require Import String Ascii.
From SKN Require Import Base.Util Model.PathSafe Model.Parse Proofs.PathSafeProofs Proofs.ParseProofs Gen.PathCheck Gen.ParseCalls.

(** * Part A — archive members are confined to the dataset folder *)

(** The check and the extraction guard exactly as load.py builds them now. *)
Definition is_within_directory : string -> string -> string -> bool :=
  is_within_with pc_function pc_norm_directory pc_norm_target.
Definition safe_extract : string -> string -> list string -> bool :=
  safe_extract_with pc_function pc_norm_directory pc_norm_target.

(** Obligation over the generated terms: is_within_directory compares the two normalised paths with
    os.path.commonpath (component-wise), both arguments are normalised, and safe_extract checks
    join(path, member.name) of every member, raises on failure, and only then calls
    tar.extractall(path); no other extraction call exists in load.py. *)
Theorem pathcheck_uses_commonpath :
  pc_function = CommonPath /\ pc_norm_directory <> NoNorm /\ pc_norm_target <> NoNorm /\
  se_checks_every_member = true /\ se_raises_on_failure = true /\
  se_extracts_to_checked_path = true /\ se_only_extraction_site = true.
Proof. repeat split; try reflexivity; discriminate. Qed.
Print Assumptions pathcheck_uses_commonpath.

(** For every current directory (absolute), directory and target: the string-level check accepts
    exactly the targets whose normalised components extend those of the directory. *)
Theorem within_directory_iff_component_prefix (cwd d t : string) :
  starts_with_slash cwd = true -> single_root cwd d ->
  (is_within_directory cwd d t = true <-> prefix (comps cwd d) (comps cwd t)).
Proof.
  exact (within_iff_commonpath pc_norm_directory pc_norm_target cwd d t
           (proj1 (proj2 pathcheck_uses_commonpath)) (proj1 (proj2 (proj2 pathcheck_uses_commonpath)))).
Qed.
Print Assumptions within_directory_iff_component_prefix.

(** Every member name accepted by safe_extract is extracted at or below the directory, whatever
    the names are; and an archive whose members all stay inside is never refused. *)
Theorem safe_extract_confined (cwd path : string) (members : list string) :
  starts_with_slash cwd = true -> single_root cwd path ->
  (safe_extract cwd path members = true <->
   forall name, In name members -> prefix (comps cwd path) (extracted_to cwd path name)).
Proof.
  exact (fun Hc Hr => conj
    (safe_extract_confined_commonpath pc_norm_directory pc_norm_target cwd path members
       (proj1 (proj2 pathcheck_uses_commonpath)) (proj1 (proj2 (proj2 pathcheck_uses_commonpath))) Hc Hr)
    (safe_extract_complete_commonpath pc_norm_directory pc_norm_target cwd path members
       (proj1 (proj2 pathcheck_uses_commonpath)) (proj1 (proj2 (proj2 pathcheck_uses_commonpath))) Hc Hr)).
Qed.
Print Assumptions safe_extract_confined.

(** The character-wise variant (os.path.commonprefix, the code before the repair) is refuted:
    directory /data/foo admits /data/foobar/x, and member ../foobar/x escapes through safe_extract. *)
Theorem within_directory_refuted :
  exists cwd d t,
    starts_with_slash cwd = true /\ single_root cwd d /\
    is_within_with CommonPrefix Abspath Abspath cwd d t = true /\
    ~ prefix (comps cwd d) (comps cwd t).
Proof. exact PathSafeProofs.within_directory_refuted. Qed.
Print Assumptions within_directory_refuted.

Theorem safe_extract_commonprefix_refuted :
  exists cwd path name,
    starts_with_slash cwd = true /\ single_root cwd path /\
    safe_extract_with CommonPrefix Abspath Abspath cwd path [name] = true /\
    ~ prefix (comps cwd path) (extracted_to cwd path name).
Proof. exact PathSafeProofs.safe_extract_refuted. Qed.
Print Assumptions safe_extract_commonprefix_refuted.

(** * Part B — ingestion *)

(** [pp_sym_passes_weighted] (Gen/ParseCalls.v) records whether from_edge_array calls
    [directed2undirected(matrix, weighted=weighted)] (true) or [directed2undirected(matrix)] (false);
    the model follows it. Obligation over the generated term: the flag is handed over. *)
Theorem from_edge_array_passes_weighted : pp_sym_passes_weighted = true.
Proof. reflexivity. Qed.
Print Assumptions from_edge_array_passes_weighted.

(** For every identifier type with a decidable equality, every integer reading [as_int] that is
    injective, every [unique] oracle returning the distinct values with their inverse map, ALL flag
    combinations, all edge arrays and integer weights: entry (i, j) of the matrix built by
    from_edge_array / from_edge_list is the sum of the weights listed for edge (names[i], names[j])
    (the first one only if sum_duplicates is off; 1 iff some non-zero weight is listed if weighted
    is off), plus the reverse direction when the graph is undirected (still binary when unweighted);
    a biadjacency matrix is indexed by row names and column names separately. *)
Theorem edge_array_entry {id : Type} (ideqb : id -> id -> bool) (as_int : id -> option nat)
        (unique : list id -> list id * list nat)
        (fl : flags) (edge_array : list (id * id)) (weights : option (list Z)) (d : dataset) :
  (forall a b, ideqb a b = true <-> a = b) ->
  (forall a b k, as_int a = Some k -> as_int b = Some k -> a = b) ->
  unique_ok ideqb unique ->
  from_edge_array ideqb as_int unique pp_sym_passes_weighted fl edge_array weights = Some d ->
  forall i j, entry (d_matrix d) i j =
              spec_entry ideqb as_int fl (row_names d) (col_names d) (raw_edges edge_array weights) i j.
Proof.
  exact (fun H1 H2 H3 H => from_edge_array_entry ideqb as_int unique pp_sym_passes_weighted H1 H2 H3
                             fl edge_array weights d H (or_introl from_edge_array_passes_weighted)).
Qed.
Print Assumptions edge_array_entry.

(** The legacy call [directed2undirected(matrix)] (code before the repair) meets the specification only
    outside the combination "unweighted, undirected, some edge listed in both directions"; the
    exclusion is necessary, see [unweighted_undirected_binary_refuted]. *)
Theorem edge_array_entry_legacy_call {id : Type} (ideqb : id -> id -> bool) (as_int : id -> option nat)
        (unique : list id -> list id * list nat)
        (fl : flags) (edge_array : list (id * id)) (weights : option (list Z)) (d : dataset) :
  (forall a b, ideqb a b = true <-> a = b) ->
  (forall a b k, as_int a = Some k -> as_int b = Some k -> a = b) ->
  unique_ok ideqb unique ->
  from_edge_array ideqb as_int unique false fl edge_array weights = Some d ->
  (weighted fl = true \/ directed fl = true \/ bipartite fl = true \/
   has_reciprocal ideqb (raw_edges edge_array weights) = false) ->
  forall i j, entry (d_matrix d) i j =
              spec_entry ideqb as_int fl (row_names d) (col_names d) (raw_edges edge_array weights) i j.
Proof.
  exact (fun H1 H2 H3 H Hex => from_edge_array_entry ideqb as_int unique false H1 H2 H3
                                 fl edge_array weights d H (or_intror Hex)).
Qed.
Print Assumptions edge_array_entry_legacy_call.

(** What the code computes in every case (no exclusion). *)
Theorem edge_array_entry_as_coded {id : Type} (ideqb : id -> id -> bool) (as_int : id -> option nat)
        (unique : list id -> list id * list nat)
        (fl : flags) (edge_array : list (id * id)) (weights : option (list Z)) (d : dataset) :
  (forall a b, ideqb a b = true <-> a = b) ->
  (forall a b k, as_int a = Some k -> as_int b = Some k -> a = b) ->
  unique_ok ideqb unique ->
  from_edge_array ideqb as_int unique pp_sym_passes_weighted fl edge_array weights = Some d ->
  forall i j, entry (d_matrix d) i j =
              coded_entry ideqb as_int pp_sym_passes_weighted fl (row_names d) (col_names d)
                          (raw_edges edge_array weights) i j.
Proof.
  exact (fun H1 H2 H3 => from_edge_array_coded ideqb as_int unique pp_sym_passes_weighted H1 H2 H3 fl edge_array weights d).
Qed.
Print Assumptions edge_array_entry_as_coded.

(** The faithful model of the call WITHOUT the flag violates the property on the excluded
    combination: edges (0,1) and (1,0), weighted=False, directed=False give entry (0,1) = 2 where a
    binary entry is specified. *)
Theorem unweighted_undirected_binary_refuted :
  exists (edge_array : list (nat * nat)) d i j,
    from_edge_list_nat false d16_flags edge_array None = Some d /\
    entry (d_matrix d) i j = 2%Z /\
    spec_entry Nat.eqb as_int_nat d16_flags (row_names d) (col_names d) (raw_edges edge_array None) i j = 1%Z.
Proof. exact ParseProofs.unweighted_undirected_binary_refuted. Qed.
Print Assumptions unweighted_undirected_binary_refuted.

(** Names: every listed identifier has an index inside the shape whose name is that identifier; the
    names are pairwise distinct, as many as the dimension, and are all listed identifiers; a
    Dataset's [names] are the row names; reindexing always produces names. *)
Theorem names_roundtrip {id : Type} (ideqb : id -> id -> bool) (as_int : id -> option nat)
        (unique : list id -> list id * list nat)
        (fl : flags) (edge_array : list (id * id)) (weights : option (list Z)) (d : dataset) :
  (forall a b, ideqb a b = true <-> a = b) ->
  unique_ok ideqb unique ->
  from_edge_array ideqb as_int unique pp_sym_passes_weighted fl edge_array weights = Some d ->
  (forall a b, In (a, b) edge_array ->
     exists i j, i < fst (m_shape (d_matrix d)) /\ j < snd (m_shape (d_matrix d)) /\
                 is_node ideqb as_int (row_names d) i a = true /\ is_node ideqb as_int (col_names d) j b = true) /\
  (forall ns, row_names d = Some ns ->
     NoDup ns /\ length ns = fst (m_shape (d_matrix d)) /\
     forall x, In x ns -> exists e, In e edge_array /\ (x = fst e \/ x = snd e)) /\
  (forall ns, col_names d = Some ns ->
     NoDup ns /\ length ns = snd (m_shape (d_matrix d)) /\
     forall x, In x ns -> exists e, In e edge_array /\ (x = fst e \/ x = snd e)) /\
  d_names d = row_names d /\
  (reindex fl = true -> row_names d <> None /\ col_names d <> None).
Proof. exact (fun H1 H3 => from_edge_array_names ideqb as_int unique pp_sym_passes_weighted H1 H3 fl edge_array weights d). Qed.
Print Assumptions names_roundtrip.

(** The reference [unique] used to run the model meets the oracle contract (the theorems above are
    not vacuous), for integer and for string identifiers. *)
Theorem unique_oracle_realised : unique_ok Nat.eqb nat_unique /\ unique_ok String.eqb str_unique.
Proof. exact (conj nat_unique_ok str_unique_ok). Qed.
Print Assumptions unique_oracle_realised.

(** CSV: splitting a joined row on the delimiter gives back the fields when no field contains it;
    a file made of header comment lines followed by the rows yields exactly these rows, for every
    delimiter other than newline and every set of comment characters. *)
Theorem csv_equals_rows (n_scan : nat) (d : ascii) (comments : list ascii)
        (header : list string) (rows : list (list string)) :
  (forall fields, fields <> [] -> Forall (fun x => contains d x = false) fields ->
                  split d (join (String d "") fields) = fields) /\
  (comments <> [] -> Ascii.eqb d newline = false ->
   Forall (fun h => starts_with_any comments h = true /\ contains newline h = false) header ->
   Forall (row_ok d comments) rows ->
   csv_table n_scan d comments (render_csv d header rows) = rows).
Proof. exact (conj (split_join d) (csv_table_render n_scan d comments header rows)). Qed.
Print Assumptions csv_equals_rows.

(** The delimiter guess of scan_header: if only one candidate delimiter occurs in the scanned rows,
    it is the one guessed. *)
Theorem delimiter_guess (delims : list ascii) (rows : list string) (d : ascii) :
  In d delims ->
  (forall d', In d' delims -> d' <> d -> forall r, In r rows -> count_char d' r = 0) ->
  (exists r, In r rows /\ 0 < count_char d r) ->
  guess_delimiter delims rows = Some d.
Proof. exact (guess_delimiter_only delims rows d). Qed.
Print Assumptions delimiter_guess.

(** * Non-vacuity *)
Local Open Scope string_scope.

Example c18_path_nonvacuous :
  starts_with_slash "/var/tmp" = true /\ single_root "/var/tmp" "data/foo" /\
  is_within_directory "/var/tmp" "data/foo" "data/foo/a/../b.npz" = true /\
  is_within_directory "/var/tmp" "data/foo" "data/foo/../foobar/x" = false /\
  safe_extract "/var/tmp" "data/foo" ["adjacency.npz"; "sub/names.npy"] = true /\
  safe_extract "/var/tmp" "data/foo" ["adjacency.npz"; "../foobar/x"] = false /\
  safe_extract "/var/tmp" "data/foo" ["/etc/passwd"] = false.
Proof. vm_compute. repeat split; reflexivity. Qed.

Example c18_ingest_nonvacuous :
  let fl := {| directed := false; bipartite := false; weighted := true; reindex := false;
               sum_duplicates := true; shape := None; matrix_only := None |} in
  view (from_edge_list_str pp_sym_passes_weighted fl [("b", "a"); ("a", "b"); ("b", "a"); ("c", "a")]%string (Some [2; 3; 5; 1]%Z))
  = Some (3, 3, [(2, 0, 1%Z); (1, 0, 10%Z); (0, 1, 10%Z); (0, 2, 1%Z)], false,
          (Some ["a"; "b"; "c"]%string, None, None), false) /\
  has_reciprocal Nat.eqb (raw_edges [(0, 1); (2, 1)] None) = false /\
  view (from_edge_list_nat pp_sym_passes_weighted
          {| directed := true; bipartite := false; weighted := false; reindex := false;
             sum_duplicates := false; shape := Some (2, 5); matrix_only := None |} [(0, 1); (2, 1); (0, 1)] None)
  = Some (3, 3, [(0, 1, 1%Z); (2, 1, 1%Z)], true, (None, None, None), true).
Proof. vm_compute. repeat split; reflexivity. Qed.

Example c18_csv_nonvacuous :
  let d := ","%char in let comments := ["#"; "%"]%char in
  Forall (row_ok d comments) [["1"; "2"]; ["a b"; "c"]]%string /\
  csv_table 100 d comments (render_csv d ["# a"; "% b"]%string [["1"; "2"]; ["a b"; "c"]]%string)
  = [["1"; "2"]; ["a b"; "c"]]%string /\
  scan_header 100 [" "; ","]%char comments (render_csv d ["# a"; "% b"]%string [["1"; "2"]; ["3"; "4"]]%string)
  = Some (2, d, "%"%char, true).
Proof.
  split; [|split; vm_compute; reflexivity].
  repeat constructor; simpl; try reflexivity; discriminate.
Qed.

(** * Part C — adjacency lists (list-of-lists and dict forms) and GraphML documents *)
From SKN Require Import Model.AdjacencyList Proofs.AdjacencyProofs Model.Graphml Proofs.GraphmlKeysProofs Proofs.GraphmlScanProofs Proofs.GraphmlProofs.
Set Warnings "-notation-overridden".

(** ** from_adjacency_list *)

(** The code turns both forms into the edge list [(i, j) for i, neighbors in ... for j in neighbors]
    ([adjacency_edges]) and calls from_edge_list without weights. For every identifier type, ALL flag
    combinations and every adjacency dict (insertion order, keys possibly missing for some neighbours,
    empty lists): entry (i, j) of the result is the number of occurrences of (the identifier that is)
    node j in the lists of the keys that are node i when weighted and sum_duplicates are on, and 1 iff
    there is at least one occurrence otherwise; plus the reverse direction when undirected (still binary
    when unweighted); rows are keys and columns are neighbours when bipartite. *)
Theorem adjacency_dict_entry {id : Type} (ideqb : id -> id -> bool) (as_int : id -> option nat)
        (unique : list id -> list id * list nat) (fl : flags) (adj : list (id * list id)) (d : dataset) :
  (forall a b, ideqb a b = true <-> a = b) ->
  (forall a b k, as_int a = Some k -> as_int b = Some k -> a = b) ->
  unique_ok ideqb unique ->
  from_adjacency_dict ideqb as_int unique pp_sym_passes_weighted fl adj = Some d ->
  forall i j, Parse.entry (d_matrix d) i j = adj_spec_entry ideqb as_int fl (row_names d) (col_names d) adj i j.
Proof.
  exact (fun H1 H2 H3 H => AdjacencyProofs.adjacency_dict_entry ideqb as_int unique pp_sym_passes_weighted H1 H2 H3 fl adj d H
                             from_edge_array_passes_weighted).
Qed.
Print Assumptions adjacency_dict_entry.

(** The list-of-lists form: node i is the position of its list. *)
Theorem adjacency_list_entry (fl : flags) (adj : list (list nat)) (d : dataset) :
  from_adjacency_list_nat pp_sym_passes_weighted fl adj = Some d ->
  forall i j, Parse.entry (d_matrix d) i j
              = adj_spec_entry Nat.eqb as_int_nat fl (row_names d) (col_names d) (enumerate_rows adj) i j.
Proof. exact (fun H => AdjacencyProofs.adjacency_list_entry pp_sym_passes_weighted fl adj d H from_edge_array_passes_weighted). Qed.
Print Assumptions adjacency_list_entry.

(** Without reindexing the count is simply the number of occurrences of j in list number i. *)
Theorem adjacency_list_count (adj : list (list nat)) (i j : nat) :
  adj_count Nat.eqb as_int_nat None None (enumerate_rows adj) i j = occurrences adj i j.
Proof. exact (adjacency_list_plain_count adj i j). Qed.
Print Assumptions adjacency_list_count.

(** Names: every key with a non-empty list and every neighbour has an index inside the shape whose name
    is that identifier; names are distinct, as many as the dimension, and each one is such a key or
    neighbour (a key whose list is empty and that is nobody's neighbour lists no edge and gets no index);
    reindexing always produces names. *)
Theorem adjacency_dict_names {id : Type} (ideqb : id -> id -> bool) (as_int : id -> option nat)
        (unique : list id -> list id * list nat) (fl : flags) (adj : list (id * list id)) (d : dataset) :
  (forall a b, ideqb a b = true <-> a = b) ->
  unique_ok ideqb unique ->
  from_adjacency_dict ideqb as_int unique pp_sym_passes_weighted fl adj = Some d ->
  (forall k nb b, In (k, nb) adj -> In b nb ->
     exists i j, i < fst (m_shape (d_matrix d)) /\ j < snd (m_shape (d_matrix d)) /\
                 is_node ideqb as_int (row_names d) i k = true /\ is_node ideqb as_int (col_names d) j b = true) /\
  (forall ns, row_names d = Some ns ->
     NoDup ns /\ length ns = fst (m_shape (d_matrix d)) /\
     forall x, In x ns -> exists k nb, In (k, nb) adj /\ nb <> [] /\ (x = k \/ In x nb)) /\
  (forall ns, col_names d = Some ns ->
     NoDup ns /\ length ns = snd (m_shape (d_matrix d)) /\
     forall x, In x ns -> exists k nb, In (k, nb) adj /\ nb <> [] /\ (x = k \/ In x nb)) /\
  d_names d = row_names d /\
  (reindex fl = true -> row_names d <> None /\ col_names d <> None).
Proof. exact (fun H1 H3 => AdjacencyProofs.adjacency_dict_names ideqb as_int unique pp_sym_passes_weighted H1 H3 fl adj d). Qed.
Print Assumptions adjacency_dict_names.

(** ** from_graphml over an abstract parsed document

    [from_graphml_with dl] is the model of the function for the two dialects of the code ([current]: as
    it is now; [legacy]: before the two repairs); the theorems hold for both, the dialect only enters
    through [doc_keys] (which key gives the weights, how booleans are cast). Hypotheses: the code accepts
    the document (no exception) and the document has ONE graph element ([doc_graphs root = [g]]; with
    several, the code applies the element indices of all of them to the last one). *)

(** (1) Nodes and names: as many nodes as node elements; names are the node ids in document order, cut
    to 512 characters (none when parse.nodeids="canonical"); every node element carries an id. *)
Theorem graphml_nodes (dl : dialect) (wk : string) (mss : nat) (root g : xml) (b : bunch) :
  from_graphml_with dl wk mss root = Ok b -> doc_graphs root = [g] ->
  b_n b = length (doc_nodes g) /\ length (doc_ids g) = b_n b /\
  b_names b = (if doc_naming g then Some (map (substring 0 names_width) (doc_ids g)) else None) /\
  (doc_naming g = true -> forall nd, In nd (doc_nodes g) -> attr "id" nd <> None).
Proof. exact (GraphmlProofs.graphml_nodes dl wk mss root g b). Qed.
Print Assumptions graphml_nodes.

(** With distinct ids of at most 512 characters: names = ids, and the index an edge end is resolved to
    (the dict node_map, last writer wins) is the position of the id: names[index id] = id. *)
Theorem graphml_names_roundtrip (ids : list string) :
  NoDup ids -> (forall x, In x ids -> String.length x <= names_width) ->
  map (substring 0 names_width) ids = ids /\
  forall x k, index_last ids x 0 = Some k <-> nth_error ids k = Some x.
Proof. exact (names_index_roundtrip ids). Qed.
Print Assumptions graphml_names_roundtrip.

(** (2) Entries: the dtype is that of the weight key (bool when there is none, int for int, float for
    long / float / double), and entry (i, j) is the SUM in that dtype (logical or for bool) of the weights
    of the edge elements listed from node i to node j, plus those of the mirrored edges listed from j to
    i — so duplicate edges add up and a mirrored self-loop counts twice. The weight of an edge
    ([doc_weight]) is the text of its last <data> child that refers to the weight key, cast to the key's
    type; when it has none: the default weight. *)
Theorem graphml_entry (dl : dialect) (wk : string) (mss : nat) (root g : xml) (b : bunch) :
  from_graphml_with dl wk mss root = Ok b -> doc_graphs root = [g] ->
  b_dtype b = doc_wtype (doc_keys dl wk mss root) /\
  forall i j, gm_entry b i j = spec_gm_entry dl (doc_keys dl wk mss root) g i j.
Proof. exact (GraphmlProofs.graphml_entry dl wk mss root g b). Qed.
Print Assumptions graphml_entry.

(** The weight key and the default weight, read off the key elements: with no weight key the matrix is
    boolean and every listed edge has weight True; with exactly one, type and id are its attr.type and id
    and the default weight is the cast of its last <default> child, else 1. *)
Theorem graphml_weight_rule (dl : dialect) (wk : string) (mss : nat) (root : xml) :
  ((forall fe, In fe (x_children root) -> is_weight_key dl wk fe = false) ->
   doc_wtype (doc_keys dl wk mss root) = PBool /\
   forall e, doc_weight dl (doc_keys dl wk mss root) e = VBool true) /\
  (forall pre kw post,
     x_children root = (pre ++ kw :: post)%list -> is_weight_key dl wk kw = true ->
     (forall fe, In fe pre \/ In fe post -> is_weight_key dl wk fe = false) ->
     k_wty (doc_keys dl wk mss root) = key_type kw /\
     k_wid (doc_keys dl wk mss root) = attr "id" kw /\
     k_dw (doc_keys dl wk mss root) = weight_default_pure dl (key_type kw) (x_children kw) (VInt 1)).
Proof. exact (GraphmlProofs.graphml_weight_rule dl wk mss root). Qed.
Print Assumptions graphml_weight_rule.

Theorem graphml_default_weight (dl : dialect) (ty : ptype) (kes : list xml) (dw : value) (k : kstate) :
  ((forall d, In d kes -> is_tag "default" d = true -> exists v, cast dl ty (x_text d) = Ok v) ->
   weight_default_pure dl ty kes dw
   = match rev (filter (is_tag "default") kes) with d :: _ => cast_or dl ty (x_text d) dw | [] => dw end) /\
  (k_dw k = VInt 1 ->
   doc_wfill k = match k_wty k with PBool => VBool true | PFloat => VFloat 1 | _ => VInt 1 end).
Proof. exact (conj (weight_default_pure_last dl ty kes dw) (default_weight_one k)). Qed.
Print Assumptions graphml_default_weight.

(** (3) Direction, as coded: an edge is stored in both directions iff its own [directed] attribute is
    present and different from "true", or absent while edgedefault = "undirected". When no edge is
    mirrored, entry (i, j) only counts the edges from i to j; when all are, the matrix is symmetric. *)
Theorem graphml_direction (dl : dialect) (wk : string) (mss : nat) (root g : xml) (b : bunch) :
  from_graphml_with dl wk mss root = Ok b -> doc_graphs root = [g] ->
  (doc_sym g = true <-> attr "edgedefault" g = Some "undirected"%string) /\
  (forall e, edge_mirrored (doc_sym g) e
             = match attr "directed" e with Some v => negb (String.eqb v "true") | None => doc_sym g end) /\
  ((forall e, In e (doc_edges g) -> edge_mirrored (doc_sym g) e = false) ->
   forall i j, gm_entry b i j
               = dsumq (b_dtype b) (map qval (flat_map (fun e => if ends_are g e i j
                                                                  then [doc_weight dl (doc_keys dl wk mss root) e] else [])
                                                        (doc_edges g)))) /\
  ((forall e, In e (doc_edges g) -> edge_mirrored (doc_sym g) e = true) ->
   forall i j, (gm_entry b i j == gm_entry b j i)%Q).
Proof. exact (GraphmlProofs.graphml_direction dl wk mss root g b). Qed.
Print Assumptions graphml_direction.

(** (4) Attributes: node attribute arrays follow the node elements, edge attribute arrays follow the
    stored entries (a mirrored edge fills two consecutive slots); the value is the text of the last
    <data> child feeding the attribute, cast to its key's type (strings cut to max_string_size), else the
    key's default when it is truthy, else zero / empty. meta holds the descriptions. *)
Theorem graphml_attributes (dl : dialect) (wk : string) (mss : nat) (root g : xml) (b : bunch) :
  from_graphml_with dl wk mss root = Ok b -> doc_graphs root = [g] ->
  b_node_attr b = node_columns dl (doc_keys dl wk mss root) mss g /\
  b_edge_attr b = edge_columns dl (doc_keys dl wk mss root) mss g /\
  b_meta b = meta_of (doc_keys dl wk mss root).
Proof. exact (GraphmlProofs.graphml_attributes dl wk mss root g b). Qed.
Print Assumptions graphml_attributes.

(** The key table of the theorems above IS the one the code builds whenever it raises nothing. *)
Theorem graphml_key_table (dl : dialect) (wk : string) (mss : nat) (root : xml) (k : kstate) :
  scan_keys dl wk mss root = Ok k -> k = doc_keys dl wk mss root.
Proof. exact (scan_keys_pure dl wk mss root k). Qed.
Print Assumptions graphml_key_table.

Theorem graphml_no_graph (dl : dialect) (wk : string) (mss : nat) (root : xml) :
  doc_graphs root = [] -> forall b, from_graphml_with dl wk mss root <> Ok b.
Proof. exact (GraphmlProofs.graphml_no_graph dl wk mss root). Qed.
Print Assumptions graphml_no_graph.

(** The code as it is now reads the weight key and booleans as the GraphML standard does: the weight
    key is a key named weight_key whose domain is edge or all; "true" / "1" (any case, blanks around)
    are true, everything else is false. *)
Theorem graphml_current_reading (wk : string) (fe : xml) (text : option string) (s : string) :
  is_weight_key current wk fe = is_edge_weight_key wk fe /\
  cast current PBool text = Ok (VBool (bool_text text)) /\
  (lower s = s -> bool_text (Some s) = gml_bool (Some s)) /\ bool_text None = false.
Proof. exact (conj (weight_key_current wk fe) (conj (bool_cast_current text) (conj (bool_text_gml s) bool_text_none))). Qed.
Print Assumptions graphml_current_reading.

(** Both guards were necessary: the code before the repairs ([legacy]) loses the weights on a document
    whose only key named "weight" is a NODE key (entry 5 instead of 1, node attribute dropped), and on a
    boolean weight "false" (entry 1 instead of 0). *)
Theorem graphml_legacy_node_weight_key_refuted :
  exists root g b b',
    doc_graphs root = [g] /\
    (forall fe, In fe (x_children root) -> is_edge_weight_key "weight" fe = false) /\
    from_graphml_with legacy "weight" 512 root = Ok b /\
    gm_entry b 0 1 = (5 # 1)%Q /\ b_node_attr b = None /\
    from_graphml_with current "weight" 512 root = Ok b' /\
    gm_entry b' 0 1 = (1 # 1)%Q /\ b_dtype b' = PBool /\
    b_node_attr b' = Some [("weight"%string, (PFloat, [VFloat (5 # 1); VFloat (5 # 1)]))].
Proof. exact legacy_node_weight_key_refuted. Qed.
Print Assumptions graphml_legacy_node_weight_key_refuted.

Theorem graphml_legacy_boolean_weight_refuted :
  exists root g e c b b',
    doc_graphs root = [g] /\ In e (doc_edges g) /\
    doc_index g "source" e = Some 0 /\ doc_index g "target" e = Some 1 /\
    weight_data (Some "d0"%string) e = [c] /\ gml_bool (x_text c) = false /\
    from_graphml_with legacy "weight" 512 root = Ok b /\ gm_entry b 0 1 = (1 # 1)%Q /\
    from_graphml_with current "weight" 512 root = Ok b' /\ gm_entry b' 0 1 = (0 # 1)%Q /\ gm_entry b' 1 0 = (1 # 1)%Q.
Proof. exact legacy_boolean_weight_refuted. Qed.
Print Assumptions graphml_legacy_boolean_weight_refuted.

(** ** Non-vacuity *)

Example c18_adjacency_nonvacuous :
  view (from_adjacency_list_nat pp_sym_passes_weighted
          {| directed := true; bipartite := false; weighted := true; reindex := false;
             sum_duplicates := true; shape := None; matrix_only := None |} [[1; 1; 2]; []; [0]])
  = Some (3, 3, [(0, 1, 2%Z); (0, 2, 1%Z); (2, 0, 1%Z)], false, (None, None, None), true) /\
  view (from_adjacency_dict_str pp_sym_passes_weighted
          {| directed := false; bipartite := false; weighted := true; reindex := false;
             sum_duplicates := true; shape := None; matrix_only := None |}
          [("b", ["a"; "c"; "a"]); ("a", [])]%string)
  = Some (3, 3, [(1, 2, 1%Z); (1, 0, 2%Z); (2, 1, 1%Z); (0, 1, 2%Z)], false, (Some ["a"; "b"; "c"]%string, None, None), false) /\
  occurrences [[1; 1; 2]; []; [0]] 0 1 = 2.
Proof. vm_compute. repeat split; reflexivity. Qed.

(** A namespaced, undirected document with int weights (default 2), names with XML-special characters,
    a duplicate edge, a reversed edge, a self-loop, an edge marked directed, a node and an edge attribute:
    accepted by the model, one graph element, distinct ids — inside the hypotheses of every theorem above. *)
Example c18_graphml_nonvacuous :
  exists g b,
    from_graphml "weight" 512 doc_example = Ok b /\ doc_graphs doc_example = [g] /\
    doc_naming g = true /\ doc_ids g = ["a&b"; "x<y"; "c"]%string /\ NoDup (doc_ids g) /\
    b_n b = 3 /\ b_names b = Some ["a&b"; "x<y"; "c"]%string /\ b_dtype b = PInt /\
    map (fun i => map (fun j => gm_entry b i j) [0; 1; 2]) [0; 1; 2]
    = [[0 # 1; 10 # 1; 0 # 1]; [10 # 1; 0 # 1; 0 # 1]; [7 # 1; 0 # 1; 4 # 1]]%Q /\
    b_node_attr b = Some [("color"%string, (PStr, [VStr "green"; VStr "yellow"; VStr "yellow"]))] /\
    option_map (map (fun c : string * (ptype * list value) => (fst c, length (snd (snd c))))) (b_edge_attr b) = Some [("len"%string, 9)].
Proof. exact graphml_example. Qed.

(** ** Attribute columns: which key decides, and the fill ("defaults filled") *)
From SKN Require Import Proofs.GraphmlColumnsProofs.
Set Warnings "-notation-overridden".

(** The column of node (edge) attribute [name] is decided by the LAST key of that domain carrying the
    name (other than the weight key): its attr.type, and as fill the cast of its last <default> child
    when that is truthy, else zero / False / the empty string. With no key of a domain the Bunch has no
    node_attribute (edge_attribute) entry. *)
Theorem graphml_column_rule (dl : dialect) (wk : string) (mss : nat) (root : xml) (pre : list xml) (fe : xml)
        (post : list xml) (name : string) :
  x_children root = (pre ++ fe :: post)%list ->
  (feeds dl wk "node" name fe = true -> (forall fe', In fe' post -> feeds dl wk "node" name fe' = false) ->
   alookup name (some_or_empty (k_nattr (doc_keys dl wk mss root)))
   = Some (key_type fe, fill_of mss (key_type fe) (last_default dl (key_type fe) (x_children fe) None))) /\
  (feeds dl wk "edge" name fe = true -> (forall fe', In fe' post -> feeds dl wk "edge" name fe' = false) ->
   alookup name (some_or_empty (k_eattr (doc_keys dl wk mss root)))
   = Some (key_type fe, fill_of mss (key_type fe) (last_default dl (key_type fe) (x_children fe) None))).
Proof.
  exact (fun H => conj (node_column_rule dl wk mss root pre fe post name H) (edge_column_rule dl wk mss root pre fe post name H)).
Qed.
Print Assumptions graphml_column_rule.

Theorem graphml_no_column (dl : dialect) (wk : string) (mss : nat) (root : xml) :
  ((forall fe name, In fe (x_children root) -> feeds dl wk "node" name fe = false) ->
   k_nattr (doc_keys dl wk mss root) = None) /\
  ((forall fe name, In fe (x_children root) -> feeds dl wk "edge" name fe = false) ->
   k_eattr (doc_keys dl wk mss root) = None).
Proof. exact (conj (no_column_rule_node dl wk mss root) (no_column_rule_edge dl wk mss root)). Qed.
Print Assumptions graphml_no_column.

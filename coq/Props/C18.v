(** C18 — Graphs are ingested and persisted faithfully.
    Statements closed by [exact], their assumptions, and non-vacuity examples.
    [Gen/PathCheck.v] and [Gen/ParseCalls.v] are regenerated from sknetwork/data/load.py and parse.py on every run. *)
From Coq Require Import String Ascii.
From SKN Require Import Base.Util Model.PathSafe Model.Parse Proofs.PathSafeProofs Proofs.ParseProofs Gen.PathCheck Gen.ParseCalls.

(** * Part A — archive members are confined to the dataset folder *)

(** The check and the extraction guard exactly as load.py builds them now. *)
Definition is_within_directory : string -> string -> string -> bool :=
  is_within_with pc_function pc_norm_directory pc_norm_target.
Definition safe_extract : string -> string -> list string -> bool :=
  safe_extract_with pc_function pc_norm_directory pc_norm_target.

(** Obligation over the generated terms: is_within_directory compares the two normalised paths with
    os.path.commonpath (component-wise), both arguments are normalised, and safe_extract checks
    join(path, member.name) of every member, raises on failure, and only then calls
    tar.extractall(path); no other extraction call exists in load.py. *)
Theorem pathcheck_uses_commonpath :
  pc_function = CommonPath /\ pc_norm_directory <> NoNorm /\ pc_norm_target <> NoNorm /\
  se_checks_every_member = true /\ se_raises_on_failure = true /\
  se_extracts_to_checked_path = true /\ se_only_extraction_site = true.
Proof. repeat split; try reflexivity; discriminate. Qed.
Print Assumptions pathcheck_uses_commonpath.

(** For every current directory (absolute), directory and target: the string-level check accepts
    exactly the targets whose normalised components extend those of the directory. *)
Theorem within_directory_iff_component_prefix (cwd d t : string) :
  starts_with_slash cwd = true -> single_root cwd d ->
  (is_within_directory cwd d t = true <-> prefix (comps cwd d) (comps cwd t)).
Proof.
  exact (within_iff_commonpath pc_norm_directory pc_norm_target cwd d t
           (proj1 (proj2 pathcheck_uses_commonpath)) (proj1 (proj2 (proj2 pathcheck_uses_commonpath)))).
Qed.
Print Assumptions within_directory_iff_component_prefix.

(** Every member name accepted by safe_extract is extracted at or below the directory, whatever
    the names are; and an archive whose members all stay inside is never refused. *)
Theorem safe_extract_confined (cwd path : string) (members : list string) :
  starts_with_slash cwd = true -> single_root cwd path ->
  (safe_extract cwd path members = true <->
   forall name, In name members -> prefix (comps cwd path) (extracted_to cwd path name)).
Proof.
  exact (fun Hc Hr => conj
    (safe_extract_confined_commonpath pc_norm_directory pc_norm_target cwd path members
       (proj1 (proj2 pathcheck_uses_commonpath)) (proj1 (proj2 (proj2 pathcheck_uses_commonpath))) Hc Hr)
    (safe_extract_complete_commonpath pc_norm_directory pc_norm_target cwd path members
       (proj1 (proj2 pathcheck_uses_commonpath)) (proj1 (proj2 (proj2 pathcheck_uses_commonpath))) Hc Hr)).
Qed.
Print Assumptions safe_extract_confined.

(** The character-wise variant (os.path.commonprefix, the code before the repair) is refuted:
    directory /data/foo admits /data/foobar/x, and member ../foobar/x escapes through safe_extract. *)
Theorem within_directory_refuted :
  exists cwd d t,
    starts_with_slash cwd = true /\ single_root cwd d /\
    is_within_with CommonPrefix Abspath Abspath cwd d t = true /\
    ~ prefix (comps cwd d) (comps cwd t).
Proof. exact PathSafeProofs.within_directory_refuted. Qed.
Print Assumptions within_directory_refuted.

Theorem safe_extract_commonprefix_refuted :
  exists cwd path name,
    starts_with_slash cwd = true /\ single_root cwd path /\
    safe_extract_with CommonPrefix Abspath Abspath cwd path [name] = true /\
    ~ prefix (comps cwd path) (extracted_to cwd path name).
Proof. exact PathSafeProofs.safe_extract_refuted. Qed.
Print Assumptions safe_extract_commonprefix_refuted.

(** * Part B — ingestion *)

(** [pp_sym_passes_weighted] (Gen/ParseCalls.v) records whether from_edge_array calls
    [directed2undirected(matrix, weighted=weighted)] (true) or [directed2undirected(matrix)] (false);
    the model follows it. Obligation over the generated term: the flag is handed over. *)
Theorem from_edge_array_passes_weighted : pp_sym_passes_weighted = true.
Proof. reflexivity. Qed.
Print Assumptions from_edge_array_passes_weighted.

(** For every identifier type with a decidable equality, every integer reading [as_int] that is
    injective, every [unique] oracle returning the distinct values with their inverse map, ALL flag
    combinations, all edge arrays and integer weights: entry (i, j) of the matrix built by
    from_edge_array / from_edge_list is the sum of the weights listed for edge (names[i], names[j])
    (the first one only if sum_duplicates is off; 1 iff some non-zero weight is listed if weighted
    is off), plus the reverse direction when the graph is undirected (still binary when unweighted);
    a biadjacency matrix is indexed by row names and column names separately. *)
Theorem edge_array_entry {id : Type} (ideqb : id -> id -> bool) (as_int : id -> option nat)
        (unique : list id -> list id * list nat)
        (fl : flags) (edge_array : list (id * id)) (weights : option (list Z)) (d : dataset) :
  (forall a b, ideqb a b = true <-> a = b) ->
  (forall a b k, as_int a = Some k -> as_int b = Some k -> a = b) ->
  unique_ok ideqb unique ->
  from_edge_array ideqb as_int unique pp_sym_passes_weighted fl edge_array weights = Some d ->
  forall i j, entry (d_matrix d) i j =
              spec_entry ideqb as_int fl (row_names d) (col_names d) (raw_edges edge_array weights) i j.
Proof.
  exact (fun H1 H2 H3 H => from_edge_array_entry ideqb as_int unique pp_sym_passes_weighted H1 H2 H3
                             fl edge_array weights d H (or_introl from_edge_array_passes_weighted)).
Qed.
Print Assumptions edge_array_entry.

(** The legacy call [directed2undirected(matrix)] (code before the repair) meets the specification only
    outside the combination "unweighted, undirected, some edge listed in both directions"; the
    exclusion is necessary, see [unweighted_undirected_binary_refuted]. *)
Theorem edge_array_entry_legacy_call {id : Type} (ideqb : id -> id -> bool) (as_int : id -> option nat)
        (unique : list id -> list id * list nat)
        (fl : flags) (edge_array : list (id * id)) (weights : option (list Z)) (d : dataset) :
  (forall a b, ideqb a b = true <-> a = b) ->
  (forall a b k, as_int a = Some k -> as_int b = Some k -> a = b) ->
  unique_ok ideqb unique ->
  from_edge_array ideqb as_int unique false fl edge_array weights = Some d ->
  (weighted fl = true \/ directed fl = true \/ bipartite fl = true \/
   has_reciprocal ideqb (raw_edges edge_array weights) = false) ->
  forall i j, entry (d_matrix d) i j =
              spec_entry ideqb as_int fl (row_names d) (col_names d) (raw_edges edge_array weights) i j.
Proof.
  exact (fun H1 H2 H3 H Hex => from_edge_array_entry ideqb as_int unique false H1 H2 H3
                                 fl edge_array weights d H (or_intror Hex)).
Qed.
Print Assumptions edge_array_entry_legacy_call.

(** What the code computes in every case (no exclusion). *)
Theorem edge_array_entry_as_coded {id : Type} (ideqb : id -> id -> bool) (as_int : id -> option nat)
        (unique : list id -> list id * list nat)
        (fl : flags) (edge_array : list (id * id)) (weights : option (list Z)) (d : dataset) :
  (forall a b, ideqb a b = true <-> a = b) ->
  (forall a b k, as_int a = Some k -> as_int b = Some k -> a = b) ->
  unique_ok ideqb unique ->
  from_edge_array ideqb as_int unique pp_sym_passes_weighted fl edge_array weights = Some d ->
  forall i j, entry (d_matrix d) i j =
              coded_entry ideqb as_int pp_sym_passes_weighted fl (row_names d) (col_names d)
                          (raw_edges edge_array weights) i j.
Proof.
  exact (fun H1 H2 H3 => from_edge_array_coded ideqb as_int unique pp_sym_passes_weighted H1 H2 H3 fl edge_array weights d).
Qed.
Print Assumptions edge_array_entry_as_coded.

(** The faithful model of the call WITHOUT the flag violates the property on the excluded
    combination: edges (0,1) and (1,0), weighted=False, directed=False give entry (0,1) = 2 where a
    binary entry is specified. *)
Theorem unweighted_undirected_binary_refuted :
  exists (edge_array : list (nat * nat)) d i j,
    from_edge_list_nat false d16_flags edge_array None = Some d /\
    entry (d_matrix d) i j = 2%Z /\
    spec_entry Nat.eqb as_int_nat d16_flags (row_names d) (col_names d) (raw_edges edge_array None) i j = 1%Z.
Proof. exact ParseProofs.unweighted_undirected_binary_refuted. Qed.
Print Assumptions unweighted_undirected_binary_refuted.

(** Names: every listed identifier has an index inside the shape whose name is that identifier; the
    names are pairwise distinct, as many as the dimension, and are all listed identifiers; a
    Dataset's [names] are the row names; reindexing always produces names. *)
Theorem names_roundtrip {id : Type} (ideqb : id -> id -> bool) (as_int : id -> option nat)
        (unique : list id -> list id * list nat)
        (fl : flags) (edge_array : list (id * id)) (weights : option (list Z)) (d : dataset) :
  (forall a b, ideqb a b = true <-> a = b) ->
  unique_ok ideqb unique ->
  from_edge_array ideqb as_int unique pp_sym_passes_weighted fl edge_array weights = Some d ->
  (forall a b, In (a, b) edge_array ->
     exists i j, i < fst (m_shape (d_matrix d)) /\ j < snd (m_shape (d_matrix d)) /\
                 is_node ideqb as_int (row_names d) i a = true /\ is_node ideqb as_int (col_names d) j b = true) /\
  (forall ns, row_names d = Some ns ->
     NoDup ns /\ length ns = fst (m_shape (d_matrix d)) /\
     forall x, In x ns -> exists e, In e edge_array /\ (x = fst e \/ x = snd e)) /\
  (forall ns, col_names d = Some ns ->
     NoDup ns /\ length ns = snd (m_shape (d_matrix d)) /\
     forall x, In x ns -> exists e, In e edge_array /\ (x = fst e \/ x = snd e)) /\
  d_names d = row_names d /\
  (reindex fl = true -> row_names d <> None /\ col_names d <> None).
Proof. exact (fun H1 H3 => from_edge_array_names ideqb as_int unique pp_sym_passes_weighted H1 H3 fl edge_array weights d). Qed.
Print Assumptions names_roundtrip.

(** The reference [unique] used to run the model meets the oracle contract (the theorems above are
    not vacuous), for integer and for string identifiers. *)
Theorem unique_oracle_realised : unique_ok Nat.eqb nat_unique /\ unique_ok String.eqb str_unique.
Proof. exact (conj nat_unique_ok str_unique_ok). Qed.
Print Assumptions unique_oracle_realised.

(** CSV: splitting a joined row on the delimiter gives back the fields when no field contains it;
    a file made of header comment lines followed by the rows yields exactly these rows, for every
    delimiter other than newline and every set of comment characters. *)
Theorem csv_equals_rows (n_scan : nat) (d : ascii) (comments : list ascii)
        (header : list string) (rows : list (list string)) :
  (forall fields, fields <> [] -> Forall (fun x => contains d x = false) fields ->
                  split d (join (String d "") fields) = fields) /\
  (comments <> [] -> Ascii.eqb d newline = false ->
   Forall (fun h => starts_with_any comments h = true /\ contains newline h = false) header ->
   Forall (row_ok d comments) rows ->
   csv_table n_scan d comments (render_csv d header rows) = rows).
Proof. exact (conj (split_join d) (csv_table_render n_scan d comments header rows)). Qed.
Print Assumptions csv_equals_rows.

(** The delimiter guess of scan_header: if only one candidate delimiter occurs in the scanned rows,
    it is the one guessed. *)
Theorem delimiter_guess (delims : list ascii) (rows : list string) (d : ascii) :
  In d delims ->
  (forall d', In d' delims -> d' <> d -> forall r, In r rows -> count_char d' r = 0) ->
  (exists r, In r rows /\ 0 < count_char d r) ->
  guess_delimiter delims rows = Some d.
Proof. exact (guess_delimiter_only delims rows d). Qed.
Print Assumptions delimiter_guess.

(** * Non-vacuity *)
Local Open Scope string_scope.

Example c18_path_nonvacuous :
  starts_with_slash "/var/tmp" = true /\ single_root "/var/tmp" "data/foo" /\
  is_within_directory "/var/tmp" "data/foo" "data/foo/a/../b.npz" = true /\
  is_within_directory "/var/tmp" "data/foo" "data/foo/../foobar/x" = false /\
  safe_extract "/var/tmp" "data/foo" ["adjacency.npz"; "sub/names.npy"] = true /\
  safe_extract "/var/tmp" "data/foo" ["adjacency.npz"; "../foobar/x"] = false /\
  safe_extract "/var/tmp" "data/foo" ["/etc/passwd"] = false.
Proof. vm_compute. repeat split; reflexivity. Qed.

Example c18_ingest_nonvacuous :
  let fl := {| directed := false; bipartite := false; weighted := true; reindex := false;
               sum_duplicates := true; shape := None; matrix_only := None |} in
  view (from_edge_list_str pp_sym_passes_weighted fl [("b", "a"); ("a", "b"); ("b", "a"); ("c", "a")]%string (Some [2; 3; 5; 1]%Z))
  = Some (3, 3, [(2, 0, 1%Z); (1, 0, 10%Z); (0, 1, 10%Z); (0, 2, 1%Z)], false,
          (Some ["a"; "b"; "c"]%string, None, None), false) /\
  has_reciprocal Nat.eqb (raw_edges [(0, 1); (2, 1)] None) = false /\
  view (from_edge_list_nat pp_sym_passes_weighted
          {| directed := true; bipartite := false; weighted := false; reindex := false;
             sum_duplicates := false; shape := Some (2, 5); matrix_only := None |} [(0, 1); (2, 1); (0, 1)] None)
  = Some (3, 3, [(0, 1, 1%Z); (2, 1, 1%Z)], true, (None, None, None), true).
Proof. vm_compute. repeat split; reflexivity. Qed.

Example c18_csv_nonvacuous :
  let d := ","%char in let comments := ["#"; "%"]%char in
  Forall (row_ok d comments) [["1"; "2"]; ["a b"; "c"]]%string /\
  csv_table 100 d comments (render_csv d ["# a"; "% b"]%string [["1"; "2"]; ["a b"; "c"]]%string)
  = [["1"; "2"]; ["a b"; "c"]]%string /\
  scan_header 100 [" "; ","]%char comments (render_csv d ["# a"; "% b"]%string [["1"; "2"]; ["3"; "4"]]%string)
  = Some (2, d, "%"%char, true).
Proof.
  split; [|split; vm_compute; reflexivity].
  repeat constructor; simpl; try reflexivity; discriminate.
Qed.

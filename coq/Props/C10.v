(** C10 — Hop distances, shortest-path DAGs and search orders are exact.
    This file contains only statements closed by [exact], their assumptions, and non-vacuity examples. *)
From SKN Require Import Base.Util Model.Bfs Proofs.BfsProofs Gen.Routing.
From Coq Require Import Permutation Sorted.

(** The coded BFS loop never runs out of fuel and computes exactly the minimum number of hops
    from the nearest source; -1 exactly for the nodes no walk from a source reaches. *)
Theorem get_distances_exact (g : graph) (src : list bool) :
  length src = length g ->
  exists dist, bfs g src = Some dist /\ length dist = length g /\
    forall v, v < length g ->
      (forall k, nthz dist v = Z.of_nat k <-> hop g src v k) /\
      (nthz dist v = (-1)%Z <-> forall k, ~ reachk g src k v).
Proof. exact (bfs_exact g src). Qed.
Print Assumptions get_distances_exact.

(** get_dag keeps exactly the edges from a lower to a strictly higher non-negative order,
    for every integer order vector (ties and negatives included). *)
Theorem get_dag_exact (g : graph) (order : list Z) (i j : nat) :
  wf_graph g -> length order = length g -> i < length g ->
  (In j (row (get_dag g order) i) <->
   In j (row g i) /\ (0 <= nthz order i)%Z /\ (nthz order i < nthz order j)%Z).
Proof. exact (BfsProofs.get_dag_exact g order i j). Qed.
Print Assumptions get_dag_exact.

(** get_shortest_path keeps exactly the edges (i,j) with dist j = dist i + 1 from a reachable i. *)
Theorem shortest_path_exact (g : graph) (src : list bool) (dist : list Z) (i j : nat) :
  wf_graph g -> length src = length g -> bfs g src = Some dist -> i < length g ->
  (In j (row (get_dag g dist) i) <->
   In j (row g i) /\ (0 <= nthz dist i)%Z /\ nthz dist j = (nthz dist i + 1)%Z).
Proof. exact (shortest_path_edges g src dist i j). Qed.
Print Assumptions shortest_path_exact.

(** breadth_first_search: for any argsort answer (a permutation sorting the distances) the output
    lists exactly the reachable nodes, without repetition, in non-decreasing distance. *)
Theorem bfs_order_exact (dist : list Z) (argsort : list nat) :
  Permutation argsort (seq 0 (length dist)) ->
  Sorted Z.le (map (nthz dist) argsort) ->
  (forall v, v < length dist -> (-1 <= nthz dist v)%Z) ->
  let out := bfs_order dist argsort in
  NoDup out /\
  (forall v, In v out <-> v < length dist /\ (0 <= nthz dist v)%Z) /\
  Sorted Z.le (map (nthz dist) out).
Proof. exact (BfsProofs.bfs_order_exact dist argsort). Qed.
Print Assumptions bfs_order_exact.

(** Obligation over the generated call-site binding (Gen/Routing.v, regenerated from the source on
    every run): get_shortest_path hands its force_bipartite flag to get_distances' force_bipartite
    parameter, leaves transpose unbound, and passes the matrix and the three source arguments through;
    get_distances hands force_bipartite to get_adjacency and sets no directedness flag. *)
Theorem shortest_path_routing :
  sp_fb_to_force = true /\ sp_fb_to_transpose = false /\ sp_transpose_bound = false /\
  sp_input_matrix_ok = true /\ sp_source_ok = true /\ sp_source_row_ok = true /\ sp_source_col_ok = true /\
  dist_fb_to_force = true /\ dist_no_directed_flags = true /\
  (forall fb sq ad sy, adj_decision fb sq ad sy = fb || negb sq || (negb ad && negb sy)).
Proof.
  repeat split; try reflexivity.
  intros [] [] [] []; reflexivity.
Qed.
Print Assumptions shortest_path_routing.

(** Non-vacuity: the hypotheses are met by a concrete graph and the model computes on it. *)
Example c10_nonvacuous :
  let g := [[1]; [2]; []] in
  wf_graph g /\ bfs g [true; false; false] = Some [0; 1; 2]%Z /\
  get_dag g [0; 1; 2]%Z = [[1]; [2]; []].
Proof.
  split; [|split; reflexivity].
  intros u v H. destruct u as [|[|[|u]]]; simpl in H; try (destruct H as [H|H]; [subst; simpl; lia | contradiction]);
  try contradiction. destruct u; contradiction.
Qed.

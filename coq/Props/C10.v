(** C10 — Hop distances, shortest-path DAGs and search orders are exact.
    This file contains only statements closed by [exact], their assumptions, and non-vacuity examples. *)
From SKN Require Import Base.Util Model.Bfs Proofs.BfsProofs Gen.Routing.
From Coq Require Import Permutation Sorted.

(** The coded BFS loop never runs out of fuel and computes exactly the minimum number of hops
    from the nearest source; -1 exactly for the nodes no walk from a source reaches. *)
Theorem get_distances_exact (g : graph) (src : list bool) :
  length src = length g ->
  exists dist, bfs g src = Some dist /\ length dist = length g /\
    forall v, v < length g ->
      (forall k, nthz dist v = Z.of_nat k <-> hop g src v k) /\
      (nthz dist v = (-1)%Z <-> forall k, ~ reachk g src k v).
Proof. exact (bfs_exact g src). Qed.
Print Assumptions get_distances_exact.

(** get_dag keeps exactly the edges from a lower to a strictly higher non-negative order,
    for every integer order vector (ties and negatives included). *)
Theorem get_dag_exact (g : graph) (order : list Z) (i j : nat) :
  wf_graph g -> length order = length g -> i < length g ->
  (In j (row (get_dag g order) i) <->
   In j (row g i) /\ (0 <= nthz order i)%Z /\ (nthz order i < nthz order j)%Z).
Proof. exact (BfsProofs.get_dag_exact g order i j). Qed.
Print Assumptions get_dag_exact.

(** get_shortest_path keeps exactly the edges (i,j) with dist j = dist i + 1 from a reachable i. *)
Theorem shortest_path_exact (g : graph) (src : list bool) (dist : list Z) (i j : nat) :
  wf_graph g -> length src = length g -> bfs g src = Some dist -> i < length g ->
  (In j (row (get_dag g dist) i) <->
   In j (row g i) /\ (0 <= nthz dist i)%Z /\ nthz dist j = (nthz dist i + 1)%Z).
Proof. exact (shortest_path_edges g src dist i j). Qed.
Print Assumptions shortest_path_exact.

(** breadth_first_search: for any argsort answer (a permutation sorting the distances) the output
    lists exactly the reachable nodes, without repetition, in non-decreasing distance. *)
Theorem bfs_order_exact (dist : list Z) (argsort : list nat) :
  Permutation argsort (seq 0 (length dist)) ->
  Sorted Z.le (map (nthz dist) argsort) ->
  (forall v, v < length dist -> (-1 <= nthz dist v)%Z) ->
  let out := bfs_order dist argsort in
  NoDup out /\
  (forall v, In v out <-> v < length dist /\ (0 <= nthz dist v)%Z) /\
  Sorted Z.le (map (nthz dist) out).
Proof. exact (BfsProofs.bfs_order_exact dist argsort). Qed.
Print Assumptions bfs_order_exact.

(** Obligation over the generated call-site binding (Gen/Routing.v, regenerated from the source on
    every run): get_shortest_path hands its force_bipartite flag to get_distances' force_bipartite
    parameter, leaves transpose unbound, and passes the matrix and the three source arguments through;
    get_distances hands force_bipartite to get_adjacency and sets no directedness flag. *)
Theorem shortest_path_routing :
  sp_fb_to_force = true /\ sp_fb_to_transpose = false /\ sp_transpose_bound = false /\
  sp_input_matrix_ok = true /\ sp_source_ok = true /\ sp_source_row_ok = true /\ sp_source_col_ok = true /\
  dist_fb_to_force = true /\ dist_no_directed_flags = true /\
  (forall fb sq ad sy, adj_decision fb sq ad sy = fb || negb sq || (negb ad && negb sy)).
Proof.
  repeat split; try reflexivity.
  intros [] [] [] []; reflexivity.
Qed.
Print Assumptions shortest_path_routing.

(** Non-vacuity: the hypotheses are met by a concrete graph and the model computes on it. *)
Example c10_nonvacuous :
  let g := [[1]; [2]; []] in
  wf_graph g /\ bfs g [true; false; false] = Some [0; 1; 2]%Z /\
  get_dag g [0; 1; 2]%Z = [[1]; [2]; []].
Proof.
  split; [|split; reflexivity].
  intros u v H. destruct u as [|[|[|u]]]; simpl in H; try (destruct H as [H|H]; [subst; simpl; lia | contradiction]);
  try contradiction. destruct u; contradiction.
Qed.

(** * The front end of get_distances / get_shortest_path (Proofs/BfsFrontProofs.v)

    Vocabulary (definitions in Proofs/BfsFrontProofs.v, all executable):
    - [wf_pmat m]: every stored column index of m is < p_ncol m;
    - [gd_matrix m0 tr]   = transpose m0 if tr, else m0;
    - [gd_bipartite m source_row source_col fb] = (fb, or true when source_row / source_col is given)
                            || not (p_nrow m = p_ncol m)            (see [bipartite_decision]);
    - [gd_graph m bip]    = block_undirected m if bip, else p_rows m;
    - [gd_nodes m bip source source_row source_col] = the source NODES of the graph:
        not bipartite: source;   bipartite: (source or else source_row) ++ map (n_row + _) source_col;
    - [mask_of n nodes]   = indicator vector of nodes, length n;
    - [gd_value_error bip s sr sc] = (bip = false /\ s = None) \/ (bip = true /\ s <> None /\ sr <> None)
                            \/ (bip = true /\ s = None /\ sr = None /\ sc = None);
    - [gd_index_error G nodes] = exists v, In v nodes /\ length G <= v. *)
From SKN Require Import Proofs.BfsFrontProofs.
Set Warnings "-notation-overridden".

(** [sparse.csr_matrix(input_matrix.T)]: shapes swap, entry (j,i) iff entry (i,j). *)
Theorem transpose_spec (m : pmat) :
  wf_pmat m ->
  p_nrow (transpose m) = p_ncol m /\ p_ncol (transpose m) = p_nrow m /\
  wf_pmat (transpose m) /\
  (forall i j, In i (row (p_rows (transpose m)) j) <->
               i < p_nrow m /\ j < p_ncol m /\ In j (row (p_rows m) i)) /\
  (forall i j, In i (row (p_rows (transpose m)) j) <-> In j (row (p_rows m) i)).
Proof. exact (BfsFrontProofs.transpose_spec m). Qed.
Print Assumptions transpose_spec.

(** [bipartite2undirected]: n_row + n_col nodes; row i -- column node n_row + j, both directions,
    and nothing else. *)
Theorem block_undirected_spec (m : pmat) :
  wf_pmat m ->
  length (block_undirected m) = p_nrow m + p_ncol m /\
  wf_graph (block_undirected m) /\
  forall u v,
    In v (row (block_undirected m) u) <->
    (exists j, u < p_nrow m /\ v = p_nrow m + j /\ In j (row (p_rows m) u)) \/
    (exists j, u = p_nrow m + j /\ v < p_nrow m /\ In j (row (p_rows m) v)).
Proof. exact (BfsFrontProofs.block_undirected_spec m). Qed.
Print Assumptions block_undirected_spec.

(** [mask[offset + idx] = 1]: succeeds iff every index is in range, then sets exactly those
    entries; the only possible error is IndexError, raised iff some index is out of range. *)
Theorem set_mask_spec (n off : nat) (idx : list nat) (mask : list bool) :
  (forall mask', set_mask n off idx mask = Ok mask' <->
     (forall i, In i idx -> off + i < n) /\
     length mask' = n /\
     forall v, (nthb mask' v = true <->
                v < n /\ (nthb mask v = true \/ exists i, In i idx /\ v = off + i))) /\
  (set_mask n off idx mask = Err IndexError <-> exists i, In i idx /\ n <= off + i) /\
  (forall e, set_mask n off idx mask = Err e -> e = IndexError).
Proof. exact (BfsFrontProofs.set_mask_spec n off idx mask). Qed.
Print Assumptions set_mask_spec.

(** The bipartite decision, in words. *)
Theorem bipartite_decision (m : pmat) (source_row source_col : option (list nat)) (fb : bool) :
  gd_bipartite m source_row source_col fb = true <->
  fb = true \/ source_row <> None \/ source_col <> None \/ p_nrow m <> p_ncol m.
Proof. exact (gd_bipartite_iff m source_row source_col fb). Qed.
Print Assumptions bipartite_decision.

(** get_distances, whole function: whenever the call returns [Ok (d, c)] (for ANY pattern matrix,
    any combination of source / source_row / source_col, transpose and force_bipartite), the
    concatenated result is exactly the hop-distance vector, in the graph [G] selected by the flags,
    from the source nodes selected by the arguments; the split is (n_row, n_col) in the bipartite
    case and there is no second component otherwise. *)
Theorem get_distances_full_exact (m0 : pmat) (source source_row source_col : option (list nat))
        (transpose_flag force_bipartite : bool) (d : list Z) (c : option (list Z)) :
  get_distances m0 source source_row source_col transpose_flag force_bipartite = Ok (d, c) ->
  let m := gd_matrix m0 transpose_flag in
  let bip := gd_bipartite m source_row source_col force_bipartite in
  let G := gd_graph m bip in
  let nodes := gd_nodes m bip source source_row source_col in
  let src := mask_of (length G) nodes in
  let dist := d ++ olist c in
  ~ gd_value_error bip source source_row source_col /\
  (forall v, In v nodes -> v < length G) /\
  (forall v, nthb src v = true <-> In v nodes) /\
  (if bip
   then length G = p_nrow m + p_ncol m /\ length d = p_nrow m /\
        exists c', c = Some c' /\ length c' = p_ncol m
   else length G = p_nrow m /\ p_nrow m = p_ncol m /\ c = None) /\
  bfs G src = Some dist /\
  length dist = length G /\
  forall v, v < length G ->
    (forall k, nthz dist v = Z.of_nat k <-> hop G src v k) /\
    (nthz dist v = (-1)%Z <-> forall k, ~ reachk G src k v).
Proof.
  exact (BfsFrontProofs.get_distances_full_exact m0 source source_row source_col
           transpose_flag force_bipartite d c).
Qed.
Print Assumptions get_distances_full_exact.

(** The error branches, exactly; the loop never runs out of fuel; the call succeeds iff neither
    error condition holds. *)
Theorem get_distances_errors (m0 : pmat) (source source_row source_col : option (list nat))
        (transpose_flag force_bipartite : bool) :
  let m := gd_matrix m0 transpose_flag in
  let bip := gd_bipartite m source_row source_col force_bipartite in
  let G := gd_graph m bip in
  let nodes := gd_nodes m bip source source_row source_col in
  let call := get_distances m0 source source_row source_col transpose_flag force_bipartite in
  (call = Err ValueError <-> gd_value_error bip source source_row source_col) /\
  (call = Err IndexError <->
     ~ gd_value_error bip source source_row source_col /\ gd_index_error G nodes) /\
  call <> Err OutOfFuel /\
  ((exists d c, call = Ok (d, c)) <->
     ~ gd_value_error bip source source_row source_col /\ forall v, In v nodes -> v < length G).
Proof.
  exact (BfsFrontProofs.get_distances_errors m0 source source_row source_col
           transpose_flag force_bipartite).
Qed.
Print Assumptions get_distances_errors.

(** get_shortest_path, whole function, with the call-site routing regenerated from the source
    (Gen/Routing.v): for the same graph [G] and source nodes as get_distances (no transposition),
    the result keeps exactly the edges (i,j) of G with i reachable and dist j = dist i + 1. *)
Theorem get_shortest_path_full_exact (m : pmat) (source source_row source_col : option (list nat))
        (force_bipartite : bool) (gr : graph) :
  wf_pmat m ->
  get_shortest_path sp_fb_to_transpose sp_fb_to_force m source source_row source_col force_bipartite
    = Ok gr ->
  let bip := gd_bipartite m source_row source_col force_bipartite in
  let G := gd_graph m bip in
  let nodes := gd_nodes m bip source source_row source_col in
  let src := mask_of (length G) nodes in
  exists dist,
    bfs G src = Some dist /\
    length dist = length G /\
    (forall v, v < length G ->
       (forall k, nthz dist v = Z.of_nat k <-> hop G src v k) /\
       (nthz dist v = (-1)%Z <-> forall k, ~ reachk G src k v)) /\
    length gr = length G /\
    forall i j, i < length G ->
      (In j (row gr i) <->
       In j (row G i) /\ (0 <= nthz dist i)%Z /\ nthz dist j = (nthz dist i + 1)%Z) /\
      (In j (row gr i) <->
       In j (row G i) /\ exists k, hop G src i k /\ hop G src j (S k)).
Proof.
  exact (BfsFrontProofs.get_shortest_path_full_exact m source source_row source_col force_bipartite gr).
Qed.
Print Assumptions get_shortest_path_full_exact.

(** get_shortest_path fails exactly when its get_distances call fails, with the same error. *)
Theorem get_shortest_path_errors (m : pmat) (source source_row source_col : option (list nat))
        (force_bipartite : bool) (e : err) :
  get_shortest_path sp_fb_to_transpose sp_fb_to_force m source source_row source_col force_bipartite
    = Err e <->
  get_distances m source source_row source_col false force_bipartite = Err e.
Proof.
  exact (BfsFrontProofs.get_shortest_path_errors sp_fb_to_transpose sp_fb_to_force
           m source source_row source_col force_bipartite e).
Qed.
Print Assumptions get_shortest_path_errors.

(** The brute-force validator used as property oracle by the harness decides hop distances:
    it accepts a vector iff it is the BFS result (hence iff it meets the specification). *)
Theorem dist_ok_decides (g : graph) (src : list bool) (dist : list Z) :
  length src = length g ->
  (dist_ok g src dist = true <-> bfs g src = Some dist).
Proof. exact (dist_ok_iff g src dist). Qed.
Print Assumptions dist_ok_decides.

Theorem dist_ok_spec (g : graph) (src : list bool) (dist : list Z) :
  dist_ok g src dist = true <->
  length dist = length g /\
  forall v, v < length g ->
    (forall k, nthz dist v = Z.of_nat k <-> hop g src v k) /\
    (nthz dist v = (-1)%Z <-> forall k, ~ reachk g src k v).
Proof. exact (dist_ok_final g src dist). Qed.
Print Assumptions dist_ok_spec.

(** Every distance returned by the loop is -1 or below the number of nodes. *)
Theorem bfs_dist_bound (g : graph) (src : list bool) (dist : list Z) (v : nat) :
  length src = length g -> bfs g src = Some dist -> v < length g ->
  (-1 <= nthz dist v < Z.of_nat (length g))%Z.
Proof. exact (BfsFrontProofs.bfs_dist_bound g src dist v). Qed.
Print Assumptions bfs_dist_bound.

(** Non-vacuity of the front-end theorems: a rectangular 2 x 3 biadjacency matrix, transpose = true
    (so 3 row nodes 0..2 and 2 column nodes 3..4), one row source and one column source; the error
    branches; get_shortest_path on the untransposed matrix. *)
Example c10_front_nonvacuous :
  let m0 := {| p_ncol := 3; p_rows := [[0; 1]; [1]] |} in
  let m := gd_matrix m0 true in
  wf_pmat m0 /\
  gd_bipartite m (Some [0]) (Some [1]) false = true /\
  gd_graph m true = [[3]; [3; 4]; []; [0; 1]; [1]] /\
  gd_nodes m true None (Some [0]) (Some [1]) = [0; 4] /\
  get_distances m0 None (Some [0]) (Some [1]) true false = Ok ([0; 1; -1]%Z, Some [1; 0]%Z) /\
  dist_ok (gd_graph m true) (mask_of 5 [0; 4]) [0; 1; -1; 1; 0]%Z = true /\
  get_distances m0 (Some [0]) (Some [0]) None true false = Err ValueError /\
  get_distances m0 None None None true false = Err ValueError /\
  get_distances m0 None None (Some [2]) true false = Err IndexError /\
  get_distances m0 None (Some [0]) (Some [2]) false false = Ok ([0; 2]%Z, Some [1; 1; 0]%Z) /\
  get_shortest_path sp_fb_to_transpose sp_fb_to_force m0 None (Some [0]) (Some [2]) false
    = Ok [[2; 3]; []; []; [1]; []].
Proof.
  cbv zeta. split; [apply wf_pmatb_sound; vm_compute; reflexivity|].
  repeat split; vm_compute; reflexivity.
Qed.

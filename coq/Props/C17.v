(** C17 — Every fit terminates and stays within its buffers (theorem side).
    This file contains only statements closed by [exact], their assumptions, and non-vacuity examples.

    Models: Model/Safety.v (flat arrays, every access checked: [OOB]; every while loop / recursion with
    explicit fuel: [OutOfFuel]), Model/Vote.v ([vote_update], out-of-bounds = [VOOB site]), Model/Bfs.v.
    [K_safe]: the model never returns OOB; [K_terminates]: it never returns OutOfFuel with the stated fuel.
    Input contract: [csr_pat_wf n indptr indices] / [csr_wf n indptr indices data] (what scipy guarantees
    for a canonical n x n CSR matrix) plus the per-kernel contracts written in each statement. *)
From SKN Require Import Base.Util Model.Bfs Model.Vote Model.Safety Proofs.SafetyProofs.

(** * 1. triangles.pyx *)

Theorem count_triangles_safe n indptr indices :
  csr_pat_wf n indptr indices -> count_triangles_flat indptr indices <> OOB.
Proof. exact (count_triangles_safe_ok n indptr indices). Qed.
Print Assumptions count_triangles_safe.

Theorem count_triangles_terminates n indptr indices :
  csr_pat_wf n indptr indices -> count_triangles_flat indptr indices <> OutOfFuel.
Proof. exact (count_triangles_terminates_ok n indptr indices). Qed.
Print Assumptions count_triangles_terminates.

(** count_local_triangles_from_dag for one node (the unit of work of the prange branch) *)
Theorem count_local_triangles_safe_terminates n indptr indices node :
  csr_pat_wf n indptr indices -> node < n ->
  count_local_triangles_flat node indptr indices <> OOB /\
  count_local_triangles_flat node indptr indices <> OutOfFuel.
Proof. exact (count_local_triangles_safe_ok n indptr indices node). Qed.
Print Assumptions count_local_triangles_safe_terminates.

(** the while loop ends within (row length of node + row length of neighbor) iterations *)
Theorem count_local_triangles_while_bound n indptr indices node neighbor acc :
  csr_pat_wf n indptr indices -> node < n -> neighbor < n ->
  exists r, tri_while (row_len indptr node + row_len indptr neighbor) indptr indices node neighbor
                      (ip indptr node) (ip indptr neighbor) acc = KOk r.
Proof. exact (tri_while_bound n indptr indices node neighbor acc). Qed.
Print Assumptions count_local_triangles_while_bound.

(** * 2. vote.pyx (current source: [repaired_kernel]) *)

(** Contract of the caller (Propagation.fit): labels has one entry per node, index_remain lists nodes.
    [labels >= -1] is not needed. The kernel has no while loop (the model needs no fuel): the call
    returns the new label vector. *)
Theorem vote_update_safe n indptr indices (data : list Q) labels index s :
  csr_wf n indptr indices data -> length labels = n -> (forall i, In i index -> i < n) ->
  vote_update repaired_kernel indptr indices data labels index <> VOOB s.
Proof. exact (vote_update_safe_all n indptr indices data labels index s). Qed.
Print Assumptions vote_update_safe.

Theorem vote_update_terminates n indptr indices (data : list Q) labels index :
  csr_wf n indptr indices data -> length labels = n -> (forall i, In i index -> i < n) ->
  exists labels', vote_update repaired_kernel indptr indices data labels index = VOk labels' /\
                  length labels' = n.
Proof. exact (vote_update_safe_ok n indptr indices data labels index). Qed.
Print Assumptions vote_update_terminates.

(** The kernel before the repair ([legacy_kernel]: weight read at data[neighbour node], votes sized n):
    a well-formed input with nnz < n reads [data] out of bounds, one with a seed label >= n reads
    [votes] out of bounds; the current kernel is fine on both. *)
Theorem vote_legacy_oob_refuted :
  (csr_wf 3 leg1_indptr leg1_indices leg1_data /\ length leg1_labels = 3 /\
   (forall i, In i leg1_index -> i < 3) /\ length leg1_indices < 3 /\
   vote_update legacy_kernel leg1_indptr leg1_indices leg1_data leg1_labels leg1_index = VOOB At_data /\
   exists l, vote_update repaired_kernel leg1_indptr leg1_indices leg1_data leg1_labels leg1_index = VOk l) /\
  (csr_wf 2 leg2_indptr leg2_indices leg2_data /\ length leg2_labels = 2 /\
   (forall i, In i leg2_index -> i < 2) /\ In 5%Z leg2_labels /\
   vote_update legacy_kernel leg2_indptr leg2_indices leg2_data leg2_labels leg2_index = VOOB At_votes /\
   exists l, vote_update repaired_kernel leg2_indptr leg2_indices leg2_data leg2_labels leg2_index = VOk l).
Proof. exact vote_legacy_oob_refuted_ok. Qed.
Print Assumptions vote_legacy_oob_refuted.

(** * 3. minheap.pyx / core.pyx

    [hinv n h]: both vectors have SIZE n (resize(n)), size <= n, every stored entry < n. It holds after
    __cinit__ and is preserved by every operation, none of which goes out of bounds. *)
Theorem minheap_init_inv n : hinv n (cheap_resize n).
Proof. exact (hinv_resize n). Qed.
Print Assumptions minheap_init_inv.

(** insert_key: fewer than n keys present, key < n (distinctness is not needed for memory safety) *)
Theorem minheap_insert_key_safe_terminates n h k scores :
  hinv n h -> length scores = n -> c_size h < n -> k < n ->
  exists h', cinsert_key h k scores = KOk h' /\ hinv n h' /\ c_size h' = S (c_size h).
Proof. exact (cinsert_key_ok n h k scores). Qed.
Print Assumptions minheap_insert_key_safe_terminates.

Theorem minheap_decrease_key_safe_terminates n h i scores :
  hinv n h -> length scores = n -> i < n ->
  exists h', cdecrease_key h i scores = KOk h' /\ hinv n h' /\ c_size h' = c_size h.
Proof. exact (cdecrease_key_ok n h i scores). Qed.
Print Assumptions minheap_decrease_key_safe_terminates.

(** min_heapify: [size - i] units of fuel (one per call) suffice — the recursion descends *)
Theorem minheap_min_heapify_safe_terminates n scores :
  length scores = n ->
  forall fuel h i, hinv n h -> i < c_size h -> c_size h - i <= fuel ->
    exists h', cmin_heapify fuel h i scores = KOk h' /\ hinv n h' /\ c_size h' = c_size h.
Proof. exact (cmin_heapify_ok n scores). Qed.
Print Assumptions minheap_min_heapify_safe_terminates.

(** pop_min on a non-empty heap (inner min_heapify fuel: the new heap size) *)
Theorem minheap_pop_min_safe_terminates n h scores :
  hinv n h -> length scores = n -> 1 <= c_size h ->
  exists r h', cpop_min h scores = KOk (r, h') /\ hinv n h' /\ c_size h' = c_size h - 1 /\ r < n.
Proof. exact (cpop_min_ok n h scores). Qed.
Print Assumptions minheap_pop_min_safe_terminates.

Theorem compute_core_safe n indptr indices :
  csr_pat_wf n indptr indices -> ccompute_core cheap_resize indptr indices <> OOB.
Proof. exact (compute_core_safe_ok n indptr indices). Qed.
Print Assumptions compute_core_safe.

Theorem compute_core_terminates n indptr indices :
  csr_pat_wf n indptr indices -> ccompute_core cheap_resize indptr indices <> OutOfFuel.
Proof. exact (compute_core_terminates_ok n indptr indices). Qed.
Print Assumptions compute_core_terminates.

(** compute_core performs exactly n pops and fills a label vector of length n *)
Theorem compute_core_n_pops n indptr indices :
  csr_pat_wf n indptr indices ->
  exists labels, ccompute_core cheap_resize indptr indices = KOk (labels, n) /\ length labels = n.
Proof. exact (ccompute_core_ok n indptr indices). Qed.
Print Assumptions compute_core_n_pops.

(** Legacy __cinit__ ([reserve(n)]: SIZE 0, capacity n): the first insert_key writes val[0] with size 0;
    compute_core goes out of bounds on every well-formed graph with at least one node. *)
Theorem minheap_reserve_legacy_refuted n k scores : cinsert_key (cheap_reserve n) k scores = OOB.
Proof. exact (cinsert_key_reserve_oob n k scores). Qed.
Print Assumptions minheap_reserve_legacy_refuted.

Theorem compute_core_reserve_legacy_refuted n indptr indices :
  csr_pat_wf n indptr indices -> 1 <= n -> ccompute_core cheap_reserve indptr indices = OOB.
Proof. exact (ccompute_core_reserve_oob n indptr indices). Qed.
Print Assumptions compute_core_reserve_legacy_refuted.

(** * 4. get_distances (Model/Bfs.v): the [while 1] loop ends within n + 1 rounds *)
Theorem get_distances_terminates (g : graph) (src : list bool) :
  length src = length g -> bfs g src <> None.
Proof. exact (bfs_never_out_of_fuel g src). Qed.
Print Assumptions get_distances_terminates.

Theorem get_distances_never_out_of_fuel m0 source source_row source_col tf fb :
  get_distances m0 source source_row source_col tf fb <> Err Bfs.OutOfFuel.
Proof. exact (SafetyProofs.get_distances_never_out_of_fuel m0 source source_row source_col tf fb). Qed.
Print Assumptions get_distances_never_out_of_fuel.

(** * 5. diteration.pyx / push.pyx *)

Theorem diteration_safe n indptr indices (data scores fluid : list Q) damping n_iter tol :
  csr_wf n indptr indices data -> length scores = n -> length fluid = n ->
  diteration indptr indices data scores fluid damping n_iter tol <> OOB.
Proof. exact (diteration_safe_ok n indptr indices data scores fluid damping n_iter tol). Qed.
Print Assumptions diteration_safe.

(** the outer loop is a [for] over range(n_iter): the call returns after at most n_iter sweeps *)
Theorem diteration_terminates n indptr indices (data scores fluid : list Q) damping n_iter tol :
  csr_wf n indptr indices data -> length scores = n -> length fluid = n ->
  exists st s, diteration indptr indices data scores fluid damping n_iter tol = KOk (st, s) /\
               s <= n_iter.
Proof. exact (diteration_ok n indptr indices data scores fluid damping n_iter tol). Qed.
Print Assumptions diteration_terminates.

(** push_pagerank: in bounds for EVERY fuel. Contract: both CSR patterns well-formed, degrees and seeds
    of length n, the argsort answer lists node indices. (Termination of the work-list loop within 2n pops is proved in section 9.4: push_terminates.) *)
Theorem push_pagerank_safe fuel n degrees indptr indices rev_indptr rev_indices (seeds : list Q)
        damping tol argsort :
  csr_pat_wf n indptr indices -> csr_pat_wf n rev_indptr rev_indices ->
  length degrees = n -> length seeds = n ->
  (forall r, Forall (fun v => v < n) (argsort r)) ->
  push_pagerank fuel n degrees indptr indices rev_indptr rev_indices seeds damping tol argsort <> OOB.
Proof.
  exact (push_pagerank_safe_ok fuel n degrees indptr indices rev_indptr rev_indices seeds damping tol argsort).
Qed.
Print Assumptions push_pagerank_safe.

(** * 6. Propagation.fit *)

(** finite n_iter = m: at most m sweeps (fuel m), no out-of-bounds access *)
Theorem propagation_fit_finite_safe_terminates n indptr indices (data : list Q) index labels0 m :
  csr_wf n indptr indices data -> length labels0 = n -> (forall i, In i index -> i < n) ->
  exists labels t, propagation_fit m (Some m) indptr indices data index labels0 = KOk (labels, t) /\
                   t <= m.
Proof. exact (propagation_fit_finite_ok n indptr indices data index labels0 m). Qed.
Print Assumptions propagation_fit_finite_safe_terminates.

(** default n_iter (= inf): a valid weighted directed graph with two seeds on which the sweep of the
    CURRENT kernel alternates between two labellings, so that the loop exhausts every fuel. *)
Theorem propagation_oscillation_refuted :
  csr_wf 5 osc_indptr osc_indices osc_data /\ length osc_labels0 = 5 /\
  (forall i, In i osc_index -> i < 5) /\
  osc_S osc_labels0 = VOk osc_l1 /\
  osc_S osc_l1 = VOk osc_l2 /\ osc_S osc_l2 = VOk osc_l1 /\ osc_l2 <> osc_l1 /\
  forall fuel, propagation_fit fuel None osc_indptr osc_indices osc_data osc_index osc_labels0 = OutOfFuel.
Proof. exact propagation_oscillation_refuted_ok. Qed.
Print Assumptions propagation_oscillation_refuted.

(** * 7. louvain_core.pyx: optimize_core — accesses in range for EVERY fuel.
    Contract of the caller (Louvain._optimize): labels are node indices, all per-node / per-cluster arrays
    have n entries. (Termination of [while not stop] for tol > 0 is proved in section 8: optimize_core_flat_terminates.) *)
Theorem optimize_core_safe fuel n labels indices indptr
        (data out_weights in_weights out_cluster_weights in_cluster_weights cluster_weights self_loops : list Q)
        res tol :
  csr_wf n indptr indices data -> length labels = n -> Forall (fun l => l < n) labels ->
  length out_weights = n -> length in_weights = n -> length out_cluster_weights = n ->
  length in_cluster_weights = n -> length cluster_weights = n -> length self_loops = n ->
  optimize_core fuel labels indices indptr data out_weights in_weights out_cluster_weights
                in_cluster_weights cluster_weights self_loops res tol <> OOB.
Proof.
  exact (optimize_core_safe_ok fuel n labels indices indptr data out_weights in_weights
           out_cluster_weights in_cluster_weights cluster_weights self_loops res tol).
Qed.
Print Assumptions optimize_core_safe.

(** * Non-vacuity *)

(** DAG of the triangle {0,1,2} with a pendant edge 2 -> 3: well-formed, one triangle *)
Example tri_example :
  csr_pat_wf 4 [0; 2; 3; 4; 4] [1; 2; 2; 3] /\
  count_triangles_flat [0; 2; 3; 4; 4] [1; 2; 2; 3] = KOk 1.
Proof. split; [apply csr_pat_wf_b_sound; reflexivity | vm_compute; reflexivity]. Qed.

(** undirected triangle {0,1,2} plus the edge 2 - 3: core numbers 2,2,2,1 after 4 pops;
    the legacy heap goes out of bounds on the same input *)
Example core_example :
  csr_pat_wf 4 [0; 2; 4; 7; 8] [1; 2; 0; 2; 0; 1; 3; 2] /\
  ccompute_core cheap_resize [0; 2; 4; 7; 8] [1; 2; 0; 2; 0; 1; 3; 2] = KOk ([2; 2; 2; 1]%Z, 4) /\
  ccompute_core cheap_reserve [0; 2; 4; 7; 8] [1; 2; 0; 2; 0; 1; 3; 2] = OOB.
Proof.
  split; [apply csr_pat_wf_b_sound; reflexivity|]. split; vm_compute; reflexivity.
Qed.

(** a too small fuel is reported as OutOfFuel, not as a result: the distinction is not vacuous *)
Example fuel_example :
  ccore_loop 1 [0; 1; 2] [1; 0] [1; 1]%Z
             {| c_val := [0; 1]; c_pos := [0; 1]; c_size := 2; c_cap := 2 |} 0%Z [0; 0]%Z 0 = OutOfFuel /\
  rd [1; 2; 3] 3 = @OOB nat.
Proof. split; vm_compute; reflexivity. Qed.

(** the oscillating input with n_iter = 7 returns after exactly 7 sweeps *)
Example propagation_example :
  propagation_fit 7 (Some 7) osc_indptr osc_indices osc_data osc_index osc_labels0
  = KOk ([0; 1; 0; 1; 0]%Z, 7).
Proof. vm_compute. reflexivity. Qed.

Example diteration_example :
  csr_wf 4 [0; 2; 4; 7; 8] [1; 2; 0; 2; 0; 1; 3; 2] [1; 1; 1; 1; 1; 1; 1; 1]%Q /\
  exists st, diteration [0; 2; 4; 7; 8] [1; 2; 0; 2; 0; 1; 3; 2] [1; 1; 1; 1; 1; 1; 1; 1]%Q
                        [0; 0; 0; 0]%Q [1; 0; 0; 0]%Q (1 # 2)%Q 3 0%Q = KOk (st, 1).
Proof. split; [apply csr_wf_b_sound; reflexivity | eexists; vm_compute; reflexivity]. Qed.

(** optimize_core on the triangle {0,1,2} plus the edge 2 - 3 (weights normalised to total 1):
    two passes, labels [1,1,3,3], increase 9/32 = 0.28125 — the value the compiled kernel returns *)
Example optimize_core_example :
  match optimize_core 5 [0; 1; 2; 3] [1; 2; 0; 2; 0; 1; 3; 2] [0; 2; 4; 7; 8]
              [1 # 8; 1 # 8; 1 # 8; 1 # 8; 1 # 8; 1 # 8; 1 # 8; 1 # 8]%Q
              [2 # 8; 2 # 8; 3 # 8; 1 # 8]%Q [2 # 8; 2 # 8; 3 # 8; 1 # 8]%Q
              [2 # 8; 2 # 8; 3 # 8; 1 # 8]%Q [2 # 8; 2 # 8; 3 # 8; 1 # 8]%Q
              [0; 0; 0; 0]%Q [0; 0; 0; 0]%Q 1%Q (1 # 1000)%Q with
  | KOk (labels, increase, passes) =>
      labels = [1; 1; 3; 3] /\ Qeq_bool increase (9 # 32)%Q = true /\ passes = 2
  | _ => False
  end.
Proof. vm_compute. auto. Qed.

(** * 8. louvain_core.pyx: optimize_core terminates for tol > 0 (Proofs/LouvainFlatTermination.v)

    The flat model SIMULATES the exact-rational model of Model/Louvain.v (the one Props/C06.v is about):
    same labels, same decisions, arrays equal as rationals. [csr_graph n indptr indices data] is the
    weighted graph denoted by the CSR arrays; [objective] is the quantity the kernel optimises,
    sum_ij (A_ij - res * out_i * in_j) delta(l_i, l_j); [csum g labels w c] = sum of w over the nodes labelled c.
    Contract of the caller (Louvain._optimize / Leiden._optimize): the adjacency is symmetric (A + A^T),
    self_loops is its diagonal, labels < n, out/in_cluster_weights are the per-label sums of the node
    weights, cluster_weights is zero. *)
From SKN Require Import Model.Modularity Model.Louvain Proofs.ModularityProofs Proofs.LouvainProofs Proofs.LouvainTermination Proofs.LouvainFlatTermination.

(** Whenever the pass loop of Model/Louvain.v returns within [fuel] passes, so does the flat kernel, with
    the same labels and the same total increase. *)
Theorem optimize_core_flat_refines fuel n labels indices indptr
        (data out_weights in_weights out_cluster_weights in_cluster_weights cluster_weights self_loops : list Q)
        res tol st' inc' :
  csr_wf n indptr indices data ->
  length labels = n -> Forall (fun l => l < n) labels ->
  length out_weights = n -> length in_weights = n -> length out_cluster_weights = n ->
  length in_cluster_weights = n -> length cluster_weights = n -> length self_loops = n ->
  opt_loop fuel (csr_graph n indptr indices data) out_weights in_weights self_loops res tol
           {| k_labels := labels; k_out_cw := out_cluster_weights; k_in_cw := in_cluster_weights;
              k_cw := cluster_weights; k_inc_pass := 0%Q; k_margin := marg0 |} 0%Q = Some (st', inc') ->
  exists increase passes,
    optimize_core fuel labels indices indptr data out_weights in_weights out_cluster_weights
                  in_cluster_weights cluster_weights self_loops res tol
    = KOk (k_labels st', increase, passes) /\ (increase == inc')%Q.
Proof.
  exact (LouvainFlatTermination.optimize_core_flat_refines fuel n labels indices indptr data out_weights
           in_weights out_cluster_weights in_cluster_weights cluster_weights self_loops res tol st' inc').
Qed.
Print Assumptions optimize_core_flat_refines.

(** tol > 0, B any upper bound of the objective (e.g. [objective_bound], or 1 after _pre_processing of a
    non-negative matrix with resolution >= 0, Props/C06.v): [pass_fuel B q0 tol] = ceil((B - q0) / tol) + 1
    passes suffice — the kernel returns (neither OutOfFuel nor OOB). *)
Theorem optimize_core_flat_terminates fuel n labels indices indptr
        (data out_weights in_weights out_cluster_weights in_cluster_weights cluster_weights self_loops : list Q)
        res tol B :
  csr_wf n indptr indices data ->
  let g := csr_graph n indptr indices data in
  wsymmetric g ->
  (forall i, i < n -> (nthq self_loops i == entry g i i)%Q) ->
  length labels = n -> Forall (fun l => l < n) labels ->
  length out_weights = n -> length in_weights = n -> length out_cluster_weights = n ->
  length in_cluster_weights = n -> length cluster_weights = n -> length self_loops = n ->
  (forall c, c < n -> (nthq out_cluster_weights c == csum g labels out_weights c)%Q) ->
  (forall c, c < n -> (nthq in_cluster_weights c == csum g labels in_weights c)%Q) ->
  (forall c, c < n -> (nthq cluster_weights c == 0)%Q) ->
  (0 < tol)%Q -> (forall l, (objective g out_weights in_weights res l <= B)%Q) ->
  pass_fuel B (objective g out_weights in_weights res labels) tol <= fuel ->
  exists labels' increase passes,
    optimize_core fuel labels indices indptr data out_weights in_weights out_cluster_weights
                  in_cluster_weights cluster_weights self_loops res tol
    = KOk (labels', increase, passes).
Proof.
  exact (optimize_core_flat_terminates_ok fuel n labels indices indptr data out_weights in_weights
           out_cluster_weights in_cluster_weights cluster_weights self_loops res tol B).
Qed.
Print Assumptions optimize_core_flat_terminates.

(** Louvain._optimize's call (labels = arange(n), cluster weights = copies of the node weights,
    cluster_weights = zeros(n)) with the fuel computed from the inputs. *)
Theorem optimize_core_flat_louvain_terminates fuel n indices indptr
        (data out_weights in_weights self_loops : list Q) res tol :
  csr_wf n indptr indices data ->
  let g := csr_graph n indptr indices data in
  wsymmetric g ->
  (forall i, i < n -> (nthq self_loops i == entry g i i)%Q) ->
  length out_weights = n -> length in_weights = n -> length self_loops = n ->
  (0 < tol)%Q ->
  pass_fuel (objective_bound g out_weights in_weights res)
            (objective g out_weights in_weights res (seq 0 n)) tol <= fuel ->
  optimize_core fuel (seq 0 n) indices indptr data out_weights in_weights out_weights in_weights
                (repeat 0%Q n) self_loops res tol <> OutOfFuel.
Proof.
  exact (optimize_core_flat_louvain_terminates_ok fuel n indices indptr data out_weights in_weights
           self_loops res tol).
Qed.
Print Assumptions optimize_core_flat_louvain_terminates.

(** Non-vacuity: the input of [optimize_core_example] meets the contract; with tol = 1/100 the computed
    fuel is 111 passes (130 with the bound B = 1). *)
Example optimize_core_terminates_example :
  let indptr := [0; 2; 4; 7; 8] in
  let indices := [1; 2; 0; 2; 0; 1; 3; 2] in
  let data := [1 # 8; 1 # 8; 1 # 8; 1 # 8; 1 # 8; 1 # 8; 1 # 8; 1 # 8]%Q in
  let w := [2 # 8; 2 # 8; 3 # 8; 1 # 8]%Q in
  let g := csr_graph 4 indptr indices data in
  csr_wf 4 indptr indices data /\ wsymmetric g /\
  (forall i, i < 4 -> (nthq (repeat 0%Q 4) i == entry g i i)%Q) /\
  pass_fuel (objective_bound g w w 1%Q) (objective g w w 1%Q (seq 0 4)) (1 # 100)%Q = 111 /\
  pass_fuel 1%Q (objective g w w 1%Q (seq 0 4)) (1 # 100)%Q = 130 /\
  exists increase, optimize_core 111 (seq 0 4) indices indptr data w w w w (repeat 0%Q 4) (repeat 0%Q 4)
                                 1%Q (1 # 100)%Q = KOk ([1; 1; 3; 3], increase, 2).
Proof.
  cbv zeta. split; [apply csr_wf_b_sound; reflexivity|].
  split; [apply wsymmetricb_ok; vm_compute; reflexivity|].
  split.
  - intros i Hi. do 4 (destruct i as [|i]; [vm_compute; reflexivity|]). lia.
  - split; [vm_compute; reflexivity|]. split; [vm_compute; reflexivity|].
    eexists. vm_compute. reflexivity.
Qed.

(** * 9. Kernels of the second batch (Model/Safety2.v, Proofs/Safety2Proofs.v): same conventions — every
    access through [rd] / [wr] ([OOB] outside the buffer), every [while] loop fuelled ([OutOfFuel]). *)
From SKN Require Import Model.Safety2 Proofs.Safety2Proofs.
Set Warnings "-notation-overridden". (* keep: a line with a parenthesis after the imports *)

(** ** 9.1 weisfeiler_lehman_core.pyx: weisfeiler_lehman_coloring

    [sort] stands for std::sort ([sort_contract]: same length, every element an element of the input — any
    permutation qualifies). Contract of the callers (color_weisfeiler_lehman, are_isomorphic): [labels] has
    n entries which index [powers] (zeros, or the output of a previous call), [powers] has >= n entries,
    and [max_iter <= n], so max_iter = 0 on a graph without nodes. In bounds for EVERY fuel. *)
Theorem wl_kernel_safe fuel sort n indptr indices labels (powers : list Q) max_iter :
  csr_pat_wf n indptr indices -> length labels = n -> n <= length powers ->
  Forall (fun l => l < length powers) labels -> sort_contract sort -> (max_iter = 0 \/ 1 <= n) ->
  wl_kernel fuel sort indptr indices labels powers max_iter <> OOB.
Proof. exact (wl_kernel_safe_ok fuel sort n indptr indices labels powers max_iter). Qed.
Print Assumptions wl_kernel_safe.

(** the [while iteration < max_iter and has_changed] loop runs at most max_iter rounds (fuel max_iter) and
    hands back n labels that still index [powers] (so the next call of are_isomorphic is in contract) *)
Theorem wl_kernel_terminates sort n indptr indices labels (powers : list Q) max_iter :
  csr_pat_wf n indptr indices -> length labels = n -> n <= length powers ->
  Forall (fun l => l < length powers) labels -> sort_contract sort -> (max_iter = 0 \/ 1 <= n) ->
  exists labels' changed rounds,
    wl_kernel max_iter sort indptr indices labels powers max_iter = KOk (labels', changed, rounds) /\
    rounds <= max_iter /\ length labels' = n /\ Forall (fun l => l < length powers) labels'.
Proof. exact (wl_kernel_terminates_ok sort n indptr indices labels powers max_iter). Qed.
Print Assumptions wl_kernel_terminates.

(** Outside that contract (not reachable through the public functions, which clamp max_iter to n): the
    kernel called on a graph without nodes with max_iter >= 1 reads [new_labels[0]] of an empty vector. *)
Theorem wl_kernel_no_node_direct_call_refuted fuel sort max_iter :
  sort_contract sort -> wl_kernel (S fuel) sort [0] [] [] [] (S max_iter) = OOB.
Proof. exact (wl_kernel_no_node_oob fuel sort max_iter). Qed.
Print Assumptions wl_kernel_no_node_direct_call_refuted.

(** ** 9.2 betweenness.pyx: Betweenness.fit (Brandes)

    [br_sources f (seq 0 n) n indptr indices scores []] is the loop over all sources with BFS fuel f per
    source. For EVERY f no access to indptr / indices / dists / sigma / preds / delta / scores is out of
    range, the queue is read only when non-empty and the stack popped only when non-empty. *)
Theorem brandes_safe bfs_fuel n indptr indices scores :
  csr_pat_wf n indptr indices -> length scores = n ->
  br_sources bfs_fuel (seq 0 n) n indptr indices scores [] <> OOB.
Proof. exact (brandes_safe_ok bfs_fuel n indptr indices scores). Qed.
Print Assumptions brandes_safe.

(** [brandes_flat] gives every BFS n units of fuel. It returns; the log holds one pair per source:
    (pops of the BFS queue, pops of the [seen] stack): at most n (each node is enqueued at most once), and
    the back-propagation pops every seen node exactly once. *)
Theorem brandes_terminates n indptr indices :
  csr_pat_wf n indptr indices ->
  exists scores log, brandes_flat indptr indices = KOk (scores, log) /\ length scores = n /\
                     length log = n /\ Forall (fun pq => fst pq <= n /\ snd pq = fst pq) log.
Proof. exact (brandes_terminates_ok n indptr indices). Qed.
Print Assumptions brandes_terminates.

(** ** 9.3 leiden_core.pyx: optimize_refine_core — in bounds for EVERY fuel and EVERY stream [rnd] of
    rand() values. Contract of Leiden._optimize_refine: labels, labels_refined and the per-node arrays have
    n entries, the three cluster arrays m entries, refined labels < m (there m = n). *)
Theorem leiden_refine_safe fuel rnd n m labels labels_refined indices indptr
        (data out_weights in_weights out_cluster_weights in_cluster_weights cluster_weights self_loops : list Q)
        res :
  csr_wf n indptr indices data -> length labels = n -> length labels_refined = n ->
  Forall (fun l => l < m) labels_refined ->
  length out_weights = n -> length in_weights = n -> length out_cluster_weights = m ->
  length in_cluster_weights = m -> length cluster_weights = m -> length self_loops = n ->
  optimize_refine_core fuel rnd labels labels_refined indices indptr data out_weights in_weights
                       out_cluster_weights in_cluster_weights cluster_weights self_loops res <> OOB.
Proof.
  exact (leiden_refine_safe_ok fuel rnd n m labels labels_refined indices indptr data out_weights in_weights
           out_cluster_weights in_cluster_weights cluster_weights self_loops res).
Qed.
Print Assumptions leiden_refine_safe.

(** ** 9.4 push.pyx: the work-list loop of push_pagerank terminates (supersedes the remark of section 5)

    [residuals] is never reset and every increment is >= 0, so residuals only grow; a node is pushed only
    when its residual crosses tol upwards ([residuals[neighbor] > tol > tmp]) and it stays above afterwards:
    after the n entries of the argsort answer every node enters the queue at most once. [push_fuel n = 2 n]
    pops suffice. Contract: 0 <= damping <= 1, seeds >= -1 (the caller passes a probability vector), the
    argsort answer lists at most n node indices. *)
Theorem push_terminates fuel n degrees indptr indices rev_indptr rev_indices (seeds : list Q)
        damping tol argsort :
  csr_pat_wf n indptr indices -> csr_pat_wf n rev_indptr rev_indices ->
  length degrees = n -> length seeds = n ->
  (0 <= damping)%Q -> (damping <= 1)%Q -> Forall (fun s => (- (1) <= s)%Q) seeds ->
  (forall r, Forall (fun v => v < n) (argsort r)) -> (forall r, length (argsort r) <= length r) ->
  push_fuel n <= fuel ->
  exists scores,
    push_pagerank fuel n degrees indptr indices rev_indptr rev_indices seeds damping tol argsort = KOk scores /\
    length scores = n.
Proof.
  exact (push_terminates_ok fuel n degrees indptr indices rev_indptr rev_indices seeds damping tol argsort).
Qed.
Print Assumptions push_terminates.

(** ** 9.5 leiden_core.pyx: the [while increase] loop of optimize_refine_core terminates (exact arithmetic)

    [objective g out_weights in_weights res lr] = sum_ij (A_ij - res out_i in_j) delta(lr_i, lr_j), g the
    graph denoted by the CSR arrays. Contract of Leiden._optimize_refine: the adjacency is symmetric
    (A + A^T), self_loops its diagonal, the cluster arrays are the per-refined-label sums of the node
    weights, cluster_weights is zero, and no refined cluster straddles two clusters of [labels]
    (labels_refined = arange(n) there). Under that invariant — which every move preserves — every accepted
    move ([delta_local > 0]) strictly increases the objective, so a pass that sets [increase] does; the
    objective takes at most m^n values: m^n + 1 passes suffice for EVERY stream [rnd] of rand() values.
    Like [optimize_core] with tol = 0 this is about exact rationals (in float32 a gain can be rounding
    noise); the bound is only meant as a statement. *)
Theorem leiden_refine_terminates fuel rnd n m labels labels_refined indices indptr
        (data out_weights in_weights out_cluster_weights in_cluster_weights cluster_weights self_loops : list Q)
        res :
  csr_wf n indptr indices data ->
  let g := csr_graph n indptr indices data in
  wsymmetric g ->
  (forall i, i < n -> (nthq self_loops i == entry g i i)%Q) ->
  length labels = n -> length labels_refined = n -> Forall (fun l => l < m) labels_refined ->
  length out_weights = n -> length in_weights = n -> length out_cluster_weights = m ->
  length in_cluster_weights = m -> length cluster_weights = m -> length self_loops = n ->
  (forall c, c < m -> (nthq out_cluster_weights c == csum g labels_refined out_weights c)%Q) ->
  (forall c, c < m -> (nthq in_cluster_weights c == csum g labels_refined in_weights c)%Q) ->
  (forall c, c < m -> (nthq cluster_weights c == 0)%Q) ->
  (forall x y, x < n -> y < n -> lab labels_refined x = lab labels_refined y -> lab labels x = lab labels y) ->
  S (m ^ n) <= fuel ->
  exists lr' passes,
    optimize_refine_core fuel rnd labels labels_refined indices indptr data out_weights in_weights
                         out_cluster_weights in_cluster_weights cluster_weights self_loops res
    = KOk (lr', passes) /\
    passes <= S (m ^ n) /\ length lr' = n /\ Forall (fun l => l < m) lr' /\
    (forall x y, x < n -> y < n -> lab lr' x = lab lr' y -> lab labels x = lab labels y) /\
    (objective g out_weights in_weights res labels_refined <= objective g out_weights in_weights res lr')%Q.
Proof.
  exact (leiden_refine_terminates_ok fuel rnd n m labels labels_refined indices indptr data out_weights
           in_weights out_cluster_weights in_cluster_weights cluster_weights self_loops res).
Qed.
Print Assumptions leiden_refine_terminates.

(** The kernel AS CODED since fix 0f5490bf carries its own generator ([Safety2.leiden_draw]: state 1 on entry,
    draw*1103515245+12345 modulo 2^32, value draw >> 16): the instance of the theorem above for that stream - this is the
    term the correspondence run evaluates against the compiled kernel. *)
Theorem leiden_refine_terminates_coded_generator fuel n m labels labels_refined indices indptr
        (data out_weights in_weights out_cluster_weights in_cluster_weights cluster_weights self_loops : list Q)
        res :
  csr_wf n indptr indices data ->
  let g := csr_graph n indptr indices data in
  wsymmetric g ->
  (forall i, i < n -> (nthq self_loops i == entry g i i)%Q) ->
  length labels = n -> length labels_refined = n -> Forall (fun l => l < m) labels_refined ->
  length out_weights = n -> length in_weights = n -> length out_cluster_weights = m ->
  length in_cluster_weights = m -> length cluster_weights = m -> length self_loops = n ->
  (forall c, c < m -> (nthq out_cluster_weights c == csum g labels_refined out_weights c)%Q) ->
  (forall c, c < m -> (nthq in_cluster_weights c == csum g labels_refined in_weights c)%Q) ->
  (forall c, c < m -> (nthq cluster_weights c == 0)%Q) ->
  (forall x y, x < n -> y < n -> lab labels_refined x = lab labels_refined y -> lab labels x = lab labels y) ->
  S (m ^ n) <= fuel ->
  exists lr' passes,
    optimize_refine_core fuel Safety2.leiden_draw labels labels_refined indices indptr data out_weights in_weights
                         out_cluster_weights in_cluster_weights cluster_weights self_loops res
    = KOk (lr', passes) /\
    passes <= S (m ^ n) /\ length lr' = n /\ Forall (fun l => l < m) lr' /\
    (forall x y, x < n -> y < n -> lab lr' x = lab lr' y -> lab labels x = lab labels y) /\
    (objective g out_weights in_weights res labels_refined <= objective g out_weights in_weights res lr')%Q.
Proof.
  exact (leiden_refine_terminates_ok fuel Safety2.leiden_draw n m labels labels_refined indices indptr data out_weights
           in_weights out_cluster_weights in_cluster_weights cluster_weights self_loops res).
Qed.
Print Assumptions leiden_refine_terminates_coded_generator.

(** the call made by Leiden._optimize_refine (labels_refined = arange(n), cluster weights = node weights,
    cluster_weights = zeros(n)): returns, and the result refines [labels] *)
Theorem leiden_refine_call_terminates fuel rnd n labels indices indptr
        (data out_weights in_weights self_loops : list Q) res :
  csr_wf n indptr indices data ->
  let g := csr_graph n indptr indices data in
  wsymmetric g ->
  (forall i, i < n -> (nthq self_loops i == entry g i i)%Q) ->
  length labels = n -> length out_weights = n -> length in_weights = n -> length self_loops = n ->
  S (n ^ n) <= fuel ->
  exists lr' passes,
    optimize_refine_core fuel rnd labels (seq 0 n) indices indptr data out_weights in_weights
                         out_weights in_weights (repeat 0%Q n) self_loops res = KOk (lr', passes) /\
    passes <= S (n ^ n) /\
    (forall x y, x < n -> y < n -> lab lr' x = lab lr' y -> lab labels x = lab labels y).
Proof.
  exact (leiden_refine_call_terminates_ok fuel rnd n labels indices indptr data out_weights in_weights
           self_loops res).
Qed.
Print Assumptions leiden_refine_call_terminates.

(** ** Non-vacuity of section 9 *)

(** the identity satisfies the contract asked of std::sort *)
Example sort_contract_id : sort_contract (fun l => l).
Proof. intros l. split; [reflexivity | auto]. Qed.

(** the path 0 - 2 - 1 (centre 2) with powers [1, 2, 4] and the identity as sort (on this input the tuples
    are produced in sorted order): two rounds, colours [0, 0, 1] — what color_weisfeiler_lehman returns;
    with max_iter = 1 the loop stops after one round; a fuel below max_iter is reported as OutOfFuel *)
Example wl_example :
  csr_pat_wf 3 [0; 1; 2; 4] [2; 2; 0; 1] /\
  wl_kernel 3 (fun l => l) [0; 1; 2; 4] [2; 2; 0; 1] [0; 0; 0] [1; 2; 4]%Q 3 = KOk ([0; 0; 1], false, 2) /\
  wl_kernel 1 (fun l => l) [0; 1; 2; 4] [2; 2; 0; 1] [0; 0; 0] [1; 2; 4]%Q 1 = KOk ([0; 0; 1], true, 1) /\
  wl_kernel 1 (fun l => l) [0; 1; 2; 4] [2; 2; 0; 1] [0; 0; 0] [1; 2; 4]%Q 3 = OutOfFuel.
Proof. split; [apply csr_pat_wf_b_sound; reflexivity|]. repeat split; vm_compute; reflexivity. Qed.

(** path 0 - 1 - 2: node 1 lies on the two shortest paths 0 -> 2 and 2 -> 0 (score 2 before the halving);
    every BFS pops the three nodes; with BFS fuel 2 the model reports OutOfFuel *)
Example brandes_example :
  csr_pat_wf 3 [0; 1; 3; 4] [1; 0; 2; 1] /\
  brandes_flat [0; 1; 3; 4] [1; 0; 2; 1] = KOk ([0; 2; 0]%Q, [(3, 3); (3, 3); (3, 3)]) /\
  br_sources 2 (seq 0 3) 3 [0; 1; 3; 4] [1; 0; 2; 1] (repeat 0%Q 3) [] = OutOfFuel.
Proof. split; [apply csr_pat_wf_b_sound; reflexivity|]. split; vm_compute; reflexivity. Qed.

(** the refinement kernel on the triangle {0,1,2} plus the edge 2 - 3 of [optimize_core_example], coarse
    labels [0,0,1,1] (so that nodes 0, 1 may only join each other, and 2, 3 each other), rand() = 0, 1, 2, ...:
    two passes; the contract of [leiden_refine_call_terminates] holds *)
Example leiden_refine_example :
  let indptr := [0; 2; 4; 7; 8] in
  let indices := [1; 2; 0; 2; 0; 1; 3; 2] in
  let data := [1 # 8; 1 # 8; 1 # 8; 1 # 8; 1 # 8; 1 # 8; 1 # 8; 1 # 8]%Q in
  let w := [2 # 8; 2 # 8; 3 # 8; 1 # 8]%Q in
  let g := csr_graph 4 indptr indices data in
  csr_wf 4 indptr indices data /\ wsymmetric g /\
  (forall i, i < 4 -> (nthq (repeat 0%Q 4) i == entry g i i)%Q) /\
  optimize_refine_core 5 (fun k => k) [0; 0; 1; 1] (seq 0 4) indices indptr data w w w w (repeat 0%Q 4)
                       (repeat 0%Q 4) 1%Q = KOk ([1; 1; 3; 3], 2) /\
  optimize_refine_core 1 (fun k => k) [0; 0; 1; 1] (seq 0 4) indices indptr data w w w w (repeat 0%Q 4)
                       (repeat 0%Q 4) 1%Q = OutOfFuel.
Proof.
  cbv zeta. split; [apply csr_wf_b_sound; reflexivity|].
  split; [apply wsymmetricb_ok; vm_compute; reflexivity|].
  split.
  - intros i Hi. do 4 (destruct i as [|i]; [vm_compute; reflexivity|]). lia.
  - split; vm_compute; reflexivity.
Qed.

(** push_pagerank on the directed 3-cycle with damping 1/2, tol 1/10, uniform seeds: 3 pops (nobody is
    pushed again); fuel 2 is reported as OutOfFuel; [push_fuel 3 = 6] *)
Example push_example :
  csr_pat_wf 3 [0; 1; 2; 3] [1; 2; 0] /\ csr_pat_wf 3 [0; 1; 2; 3] [2; 0; 1] /\ push_fuel 3 = 6 /\
  (exists scores, push_pagerank 3 3 [1; 1; 1] [0; 1; 2; 3] [1; 2; 0] [0; 1; 2; 3] [2; 0; 1]
                                [1 # 3; 1 # 3; 1 # 3]%Q (1 # 2)%Q (1 # 10)%Q (fun _ => [0; 1; 2]) = KOk scores) /\
  push_pagerank 2 3 [1; 1; 1] [0; 1; 2; 3] [1; 2; 0] [0; 1; 2; 3] [2; 0; 1]
                [1 # 3; 1 # 3; 1 # 3]%Q (1 # 2)%Q (1 # 10)%Q (fun _ => [0; 1; 2]) = OutOfFuel.
Proof.
  split; [apply csr_pat_wf_b_sound; reflexivity|]. split; [apply csr_pat_wf_b_sound; reflexivity|].
  split; [reflexivity|]. split; [eexists; vm_compute; reflexivity | vm_compute; reflexivity].
Qed.

(** ** 9.6 paris.pyx (dict-based: Model/Paris.v, Proofs/ParisTotal.v)

    There are no raw buffers: "staying within its buffers" means that no dict lookup raises KeyError
    ([Err KeyError] in the model: [neighbors[node]], [cluster_sizes[node]], the [pop]s of [merge]), that the
    [chain] vector is only read / popped when non-empty and [connected_components[-1]] exists
    ([Err IndexError]), and that the two nested [while] loops end ([None] = out of fuel;
    [paris_fuel n = 3 n + 2] steps of the nearest-neighbour chain). On every admissible input (symmetric
    positive weights, positive node weights, n >= 1; exact arithmetic) the model returns a dendrogram. *)
From SKN Require Import Model.Cuts Model.Paris Proofs.ParisReducible Proofs.ParisTotal.
Set Warnings "-notation-overridden". (* keep: a line with a parenthesis after the imports *)

Theorem paris_safe (hinf : Q) (n : nat) (G : Paris.entries) (wout win : list Q) :
  1 <= n -> graph_ok n G -> weights_ok n wout -> weights_ok n win ->
  exists D m t, paris_core Paris.exact false hinf n G wout win = Some (Cuts.Ok (D, m, t)).
Proof. exact (ParisTotal.paris_total hinf n G wout win). Qed.
Print Assumptions paris_safe.

(** the chain loop itself: ends normally within 3 n + 2 steps with at least one component recorded
    (so that [connected_components[size - 1]] is a valid read) *)
Theorem paris_chain_terminates (n : nat) (G : Paris.entries) (wout win : list Q) :
  1 <= n -> graph_ok n G -> weights_ok n wout -> weights_ok n win ->
  exists st, paris_run Paris.exact false (paris_fuel n) (paris_init (ag_init Paris.exact n G wout win))
             = Some (Cuts.Ok st) /\ p_comps st <> [].
Proof. exact (ParisTotal.paris_run_total n G wout win). Qed.
Print Assumptions paris_chain_terminates.

Example paris_safe_example : 1 <= 6 /\ graph_ok 6 ex_G /\ weights_ok 6 ex_w /\ paris_fuel 6 = 20.
Proof.
  destruct paris_total_example_hyps as (A & B & C).
  split; [exact A|]. split; [exact B|]. split; [exact C|reflexivity].
Qed.


(** ------------------------------------------------------------------------------------------------
    10. Paris: the tie rule of the nearest-neighbour scan, re-extracted from paris.pyx on every run.
    [paris_total] (section 9.6) is proved for the EXACT smallest-index tie rule ([elif sim == max_sim:
    nearest_neighbor = min(neighbor, nearest_neighbor)]): a tolerance-based tie is not transitive and depends
    on the scan order, and the chain can then cycle forever. The obligation below breaks if the source's tie
    test is anything else; the termination statement carries the source fact as a visible premise. *)
From SKN Require Import Proofs.ParisC17 Gen.ParisSrc.

Theorem paris_source_tie_exact : paris_src_tie_exact = true.
Proof. reflexivity. Qed.
Print Assumptions paris_source_tie_exact.

Theorem paris_terminates_for_source (n : nat) (G : entries) (wout win : list Q) :
  paris_src_tie_exact = true ->
  1 <= n -> graph_ok n G -> weights_ok n wout -> weights_ok n win ->
  exists st, paris_run exact paris_src_clamp (paris_fuel n) (paris_init (ag_init exact n G wout win)) = Some (Ok st)
             /\ p_comps st <> [].
Proof. exact (ParisC17.paris_terminates_for_source n G wout win). Qed.
Print Assumptions paris_terminates_for_source.


(** ------------------------------------------------------------------------------------------------
    11. Leiden.fit (leiden.py): the outer [while not stop] loop terminates (Proofs/LeidenProofs.v).
    Sections 9.3 / 9.5 are about the refinement kernel; here the kernel's answer is an oracle [refine] and the
    statement holds for EVERY oracle meeting [refine_contract] (one refined label per node, refined clusters
    are connected subsets of coarse clusters). The node-count argument of Louvain.fit (the aggregate has
    strictly fewer nodes) fails for Leiden — the graph is aggregated by the REFINED partition — so the
    condition is tol_aggregation > 0: an aggregation that does not stop the loop has increase >
    tol_aggregation, the increase is the gain of the objective of the coarse partition on the original
    nodes, and the objective is bounded. Fuels computed from the arguments of fit (exact arithmetic):
      [leiden_kfuel] = ceil((B - Q0) / tol_optimization) + 1 passes per call of optimize_core,
      [leiden_fuel]  = ceil((B - Q0) / tol_aggregation) + 1 aggregations,
    B = sum_ij |A_ij - resolution * out_i * in_j| on the pre-processed input, Q0 = objective(singletons).
    The only error fit can return is ValueError (empty / invalid input). *)
From SKN Require Import Proofs.LeidenProofs.
Set Warnings "-notation-overridden". (* keep: a line with a parenthesis after the imports *)

Theorem leiden_fit_never_out_of_fuel (refine : nat -> Modularity.wgraph -> list nat -> list nat)
        (fuel kfuel : nat) (kind : Louvain.modkind) (res tol_opt tol_agg : Q) (n_agg : Z)
        (sort_clusters : bool) (m : Modularity.wmat) (fb : bool) (index : option (list nat)) :
  LouvainProofs.refine_contract refine ->
  (0 < tol_opt)%Q -> (0 < tol_agg)%Q ->
  (leiden_kfuel kind res tol_opt m fb index <= kfuel)%nat ->
  (leiden_fuel kind res tol_agg m fb index <= fuel)%nat ->
  Louvain.leiden_fit fuel kfuel kind res tol_opt tol_agg n_agg sort_clusters refine m fb index
  <> Modularity.MErr Modularity.MOutOfFuel.
Proof.
  exact (leiden_fit_never_out_of_fuel_pf refine fuel kfuel kind res tol_opt tol_agg n_agg sort_clusters m fb index).
Qed.
Print Assumptions leiden_fit_never_out_of_fuel.

(** tol_aggregation <= 0 is covered only when n_aggregations >= 1 (the test [count == n_aggregations]) ... *)
Theorem leiden_fit_n_aggregations_never_out_of_fuel_loop
        (refine : nat -> Modularity.wgraph -> list nat -> list nat)
        (fuel kfuel : nat) (kind : Louvain.modkind) (res tol_opt tol_agg : Q) (n_agg : Z)
        (m : Modularity.wmat) (fb : bool) (index : option (list nat)) (p : Louvain.prep) :
  LouvainProofs.refine_contract refine ->
  Louvain.pre_processing kind m fb index = Modularity.MOk p ->
  (0 < tol_opt)%Q -> (1 <= n_agg)%Z ->
  (leiden_kfuel kind res tol_opt m fb index <= kfuel)%nat ->
  (Z.to_nat n_agg <= fuel)%nat ->
  exists r, Louvain.leiden_loop fuel kfuel res tol_opt tol_agg n_agg refine
              (Louvain.p_adj p) (Louvain.p_out p) (Louvain.p_in p)
              (seq 0 (length (Louvain.p_adj p))) (seq 0 (length (Louvain.p_adj p))) 0 [] Louvain.marg0
            = Modularity.MOk r.
Proof. exact (leiden_loop_fit_terminates_n_agg refine fuel kfuel kind res tol_opt tol_agg n_agg m fb index p). Qed.
Print Assumptions leiden_fit_n_aggregations_never_out_of_fuel_loop.

(** ... or, in EXACT arithmetic only, by the finiteness of the set of objective values (n^n + 1
    aggregations, n the number of nodes). PARTIAL: exact-rational model; in float32 an accepted gain can be
    rounding noise (known finding D32). *)
Theorem leiden_fit_tol_aggregation_0_terminates_partial
        (refine : nat -> Modularity.wgraph -> list nat -> list nat)
        (fuel kfuel : nat) (kind : Louvain.modkind) (res tol_opt tol_agg : Q) (n_agg : Z)
        (m : Modularity.wmat) (fb : bool) (index : option (list nat)) (p : Louvain.prep) :
  LouvainProofs.refine_contract refine ->
  Louvain.pre_processing kind m fb index = Modularity.MOk p ->
  (0 < tol_opt)%Q -> (0 <= tol_agg)%Q ->
  (leiden_kfuel kind res tol_opt m fb index <= kfuel)%nat ->
  (S (length (Louvain.p_adj p) ^ length (Louvain.p_adj p)) <= fuel)%nat ->
  exists r, Louvain.leiden_loop fuel kfuel res tol_opt tol_agg n_agg refine
              (Louvain.p_adj p) (Louvain.p_out p) (Louvain.p_in p)
              (seq 0 (length (Louvain.p_adj p))) (seq 0 (length (Louvain.p_adj p))) 0 [] Louvain.marg0
            = Modularity.MOk r.
Proof. exact (leiden_loop_fit_terminates_tol0_partial refine fuel kfuel kind res tol_opt tol_agg n_agg m fb index p). Qed.
Print Assumptions leiden_fit_tol_aggregation_0_terminates_partial.

(** Non-vacuity: the contract is met by the oracle that refines nothing; on the 5-node house graph with
    tol_optimization = tol_aggregation = 1/100 both computed fuels are 120 and fit returns with them. *)
Example leiden_fit_fuel_example :
  let house := {| Modularity.w_ncol := 5;
                  Modularity.w_rows := [[(1%nat, 1%Q); (4%nat, 1%Q)]; [(0%nat, 1%Q); (2%nat, 1%Q); (4%nat, 1%Q)];
                                        [(1%nat, 1%Q); (3%nat, 1%Q)]; [(2%nat, 1%Q); (4%nat, 1%Q)];
                                        [(0%nat, 1%Q); (1%nat, 1%Q); (3%nat, 1%Q)]] |} in
  LouvainProofs.refine_contract (fun _ g _ => seq 0 (length g)) /\
  leiden_kfuel Louvain.Dugue 1%Q (1 # 100)%Q house false None = 120%nat /\
  leiden_fuel Louvain.Dugue 1%Q (1 # 100)%Q house false None = 120%nat /\
  exists log mg, Louvain.leiden_fit 120 120 Louvain.Dugue 1%Q (1 # 100)%Q (1 # 100)%Q (-1)%Z true
                   (fun _ g _ => seq 0 (length g)) house false None
                 = Modularity.MOk ([0; 0; 1; 1; 0]%nat, log, mg).
Proof.
  intros house. split.
  - intros count g labels Hwf Hlen. split; [apply seq_length|]. split.
    + intros x y Hx Hy E. rewrite !LouvainProofs.lab_seq in E by assumption. subst y. reflexivity.
    + apply LouvainProofs.cc_inv_singletons.
  - split; [vm_compute; reflexivity|]. split; [vm_compute; reflexivity|].
    eexists. eexists. vm_compute. reflexivity.
Qed.

(** C12 — Connectivity, bipartiteness and cycle functions describe the graph truthfully.
    This file contains only statements closed by [exact], their assumptions, and non-vacuity examples.
    Models: Model/Structure.v, Model/Cycles.v (SciPy's connected_components is an oracle argument with
    contract [components_contract]). *)
From SKN Require Import Base.Util Model.Bfs Model.Structure Model.Cycles
  Proofs.BfsProofs Proofs.StructureProofs Proofs.CyclesProofs Gen.CyclesCode.

(** ** is_bipartite *)

(** On a symmetric pattern the coded loop neither runs out of fuel nor fails to find an uncoloured
    node; on a non-symmetric one the code raises ValueError. *)
Theorem is_bipartite_total (g : graph) :
  wf_graph g ->
  (is_symmetric g = false -> is_bipartite g = Err ValueError) /\
  (is_symmetric g = true -> exists b x, is_bipartite g = Ok (b, x)).
Proof. exact (StructureProofs.is_bipartite_total g). Qed.
Print Assumptions is_bipartite_total.

(** Result true: there is no self-loop, the returned rows / cols partition the nodes, every edge
    joins the two classes (the colouring is proper), and the returned biadjacency is entry-wise the
    input restricted to rows x cols — so the graph is [[0, B], [B^T, 0]] up to the order rows ++ cols. *)
Theorem is_bipartite_sound (g : graph) x :
  wf_graph g -> is_bipartite g = Ok (true, x) ->
  exists m rws cls, x = Some (m, rws, cls) /\
    (forall u, ~ In u (row g u)) /\
    (forall u, u < length g -> (In u rws /\ ~ In u cls) \/ (In u cls /\ ~ In u rws)) /\
    (forall u, In u rws \/ In u cls -> u < length g) /\
    NoDup rws /\ NoDup cls /\
    (forall u v, In v (row g u) -> (In u rws /\ In v cls) \/ (In u cls /\ In v rws)) /\
    p_nrow m = length rws /\ p_ncol m = length cls /\
    (forall a b, a < length rws -> b < length cls ->
       (In b (row (p_rows m) a) <-> In (nthn cls b) (row g (nthn rws a)))).
Proof. exact (is_bipartite_sound_lemma g x). Qed.
Print Assumptions is_bipartite_sound.

(** Result false: the graph has a self-loop or admits no proper 2-colouring (and nothing else is returned). *)
Theorem is_bipartite_complete (g : graph) x :
  wf_graph g -> is_bipartite g = Ok (false, x) ->
  x = None /\ ((exists u, u < length g /\ In u (row g u)) \/ ~ two_colourable g).
Proof. exact (is_bipartite_complete_lemma g x). Qed.
Print Assumptions is_bipartite_complete.

(** Together: is_bipartite is true exactly for loop-free 2-colourable graphs. *)
Theorem is_bipartite_exact (g : graph) :
  wf_graph g -> is_symmetric g = true ->
  exists b x, is_bipartite g = Ok (b, x) /\
    (b = true <-> (forall u, ~ In u (row g u)) /\ two_colourable g).
Proof. exact (is_bipartite_exact_lemma g). Qed.
Print Assumptions is_bipartite_exact.

(** ** Connectivity (under the oracle contract) *)

Theorem is_connected_exact (m : pmat) (fb strong : bool) (comp : list nat) (b : bool) :
  components_contract (cc_adjacency m fb) strong comp ->
  is_connected m fb comp = Ok b ->
  let g := cc_adjacency m fb in
  (b = true <-> 0 < length g /\ forall u v, u < length g -> v < length g ->
                   if strong then sconn g u v else wconn g u v).
Proof. exact (is_connected_exact_lemma m fb strong comp b). Qed.
Print Assumptions is_connected_exact.

(** The returned index is one label class — a non-empty connected component of maximum size — listed
    in increasing order (rows then columns for a biadjacency input), and the returned matrix is the
    input restricted to it (rows selected first, then columns). *)
Theorem largest_component_is_induced (m : pmat) (fb strong : bool) (comp : list nat) out index :
  components_contract (cc_adjacency m fb) strong comp ->
  get_largest_connected_component m fb comp = Ok (out, index) ->
  let g := cc_adjacency m fb in
  let bip := snd (get_adjacency m fb) in
  let l := largest_label comp in
  let inclass := fun u => nthn comp u = l in
  (exists u0, u0 < length g /\ inclass u0) /\
  (forall u v, u < length g -> v < length g -> inclass u ->
      (inclass v <-> if strong then sconn g u v else wconn g u v)) /\
  (forall x, count comp x <= count comp l) /\
  exists ir ic,
    out = submatrix m ir ic /\
    (bip = false -> ir = filter (fun u => nthn comp u =? l) (seq 0 (length g)) /\ ic = ir /\ index = ir) /\
    (bip = true -> ir = filter (fun i => nthn comp i =? l) (seq 0 (p_nrow m)) /\
                   ic = filter (fun j => nthn comp (p_nrow m + j) =? l) (seq 0 (length g - p_nrow m)) /\
                   index = ir ++ ic) /\
    (forall a b, a < length ir -> b < length ic ->
       (In b (row (p_rows out) a) <-> In (nthn ic b) (row (p_rows m) (nthn ir a)))).
Proof. exact (largest_component_lemma m fb strong comp out index). Qed.
Print Assumptions largest_component_is_induced.

(** ** is_acyclic *)

(** Directed: "no self-loop and as many strongly connected components as nodes" holds exactly when
    there is no simple directed cycle (self-loops and 2-cycles included). *)
Theorem is_acyclic_directed_exact (g : graph) (comp : list nat) (b : bool) :
  wf_graph g -> components_contract g true comp ->
  is_acyclic g (Some true) comp = Ok b ->
  (b = true <-> ~ exists c, dcycle g c).
Proof. exact (is_acyclic_directed_lemma g comp b). Qed.
Print Assumptions is_acyclic_directed_exact.

(** forest_iff_count: a simple undirected graph on n nodes (edge list [es], each edge once, no loop) is
    acyclic iff (number of connected components) + (number of edges) = n, for ANY labelling [comp]
    whose classes are the connected components. *)
Theorem forest_iff_count (n : nat) (es : list (nat * nat)) (comp : list nat) :
  simple_edges n es -> length comp = n ->
  (forall x y, x < n -> y < n -> (nthn comp x = nthn comp y <-> econn es x y)) ->
  (forest es <-> n_labels comp + length es = n).
Proof. exact (forest_iff_count_lemma n es comp). Qed.
Print Assumptions forest_iff_count.

(** Undirected (explicit directed=False, or inferred on a symmetric pattern; canonical rows): the
    criterion "no self-loop and n_cc = n - nnz/2" holds exactly when there is neither a self-loop nor
    a simple cycle on at least 3 nodes. *)
Theorem is_acyclic_undirected_exact (g : graph) (directed : option bool) (comp : list nat) (b : bool) :
  wf_graph g -> (forall u, NoDup (row g u)) -> components_contract g false comp ->
  resolve_directed g directed = Ok false ->
  is_acyclic g directed comp = Ok b ->
  (b = true <-> ~ exists c, ucycle g c).
Proof. exact (is_acyclic_undirected_lemma g directed comp b). Qed.
Print Assumptions is_acyclic_undirected_exact.

(** ** get_cycles *)

(** The depth budget of the traversal (length g + 1) is never exhausted: the model always answers. *)
Theorem get_cycles_total (g : graph) (directed : option bool) (comp : list nat) (d : bool) :
  wf_graph g -> resolve_directed g directed = Ok d -> exists cs, get_cycles g directed comp = Ok cs.
Proof. exact (get_cycles_total_lemma g directed comp d). Qed.
Print Assumptions get_cycles_total.

(** Every returned list is a simple cycle of the input (distinct nodes of the graph, consecutive
    edges, closing edge; never of length 2 in the undirected case), and no two returned lists are
    the same cycle up to rotation (directed) / rotation and orientation (undirected). *)
Theorem get_cycles_sound (g : graph) (directed : option bool) (comp : list nat) (d : bool) cs :
  wf_graph g -> resolve_directed g directed = Ok d ->
  get_cycles g directed comp = Ok cs ->
  (forall c, In c cs -> simple_cycle (edge g) c /\ (d = false -> length c <> 2) /\ forall x, In x c -> x < length g) /\
  (forall i j, i < j < length cs ->
     if d then ~ same_dcycle (nth i cs []) (nth j cs []) else ~ same_ucycle (nth i cs []) (nth j cs [])).
Proof. exact (get_cycles_sound_lemma g directed comp d cs). Qed.
Print Assumptions get_cycles_sound.

(** Directed graphs: ALL simple cycles are returned (up to rotation), self-loops and 2-cycles included. *)
Theorem get_cycles_complete_directed (g : graph) (directed : option bool) (comp : list nat) cs :
  wf_graph g -> components_contract g true comp -> resolve_directed g directed = Ok true ->
  get_cycles g directed comp = Ok cs ->
  forall c, dcycle g c -> exists c', In c' cs /\ same_dcycle c c'.
Proof. exact (get_cycles_complete_directed_lemma g directed comp cs). Qed.
Print Assumptions get_cycles_complete_directed.

(** Nothing is returned iff the graph is acyclic (directed: no simple directed cycle; undirected: no
    self-loop and no simple cycle on >= 3 nodes). *)
Theorem get_cycles_empty_iff_acyclic (g : graph) (directed : option bool) (comp : list nat) (d : bool) cs :
  wf_graph g -> (forall u, NoDup (row g u)) -> resolve_directed g directed = Ok d ->
  components_contract g d comp ->
  get_cycles g directed comp = Ok cs ->
  (cs = [] <-> ~ has_cycle g d).
Proof. exact (get_cycles_empty_iff_acyclic_lemma g directed comp d cs). Qed.
Print Assumptions get_cycles_empty_iff_acyclic.

(** ** break_cycles *)

(** The model's parameter [vo] ("the undirected branch also starts in the components without root") is
    [bc_und_visits_other_components], re-extracted from cycles.py on every run (Gen/CyclesCode.v):
    [false] for the code with defect D22, [true] once the proposed repair is in. *)

(** BOUNDED theorem (exhaustive evaluation by vm_compute, not a general proof): for every digraph on
    at most 3 nodes (self-loops allowed) or on 4 nodes without self-loops, every non-empty root list
    with an outgoing edge, directed=True (or inferred on a non-symmetric pattern), with the canonical
    oracle answers: the model returns a subgraph that is acyclic and keeps every node reachable from
    the roots reachable ([bc_post], decided by brute force). *)
Theorem break_cycles_ok_upto_4 (g : graph) (root : list nat) (directed : option bool) :
  In g small_digraphs -> In root (nonempty_sublists (nodes g)) -> 0 < out_degree g root ->
  directed = Some true \/ (directed = None /\ is_symmetric g = false) ->
  exists h, bc_run bc_und_visits_other_components directed true g root = Ok h /\ bc_post g root true h = true.
Proof. exact (break_cycles_ok_upto_4_lemma bc_und_visits_other_components g root directed). Qed.
Print Assumptions break_cycles_ok_upto_4.

(** The same bounded statement with [bc_post] unfolded into propositions (proved, for all graphs:
    [bc_post_directed_sound]): same nodes, every edge of the result is an edge of the input, no simple
    directed cycle is left, and every node reachable from a root is still reachable from a root. *)
Theorem break_cycles_ok_upto_4_prop (g : graph) (root : list nat) (directed : option bool) :
  In g small_digraphs -> In root (nonempty_sublists (nodes g)) -> 0 < out_degree g root ->
  directed = Some true \/ (directed = None /\ is_symmetric g = false) ->
  exists h, bc_run bc_und_visits_other_components directed true g root = Ok h /\
    length h = length g /\
    (forall u v, edge h u v -> edge g u v) /\
    (~ exists c, dcycle h c) /\
    (forall r v, In r root -> r < length g -> reach (edge g) r v -> exists r', In r' root /\ reach (edge h) r' v).
Proof. exact (break_cycles_ok_upto_4_prop_lemma bc_und_visits_other_components g root directed). Qed.
Print Assumptions break_cycles_ok_upto_4_prop.

(** BOUNDED, undirected branch (all symmetric patterns on at most 4 nodes, self-loops allowed), in
    propositional form ([bc_post_undirected_sound]): the result has the same nodes, is a symmetric
    subgraph without self-loop or simple cycle on >= 3 nodes, and keeps every node reachable from a root
    reachable. While the code has defect D22 ([bc_und_visits_other_components = false]) the defective
    site is excluded by the explicit hypothesis [cycles_covered]: every node on a cycle is reachable
    from the roots. With the repair the hypothesis disappears. *)
Theorem break_cycles_undirected_ok_upto_4 (g : graph) (root : list nat) (directed : option bool) :
  In g small_undirected -> In root (nonempty_sublists (nodes g)) -> 0 < out_degree g root ->
  (bc_und_visits_other_components = false -> cycles_covered g root = true) ->
  directed = None \/ directed = Some false ->
  exists h, bc_run bc_und_visits_other_components directed false g root = Ok h /\
    length h = length g /\
    (forall u v, edge h u v -> edge g u v) /\
    (forall u v, edge h u v -> edge h v u) /\
    (~ exists c, ucycle h c) /\
    (forall r v, In r root -> r < length g -> reach (edge g) r v -> exists r', In r' root /\ reach (edge h) r' v).
Proof. exact (break_cycles_undirected_ok_upto_4_prop_lemma bc_und_visits_other_components g root directed). Qed.
Print Assumptions break_cycles_undirected_ok_upto_4.

(** The hypothesis is necessary for the code as written (DESIGN.md D22): triangle {0,2,3} plus root 1
    with a self-loop is returned with the triangle intact, for any admissible oracle answer. *)
Theorem break_cycles_undirected_refuted :
  exists g root comp h,
    wf_graph g /\ is_symmetric g = true /\ In root (nonempty_sublists (nodes g)) /\ 0 < out_degree g root /\
    components_contract_b g false comp = true /\
    (forall comp2, break_cycles false g root None comp comp2 = Ok h) /\
    ucycle h [0; 2; 3] /\ acyclic_b h false = false /\ bc_post g root false h = false /\
    cycles_covered g root = false.
Proof. exact break_cycles_undirected_refuted_lemma. Qed.
Print Assumptions break_cycles_undirected_refuted.

(** The proposed repair (also start from one node of every component without root) needs no hypothesis
    on the same bounded domain. *)
Theorem break_cycles_undirected_repaired_ok_upto_4 (g : graph) (root : list nat) (directed : option bool) :
  In g small_undirected -> In root (nonempty_sublists (nodes g)) -> 0 < out_degree g root ->
  directed = None \/ directed = Some false ->
  exists h, bc_run true directed false g root = Ok h /\
    length h = length g /\
    (forall u v, edge h u v -> edge g u v) /\
    (forall u v, edge h u v -> edge h v u) /\
    (~ exists c, ucycle h c) /\
    (forall r v, In r root -> r < length g -> reach (edge g) r v -> exists r', In r' root /\ reach (edge h) r' v).
Proof. exact (break_cycles_undirected_repaired_lemma g root directed). Qed.
Print Assumptions break_cycles_undirected_repaired_ok_upto_4.

(** ** Non-vacuity *)
Example c12_nonvacuous :
  let g := [[1; 2]; [0; 2]; [0; 1; 3]; [2]] in
  let sq4 := [[1; 3]; [0; 2]; [1; 3]; [0; 2]] in
  is_symmetric g = true /\ components_contract_b g false [0; 0; 0; 0] = true /\
  is_bipartite g = Ok (false, None) /\
  is_bipartite sq4 = Ok (true, Some ({| p_ncol := 2; p_rows := [[0; 1]; [0; 1]] |}, [0; 2], [1; 3])) /\
  get_cycles g None [0; 0; 0; 0] = Ok [[0; 2; 1]] /\
  get_cycles [[1]; [2]; [0; 1]] (Some true) [0; 0; 0] = Ok [[0; 1; 2]; [1; 2]] /\
  is_acyclic g None [0; 0; 0; 0] = Ok false /\
  length small_digraphs = 4627 /\ length small_undirected = 1 + 2 + 8 + 64 + 1024 /\
  bc_run bc_und_visits_other_components (Some true) true [[1]; [2]; [0; 1]] [0] = Ok [[1]; [2]; []] /\
  get_largest_connected_component {| p_ncol := 3; p_rows := [[1]; [0]; []] |} false [0; 0; 1] =
    Ok ({| p_ncol := 2; p_rows := [[1]; [0]] |}, [0; 1]).
Proof. cbv zeta. repeat split; vm_compute; reflexivity. Qed.

(** ** break_cycles WITHOUT a size bound (Proofs/BreakCyclesProofs.v) *)
From SKN Require Import Proofs.BreakCyclesProofs.
Set Warnings "-notation-overridden".

(** Directed branch ([directed=True], or inferred on a non-symmetric pattern), for EVERY graph (rows may
    contain duplicates and self-loops), every root list and every oracle answer satisfying the contract
    of [connected_components(connection='strong')] (on the input for the call inside is_acyclic, on the
    matrix without self-loops for the call inside break_cycles): the depth budget of the model is never
    exhausted, and whatever is returned
    (a) has the nodes of the input, only edges of the input, and no self-loop,
    (b) has no simple directed cycle of any length,
    (c) still reaches, from the root set, every node that the root set reaches in the input.
    (An out-of-range root or a root set without outgoing edge gives IndexError / ValueError as in the
    code; see [break_cycles_directed_total] for the converse.) *)
Theorem break_cycles_directed_correct
        (vo : bool) (g : graph) (root : list nat) (directed : option bool) (comp1 comp2 : list nat) :
  wf_graph g ->
  resolve_directed g directed = Ok true ->
  components_contract g true comp1 ->
  components_contract (drop_loops g) true comp2 ->
  break_cycles vo g root directed comp1 comp2 <> Err OutOfFuel /\
  forall h, break_cycles vo g root directed comp1 comp2 = Ok h ->
    length h = length g /\
    (forall u v, edge h u v -> edge g u v /\ u <> v) /\
    (forall c, ~ dcycle h c) /\
    (forall r v, In r root -> reach (edge g) r v -> exists r', In r' root /\ reach (edge h) r' v).
Proof. exact (break_cycles_directed_correct_lemma vo g root directed comp1 comp2). Qed.
Print Assumptions break_cycles_directed_correct.

(** Roots in range with at least one outgoing edge: the model answers [Ok]. *)
Theorem break_cycles_directed_total
        (vo : bool) (g : graph) (root : list nat) (directed : option bool) (comp1 comp2 : list nat) :
  resolve_directed g directed = Ok true -> length comp2 = length g ->
  (forall r, In r root -> r < length g) -> 0 < out_degree g root ->
  exists h, break_cycles vo g root directed comp1 comp2 = Ok h.
Proof. exact (break_cycles_directed_total_lemma vo g root directed comp1 comp2). Qed.
Print Assumptions break_cycles_directed_total.

(** Non-vacuity: a 6-node digraph with a self-loop-free root 0 outside two strongly connected
    components {1,2} and {3,4,5} (row 5 carries a duplicate entry); the hypotheses of
    [break_cycles_directed_correct] hold for the canonical oracle answers and the result (two closing
    edges removed) differs from the input. *)
Example break_cycles_directed_nonvacuous :
  let g := [[1]; [2]; [1; 3]; [4]; [5]; [3; 3; 5]] in
  let comp1 := canon_labels g true in
  let comp2 := canon_labels (drop_loops g) true in
  wf_graph g /\ resolve_directed g None = Ok true /\
  components_contract g true comp1 /\ components_contract (drop_loops g) true comp2 /\
  comp2 = [0; 1; 1; 3; 3; 3] /\
  break_cycles bc_und_visits_other_components g [0] None comp1 comp2 = Ok [[1]; [2]; [3]; [4]; [5]; []].
Proof.
  cbv zeta. split; [apply wf_b_sound; vm_compute; reflexivity|]. split; [vm_compute; reflexivity|].
  split; [apply scc_contract_b_sound; vm_compute; reflexivity|].
  split; [apply scc_contract_b_sound; vm_compute; reflexivity|].
  split; vm_compute; reflexivity.
Qed.

(** Undirected branch ([directed=False], or inferred on a symmetric pattern), for EVERY symmetric graph
    with canonical rows (no duplicate column index; self-loops allowed), every root list and every oracle
    answer satisfying the contract of [connected_components] (connected components of the input for the
    call inside is_acyclic, of the matrix without self-loops for the call inside break_cycles): the depth
    budget is never exhausted, and whatever is returned
    (a) has the nodes of the input, only edges of the input, no self-loop, and a symmetric pattern,
    (b) contains no simple cycle on >= 3 nodes that a start node of the traversal reaches in the input;
        the start nodes are [ustarts vo comp2 root]: the roots, followed — when the code visits the
        components without root ([vo = true], the current source: [bc_und_visits_other_components]) — by
        one node of every other component; with [vo = true] NO cycle is left at all,
    (c) joins every two nodes that are joined in the input (in particular everything reachable from the
        roots stays reachable from the roots). *)
Theorem break_cycles_undirected_correct
        (vo : bool) (g : graph) (root : list nat) (directed : option bool) (comp1 comp2 : list nat) :
  wf_graph g -> (forall u, NoDup (row g u)) ->
  resolve_directed g directed = Ok false ->
  components_contract g false comp1 ->
  components_contract (drop_loops g) false comp2 ->
  break_cycles vo g root directed comp1 comp2 <> Err OutOfFuel /\
  forall h, break_cycles vo g root directed comp1 comp2 = Ok h ->
    length h = length g /\
    (forall u v, edge h u v -> edge g u v /\ u <> v) /\
    (forall u v, edge h u v -> edge h v u) /\
    (forall c s, ucycle h c -> In s (ustarts vo comp2 root) -> ~ reach (edge g) s (hd 0 c)) /\
    (vo = true -> forall c, ~ ucycle h c) /\
    (forall a b, reach (edge g) a b -> reach (edge h) a b).
Proof. exact (break_cycles_undirected_correct_lemma vo g root directed comp1 comp2). Qed.
Print Assumptions break_cycles_undirected_correct.

Theorem break_cycles_undirected_total
        (vo : bool) (g : graph) (root : list nat) (directed : option bool) (comp1 comp2 : list nat) :
  wf_graph g -> resolve_directed g directed = Ok false -> length comp2 = length g ->
  (forall r, In r root -> r < length g) -> 0 < out_degree g root ->
  exists h, break_cycles vo g root directed comp1 comp2 = Ok h.
Proof. exact (break_cycles_undirected_total_lemma vo g root directed comp1 comp2). Qed.
Print Assumptions break_cycles_undirected_total.

(** Non-vacuity: 7 nodes, a triangle {0,1,2} with a pendant node 6 carrying a self-loop, and a second
    triangle {3,4,5} without root; the hypotheses of [break_cycles_undirected_correct] hold for the
    canonical oracle answers; with the components without root visited one edge of each triangle (and
    the self-loop) is removed, without them the second triangle survives. *)
Example break_cycles_undirected_nonvacuous :
  let g := [[1; 2]; [0; 2]; [0; 1; 6]; [4; 5]; [3; 5]; [3; 4]; [2; 6]] in
  let comp1 := canon_labels g false in
  let comp2 := canon_labels (drop_loops g) false in
  wf_graph g /\ (forall u, NoDup (row g u)) /\ resolve_directed g None = Ok false /\
  components_contract g false comp1 /\ components_contract (drop_loops g) false comp2 /\
  ustarts true comp2 [0] = [0; 3] /\
  break_cycles true g [0] None comp1 comp2 = Ok [[2]; [2]; [0; 1; 6]; [5]; [5]; [3; 4]; [2]] /\
  break_cycles false g [0] None comp1 comp2 = Ok [[2]; [2]; [0; 1; 6]; [4; 5]; [3; 5]; [3; 4]; [2]].
Proof.
  cbv zeta.
  assert (Hwf : wf_graph [[1; 2]; [0; 2]; [0; 1; 6]; [4; 5]; [3; 5]; [3; 4]; [2; 6]])
    by (apply wf_b_sound; vm_compute; reflexivity).
  split; [exact Hwf|]. split.
  { intros u. do 7 (destruct u as [|u]; [unfold row; cbn [nth]; repeat constructor; simpl; intuition lia|]).
    unfold row. rewrite nth_overflow by (simpl; lia). constructor. }
  split; [vm_compute; reflexivity|].
  split; [apply wcc_contract_b_sound; [exact Hwf | vm_compute; reflexivity]|].
  split; [apply wcc_contract_b_sound; [apply (wf_sub _ _ Hwf), drop_loops_sub | vm_compute; reflexivity]|].
  split; [vm_compute; reflexivity|]. split; vm_compute; reflexivity.
Qed.

(** C02 - Renumbering the nodes only renumbers the results (theorem side, once per specification).
    A permutation of {0..n-1} is its image list p ([Permutation p (seq 0 n)]; node i becomes p[i]).
    [perm_vec d p v] is the vector w with w[p[i]] = v[i]; [perm_graph p g] has row p[i] = p applied to
    row i; [perm_wrows p A] = P A P^T on weighted rows; [perm_bip pr pc B] renumbers rows and columns
    of a biadjacency matrix independently.  Equivariance of the kernels that are proved exact against
    a specification (C10 distances / DAG) follows here from equivariance of the specification;
    iterative algorithms are covered by [matvec_perm] + [map2_perm] + [map_perm]; invariants that are
    totals by [sum_perm].  What is NOT proved here: that each estimator is such a composition
    (observed by the metamorphic harness).
    This file contains only statements closed by [exact], their assumptions, and examples. *)
From Coq Require Import Permutation Sorted.
From SKN Require Import Base.Util Model.Bfs Model.Format Proofs.BfsProofs Proofs.FormatProofs.

(** 5. Characterisation of the action. *)
Theorem perm_vec_nth (n : nat) (p : list nat) (Hp : Permutation p (seq 0 n))
        {A} (d : A) (v : list A) (i : nat) :
  i < n -> nth (nthn p i) (perm_vec d p v) d = nth i v d.
Proof. exact (FormatProofs.perm_vec_nth n p Hp d v i). Qed.
Print Assumptions perm_vec_nth.

Theorem perm_vec_length (n : nat) (p : list nat) (Hp : Permutation p (seq 0 n))
        {A} (d : A) (v : list A) :
  length (perm_vec d p v) = n.
Proof. exact (FormatProofs.perm_vec_length n p Hp d v). Qed.
Print Assumptions perm_vec_length.

Theorem perm_graph_row (n : nat) (p : list nat) (Hp : Permutation p (seq 0 n)) (g : graph) (i : nat) :
  i < n -> row (perm_graph p g) (nthn p i) = map (nthn p) (row g i).
Proof. exact (FormatProofs.perm_graph_row n p Hp g i). Qed.
Print Assumptions perm_graph_row.

(** 6. Walks, hence hop distances. *)
Theorem reachk_equivariant (n : nat) (p : list nat) (Hp : Permutation p (seq 0 n))
        (g : graph) (src : list bool) (k v : nat) :
  length g = n -> wf_graph g -> v < n ->
  (reachk (perm_graph p g) (perm_vecb p src) k (nthn p v) <-> reachk g src k v).
Proof. exact (FormatProofs.reachk_equivariant n p Hp g src k v). Qed.
Print Assumptions reachk_equivariant.

Theorem bfs_equivariant (n : nat) (p : list nat) (g : graph) (src : list bool) (dist : list Z) :
  Permutation p (seq 0 n) -> length g = n -> wf_graph g -> length src = n ->
  bfs g src = Some dist ->
  bfs (perm_graph p g) (perm_vecb p src) = Some (perm_vecz p dist).
Proof. exact (FormatProofs.bfs_equivariant n p g src dist). Qed.
Print Assumptions bfs_equivariant.

(** 7. get_dag: edge (p i, p j) is kept for the renumbered graph and order iff (i, j) is kept. *)
Theorem get_dag_equivariant (n : nat) (p : list nat) (g : graph) (order : list Z) (i j : nat) :
  Permutation p (seq 0 n) -> length g = n -> wf_graph g -> length order = n ->
  i < n -> j < n ->
  (In (nthn p j) (row (get_dag (perm_graph p g) (perm_vecz p order)) (nthn p i)) <->
   In j (row (get_dag g order) i)).
Proof. exact (FormatProofs.get_dag_equivariant n p g order i j). Qed.
Print Assumptions get_dag_equivariant.

(** 8. Linear algebra: (P A P^T)(P x) = P (A x) - with Leibniz equality, the terms are even added in
    the same order - and the bipartite version with independent row / column renumberings. *)
Theorem matvec_perm (n : nat) (p : list nat) (a : wrows) (x : list Q) :
  Permutation p (seq 0 n) -> wf_rows n a ->
  matvec (perm_wrows p a) (perm_vecq p x) = perm_vecq p (matvec a x).
Proof. exact (FormatProofs.matvec_perm n p a x). Qed.
Print Assumptions matvec_perm.

Theorem matvec_perm_bip (nr nc : nat) (pr pc : list nat) (b : wrows) (x : list Q) :
  Permutation pr (seq 0 nr) -> Permutation pc (seq 0 nc) -> wf_rows nc b ->
  matvec (perm_bip pr pc b) (perm_vecq pc x) = perm_vecq pr (matvec b x).
Proof. exact (FormatProofs.matvec_perm_bip nr nc pr pc b x). Qed.
Print Assumptions matvec_perm_bip.

(** Pointwise operations commute with renumbering. *)
Theorem map2_perm {A B C} (n : nat) (p : list nat) (f : A -> B -> C) (da : A) (db : B) (dc : C)
        (u : list A) (v : list B) :
  Permutation p (seq 0 n) -> length u = n -> length v = n ->
  map2 f (perm_vec da p u) (perm_vec db p v) = perm_vec dc p (map2 f u v).
Proof. exact (FormatProofs.map2_perm n p f da db dc u v). Qed.
Print Assumptions map2_perm.

Theorem map_perm {A B} (n : nat) (p : list nat) (f : A -> B) (da : A) (db : B) (u : list A) :
  Permutation p (seq 0 n) -> length u = n ->
  map f (perm_vec da p u) = perm_vec db p (map f u).
Proof. exact (FormatProofs.map_perm n p f da db u). Qed.
Print Assumptions map_perm.

(** Totals are invariant: the renumbered vector is a rearrangement of the vector. *)
Theorem sum_perm (n : nat) (p : list nat) (v : list Q) :
  Permutation p (seq 0 n) -> length v = n -> (sumq (perm_vecq p v) == sumq v)%Q.
Proof. exact (FormatProofs.sum_perm n p v). Qed.
Print Assumptions sum_perm.

Theorem perm_vec_Permutation {A} (n : nat) (p : list nat) (d : A) (v : list A) :
  Permutation p (seq 0 n) -> length v = n -> Permutation (perm_vec d p v) v.
Proof. exact (FormatProofs.perm_vec_Permutation n p d v). Qed.
Print Assumptions perm_vec_Permutation.

(** Non-vacuity: the path 0 -> 1 -> 2 renumbered by p = [2; 0; 1], and a weighted mat-vec. *)
Example c02_nonvacuous :
  let p := [2; 0; 1] in
  let g := [[1]; [2]; []] in
  let a := [[(1, 2%Q)]; [(2, 3%Q); (0, 1%Q)]; []] in
  Permutation p (seq 0 3) /\ wf_graph g /\ wf_rows 3 a /\
  perm_graph p g = [[1]; []; [0]] /\
  perm_vecb p [true; false; false] = [false; false; true] /\
  bfs g [true; false; false] = Some [0; 1; 2]%Z /\
  bfs (perm_graph p g) (perm_vecb p [true; false; false]) = Some [1; 2; 0]%Z /\
  perm_vecz p [0; 1; 2]%Z = [1; 2; 0]%Z /\
  matvec (perm_wrows p a) (perm_vecq p [1; 10; 100]%Q) = [301; 0; 20]%Q /\
  perm_vecq p (matvec a [1; 10; 100]%Q) = [301; 0; 20]%Q.
Proof.
  cbv zeta. split; [|split; [|split]].
  - apply Permutation_sym. simpl.
    apply perm_trans with (l' := [0; 2; 1]); [|apply perm_swap].
    apply perm_skip. apply perm_swap.
  - intros u v H. destruct u as [|[|[|u]]]; simpl in H;
      try (destruct H as [H|H]; [subst; simpl; lia | contradiction]); try contradiction.
    destruct u; contradiction.
  - unfold wf_rows. repeat constructor; simpl; lia.
  - repeat split; vm_compute; reflexivity.
Qed.

(** C02 - Renumbering the nodes only renumbers the results (theorem side, once per specification).
    A permutation of {0..n-1} is its image list p ([Permutation p (seq 0 n)]; node i becomes p[i]).
    [perm_vec d p v] is the vector w with w[p[i]] = v[i]; [perm_graph p g] has row p[i] = p applied to
    row i; [perm_wrows p A] = P A P^T on weighted rows; [perm_bip pr pc B] renumbers rows and columns
    of a biadjacency matrix independently.  Equivariance of the kernels that are proved exact against
    a specification (C10 distances / DAG) follows here from equivariance of the specification;
    iterative algorithms are covered by [matvec_perm] + [map2_perm] + [map_perm]; invariants that are
    totals by [sum_perm].  What is NOT proved here: that each estimator is such a composition
    (observed by the metamorphic harness).
    This file contains only statements closed by [exact], their assumptions, and examples. *)
From Coq Require Import Permutation Sorted.
From SKN Require Import Base.Util Model.Bfs Model.Format Proofs.BfsProofs Proofs.FormatProofs.

(** 5. Characterisation of the action. *)
Theorem perm_vec_nth (n : nat) (p : list nat) (Hp : Permutation p (seq 0 n))
        {A} (d : A) (v : list A) (i : nat) :
  i < n -> nth (nthn p i) (perm_vec d p v) d = nth i v d.
Proof. exact (FormatProofs.perm_vec_nth n p Hp d v i). Qed.
Print Assumptions perm_vec_nth.

Theorem perm_vec_length (n : nat) (p : list nat) (Hp : Permutation p (seq 0 n))
        {A} (d : A) (v : list A) :
  length (perm_vec d p v) = n.
Proof. exact (FormatProofs.perm_vec_length n p Hp d v). Qed.
Print Assumptions perm_vec_length.

Theorem perm_graph_row (n : nat) (p : list nat) (Hp : Permutation p (seq 0 n)) (g : graph) (i : nat) :
  i < n -> row (perm_graph p g) (nthn p i) = map (nthn p) (row g i).
Proof. exact (FormatProofs.perm_graph_row n p Hp g i). Qed.
Print Assumptions perm_graph_row.

(** 6. Walks, hence hop distances. *)
Theorem reachk_equivariant (n : nat) (p : list nat) (Hp : Permutation p (seq 0 n))
        (g : graph) (src : list bool) (k v : nat) :
  length g = n -> wf_graph g -> v < n ->
  (reachk (perm_graph p g) (perm_vecb p src) k (nthn p v) <-> reachk g src k v).
Proof. exact (FormatProofs.reachk_equivariant n p Hp g src k v). Qed.
Print Assumptions reachk_equivariant.

Theorem bfs_equivariant (n : nat) (p : list nat) (g : graph) (src : list bool) (dist : list Z) :
  Permutation p (seq 0 n) -> length g = n -> wf_graph g -> length src = n ->
  bfs g src = Some dist ->
  bfs (perm_graph p g) (perm_vecb p src) = Some (perm_vecz p dist).
Proof. exact (FormatProofs.bfs_equivariant n p g src dist). Qed.
Print Assumptions bfs_equivariant.

(** 7. get_dag: edge (p i, p j) is kept for the renumbered graph and order iff (i, j) is kept. *)
Theorem get_dag_equivariant (n : nat) (p : list nat) (g : graph) (order : list Z) (i j : nat) :
  Permutation p (seq 0 n) -> length g = n -> wf_graph g -> length order = n ->
  i < n -> j < n ->
  (In (nthn p j) (row (get_dag (perm_graph p g) (perm_vecz p order)) (nthn p i)) <->
   In j (row (get_dag g order) i)).
Proof. exact (FormatProofs.get_dag_equivariant n p g order i j). Qed.
Print Assumptions get_dag_equivariant.

(** 8. Linear algebra: (P A P^T)(P x) = P (A x) - with Leibniz equality, the terms are even added in
    the same order - and the bipartite version with independent row / column renumberings. *)
Theorem matvec_perm (n : nat) (p : list nat) (a : wrows) (x : list Q) :
  Permutation p (seq 0 n) -> wf_rows n a ->
  matvec (perm_wrows p a) (perm_vecq p x) = perm_vecq p (matvec a x).
Proof. exact (FormatProofs.matvec_perm n p a x). Qed.
Print Assumptions matvec_perm.

Theorem matvec_perm_bip (nr nc : nat) (pr pc : list nat) (b : wrows) (x : list Q) :
  Permutation pr (seq 0 nr) -> Permutation pc (seq 0 nc) -> wf_rows nc b ->
  matvec (perm_bip pr pc b) (perm_vecq pc x) = perm_vecq pr (matvec b x).
Proof. exact (FormatProofs.matvec_perm_bip nr nc pr pc b x). Qed.
Print Assumptions matvec_perm_bip.

(** Pointwise operations commute with renumbering. *)
Theorem map2_perm {A B C} (n : nat) (p : list nat) (f : A -> B -> C) (da : A) (db : B) (dc : C)
        (u : list A) (v : list B) :
  Permutation p (seq 0 n) -> length u = n -> length v = n ->
  map2 f (perm_vec da p u) (perm_vec db p v) = perm_vec dc p (map2 f u v).
Proof. exact (FormatProofs.map2_perm n p f da db dc u v). Qed.
Print Assumptions map2_perm.

Theorem map_perm {A B} (n : nat) (p : list nat) (f : A -> B) (da : A) (db : B) (u : list A) :
  Permutation p (seq 0 n) -> length u = n ->
  map f (perm_vec da p u) = perm_vec db p (map f u).
Proof. exact (FormatProofs.map_perm n p f da db u). Qed.
Print Assumptions map_perm.

(** Totals are invariant: the renumbered vector is a rearrangement of the vector. *)
Theorem sum_perm (n : nat) (p : list nat) (v : list Q) :
  Permutation p (seq 0 n) -> length v = n -> (sumq (perm_vecq p v) == sumq v)%Q.
Proof. exact (FormatProofs.sum_perm n p v). Qed.
Print Assumptions sum_perm.

Theorem perm_vec_Permutation {A} (n : nat) (p : list nat) (d : A) (v : list A) :
  Permutation p (seq 0 n) -> length v = n -> Permutation (perm_vec d p v) v.
Proof. exact (FormatProofs.perm_vec_Permutation n p d v). Qed.
Print Assumptions perm_vec_Permutation.

(** Non-vacuity: the path 0 -> 1 -> 2 renumbered by p = [2; 0; 1], and a weighted mat-vec. *)
Example c02_nonvacuous :
  let p := [2; 0; 1] in
  let g := [[1]; [2]; []] in
  let a := [[(1, 2%Q)]; [(2, 3%Q); (0, 1%Q)]; []] in
  Permutation p (seq 0 3) /\ wf_graph g /\ wf_rows 3 a /\
  perm_graph p g = [[1]; []; [0]] /\
  perm_vecb p [true; false; false] = [false; false; true] /\
  bfs g [true; false; false] = Some [0; 1; 2]%Z /\
  bfs (perm_graph p g) (perm_vecb p [true; false; false]) = Some [1; 2; 0]%Z /\
  perm_vecz p [0; 1; 2]%Z = [1; 2; 0]%Z /\
  matvec (perm_wrows p a) (perm_vecq p [1; 10; 100]%Q) = [301; 0; 20]%Q /\
  perm_vecq p (matvec a [1; 10; 100]%Q) = [301; 0; 20]%Q.
Proof.
  cbv zeta. split; [|split; [|split]].
  - apply Permutation_sym. simpl.
    apply perm_trans with (l' := [0; 2; 1]); [|apply perm_swap].
    apply perm_skip. apply perm_swap.
  - intros u v H. destruct u as [|[|[|u]]]; simpl in H;
      try (destruct H as [H|H]; [subst; simpl; lia | contradiction]); try contradiction.
    destruct u; contradiction.
  - unfold wf_rows. repeat constructor; simpl; lia.
  - repeat split; vm_compute; reflexivity.
Qed.

(* -------------------------------------------------------------------------------------------------- *)
(** * Corollaries for the REAL kernel models: X_equivariant := X_exact o spec_equivariant_X
    (Proofs/EquivarianceProofs.v).  For every kernel that another property proved exact against a textbook
    specification, the specification is shown invariant / equivariant under [perm_graph p] / [perm_wrows p] and
    the statement about the coded model follows through the exactness theorem; iteration models (power iteration,
    Horner, diffusion, Dirichlet) are shown to commute with the renumbering step by step (Leibniz equality: the
    models store reduced fractions).  The model modules are only Required (their names clash: wrow, entry, result,
    matvec ...): statements use qualified names such as [Topology.count_triangles], [PageRank.is_pagerank]. *)
From SKN Require Model.Topology Model.PageRank Proofs.PageRankProofs Model.Centrality Proofs.CentralityProofs Proofs.BrandesProofs Model.Modularity Proofs.ModularityProofs Model.Dendrogram Model.Cuts Proofs.CutsProofs Model.Diffusion Proofs.DiffusionProofs Model.Vote Proofs.VoteProofs Proofs.EquivarianceProofs.
Set Warnings "-notation-overridden".

(** 9. Topology kernels (Model/Topology.v: triangles.pyx, cliques.pyx, core.pyx + minheap.pyx with the front
    ends directed2undirected / get_dag).  Each statement about the CODE is the composition of the exactness
    theorem of C11 with the invariance of the textbook specification under renumbering.
    [adjb g i j]: i and j are adjacent in the undirected graph of the pattern g. *)

(** Specification: the number of k-subsets of the nodes that are pairwise adjacent does not depend on the
    numbering (any k), nor does the number of triples a < b < c that are pairwise adjacent. *)
Theorem cliques_spec_invariant (n : nat) (p : list nat) (Hp : Permutation p (seq 0 n))
        (g : graph) (HL : length g = n) (Hwf : wf_graph g) (k : nat) :
  Topology.cliques_spec (Topology.adjb (perm_graph p g)) n k = Topology.cliques_spec (Topology.adjb g) n k.
Proof. exact (EquivarianceProofs.EqT.cliques_spec_invariant n p Hp g HL Hwf k). Qed.
Print Assumptions cliques_spec_invariant.

Theorem triangles_spec_invariant (n : nat) (p : list nat) (Hp : Permutation p (seq 0 n))
        (g : graph) (HL : length g = n) (Hwf : wf_graph g) :
  Topology.triangles_spec (Topology.adjb (perm_graph p g)) n = Topology.triangles_spec (Topology.adjb g) n.
Proof. exact (EquivarianceProofs.EqT.triangles_spec_invariant n p Hp g HL Hwf). Qed.
Print Assumptions triangles_spec_invariant.

(** Code: count_triangles (directed2undirected, get_dag, two-pointer merge loops) returns the same count on
    the renumbered pattern - any pattern with column indices in range: directed, self-loops, duplicates. *)
Theorem count_triangles_invariant (n : nat) (p : list nat) (Hp : Permutation p (seq 0 n))
        (g : graph) (HL : length g = n) (Hwf : wf_graph g) :
  Topology.count_triangles (perm_graph p g) = Topology.count_triangles g.
Proof. exact (EquivarianceProofs.EqT.count_triangles_invariant n p Hp g HL Hwf). Qed.
Print Assumptions count_triangles_invariant.

(** ... hence the same clustering coefficient (same rational, or undefined on both sides). *)
Theorem clustering_coefficient_invariant (n : nat) (p : list nat) (Hp : Permutation p (seq 0 n))
        (g : graph) (HL : length g = n) (Hwf : wf_graph g) :
  Topology.clustering_coefficient (perm_graph p g) = Topology.clustering_coefficient g.
Proof. exact (EquivarianceProofs.EqT.clustering_coefficient_invariant n p Hp g HL Hwf). Qed.
Print Assumptions clustering_coefficient_invariant.

(** Code: count_cliques as coded (argsort of the core values -> get_dag -> ListingBox kernel) on an undirected
    graph (symmetric pattern, duplicate-free rows), every clique size k >= 2, and ANY admissible answers of
    np.argsort on the two sides (the core values of the two graphs are themselves permuted, see below, so the
    two argsort answers need not correspond): same count. *)
Theorem count_cliques_invariant (n : nat) (p : list nat) (Hp : Permutation p (seq 0 n))
        (g : graph) (HL : length g = n) (Hwf : wf_graph g) (k : nat) (argsort argsort' : list nat) :
  (forall u, NoDup (row g u)) -> (forall u v, In v (row g u) -> In u (row g v)) ->
  NoDup argsort -> length argsort = n -> NoDup argsort' -> length argsort' = n -> 2 <= k ->
  Topology.count_cliques (perm_graph p g) k argsort' = Topology.count_cliques g k argsort.
Proof. exact (EquivarianceProofs.EqT.count_cliques_invariant n p Hp g HL Hwf k argsort argsort'). Qed.
Print Assumptions count_cliques_invariant.

(** Specification: [core_number g v k] (v lies in a set whose members all have >= k neighbours inside the set,
    and in no such set for a larger k) is carried by the renumbering. *)
Theorem core_number_equivariant (n : nat) (p : list nat) (Hp : Permutation p (seq 0 n))
        (g : graph) (HL : length g = n) (Hwf : wf_graph g) (v k : nat) :
  v < n ->
  (Topology.core_number (perm_graph p g) (nthn p v) k <-> Topology.core_number g v k).
Proof. exact (EquivarianceProofs.EqT.core_number_equivariant n p Hp g HL Hwf v k). Qed.
Print Assumptions core_number_equivariant.

(** Code: compute_core as coded (MinHeap arrays, stale positions and all): the core values of the renumbered
    graph are the renumbered core values - although the heap pops the nodes in another order. *)
Theorem core_equivariant (n : nat) (p : list nat) (Hp : Permutation p (seq 0 n))
        (g : graph) (HL : length g = n) (Hwf : wf_graph g) (labels : list Z) :
  (forall u, NoDup (row g u)) -> (forall u v, In v (row g u) -> In u (row g v)) ->
  Topology.compute_core g = Some labels ->
  Topology.compute_core (perm_graph p g) = Some (perm_vecz p labels).
Proof. exact (EquivarianceProofs.EqT.core_equivariant n p Hp g HL Hwf labels). Qed.
Print Assumptions core_equivariant.

(** Non-vacuity: the triangle 0-1-2 with the tail 2-3-4, renumbered by p = [2; 0; 1; 4; 3]; the hypotheses
    hold, the models compute, and the two heaps do pop in different orders. *)
Example c02_nonvacuous_topology :
  let p := [2; 0; 1; 4; 3] in
  let g := [[1; 2]; [0; 2]; [0; 1; 3]; [2; 4]; [3]] in
  Permutation p (seq 0 5) /\ wf_graph g /\ (forall u, NoDup (row g u)) /\
  (forall u v, In v (row g u) -> In u (row g v)) /\
  perm_graph p g = [[2; 1]; [2; 0; 4]; [0; 1]; [4]; [1; 3]] /\
  Topology.count_triangles g = 1 /\ Topology.count_triangles (perm_graph p g) = 1 /\
  Topology.compute_core g = Some [2; 2; 2; 1; 1]%Z /\
  Topology.compute_core (perm_graph p g) = Some [2; 2; 2; 1; 1]%Z /\
  perm_vecz p [2; 2; 2; 1; 1]%Z = [2; 2; 2; 1; 1]%Z /\
  Topology.compute_core [[1]; [0; 2; 3]; [1; 3]; [1; 2]] = Some [1; 2; 2; 2]%Z /\
  Topology.compute_core (perm_graph [3; 0; 2; 1] [[1]; [0; 2; 3]; [1; 3]; [1; 2]]) = Some [2; 2; 2; 1]%Z /\
  perm_vecz [3; 0; 2; 1] [1; 2; 2; 2]%Z = [2; 2; 2; 1]%Z /\
  Topology.count_cliques g 3 [4; 3; 0; 1; 2] = Ok 1 /\
  Topology.count_cliques (perm_graph p g) 3 [0; 1; 2; 3; 4] = Ok 1.
Proof.
  cbv zeta. split; [|split; [|split; [|split]]].
  - apply (Permutation_cons_app [0; 1] [3; 4]). simpl. do 2 apply perm_skip. apply perm_swap.
  - intros u v H. do 5 (destruct u as [|u]; [simpl in H; simpl; intuition lia|]).
    destruct u; simpl in H; contradiction.
  - intros u. do 5 (destruct u as [|u]; [unfold row; simpl; repeat constructor; simpl; intuition discriminate|]).
    destruct u; unfold row; simpl; constructor.
  - intros u v H. do 5 (destruct u as [|u]; [simpl in H; intuition (subst; simpl; tauto)|]).
    destruct u; simpl in H; contradiction.
  - repeat split; vm_compute; reflexivity.
Qed.

Set Warnings "-notation-overridden".

(** * Ranking algorithms: PageRank, Katz, closeness, betweenness.

    Vocabulary (Model/PageRank.v, Model/Centrality.v, qualified because the module is not imported):
    a weighted digraph [g : PageRank.wgraph] is a list of rows of (column, weight);
    [PageRank.wf_graph g = true]: every stored column index is < length g;
    [PageRankProofs.good_graph g]: that, and weights >= 0;  [PageRank.P g]: row-normalised transition
    matrix; [PageRank.V l]: a list read as a vector; [PageRank.bsum n f] = f 0 + ... + f (n-1);
    [perm_wrows p g] = P A P^T; [perm_vecq p x]: the vector w with w[p[i]] = x[i];
    [fun k => x (index_of k p)]: the same renumbering on vectors given as functions. *)

(* ---------------------------------------------------------------------------------------------- *)
(** ** 10. PageRank: the specification *)

(** A finite sum may be reindexed by an admissible renumbering. *)
Theorem bsum_reindex (n : nat) (p : list nat) (Hp : Permutation p (seq 0 n)) (f : nat -> Q) :
  (PageRank.bsum n f == PageRank.bsum n (fun i => f (nthn p i)))%Q.
Proof. exact (EquivarianceProofs.EqA.bsum_reindex n p Hp f). Qed.
Print Assumptions bsum_reindex.

(** The transition matrix of the renumbered graph is the renumbered transition matrix (Leibniz: the
    same stored weights are added in the same order), and sinks stay sinks. *)
Theorem pagerank_transition_perm (n : nat) (p : list nat) (Hp : Permutation p (seq 0 n))
        (g : PageRank.wgraph) (i j : nat) :
  length g = n -> PageRank.wf_graph g = true -> i < n -> j < n ->
  PageRank.P (perm_wrows p g) (nthn p i) (nthn p j) = PageRank.P g i j.
Proof. exact (EquivarianceProofs.EqA.P_perm n p Hp g i j). Qed.
Print Assumptions pagerank_transition_perm.

Theorem pagerank_has_out_perm (n : nat) (p : list nat) (Hp : Permutation p (seq 0 n))
        (g : PageRank.wgraph) (i : nat) :
  i < n -> PageRank.has_out (perm_wrows p g) (nthn p i) = PageRank.has_out g i.
Proof. exact (EquivarianceProofs.EqA.has_out_perm n p Hp g i). Qed.
Print Assumptions pagerank_has_out_perm.

(** Row normalisation commutes with the renumbering (no hypothesis at all, p any list). *)
Theorem pagerank_normalize_perm (p : list nat) (g : PageRank.wgraph) :
  PageRank.normalize (perm_wrows p g) = perm_wrows p (PageRank.normalize g).
Proof. exact (EquivarianceProofs.EqA.normalize_perm p g). Qed.
Print Assumptions pagerank_normalize_perm.

(** The hypotheses of the C04 theorems are preserved. *)
Theorem pagerank_good_graph_perm (n : nat) (p : list nat) (Hp : Permutation p (seq 0 n)) (g : PageRank.wgraph) :
  length g = n -> PageRankProofs.good_graph g -> PageRankProofs.good_graph (perm_wrows p g).
Proof. exact (EquivarianceProofs.EqA.good_graph_perm n p Hp g). Qed.
Print Assumptions pagerank_good_graph_perm.

(** The PageRank equation x = alpha P^T x + (1 - alpha) y and the PageRank vector x / sum x are
    transported by the renumbering. *)
Theorem pagerank_solution_perm (n : nat) (p : list nat) (Hp : Permutation p (seq 0 n))
        (g : PageRank.wgraph) (alpha : Q) (y x : PageRank.vec) :
  length g = n -> PageRank.wf_graph g = true ->
  PageRank.is_solution n (PageRank.P g) alpha y x ->
  PageRank.is_solution n (PageRank.P (perm_wrows p g)) alpha (fun k => y (index_of k p)) (fun k => x (index_of k p)).
Proof. exact (EquivarianceProofs.EqA.is_solution_perm n p Hp g alpha y x). Qed.
Print Assumptions pagerank_solution_perm.

Theorem pagerank_spec_perm (n : nat) (p : list nat) (Hp : Permutation p (seq 0 n))
        (g : PageRank.wgraph) (alpha : Q) (y x : PageRank.vec) :
  length g = n -> PageRank.wf_graph g = true ->
  PageRank.is_pagerank n (PageRank.P g) alpha y x ->
  PageRank.is_pagerank n (PageRank.P (perm_wrows p g)) alpha (fun k => y (index_of k p)) (fun k => x (index_of k p)).
Proof. exact (EquivarianceProofs.EqA.is_pagerank_perm n p Hp g alpha y x). Qed.
Print Assumptions pagerank_spec_perm.

Theorem pagerank_spec_perm_list (n : nat) (p : list nat) (Hp : Permutation p (seq 0 n))
        (g : PageRank.wgraph) (alpha : Q) (y x : list Q) :
  length g = n -> PageRank.wf_graph g = true ->
  PageRank.is_pagerank n (PageRank.P g) alpha (PageRank.V y) (PageRank.V x) ->
  PageRank.is_pagerank n (PageRank.P (perm_wrows p g)) alpha
                       (PageRank.V (perm_vecq p y)) (PageRank.V (perm_vecq p x)).
Proof. exact (EquivarianceProofs.EqA.is_pagerank_perm_list n p Hp g alpha y x). Qed.
Print Assumptions pagerank_spec_perm_list.

(** Equivariance of PageRank: for 0 <= alpha < 1 the PageRank vector of the renumbered graph with the
    renumbered restart distribution is the renumbered PageRank vector (uniqueness, C04, + transport). *)
Theorem pagerank_equivariant (n : nat) (p : list nat) (Hp : Permutation p (seq 0 n))
        (g : PageRank.wgraph) (alpha : Q) (y y' x x' : PageRank.vec) :
  length g = n -> PageRankProofs.good_graph g -> (0 <= alpha < 1)%Q ->
  (forall j, j < n -> (y' (nthn p j) == y j)%Q) ->
  PageRank.is_pagerank n (PageRank.P g) alpha y x ->
  PageRank.is_pagerank n (PageRank.P (perm_wrows p g)) alpha y' x' ->
  forall j, j < n -> (x' (nthn p j) == x j)%Q.
Proof. exact (EquivarianceProofs.EqA.pagerank_equivariant n p Hp g alpha y y' x x'). Qed.
Print Assumptions pagerank_equivariant.

Theorem pagerank_solution_equivariant (n : nat) (p : list nat) (Hp : Permutation p (seq 0 n))
        (g : PageRank.wgraph) (alpha : Q) (y y' x x' : PageRank.vec) :
  length g = n -> PageRankProofs.good_graph g -> (0 <= alpha < 1)%Q ->
  (forall j, j < n -> (y' (nthn p j) == y j)%Q) ->
  PageRank.is_solution n (PageRank.P g) alpha y x ->
  PageRank.is_solution n (PageRank.P (perm_wrows p g)) alpha y' x' ->
  forall j, j < n -> (x' (nthn p j) == x j)%Q.
Proof. exact (EquivarianceProofs.EqA.solution_equivariant n p Hp g alpha y y' x x'). Qed.
Print Assumptions pagerank_solution_equivariant.

(* ---------------------------------------------------------------------------------------------- *)
(** ** 11. PageRank: the coded solvers (Leibniz equality: the models store [Qred] normal forms) *)

(** RandomSurferOperator._matvec commutes with the renumbering. *)
Theorem surfer_matvec_perm (n : nat) (p : list nat) (Hp : Permutation p (seq 0 n))
        (g : PageRank.wgraph) (alpha : Q) (y x : list Q) :
  length g = n -> PageRank.wf_graph g = true ->
  PageRank.surfer_matvec (perm_wrows p g) alpha (perm_vecq p y) (perm_vecq p x) =
  perm_vecq p (PageRank.surfer_matvec g alpha y x).
Proof. exact (EquivarianceProofs.EqA.surfer_matvec_perm n p Hp g alpha y x). Qed.
Print Assumptions surfer_matvec_perm.

(** One coded power-iteration step (operator, division by the sum) ... *)
Theorem piteration_step_perm (n : nat) (p : list nat) (Hp : Permutation p (seq 0 n))
        (g : PageRank.wgraph) (alpha : Q) (y x : list Q) :
  length g = n -> PageRank.wf_graph g = true -> length x = n ->
  PageRank.piteration_step (PageRank.surfer_matvec (perm_wrows p g) alpha (perm_vecq p y)) (perm_vecq p x) =
  perm_vecq p (PageRank.piteration_step (PageRank.surfer_matvec g alpha y) x).
Proof. exact (EquivarianceProofs.EqA.piteration_step_surfer_perm n p Hp g alpha y x). Qed.
Print Assumptions piteration_step_perm.

(** ... and the whole solver, for every n_iter and every tolerance (the early-exit test compares an L1
    norm, which is a permutation-invariant sum: both runs leave the loop at the same iteration). *)
Theorem piteration_equivariant (n : nat) (p : list nat) (Hp : Permutation p (seq 0 n))
        (g : PageRank.wgraph) (alpha : Q) (y : list Q) (n_iter : nat) (tol : Q) :
  length g = n -> PageRank.wf_graph g = true -> length y = n ->
  PageRank.piteration (perm_wrows p g) alpha (perm_vecq p y) n_iter tol =
  perm_vecq p (PageRank.piteration g alpha y n_iter tol).
Proof. exact (EquivarianceProofs.EqA.piteration_equivariant n p Hp g alpha y n_iter tol). Qed.
Print Assumptions piteration_equivariant.

(** The RH solver (Polynome._matvec, Ruffini-Horner). *)
Theorem rh_equivariant (n : nat) (p : list nat) (Hp : Permutation p (seq 0 n))
        (g : PageRank.wgraph) (alpha : Q) (y : list Q) (n_iter : nat) :
  length g = n -> PageRank.wf_graph g = true -> length y = n ->
  PageRank.rh (perm_wrows p g) alpha (perm_vecq p y) n_iter = perm_vecq p (PageRank.rh g alpha y n_iter).
Proof. exact (EquivarianceProofs.EqA.rh_equivariant n p Hp g alpha y n_iter). Qed.
Print Assumptions rh_equivariant.

(** get_pagerank (dispatch + final normalisation) for the two solvers that are plain matrix iterations.
    Not claimed: bicgstab / lanczos (oracles), diteration and push (sequential sweeps, see below). *)
Theorem get_pagerank_equivariant (n : nat) (p : list nat) (Hp : Permutation p (seq 0 n))
        (g : PageRank.wgraph) (y : list Q) (alpha : Q) (n_iter : nat) (tol : Q) (s : PageRank.solver)
        (oracle : list Q) (order : list nat) (r : list Q) :
  length g = n -> PageRank.wf_graph g = true -> length y = n ->
  s = PageRank.Piteration \/ s = PageRank.RH ->
  PageRank.get_pagerank g y alpha n_iter tol s oracle order = Some r ->
  PageRank.get_pagerank (perm_wrows p g) (perm_vecq p y) alpha n_iter tol s oracle order = Some (perm_vecq p r).
Proof. exact (EquivarianceProofs.EqA.get_pagerank_equivariant n p Hp g y alpha n_iter tol s oracle order r). Qed.
Print Assumptions get_pagerank_equivariant.

(** Through exactness (C04 piteration_fixed_point): two probability vectors fixed by one coded
    power-iteration step, on the graph and on the renumbered graph, correspond. *)
Theorem piteration_fixed_points_correspond (n : nat) (p : list nat) (Hp : Permutation p (seq 0 n))
        (g : PageRank.wgraph) (alpha : Q) (y x x' : list Q) :
  length g = n -> PageRankProofs.good_graph g -> (0 <= alpha < 1)%Q ->
  (PageRank.vsum n (PageRank.V y) == 1)%Q -> (PageRank.vsum n (PageRank.V x) == 1)%Q ->
  (PageRank.vsum n (PageRank.V x') == 1)%Q ->
  (forall j, j < n ->
     (PageRank.V (PageRank.piteration_step (PageRank.surfer_matvec g alpha y) x) j == PageRank.V x j)%Q) ->
  (forall j, j < n ->
     (PageRank.V (PageRank.piteration_step (PageRank.surfer_matvec (perm_wrows p g) alpha (perm_vecq p y)) x') j
      == PageRank.V x' j)%Q) ->
  forall j, j < n -> (PageRank.V x' (nthn p j) == PageRank.V x j)%Q.
Proof. exact (EquivarianceProofs.EqA.piteration_fixed_points_correspond n p Hp g alpha y x x'). Qed.
Print Assumptions piteration_fixed_points_correspond.

(** FINDING (expected): D-iteration sweeps the nodes in index order, so a FINITE number of sweeps is not
    equivariant - only its limit, the PageRank vector, is.  Path 0 -> 1 -> 2, restart at node 0, alpha = 1/2,
    one sweep: in this numbering the fluid runs down the whole path within the sweep, after reversing the
    numbering it advances one node per sweep. *)
Theorem diteration_not_equivariant_exactly :
  exists (p : list nat) (g : PageRank.wgraph) (alpha : Q) (y : list Q),
    Permutation p (seq 0 3) /\ length g = 3 /\ PageRankProofs.good_graph g /\ (0 <= alpha < 1)%Q /\
    PageRank.diteration g alpha y 1 0 = [1 # 2; 1 # 4; 1 # 8]%Q /\
    perm_vecq p (PageRank.diteration g alpha y 1 0) = [1 # 8; 1 # 4; 1 # 2]%Q /\
    PageRank.diteration (perm_wrows p g) alpha (perm_vecq p y) 1 0 = [0; 0; 1 # 2]%Q.
Proof. exact EquivarianceProofs.EqA.diteration_not_equivariant_exactly. Qed.
Print Assumptions diteration_not_equivariant_exactly.

(** Non-vacuity: the graph of c04_nonvacuous (with a sink), p = [2; 0; 1]. *)
Example pagerank_equivariance_nonvacuous :
  let p := [2; 0; 1] in
  let g : PageRank.wgraph := [[(1, 2%Q); (2, 1%Q)]; [(2, 3%Q)]; []] in
  let y := [1 # 2; 1 # 4; 1 # 4]%Q in
  let alpha := (1 # 2)%Q in
  let xs := [1 # 4; 5 # 24; 13 # 48]%Q in
  Permutation p (seq 0 3) /\ length g = 3 /\ PageRankProofs.good_graph g /\ (0 <= alpha < 1)%Q /\
  perm_wrows p g = [[(1, 3%Q)]; []; [(0, 2%Q); (1, 1%Q)]] /\
  perm_vecq p y = [1 # 4; 1 # 4; 1 # 2]%Q /\
  PageRank.solution_check g alpha y xs = true /\
  PageRank.solution_check (perm_wrows p g) alpha (perm_vecq p y) (perm_vecq p xs) = true /\
  PageRank.piteration g alpha y 3 0 = [1063 # 3072; 5285 # 18432; 6769 # 18432]%Q /\
  PageRank.piteration (perm_wrows p g) alpha (perm_vecq p y) 3 0 = [5285 # 18432; 6769 # 18432; 1063 # 3072]%Q /\
  perm_vecq p (PageRank.piteration g alpha y 3 0) = [5285 # 18432; 6769 # 18432; 1063 # 3072]%Q /\
  PageRank.rh (perm_wrows p g) alpha (perm_vecq p y) 2 = [5 # 12; 13 # 24; 1 # 2]%Q /\
  perm_vecq p (PageRank.rh g alpha y 2) = [5 # 12; 13 # 24; 1 # 2]%Q.
Proof.
  cbv zeta. split; [apply EquivarianceProofs.EqA.is_perm_sound; reflexivity|].
  repeat split; try (vm_compute; reflexivity); try (vm_compute; congruence).
Qed.

(* ---------------------------------------------------------------------------------------------- *)
(** ** 12. Katz *)

(** The stored pattern of the renumbered graph (no hypothesis). *)
Theorem centrality_pattern_perm (p : list nat) (g : PageRank.wgraph) :
  Centrality.pattern (perm_wrows p g) = perm_graph p (Centrality.pattern g).
Proof. exact (EquivarianceProofs.EqA.pattern_perm p g). Qed.
Print Assumptions centrality_pattern_perm.

(** Specification: the number of walks of k edges ending in a node, and the Katz series. *)
Theorem walks_to_perm (n : nat) (p : list nat) (Hp : Permutation p (seq 0 n)) (q : graph) (k j : nat) :
  length q = n -> wf_graph q -> j < n ->
  (Centrality.walks_to (perm_graph p q) k (nthn p j) == Centrality.walks_to q k j)%Q.
Proof. exact (EquivarianceProofs.EqA.walks_to_perm n p Hp q k j). Qed.
Print Assumptions walks_to_perm.

Theorem katz_spec_perm (n : nat) (p : list nat) (Hp : Permutation p (seq 0 n)) (q : graph) (alpha : Q) (K j : nat) :
  length q = n -> wf_graph q -> j < n ->
  (Centrality.katz_spec (perm_graph p q) alpha K (nthn p j) == Centrality.katz_spec q alpha K j)%Q.
Proof. exact (EquivarianceProofs.EqA.katz_spec_perm n p Hp q alpha K j). Qed.
Print Assumptions katz_spec_perm.

(** Katz.fit as coded (Horner loop on the 0/1 pattern), Leibniz equality. *)
Theorem katz_equivariant (n : nat) (p : list nat) (Hp : Permutation p (seq 0 n))
        (g : PageRank.wgraph) (alpha : Q) (K : nat) :
  length g = n -> PageRank.wf_graph g = true ->
  Centrality.katz (perm_wrows p g) alpha K = perm_vecq p (Centrality.katz g alpha K).
Proof. exact (EquivarianceProofs.EqA.katz_equivariant n p Hp g alpha K). Qed.
Print Assumptions katz_equivariant.

(** The same as a corollary of exactness (C04 katz_def on both sides) and of katz_spec_perm. *)
Theorem katz_equivariant_via_spec (n : nat) (p : list nat) (Hp : Permutation p (seq 0 n))
        (g : PageRank.wgraph) (alpha : Q) (K j : nat) :
  length g = n -> PageRank.wf_graph g = true -> j < n ->
  (PageRank.V (Centrality.katz (perm_wrows p g) alpha K) (nthn p j) == PageRank.V (Centrality.katz g alpha K) j)%Q.
Proof. exact (EquivarianceProofs.EqA.katz_equivariant_via_spec n p Hp g alpha K j). Qed.
Print Assumptions katz_equivariant_via_spec.

(* ---------------------------------------------------------------------------------------------- *)
(** ** 13. Closeness *)

(** Closeness.fit, method = 'exact': one BFS per node (bfs_equivariant), then statistics of the distance
    row that do not depend on its order. *)
Theorem closeness_equivariant (n : nat) (p : list nat) (Hp : Permutation p (seq 0 n)) (g : graph) :
  length g = n -> wf_graph g ->
  Centrality.closeness_exact (perm_graph p g) = perm_vecq p (Centrality.closeness_exact g).
Proof. exact (EquivarianceProofs.EqA.closeness_equivariant n p Hp g). Qed.
Print Assumptions closeness_equivariant.

(** method = 'approximate': the random sample is an oracle; it is renumbered with the graph. *)
Theorem closeness_approx_equivariant (n : nat) (p : list nat) (Hp : Permutation p (seq 0 n))
        (g : graph) (sources : list nat) :
  length g = n -> wf_graph g -> (forall s, In s sources -> s < n) ->
  Centrality.closeness_approx (perm_graph p g) (map (nthn p) sources) =
  perm_vecq p (Centrality.closeness_approx g sources).
Proof. exact (EquivarianceProofs.EqA.closeness_approx_equivariant n p Hp g sources). Qed.
Print Assumptions closeness_approx_equivariant.

(* ---------------------------------------------------------------------------------------------- *)
(** ** 14. Betweenness *)

(** Specification: walk counts, pair dependencies sigma_st(v) / sigma_st, the sum over ordered pairs,
    the symmetry test (weights included), and the textbook betweenness vector. *)
Theorem nwalks_perm (n : nat) (p : list nat) (Hp : Permutation p (seq 0 n)) (q : graph) (k s t : nat) :
  length q = n -> wf_graph q -> s < n -> t < n ->
  (PageRank.V (Centrality.nwalks (perm_graph p q) k (nthn p s)) (nthn p t) ==
   PageRank.V (Centrality.nwalks q k s) t)%Q.
Proof. exact (EquivarianceProofs.EqA.nwalks_perm n p Hp q k s t). Qed.
Print Assumptions nwalks_perm.

Theorem pair_dependency_perm (n : nat) (p : list nat) (Hp : Permutation p (seq 0 n)) (q : graph) (s t v : nat) :
  length q = n -> wf_graph q -> s < n -> t < n -> v < n ->
  (Centrality.pair_dependency (perm_graph p q) (nthn p s) (nthn p t) (nthn p v) ==
   Centrality.pair_dependency q s t v)%Q.
Proof. exact (EquivarianceProofs.EqA.pair_dependency_perm n p Hp q s t v). Qed.
Print Assumptions pair_dependency_perm.

Theorem betweenness_ordered_perm (n : nat) (p : list nat) (Hp : Permutation p (seq 0 n)) (q : graph) (v : nat) :
  length q = n -> wf_graph q -> v < n ->
  Centrality.betweenness_ordered (perm_graph p q) (nthn p v) = Centrality.betweenness_ordered q v.
Proof. exact (EquivarianceProofs.EqA.betweenness_ordered_perm n p Hp q v). Qed.
Print Assumptions betweenness_ordered_perm.

Theorem is_symmetric_perm (n : nat) (p : list nat) (Hp : Permutation p (seq 0 n)) (g : PageRank.wgraph) :
  length g = n -> PageRank.wf_graph g = true ->
  Centrality.is_symmetric (perm_wrows p g) = Centrality.is_symmetric g.
Proof. exact (EquivarianceProofs.EqA.is_symmetric_perm n p Hp g). Qed.
Print Assumptions is_symmetric_perm.

Theorem betweenness_spec_perm (n : nat) (p : list nat) (Hp : Permutation p (seq 0 n)) (g : PageRank.wgraph) :
  length g = n -> PageRank.wf_graph g = true ->
  Centrality.betweenness_spec (perm_wrows p g) = perm_vecq p (Centrality.betweenness_spec g).
Proof. exact (EquivarianceProofs.EqA.betweenness_spec_perm n p Hp g). Qed.
Print Assumptions betweenness_spec_perm.

(** The hypotheses of C04 brandes_exact (column indices < n, no row stores a column twice) are
    preserved by the renumbering. *)
Theorem brandes_hypotheses_perm (n : nat) (p : list nat) (Hp : Permutation p (seq 0 n)) (g : PageRank.wgraph) :
  length g = n ->
  (forall u v, In v (row (Centrality.pattern g) u) -> v < length g) ->
  (forall u, NoDup (row (Centrality.pattern g) u)) ->
  (forall u v, In v (row (Centrality.pattern (perm_wrows p g)) u) -> v < length (perm_wrows p g)) /\
  (forall u, NoDup (row (Centrality.pattern (perm_wrows p g)) u)).
Proof. exact (EquivarianceProofs.EqA.brandes_hyps_perm n p Hp g). Qed.
Print Assumptions brandes_hypotheses_perm.

(** Betweenness.fit as coded (Brandes, one BFS + back-propagation per source in index order):
    betweenness_equivariant := brandes_exact o betweenness_spec_perm. *)
Theorem betweenness_equivariant (n : nat) (p : list nat) (Hp : Permutation p (seq 0 n))
        (g : PageRank.wgraph) (v : nat) :
  length g = n ->
  (forall u w, In w (row (Centrality.pattern g) u) -> w < length g) ->
  (forall u, NoDup (row (Centrality.pattern g) u)) ->
  v < n ->
  (PageRank.V (Centrality.betweenness (perm_wrows p g)) (nthn p v) == PageRank.V (Centrality.betweenness g) v)%Q.
Proof. exact (EquivarianceProofs.EqA.betweenness_equivariant n p Hp g v). Qed.
Print Assumptions betweenness_equivariant.

(** ... with Leibniz equality (every stored score is a [Qred] normal form), and with the hypotheses
    decided by the executable [rows_ok]. *)
Theorem betweenness_equivariant_eq (n : nat) (p : list nat) (Hp : Permutation p (seq 0 n)) (g : PageRank.wgraph) :
  length g = n ->
  (forall u w, In w (row (Centrality.pattern g) u) -> w < length g) ->
  (forall u, NoDup (row (Centrality.pattern g) u)) ->
  Centrality.betweenness (perm_wrows p g) = perm_vecq p (Centrality.betweenness g).
Proof. exact (EquivarianceProofs.EqA.betweenness_equivariant_eq n p Hp g). Qed.
Print Assumptions betweenness_equivariant_eq.

Theorem betweenness_equivariant_rows_ok (n : nat) (p : list nat) (Hp : Permutation p (seq 0 n)) (g : PageRank.wgraph) :
  length g = n -> BrandesProofs.rows_ok (Centrality.pattern g) = true ->
  Centrality.betweenness (perm_wrows p g) = perm_vecq p (Centrality.betweenness g).
Proof. exact (EquivarianceProofs.EqA.betweenness_equivariant_rows_ok n p Hp g). Qed.
Print Assumptions betweenness_equivariant_rows_ok.

(** Non-vacuity for Katz, closeness, betweenness: the weighted graph above; a small digraph; the directed
    diamond with a tail of brandes_nonvacuous renumbered by [3; 0; 4; 1; 2]; the undirected path
    0 - 1 - 2 - 3 (symmetric: halved) renumbered by [2; 0; 3; 1]. *)
Example centrality_equivariance_nonvacuous :
  let p := [2; 0; 1] in
  let g : PageRank.wgraph := [[(1, 2%Q); (2, 1%Q)]; [(2, 3%Q)]; []] in
  let c : graph := [[1]; [0; 2]; [1; 0]] in
  let p5 := [3; 0; 4; 1; 2] in
  let h := Centrality.graph_of_arcs 5 [(0,1);(0,2);(1,3);(2,3);(3,4)] in
  let p4 := [2; 0; 3; 1] in
  let u := Centrality.graph_of_arcs 4 [(0,1);(1,0);(1,2);(2,1);(2,3);(3,2)] in
  Permutation p (seq 0 3) /\ Permutation p5 (seq 0 5) /\ Permutation p4 (seq 0 4) /\
  PageRank.wf_graph g = true /\
  Centrality.katz g (1 # 2) 3 = [0; 1 # 2; 5 # 4]%Q /\
  Centrality.katz (perm_wrows p g) (1 # 2) 3 = [1 # 2; 5 # 4; 0]%Q /\
  perm_vecq p (Centrality.katz g (1 # 2) 3) = [1 # 2; 5 # 4; 0]%Q /\
  wf_graph c /\ perm_graph p c = [[2; 1]; [0; 2]; [0]] /\
  Centrality.closeness_exact c = [2 # 3; 1; 1]%Q /\
  Centrality.closeness_exact (perm_graph p c) = [1; 1; 2 # 3]%Q /\
  perm_vecq p (Centrality.closeness_exact c) = [1; 1; 2 # 3]%Q /\
  Centrality.closeness_approx (perm_graph p c) (map (nthn p) [1; 2]) = [4 # 3; 4 # 3; 2 # 3]%Q /\
  perm_vecq p (Centrality.closeness_approx c [1; 2]) = [4 # 3; 4 # 3; 2 # 3]%Q /\
  BrandesProofs.rows_ok (Centrality.pattern h) = true /\ Centrality.is_symmetric h = false /\
  perm_wrows p5 h = [[(1, 1%Q)]; [(2, 1%Q)]; []; [(0, 1%Q); (4, 1%Q)]; [(1, 1%Q)]] /\
  Centrality.betweenness h = [0; 1; 1; 3; 0]%Q /\
  Centrality.betweenness (perm_wrows p5 h) = [1; 3; 0; 0; 1]%Q /\
  perm_vecq p5 (Centrality.betweenness h) = [1; 3; 0; 0; 1]%Q /\
  BrandesProofs.rows_ok (Centrality.pattern u) = true /\ Centrality.is_symmetric u = true /\
  Centrality.betweenness u = [0; 2; 2; 0]%Q /\
  Centrality.betweenness (perm_wrows p4 u) = [2; 0; 0; 2]%Q /\
  perm_vecq p4 (Centrality.betweenness u) = [2; 0; 0; 2]%Q.
Proof.
  cbv zeta.
  split; [apply EquivarianceProofs.EqA.is_perm_sound; reflexivity|].
  split; [apply EquivarianceProofs.EqA.is_perm_sound; reflexivity|].
  split; [apply EquivarianceProofs.EqA.is_perm_sound; reflexivity|].
  split; [reflexivity|]. split; [vm_compute; reflexivity|]. split; [vm_compute; reflexivity|].
  split; [vm_compute; reflexivity|].
  split.
  { intros a b H. destruct a as [|[|[|a]]]; cbn in H; cbn; try lia; try contradiction.
    destruct a; contradiction. }
  repeat split; vm_compute; reflexivity.
Qed.

(** * 15. Metrics that are INVARIANT under a renumbering of the nodes

    ** 15.1 Modularity (Model/Modularity.v).
    The graph is a square weighted matrix g (rows of (column, weight) pairs, duplicates summed) with
    [length g = n] and column indices below n ([Modularity.wf_wgraph]); renumbering by p gives
    [perm_wrows p g] = P A P^T and the labelling [perm_vec 0%nat p labels] (node p[i] keeps the label of i). *)

(** A finite sum over 0..n-1 can be read in the order p[0], p[1], ... *)
Theorem modularity_qsum_reindex (n : nat) (p : list nat) (Hp : Permutation p (seq 0 n)) (f : nat -> Q) :
  (Modularity.qsum n f == Modularity.qsum n (fun i => f (nthn p i)))%Q.
Proof. exact (EquivarianceProofs.EqB_Mod.qsum_reindex n p Hp f). Qed.
Print Assumptions modularity_qsum_reindex.

(** Entry (p i, p j) of the renumbered matrix is entry (i, j) of the original one; the renumbered
    matrix is again square and well formed. *)
Theorem modularity_entry_renumbered (n : nat) (p : list nat) (Hp : Permutation p (seq 0 n))
        (g : Modularity.wgraph) (i j : nat) :
  length g = n -> Modularity.wf_wgraph g -> i < n -> j < n ->
  (Modularity.entry (perm_wrows p g) (nthn p i) (nthn p j) == Modularity.entry g i j)%Q.
Proof. exact (EquivarianceProofs.EqB_Mod.pw_entry n p Hp g i j). Qed.
Print Assumptions modularity_entry_renumbered.

Theorem modularity_renumbered_wf (n : nat) (p : list nat) (Hp : Permutation p (seq 0 n))
        (g : Modularity.wgraph) :
  length g = n -> Modularity.wf_wgraph g ->
  length (perm_wrows p g) = n /\ Modularity.wf_wgraph (perm_wrows p g).
Proof. exact (fun HL Hwf => conj (EquivarianceProofs.EqB_Mod.pw_length n p Hp g) (EquivarianceProofs.EqB_Mod.pw_wf n p Hp g HL Hwf)). Qed.
Print Assumptions modularity_renumbered_wf.

(** Total weight, out- and in-degrees (as the specification defines them) are renumbered. *)
Theorem modularity_total_weight_renumbered (n : nat) (p : list nat) (Hp : Permutation p (seq 0 n))
        (g : Modularity.wgraph) :
  length g = n -> Modularity.wf_wgraph g ->
  (Modularity.total_weight (perm_wrows p g) == Modularity.total_weight g)%Q.
Proof. exact (EquivarianceProofs.EqB_Mod.pw_total_weight n p Hp g). Qed.
Print Assumptions modularity_total_weight_renumbered.

Theorem modularity_out_deg_renumbered (n : nat) (p : list nat) (Hp : Permutation p (seq 0 n))
        (g : Modularity.wgraph) (i : nat) :
  length g = n -> Modularity.wf_wgraph g -> i < n ->
  (Modularity.spec_out_deg (perm_wrows p g) (nthn p i) == Modularity.spec_out_deg g i)%Q.
Proof. exact (EquivarianceProofs.EqB_Mod.pw_spec_out_deg n p Hp g i). Qed.
Print Assumptions modularity_out_deg_renumbered.

Theorem modularity_in_deg_renumbered (n : nat) (p : list nat) (Hp : Permutation p (seq 0 n))
        (g : Modularity.wgraph) (j : nat) :
  length g = n -> Modularity.wf_wgraph g -> j < n ->
  (Modularity.spec_in_deg (perm_wrows p g) (nthn p j) == Modularity.spec_in_deg g j)%Q.
Proof. exact (EquivarianceProofs.EqB_Mod.pw_spec_in_deg n p Hp g j). Qed.
Print Assumptions modularity_in_deg_renumbered.

(** Two renumbered nodes share a cluster iff the original nodes do. *)
Theorem modularity_delta_renumbered (n : nat) (p : list nat) (Hp : Permutation p (seq 0 n))
        (labels : list nat) (i j : nat) :
  i < n -> j < n ->
  Modularity.delta (perm_vec 0%nat p labels) (nthn p i) (nthn p j) = Modularity.delta labels i j.
Proof. exact (EquivarianceProofs.EqB_Mod.pv_delta n p Hp labels i j). Qed.
Print Assumptions modularity_delta_renumbered.

(** The textbook modularity (directed / degree form, uniform / Potts form) and the fit term do not
    depend on the numbering of the nodes. *)
Theorem spec_modularity_invariant (n : nat) (p : list nat) (Hp : Permutation p (seq 0 n))
        (g : Modularity.wgraph) (labels : list nat) (gamma : Q) :
  length g = n -> Modularity.wf_wgraph g ->
  (Modularity.spec_modularity (perm_wrows p g) (perm_vec 0%nat p labels) gamma
   == Modularity.spec_modularity g labels gamma)%Q.
Proof. exact (EquivarianceProofs.EqB_Mod.spec_modularity_invariant n p Hp g labels gamma). Qed.
Print Assumptions spec_modularity_invariant.

Theorem spec_modularity_uniform_invariant (n : nat) (p : list nat) (Hp : Permutation p (seq 0 n))
        (g : Modularity.wgraph) (labels : list nat) (gamma : Q) :
  length g = n -> Modularity.wf_wgraph g ->
  (Modularity.spec_modularity_uniform (perm_wrows p g) (perm_vec 0%nat p labels) gamma
   == Modularity.spec_modularity_uniform g labels gamma)%Q.
Proof. exact (EquivarianceProofs.EqB_Mod.spec_modularity_uniform_invariant n p Hp g labels gamma). Qed.
Print Assumptions spec_modularity_uniform_invariant.

Theorem spec_fit_invariant (n : nat) (p : list nat) (Hp : Permutation p (seq 0 n))
        (g : Modularity.wgraph) (labels : list nat) :
  length g = n -> Modularity.wf_wgraph g ->
  (Modularity.spec_fit (perm_wrows p g) (perm_vec 0%nat p labels) == Modularity.spec_fit g labels)%Q.
Proof. exact (EquivarianceProofs.EqB_Mod.spec_fit_invariant n p Hp g labels). Qed.
Print Assumptions spec_fit_invariant.

(** The CODED get_modularity on a square matrix gives the same answer for the renumbered graph and
    labelling: the same (modularity, fit, diversity) triple with Leibniz equality (the model stores
    reduced fractions), or the same error.  Unconditional: no assumption that either call returns. *)
Theorem get_modularity_invariant (n : nat) (p : list nat) (Hp : Permutation p (seq 0 n))
        (m : Modularity.wmat) (labels : list nat) (labels_col : option (list nat))
        (wk : Modularity.weighting) (gamma : Q) :
  Modularity.w_nrow m = n -> Modularity.w_ncol m = n -> Modularity.wf_wgraph (Modularity.w_rows m) ->
  length labels = n ->
  Modularity.get_modularity
    {| Modularity.w_ncol := n; Modularity.w_rows := perm_wrows p (Modularity.w_rows m) |}
    (perm_vec 0%nat p labels) labels_col wk gamma
  = Modularity.get_modularity m labels labels_col wk gamma.
Proof. exact (EquivarianceProofs.EqB_Mod.get_modularity_invariant n p Hp m labels labels_col wk gamma). Qed.
Print Assumptions get_modularity_invariant.

(** The conditional reading: whenever both calls return, the triples are equal. *)
Theorem modularity_invariant (n : nat) (p : list nat) (Hp : Permutation p (seq 0 n))
        (m : Modularity.wmat) (labels : list nat) (labels_col : option (list nat))
        (wk : Modularity.weighting) (gamma md ft dv md' ft' dv' : Q) :
  Modularity.w_nrow m = n -> Modularity.w_ncol m = n -> Modularity.wf_wgraph (Modularity.w_rows m) ->
  length labels = n ->
  Modularity.get_modularity m labels labels_col wk gamma = Modularity.MOk (md, ft, dv) ->
  Modularity.get_modularity
    {| Modularity.w_ncol := n; Modularity.w_rows := perm_wrows p (Modularity.w_rows m) |}
    (perm_vec 0%nat p labels) labels_col wk gamma = Modularity.MOk (md', ft', dv') ->
  md = md' /\ ft = ft' /\ dv = dv'.
Proof.
  exact (EquivarianceProofs.EqB_Mod.modularity_invariant n p Hp m labels labels_col wk gamma md ft dv md' ft' dv').
Qed.
Print Assumptions modularity_invariant.

(** ... and the renumbered call returns whenever the original one does. *)
Theorem modularity_invariant_returns (n : nat) (p : list nat) (Hp : Permutation p (seq 0 n))
        (m : Modularity.wmat) (labels : list nat) (labels_col : option (list nat))
        (wk : Modularity.weighting) (gamma md ft dv : Q) :
  Modularity.w_nrow m = n -> Modularity.w_ncol m = n -> Modularity.wf_wgraph (Modularity.w_rows m) ->
  length labels = n ->
  Modularity.get_modularity m labels labels_col wk gamma = Modularity.MOk (md, ft, dv) ->
  Modularity.get_modularity
    {| Modularity.w_ncol := n; Modularity.w_rows := perm_wrows p (Modularity.w_rows m) |}
    (perm_vec 0%nat p labels) labels_col wk gamma = Modularity.MOk (md, ft, dv).
Proof.
  exact (EquivarianceProofs.EqB_Mod.modularity_invariant_returns n p Hp m labels labels_col wk gamma md ft dv).
Qed.
Print Assumptions modularity_invariant_returns.

(** Composition with exactness (C06 modularity_def): what the renumbered call returns is the textbook
    modularity of the ORIGINAL graph and labelling. *)
Theorem modularity_renumbered_is_spec (n : nat) (p : list nat) (Hp : Permutation p (seq 0 n))
        (m : Modularity.wmat) (labels : list nat) (labels_col : option (list nat))
        (wk : Modularity.weighting) (gamma md ft dv : Q) :
  Modularity.w_nrow m = n -> Modularity.w_ncol m = n -> Modularity.wf_wgraph (Modularity.w_rows m) ->
  length labels = n ->
  Modularity.get_modularity
    {| Modularity.w_ncol := n; Modularity.w_rows := perm_wrows p (Modularity.w_rows m) |}
    (perm_vec 0%nat p labels) labels_col wk gamma = Modularity.MOk (md, ft, dv) ->
  (md == match wk with
         | Modularity.Degree => Modularity.spec_modularity (Modularity.w_rows m) labels gamma
         | Modularity.Uniform => Modularity.spec_modularity_uniform (Modularity.w_rows m) labels gamma
         end)%Q /\ (ft == Modularity.spec_fit (Modularity.w_rows m) labels)%Q.
Proof.
  exact (EquivarianceProofs.EqB_Mod.modularity_invariant_spec n p Hp m labels labels_col wk gamma md ft dv).
Qed.
Print Assumptions modularity_renumbered_is_spec.

(** Non-vacuity: a directed weighted graph on 3 nodes (one duplicated entry), p = [2; 0; 1]. *)
Example c02_modularity_nonvacuous :
  let p := [2; 0; 1] in
  let g := [[(1, 1%Q); (2, 2%Q); (1, (1 # 2)%Q)]; [(0, 1%Q); (2, (1 # 2)%Q)]; [(0, 2%Q)]] in
  let m := {| Modularity.w_ncol := 3; Modularity.w_rows := g |} in
  let m' := {| Modularity.w_ncol := 3; Modularity.w_rows := perm_wrows p g |} in
  let labels := [0; 0; 1] in
  Permutation p (seq 0 3) /\ Modularity.w_nrow m = 3 /\ Modularity.wf_wgraph g /\
  perm_wrows p g = [[(2, 1%Q); (1, (1 # 2)%Q)]; [(2, 2%Q)]; [(0, 1%Q); (1, 2%Q); (0, (1 # 2)%Q)]] /\
  perm_vec 0%nat p labels = [0; 1; 0] /\
  Modularity.get_modularity m labels None Modularity.Degree 1%Q
    = Modularity.MOk ((-10 # 49)%Q, (5 # 14)%Q, (55 # 98)%Q) /\
  Modularity.get_modularity m' (perm_vec 0%nat p labels) None Modularity.Degree 1%Q
    = Modularity.MOk ((-10 # 49)%Q, (5 # 14)%Q, (55 # 98)%Q) /\
  Modularity.get_modularity m labels None Modularity.Uniform (1 # 2)%Q
    = Modularity.MOk ((5 # 63)%Q, (5 # 14)%Q, (5 # 9)%Q) /\
  Modularity.get_modularity m' (perm_vec 0%nat p labels) None Modularity.Uniform (1 # 2)%Q
    = Modularity.MOk ((5 # 63)%Q, (5 # 14)%Q, (5 # 9)%Q) /\
  (Modularity.spec_modularity (perm_wrows p g) (perm_vec 0%nat p labels) 1 == -10 # 49)%Q.
Proof.
  cbv zeta. split; [|split; [|split]].
  - apply NoDup_Permutation; [repeat constructor; simpl; intuition lia | apply seq_NoDup |].
    intros x. simpl. intuition lia.
  - reflexivity.
  - apply ModularityProofs.wf_wgraphb_ok. vm_compute. reflexivity.
  - repeat split; vm_compute; reflexivity.
Qed.

(** ** 15.2 Dasgupta cost (Model/Dendrogram.v, Model/Cuts.v).
    The graph is a COO list of edges (u, v, weight); the dendrogram has one row (left, right, height,
    size) per merge, a child id below n being a LEAF (a node) and n + t the cluster made by row t.
    The permutation action on this model ([EquivarianceProofs.EqB_Das]):
      [relabel_id n p c]         = p[c] for a leaf c < n, c otherwise;
      [relabel_dendrogram n p D] = every child id relabelled, heights and sizes kept;
      [relabel_edges p G]        = both endpoints mapped by p, weights kept. *)

(** Validity does not depend on the numbering of the leaves. *)
Theorem dendrogram_valid_renumbered (n : nat) (p : list nat) (Hp : Permutation p (seq 0 n))
        (D : Dendrogram.dendrogram) :
  Dendrogram.valid n (EquivarianceProofs.EqB_Das.relabel_dendrogram n p D) = Dendrogram.valid n D.
Proof. exact (EquivarianceProofs.EqB_Das.valid_relabel n p Hp D). Qed.
Print Assumptions dendrogram_valid_renumbered.

(** Leaf sets, the clusters of the tree and the smallest cluster containing two nodes are renumbered. *)
Theorem dendrogram_leaves_renumbered (n : nat) (p : list nat) (Hp : Permutation p (seq 0 n))
        (D : Dendrogram.dendrogram) (c : nat) :
  Dendrogram.valid n D = true -> c < n + length D ->
  Dendrogram.leaves n (EquivarianceProofs.EqB_Das.relabel_dendrogram n p D) (EquivarianceProofs.EqB_Das.relabel_id n p c)
  = map (nthn p) (Dendrogram.leaves n D c).
Proof. exact (EquivarianceProofs.EqB_Das.leaves_relabel_valid n p Hp D c). Qed.
Print Assumptions dendrogram_leaves_renumbered.

Theorem tree_clusters_renumbered (n : nat) (p : list nat) (Hp : Permutation p (seq 0 n))
        (D : Dendrogram.dendrogram) :
  Dendrogram.valid n D = true ->
  Cuts.tree_clusters n (EquivarianceProofs.EqB_Das.relabel_dendrogram n p D) = map (map (nthn p)) (Cuts.tree_clusters n D).
Proof. exact (EquivarianceProofs.EqB_Das.tree_clusters_relabel_valid n p Hp D). Qed.
Print Assumptions tree_clusters_renumbered.

Theorem smallest_common_renumbered (n : nat) (p : list nat) (Hp : Permutation p (seq 0 n))
        (D : Dendrogram.dendrogram) (u v : nat) :
  Dendrogram.valid n D = true -> u < n -> v < n ->
  Cuts.smallest_common n (EquivarianceProofs.EqB_Das.relabel_dendrogram n p D) (nthn p u) (nthn p v)
  = map (nthn p) (Cuts.smallest_common n D u v).
Proof. exact (EquivarianceProofs.EqB_Das.smallest_common_relabel_valid n p Hp D u v). Qed.
Print Assumptions smallest_common_renumbered.

(** Node and total weights of the edge list are renumbered (Leibniz: the same sums are built). *)
Theorem edges_total_weight_renumbered (p : list nat) (G : Cuts.wgraph) :
  Cuts.total_weight (EquivarianceProofs.EqB_Das.relabel_edges p G) = Cuts.total_weight G.
Proof. exact (EquivarianceProofs.EqB_Das.total_weight_relabel p G). Qed.
Print Assumptions edges_total_weight_renumbered.

Theorem edges_out_weight_renumbered (n : nat) (p : list nat) (Hp : Permutation p (seq 0 n))
        (G : Cuts.wgraph) (u : nat) :
  (forall e, In e G -> Cuts.e_src e < n /\ Cuts.e_dst e < n) -> u < n ->
  Cuts.out_weight (EquivarianceProofs.EqB_Das.relabel_edges p G) (nthn p u) = Cuts.out_weight G u.
Proof. exact (EquivarianceProofs.EqB_Das.out_weight_relabel n p Hp G u). Qed.
Print Assumptions edges_out_weight_renumbered.

Theorem edges_in_weight_renumbered (n : nat) (p : list nat) (Hp : Permutation p (seq 0 n))
        (G : Cuts.wgraph) (v : nat) :
  (forall e, In e G -> Cuts.e_src e < n /\ Cuts.e_dst e < n) -> v < n ->
  Cuts.in_weight (EquivarianceProofs.EqB_Das.relabel_edges p G) (nthn p v) = Cuts.in_weight G v.
Proof. exact (EquivarianceProofs.EqB_Das.in_weight_relabel n p Hp G v). Qed.
Print Assumptions edges_in_weight_renumbered.

(** The specification of Dasgupta's cost (edge-weighted average of the size / volume of the smallest
    common cluster) does not depend on the numbering of the nodes. *)
Theorem dasgupta_spec_invariant (n : nat) (p : list nat) (Hp : Permutation p (seq 0 n))
        (degree : bool) (G : Cuts.wgraph) (D : Dendrogram.dendrogram) :
  Dendrogram.valid n D = true -> (forall e, In e G -> Cuts.e_src e < n /\ Cuts.e_dst e < n) ->
  Cuts.dasgupta_spec degree n (EquivarianceProofs.EqB_Das.relabel_edges p G) (EquivarianceProofs.EqB_Das.relabel_dendrogram n p D)
  = Cuts.dasgupta_spec degree n G D.
Proof. exact (EquivarianceProofs.EqB_Das.dasgupta_spec_invariant_valid n p Hp degree G D). Qed.
Print Assumptions dasgupta_spec_invariant.

(** The CODED cost (replay of get_sampling_distributions over the AggregateGraph), under the premises
    of C08 dasgupta_is_lca_average for (G, D): both calls return, and return the SAME rational
    (Leibniz equality), which is the specification. *)
Theorem dasgupta_invariant (n : nat) (p : list nat) (Hp : Permutation p (seq 0 n))
        (degree : bool) (G : Cuts.wgraph) (D : Dendrogram.dendrogram) :
  Dendrogram.valid n D = true ->
  (forall e, In e G -> Cuts.e_src e < n /\ Cuts.e_dst e < n /\ Cuts.e_src e <> Cuts.e_dst e) ->
  (0 < Cuts.total_weight G)%Q -> 2 <= n -> G <> [] ->
  exists c,
    Cuts.dasgupta_cost degree n G D false = Cuts.Ok c /\
    Cuts.dasgupta_cost degree n (EquivarianceProofs.EqB_Das.relabel_edges p G) (EquivarianceProofs.EqB_Das.relabel_dendrogram n p D) false
      = Cuts.Ok c /\
    (c == Cuts.dasgupta_spec degree n G D)%Q.
Proof. exact (EquivarianceProofs.EqB_Das.dasgupta_invariant n p Hp degree G D). Qed.
Print Assumptions dasgupta_invariant.

(** The same for the normalised cost and for dasgupta_score = 1 - normalised cost. *)
Theorem dasgupta_normalized_invariant (n : nat) (p : list nat) (Hp : Permutation p (seq 0 n))
        (degree : bool) (G : Cuts.wgraph) (D : Dendrogram.dendrogram) :
  Dendrogram.valid n D = true ->
  (forall e, In e G -> Cuts.e_src e < n /\ Cuts.e_dst e < n /\ Cuts.e_src e <> Cuts.e_dst e) ->
  (0 < Cuts.total_weight G)%Q -> 2 <= n -> G <> [] ->
  exists x,
    Cuts.dasgupta_cost degree n G D true = Cuts.Ok x /\
    Cuts.dasgupta_cost degree n (EquivarianceProofs.EqB_Das.relabel_edges p G) (EquivarianceProofs.EqB_Das.relabel_dendrogram n p D) true
      = Cuts.Ok x.
Proof. exact (EquivarianceProofs.EqB_Das.dasgupta_normalized_invariant n p Hp degree G D). Qed.
Print Assumptions dasgupta_normalized_invariant.

Theorem dasgupta_score_invariant (n : nat) (p : list nat) (Hp : Permutation p (seq 0 n))
        (degree : bool) (G : Cuts.wgraph) (D : Dendrogram.dendrogram) :
  Dendrogram.valid n D = true ->
  (forall e, In e G -> Cuts.e_src e < n /\ Cuts.e_dst e < n /\ Cuts.e_src e <> Cuts.e_dst e) ->
  (0 < Cuts.total_weight G)%Q -> 2 <= n -> G <> [] ->
  exists s,
    Cuts.dasgupta_score degree n G D = Cuts.Ok s /\
    Cuts.dasgupta_score degree n (EquivarianceProofs.EqB_Das.relabel_edges p G) (EquivarianceProofs.EqB_Das.relabel_dendrogram n p D)
      = Cuts.Ok s.
Proof. exact (EquivarianceProofs.EqB_Das.dasgupta_score_invariant n p Hp degree G D). Qed.
Print Assumptions dasgupta_score_invariant.

(** Non-vacuity: the 5-leaf dendrogram and the graph of C08, renumbered by p = [2; 0; 1; 4; 3]. *)
Example c02_dasgupta_nonvacuous :
  let p := [2; 0; 1; 4; 3] in
  let D := [(0, 1, 2%Q, 2); (2, 3, 1%Q, 2); (5, 4, 3%Q, 3); (6, 7, 4%Q, 5)] in
  let G := [(0, 1, 1%Q); (1, 0, 1%Q); (1, 2, 2%Q); (2, 1, 2%Q); (0, 3, 1%Q); (3, 0, 1%Q); (3, 4, 3%Q); (4, 3, 3%Q)] in
  let D' := EquivarianceProofs.EqB_Das.relabel_dendrogram 5 p D in
  let G' := EquivarianceProofs.EqB_Das.relabel_edges p G in
  Permutation p (seq 0 5) /\
  (forall e, In e G -> Cuts.e_src e < 5 /\ Cuts.e_dst e < 5 /\ Cuts.e_src e <> Cuts.e_dst e) /\
  Dendrogram.valid 5 D = true /\ Dendrogram.valid 5 D' = true /\
  (0 < Cuts.total_weight G)%Q /\
  D' = [(2, 0, 2%Q, 2); (1, 4, 1%Q, 2); (5, 3, 3%Q, 3); (6, 7, 4%Q, 5)] /\
  G' = [(2, 0, 1%Q); (0, 2, 1%Q); (0, 1, 2%Q); (1, 0, 2%Q); (2, 4, 1%Q); (4, 2, 1%Q); (4, 3, 3%Q); (3, 4, 3%Q)] /\
  Dendrogram.leaves 5 D 7 = [0; 1; 4] /\ Dendrogram.leaves 5 D' 7 = [2; 0; 3] /\
  Cuts.smallest_common 5 D 1 2 = [2; 3; 0; 1; 4] /\ Cuts.smallest_common 5 D' 0 1 = [1; 4; 2; 0; 3] /\
  Cuts.dasgupta_cost false 5 G D false = Cuts.Ok (32 # 7)%Q /\
  Cuts.dasgupta_cost false 5 G' D' false = Cuts.Ok (32 # 7)%Q /\
  Cuts.dasgupta_cost true 5 G D false = Cuts.Ok (89 # 7)%Q /\
  Cuts.dasgupta_cost true 5 G' D' false = Cuts.Ok (89 # 7)%Q /\
  Cuts.dasgupta_score false 5 G D = Cuts.Ok (3 # 35)%Q /\
  Cuts.dasgupta_score false 5 G' D' = Cuts.Ok (3 # 35)%Q.
Proof.
  cbv zeta. split; [|split].
  - apply NoDup_Permutation; [repeat constructor; simpl; intuition lia | apply seq_NoDup |].
    intros x. simpl. intuition lia.
  - intros e He. simpl in He.
    repeat (destruct He as [<-|He]; [vm_compute; repeat split; (lia || discriminate)|]). destruct He.
  - repeat split; vm_compute; reflexivity.
Qed.

(** ** 16. Heat diffusion and Dirichlet (Model/Diffusion.v) commute with renumbering.
    Assumed throughout: [Permutation p (seq 0 n)], [length adj = n], column indices [< n]
    ([Format.wf_rows n adj]; implied by [Diffusion.wf_rows n adj], non-negativity is NOT needed).
    No hypothesis on the lengths of [border], [temps], [v].  All equalities are Leibniz: the model
    stores [Qred] of every product. *)

(** [normalize] (row-wise L1 normalisation) commutes exactly with P . P^T; no hypothesis. *)
Theorem diffusion_normalize_perm (p : list nat) (adj : list Diffusion.wrow) :
  Diffusion.normalize (perm_wrows p adj) = perm_wrows p (Diffusion.normalize adj).
Proof. exact (EquivarianceProofs.EqC.normalize_perm p adj). Qed.
Print Assumptions diffusion_normalize_perm.

(** The reducing product [Diffusion.matvec] (it stores [Qred (row . v)]) commutes with renumbering. *)
Theorem diffusion_model_matvec_perm (n : nat) (p : list nat) (Hp : Permutation p (seq 0 n))
        (a : list Diffusion.wrow) (x : list Q) :
  wf_rows n a ->
  Diffusion.matvec (perm_wrows p a) (perm_vecq p x) = perm_vecq p (Diffusion.matvec a x).
Proof. exact (EquivarianceProofs.EqC.dmatvec_perm n p Hp a x). Qed.
Print Assumptions diffusion_model_matvec_perm.

(** One Dirichlet step (product with the transition matrix, then re-imposing the boundary values). *)
Theorem dirichlet_step_equivariant (n : nat) (p : list nat) (Hp : Permutation p (seq 0 n))
        (P : list Diffusion.wrow) (border : list bool) (temps v : list Q) :
  length P = n -> wf_rows n P ->
  Diffusion.dirichlet_step (perm_wrows p P) (perm_vecb p border) (perm_vecq p temps) (perm_vecq p v)
  = perm_vecq p (Diffusion.dirichlet_step P border temps v).
Proof. exact (EquivarianceProofs.EqC.dirichlet_step_perm n p Hp P border temps v). Qed.
Print Assumptions dirichlet_step_equivariant.

(** Dirichlet.fit's iteration, any number of iterations. *)
Theorem dirichlet_core_equivariant (n : nat) (p : list nat) (Hp : Permutation p (seq 0 n))
        (n_iter : nat) (adj : list Diffusion.wrow) (border : list bool) (temps : list Q) :
  length adj = n -> wf_rows n adj ->
  Diffusion.dirichlet_core n_iter (perm_wrows p adj) (perm_vecb p border) (perm_vecq p temps)
  = perm_vecq p (Diffusion.dirichlet_core n_iter adj border temps).
Proof. exact (EquivarianceProofs.EqC.dirichlet_core_perm n p Hp n_iter adj border temps). Qed.
Print Assumptions dirichlet_core_equivariant.

(** Diffusion.fit's operator (1-a) I + a normalize(A^T) (identity on null rows).  Transposing the
    renumbered matrix lists the stored entries of a row in ANOTHER ORDER (and the row norms are sums
    in another order): row p(i) of the new operator and the renumbered row i of the old one agree up to
    a permutation of the stored entries and [==] on the weights; the reduced products are equal. *)
Theorem diffusion_operator_row_equivariant (n : nat) (p : list nat) (Hp : Permutation p (seq 0 n))
        (alpha : Q) (adj : list Diffusion.wrow) (i : nat) :
  length adj = n -> wf_rows n adj -> i < n ->
  exists m,
    Permutation (Diffusion.wrow_of (Diffusion.diffusion_operator alpha (perm_wrows p adj)) (nthn p i)) m /\
    Forall2 (fun e e' : nat * Q => fst e = fst e' /\ (snd e == snd e')%Q) m
            (map (fun e : nat * Q => (nthn p (fst e), snd e))
                 (Diffusion.wrow_of (Diffusion.diffusion_operator alpha adj) i)).
Proof. exact (EquivarianceProofs.EqC.diffusion_operator_row_perm n p Hp alpha adj i). Qed.
Print Assumptions diffusion_operator_row_equivariant.

Theorem diffusion_step_equivariant (n : nat) (p : list nat) (Hp : Permutation p (seq 0 n))
        (alpha : Q) (adj : list Diffusion.wrow) (v : list Q) :
  length adj = n -> wf_rows n adj ->
  Diffusion.matvec (Diffusion.diffusion_operator alpha (perm_wrows p adj)) (perm_vecq p v)
  = perm_vecq p (Diffusion.matvec (Diffusion.diffusion_operator alpha adj) v).
Proof. exact (EquivarianceProofs.EqC.diffusion_matvec_perm n p Hp alpha adj v). Qed.
Print Assumptions diffusion_step_equivariant.

Theorem diffusion_core_equivariant (n : nat) (p : list nat) (Hp : Permutation p (seq 0 n))
        (n_iter : nat) (alpha : Q) (adj : list Diffusion.wrow) (temps : list Q) :
  length adj = n -> wf_rows n adj ->
  Diffusion.diffusion_core n_iter alpha (perm_wrows p adj) (perm_vecq p temps)
  = perm_vecq p (Diffusion.diffusion_core n_iter alpha adj temps).
Proof. exact (EquivarianceProofs.EqC.diffusion_core_perm n p Hp n_iter alpha adj temps). Qed.
Print Assumptions diffusion_core_equivariant.

(** init_temperatures: boundary = seeds >= 0; free nodes start at [init] or at the mean of the seeds
    (a reduced sum over a rearrangement of the same list). *)
Theorem init_temperatures_equivariant (n : nat) (p : list nat) (Hp : Permutation p (seq 0 n))
        (seeds : list Q) (init : option Q) (temps : list Q) (border : list bool) :
  length seeds = n ->
  Diffusion.init_temperatures seeds init = Diffusion.Ok (temps, border) ->
  Diffusion.init_temperatures (perm_vecq p seeds) init
  = Diffusion.Ok (perm_vecq p temps, perm_vecb p border).
Proof. exact (EquivarianceProofs.EqC.init_temperatures_perm n p Hp seeds init temps border). Qed.
Print Assumptions init_temperatures_equivariant.

(** The whole [fit] (square matrix, seeds as an array of length n, no bipartite treatment): check_format,
    get_adjacency_values, init_temperatures, the iteration, _split_vars. *)
Theorem dirichlet_fit_equivariant (n : nat) (p : list nat) (Hp : Permutation p (seq 0 n))
        (n_iter : nat) (m : Diffusion.wmat) (l : list Q) (init : option Q) (v : list Q) :
  Diffusion.w_nrow m = n -> Diffusion.w_ncol m = n -> wf_rows n (Diffusion.w_rows m) ->
  Diffusion.dirichlet_fit n_iter m (Some (Diffusion.SArray l)) None None init false = Diffusion.Ok (v, None) ->
  Diffusion.dirichlet_fit n_iter
    {| Diffusion.w_ncol := Diffusion.w_ncol m; Diffusion.w_rows := perm_wrows p (Diffusion.w_rows m) |}
    (Some (Diffusion.SArray (perm_vecq p l))) None None init false
  = Diffusion.Ok (perm_vecq p v, None).
Proof. exact (EquivarianceProofs.EqC.dirichlet_fit_perm n p Hp n_iter m l init v). Qed.
Print Assumptions dirichlet_fit_equivariant.

Theorem diffusion_fit_equivariant (n : nat) (p : list nat) (Hp : Permutation p (seq 0 n))
        (n_iter : nat) (alpha : Q) (m : Diffusion.wmat) (l : list Q) (init : option Q) (v : list Q) :
  Diffusion.w_nrow m = n -> Diffusion.w_ncol m = n -> wf_rows n (Diffusion.w_rows m) ->
  Diffusion.diffusion_fit n_iter alpha m (Some (Diffusion.SArray l)) None None init false = Diffusion.Ok (v, None) ->
  Diffusion.diffusion_fit n_iter alpha
    {| Diffusion.w_ncol := Diffusion.w_ncol m; Diffusion.w_rows := perm_wrows p (Diffusion.w_rows m) |}
    (Some (Diffusion.SArray (perm_vecq p l))) None None init false
  = Diffusion.Ok (perm_vecq p v, None).
Proof. exact (EquivarianceProofs.EqC.diffusion_fit_perm n p Hp n_iter alpha m l init v). Qed.
Print Assumptions diffusion_fit_equivariant.

(** The SPECIFICATION (textbook Dirichlet problem: f = seeds on the boundary, weighted mean of the
    neighbours elsewhere) is equivariant... *)
Theorem harmonic_equivariant (n : nat) (p : list nat) (Hp : Permutation p (seq 0 n))
        (adj : list Diffusion.wrow) (border : list bool) (temps f : list Q) :
  length adj = n -> wf_rows n adj ->
  Diffusion.harmonic adj border temps f ->
  Diffusion.harmonic (perm_wrows p adj) (perm_vecb p border) (perm_vecq p temps) (perm_vecq p f).
Proof. exact (EquivarianceProofs.EqC.harmonic_perm n p Hp adj border temps f). Qed.
Print Assumptions harmonic_equivariant.

(** ... the hypotheses of the uniqueness theorems of C14 transport to the renumbered graph ... *)
Theorem diffusion_wf_rows_perm (n : nat) (p : list nat) (Hp : Permutation p (seq 0 n))
        (adj : list Diffusion.wrow) :
  Diffusion.wf_rows n adj -> Diffusion.wf_rows n (perm_wrows p adj).
Proof. exact (EquivarianceProofs.EqC.diffusion_wf_perm n p Hp adj). Qed.
Print Assumptions diffusion_wf_rows_perm.

Theorem connected_equivariant (n : nat) (p : list nat) (Hp : Permutation p (seq 0 n))
        (adj : list Diffusion.wrow) :
  length adj = n -> Diffusion.wf_rows n adj ->
  Diffusion.connected adj -> Diffusion.connected (perm_wrows p adj).
Proof. exact (EquivarianceProofs.EqC.connected_perm n p Hp adj). Qed.
Print Assumptions connected_equivariant.

Theorem reaches_border_equivariant (n : nat) (p : list nat) (Hp : Permutation p (seq 0 n))
        (adj : list Diffusion.wrow) (border : list bool) :
  length adj = n -> Diffusion.wf_rows n adj ->
  DiffusionProofs.reaches_border adj border ->
  DiffusionProofs.reaches_border (perm_wrows p adj) (perm_vecb p border).
Proof. exact (EquivarianceProofs.EqC.reaches_border_perm n p Hp adj border). Qed.
Print Assumptions reaches_border_equivariant.

(** ... hence the harmonic solution of the renumbered problem IS the renumbered harmonic solution
    (hypotheses on the ORIGINAL graph only; non-negative weights are needed by uniqueness). *)
Theorem harmonic_solution_equivariant (n : nat) (p : list nat) (Hp : Permutation p (seq 0 n))
        (adj : list Diffusion.wrow) (border : list bool) (temps h g : list Q) :
  length adj = n -> Diffusion.wf_rows n adj -> Diffusion.connected adj ->
  (exists s, s < n /\ nthb border s = true) ->
  Diffusion.harmonic adj border temps h ->
  Diffusion.harmonic (perm_wrows p adj) (perm_vecb p border) (perm_vecq p temps) g ->
  forall i, i < n -> (nthq g (nthn p i) == nthq h i)%Q.
Proof. exact (EquivarianceProofs.EqC.harmonic_solution_perm_connected n p Hp adj border temps h g). Qed.
Print Assumptions harmonic_solution_equivariant.

Theorem harmonic_solution_equivariant_reach (n : nat) (p : list nat) (Hp : Permutation p (seq 0 n))
        (adj : list Diffusion.wrow) (border : list bool) (temps h g : list Q) :
  length adj = n -> Diffusion.wf_rows n adj -> DiffusionProofs.reaches_border adj border ->
  Diffusion.harmonic adj border temps h ->
  Diffusion.harmonic (perm_wrows p adj) (perm_vecb p border) (perm_vecq p temps) g ->
  forall k, k < n -> (nthq g k == nthq (perm_vecq p h) k)%Q.
Proof. exact (EquivarianceProofs.EqC.harmonic_solution_perm_reach n p Hp adj border temps h g). Qed.
Print Assumptions harmonic_solution_equivariant_reach.

(** Non-vacuity: the weighted graph of C14 (path with a chord, 4 nodes, seeds 0 and 3 at nodes 0 and 3)
    renumbered by p = [2; 0; 3; 1]. *)
Definition exC_adj : list Diffusion.wrow :=
  [ [(1, 2%Q)];
    [(0, 2%Q); (2, 1%Q); (3, 1%Q)];
    [(1, 1%Q); (3, 3%Q)];
    [(1, 1%Q); (2, 3%Q)] ].
Definition exC_m : Diffusion.wmat := {| Diffusion.w_ncol := 4; Diffusion.w_rows := exC_adj |}.
Definition exC_seeds : list Q := [0; -1; -1; 3]%Q.
Definition exC_p : list nat := [2; 0; 3; 1].

Example partC_nonvacuous :
  Permutation exC_p (seq 0 4) /\ length exC_adj = 4 /\ wf_rows 4 exC_adj /\
  perm_wrows exC_p exC_adj
    = [ [(2, 2%Q); (3, 1%Q); (1, 1%Q)]; [(0, 1%Q); (3, 3%Q)]; [(0, 2%Q)]; [(0, 1%Q); (1, 3%Q)] ] /\
  perm_vecq exC_p exC_seeds = [-1; 3; 0; -1]%Q /\
  Diffusion.dirichlet_fit 2 exC_m (Some (Diffusion.SArray exC_seeds)) None None None false
    = Diffusion.Ok ([0; (45 # 32); (81 # 32); 3]%Q, None) /\
  Diffusion.dirichlet_fit 2
    {| Diffusion.w_ncol := 4; Diffusion.w_rows := perm_wrows exC_p exC_adj |}
    (Some (Diffusion.SArray (perm_vecq exC_p exC_seeds))) None None None false
    = Diffusion.Ok ([(45 # 32); 3; 0; (81 # 32)]%Q, None) /\
  perm_vecq exC_p [0; (45 # 32); (81 # 32); 3]%Q = [(45 # 32); 3; 0; (81 # 32)]%Q /\
  (exists v, Diffusion.diffusion_fit 2 (1 # 2)%Q exC_m (Some (Diffusion.SArray exC_seeds)) None None None false
             = Diffusion.Ok (v, None) /\
             Diffusion.diffusion_fit 2 (1 # 2)%Q
               {| Diffusion.w_ncol := 4; Diffusion.w_rows := perm_wrows exC_p exC_adj |}
               (Some (Diffusion.SArray (perm_vecq exC_p exC_seeds))) None None None false
             = Diffusion.Ok (perm_vecq exC_p v, None) /\
             v <> perm_vecq exC_p v) /\
  Diffusion.harmonic_checkb exC_adj (map Diffusion.is_seed exC_seeds) exC_seeds [0; (7 # 5); (13 # 5); 3]%Q = true /\
  Diffusion.harmonic_checkb (perm_wrows exC_p exC_adj) (perm_vecb exC_p (map Diffusion.is_seed exC_seeds))
    (perm_vecq exC_p exC_seeds) (perm_vecq exC_p [0; (7 # 5); (13 # 5); 3]%Q) = true.
Proof.
  split; [|split; [|split]].
  - apply NoDup_Permutation.
    + unfold exC_p. repeat constructor; simpl; intuition lia.
    + apply seq_NoDup.
    + intros x. unfold exC_p. simpl. lia.
  - reflexivity.
  - unfold wf_rows, exC_adj. repeat constructor; simpl; lia.
  - repeat (split; [vm_compute; reflexivity|]). split.
    + eexists. split; [vm_compute; reflexivity|]. split; [vm_compute; reflexivity|].
      vm_compute. discriminate.
    + split; vm_compute; reflexivity.
Qed.

(* -------------------------------------------------------------------------------------------------- *)
(** * Weisfeiler-Lehman: the functional model of the kernel and of its two Python callers (Model/Wl.v:
    weisfeiler_lehman_core.pyx, weisfeiler_lehman.py) against colour refinement (Proofs/WlProofs.v).
    [Wl.color_weisfeiler_lehman sort g powers max_iter]: [g] the CSR pattern, [powers] the hash table of the
    caller (exact rationals: an argument), [sort] the std::sort call (an argument constrained by [Wl.sort_ok]:
    a rearrangement in which no triple is [is_lower] than an earlier one; ties in any order).
    [Wl.cr_step] / [Wl.cr_iter] / [Wl.cr_fix]: colour refinement on partitions (same class and, for every class,
    the same number of neighbours in it).  [Wl.no_hash_collision] / [Wl.wl_collision_free]: the computable
    hypothesis of the two PARTIAL theorems (a sum of powers is not an injective code of a multiset; the
    harness evaluates it on every tested graph and reports a graph that violates it). *)
From SKN Require Model.Wl Proofs.WlProofs.
Set Warnings "-notation-overridden".

(** 14. The sort contract is satisfiable (insertion sort), so none of the statements below is vacuous. *)
Theorem wl_sort_ok : Wl.sort_ok Wl.wl_sort.
Proof. exact WlProofs.wl_sort_ok. Qed.
Print Assumptions wl_sort_ok.

(** 15. One kernel round.  Unconditionally, nodes that one refinement step keeps together (same label, same
    multiset of neighbour labels) receive the same new label: a sum over a multiset does not depend on the
    order, and equal keys receive equal ranks wherever the sort puts them. *)
Theorem wl_round_coarser (sort : list Wl.wtuple -> list Wl.wtuple) (g : graph) (powers : list Q) (eps : Q)
        (labels : list nat) :
  Wl.sort_ok sort -> length labels = length g -> (0 <= eps)%Q ->
  forall u v, u < length g -> v < length g -> Wl.refines_to g labels u v ->
  nthn (fst (Wl.wl_round sort g powers eps labels)) u = nthn (fst (Wl.wl_round sort g powers eps labels)) v.
Proof. exact (WlProofs.wl_round_coarser sort g powers eps labels). Qed.
Print Assumptions wl_round_coarser.

(** Under [no_hash_collision] one round is exactly one refinement step. *)
Theorem wl_round_refines (sort : list Wl.wtuple -> list Wl.wtuple) (g : graph) (powers : list Q) (eps : Q)
        (labels : list nat) :
  Wl.sort_ok sort -> length labels = length g -> (0 <= eps)%Q ->
  Wl.no_hash_collision g powers eps labels = true ->
  forall u v, u < length g -> v < length g ->
  (nthn (fst (Wl.wl_round sort g powers eps labels)) u = nthn (fst (Wl.wl_round sort g powers eps labels)) v
   <-> Wl.refines_to g labels u v).
Proof. exact (WlProofs.wl_round_refines sort g powers eps labels). Qed.
Print Assumptions wl_round_refines.

(** The step on labellings is the step on partitions. *)
Theorem cr_step_labels (g : graph) (L : list nat) (u v : nat) :
  wf_graph g -> u < length g -> v < length g ->
  (Wl.cr_step g (Wl.same_label L) u v = true <-> Wl.refines_to g L u v).
Proof. exact (WlProofs.cr_step_labels g L u v). Qed.
Print Assumptions cr_step_labels.

(** 16. The colouring (PARTIAL: the hypothesis in every executed round).  The colour classes returned by
    color_weisfeiler_lehman are the classes of the [max_iter]-th iterate of colour refinement (the kernel
    stops earlier only when a round changes no label, and then the iterates have stopped changing too). *)
Theorem wl_colouring_is_refinement_partial (sort : list Wl.wtuple -> list Wl.wtuple) (g : graph)
        (powers : list Q) (max_iter : Z) :
  Wl.sort_ok sort -> wf_graph g ->
  Wl.wl_collision_free sort g powers Wl.wl_eps (Wl.wl_max_iter (length g) max_iter) (repeat 0 (length g)) true = true ->
  forall u v, u < length g -> v < length g ->
  (nthn (Wl.color_weisfeiler_lehman sort g powers max_iter) u
   = nthn (Wl.color_weisfeiler_lehman sort g powers max_iter) v
   <-> Wl.cr_iter g (Wl.wl_max_iter (length g) max_iter) u v = true).
Proof. exact (WlProofs.wl_colouring_is_refinement_partial sort g powers max_iter). Qed.
Print Assumptions wl_colouring_is_refinement_partial.

(** With the default [max_iter = -1]: the fixed point. *)
Theorem wl_colouring_is_refinement_default_partial (sort : list Wl.wtuple -> list Wl.wtuple) (g : graph)
        (powers : list Q) (max_iter : Z) :
  Wl.sort_ok sort -> wf_graph g -> ((max_iter < 0)%Z \/ (Z.of_nat (length g) <= max_iter)%Z) ->
  Wl.wl_collision_free sort g powers Wl.wl_eps (length g) (repeat 0 (length g)) true = true ->
  forall u v, u < length g -> v < length g ->
  (nthn (Wl.color_weisfeiler_lehman sort g powers max_iter) u
   = nthn (Wl.color_weisfeiler_lehman sort g powers max_iter) v
   <-> Wl.cr_fix g u v = true).
Proof. exact (WlProofs.wl_colouring_is_refinement_default_partial sort g powers max_iter). Qed.
Print Assumptions wl_colouring_is_refinement_default_partial.

(** REFUTED without the hypothesis, for the table the implementation builds: [WlProofs.wl_cex_g] (90 nodes:
    an antiregular graph on 0..43, nodes 44 and 45 joined to 22 of its nodes each, a clique 46..89 joined to
    44 and 45) with [WlProofs.wl_cex_powers] = the exact float64 entries of [(-pi / 3.15) ** arange(90)].
    Nodes 44 and 45 have the same degree and multisets of neighbour colours whose hashes differ by 2.4e-13
    < epsilon = 1e-10: they keep a common colour, although colour refinement separates them in its second
    round.  The implementation returns the same colours on this graph (harness: kind = hash_collision). *)
Theorem wl_colouring_is_refinement_refuted :
  wf_graph WlProofs.wl_cex_g /\ length WlProofs.wl_cex_g = 90 /\ length WlProofs.wl_cex_powers = 90 /\
  nthn (Wl.color_weisfeiler_lehman Wl.wl_sort WlProofs.wl_cex_g WlProofs.wl_cex_powers (-1)) WlProofs.wl_cex_u
  = nthn (Wl.color_weisfeiler_lehman Wl.wl_sort WlProofs.wl_cex_g WlProofs.wl_cex_powers (-1)) WlProofs.wl_cex_v /\
  Wl.cr_fix WlProofs.wl_cex_g WlProofs.wl_cex_u WlProofs.wl_cex_v = false.
Proof. exact WlProofs.wl_colouring_is_refinement_refuted. Qed.
Print Assumptions wl_colouring_is_refinement_refuted.

(** The specification side: [cr_fix] (n rounds on n nodes) is a fixed point of the refinement step, every
    later iterate is the same partition, and two nodes are together in it iff no round separates them. *)
Theorem cr_fix_stable (g : graph) :
  wf_graph g -> forall u v, u < length g -> v < length g -> Wl.cr_step g (Wl.cr_fix g) u v = Wl.cr_fix g u v.
Proof. exact (WlProofs.cr_fix_stable g). Qed.
Print Assumptions cr_fix_stable.

Theorem cr_iter_fix (g : graph) (k : nat) :
  wf_graph g -> length g <= k ->
  forall u v, u < length g -> v < length g -> Wl.cr_iter g k u v = Wl.cr_fix g u v.
Proof. exact (WlProofs.cr_iter_fix g k). Qed.
Print Assumptions cr_iter_fix.

Theorem cr_fix_never_separated (g : graph) (u v : nat) :
  wf_graph g -> u < length g -> v < length g ->
  (Wl.cr_fix g u v = true <-> forall k, Wl.cr_iter g k u v = true).
Proof. exact (WlProofs.cr_fix_never_separated g u v). Qed.
Print Assumptions cr_fix_never_separated.

(** The table-per-round version evaluated by the harness is the specification. *)
Theorem cr_iter_tab_correct (g : graph) (k : nat) :
  wf_graph g -> forall u v, u < length g -> v < length g ->
  Wl.tab_rel (Wl.cr_iter_tab g k) u v = Wl.cr_iter g k u v.
Proof. exact (WlProofs.cr_iter_tab_correct g k). Qed.
Print Assumptions cr_iter_tab_correct.

(** 17. Renumbering.  [Wl.csr_iso p g g']: g' is g renumbered by p with every row stored in any order
    (SciPy sorts the indices of the permuted matrix; [perm_graph p g] keeps the order of g).  The colours of
    g' are the renumbered colours of g, LABEL FOR LABEL (the new label is the rank of the key
    (old label, hash) and the keys are the same multiset), whatever the two sorts do with ties; no
    collision hypothesis. *)
Theorem wl_equivariant_iso (n : nat) (p : list nat) (g g' : graph) (powers : list Q)
        (sort sort' : list Wl.wtuple -> list Wl.wtuple) (max_iter : Z) :
  Permutation p (seq 0 n) -> length g = n -> wf_graph g -> Wl.csr_iso p g g' ->
  Wl.sort_ok sort -> Wl.sort_ok sort' ->
  Wl.color_weisfeiler_lehman sort' g' powers max_iter
  = perm_vec 0 p (Wl.color_weisfeiler_lehman sort g powers max_iter).
Proof. exact (WlProofs.wl_equivariant_iso n p g g' powers sort sort' max_iter). Qed.
Print Assumptions wl_equivariant_iso.

Theorem wl_equivariant (n : nat) (p : list nat) (g : graph) (powers : list Q)
        (sort sort' : list Wl.wtuple -> list Wl.wtuple) (max_iter : Z) :
  Permutation p (seq 0 n) -> length g = n -> wf_graph g -> Wl.sort_ok sort -> Wl.sort_ok sort' ->
  Wl.color_weisfeiler_lehman sort' (perm_graph p g) powers max_iter
  = perm_vec 0 p (Wl.color_weisfeiler_lehman sort g powers max_iter).
Proof. exact (WlProofs.wl_equivariant n p g powers sort sort' max_iter). Qed.
Print Assumptions wl_equivariant.

(** As a partition: p[u], p[v] share a colour in g' iff u, v do in g. *)
Theorem wl_equivariant_partition (n : nat) (p : list nat) (g g' : graph) (powers : list Q)
        (sort sort' : list Wl.wtuple -> list Wl.wtuple) (max_iter : Z) (u v : nat) :
  Permutation p (seq 0 n) -> length g = n -> wf_graph g -> Wl.csr_iso p g g' ->
  Wl.sort_ok sort -> Wl.sort_ok sort' -> u < n -> v < n ->
  (nthn (Wl.color_weisfeiler_lehman sort' g' powers max_iter) (nthn p u)
   = nthn (Wl.color_weisfeiler_lehman sort' g' powers max_iter) (nthn p v)
   <-> nthn (Wl.color_weisfeiler_lehman sort g powers max_iter) u
       = nthn (Wl.color_weisfeiler_lehman sort g powers max_iter) v).
Proof. exact (WlProofs.wl_equivariant_partition n p g g' powers sort sort' max_iter u v). Qed.
Print Assumptions wl_equivariant_partition.

(** The order in which each row is stored and the tie-breaking of the sort are irrelevant. *)
Theorem wl_row_order_irrelevant (g g' : graph) (powers : list Q)
        (sort sort' : list Wl.wtuple -> list Wl.wtuple) (max_iter : Z) :
  wf_graph g -> Forall2 (@Permutation nat) g' g -> Wl.sort_ok sort -> Wl.sort_ok sort' ->
  Wl.color_weisfeiler_lehman sort' g' powers max_iter = Wl.color_weisfeiler_lehman sort g powers max_iter.
Proof. exact (WlProofs.wl_row_order_irrelevant g g' powers sort sort' max_iter). Qed.
Print Assumptions wl_row_order_irrelevant.

(** 18. The test.  are_isomorphic on a graph and a renumbered copy (rows in any order) returns True: in
    every round the two label vectors are renumberings of each other, has_changed agrees, and the
    histograms are equal; no collision hypothesis. *)
Theorem are_isomorphic_iso (n : nat) (p : list nat) (g g' : graph) (powers : list Q)
        (sort : list Wl.wtuple -> list Wl.wtuple) (max_iter : Z) :
  Permutation p (seq 0 n) -> length g = n -> wf_graph g -> Wl.csr_iso p g g' -> Wl.sort_ok sort ->
  Wl.are_isomorphic sort g g' powers max_iter = Ok true.
Proof. exact (WlProofs.are_isomorphic_iso n p g g' powers sort max_iter). Qed.
Print Assumptions are_isomorphic_iso.

Theorem are_isomorphic_self (n : nat) (p : list nat) (g : graph) (powers : list Q)
        (sort : list Wl.wtuple -> list Wl.wtuple) (max_iter : Z) :
  Permutation p (seq 0 n) -> length g = n -> wf_graph g -> Wl.sort_ok sort ->
  Wl.are_isomorphic sort g (perm_graph p g) powers max_iter = Ok true.
Proof. exact (WlProofs.are_isomorphic_self n p g powers sort max_iter). Qed.
Print Assumptions are_isomorphic_self.

(** Non-vacuity: the house graph of the docstring with the table the implementation builds for n = 5
    (the exact values of the float64 entries of [(-pi / 3.15) ** arange(5)]): the hypotheses hold, the
    model returns the documented colours [0 2 1 1 2], they are the classes of colour refinement, and the
    statements about a renumbered copy are instances. *)
Definition exW_g : graph := [[1; 4]; [0; 2; 4]; [1; 3]; [2; 4]; [0; 1; 3]].
Definition exW_powers : list Q :=
  [(1 # 1)%Q; (-8983159050194845 # 9007199254740992)%Q; (8959183008927235 # 9007199254740992)%Q;
   (-8935270959686445 # 9007199254740992)%Q; (2227855682919457 # 2251799813685248)%Q].
Definition exW_p : list nat := [3; 0; 4; 2; 1].

Example wl_nonvacuous :
  wf_graph exW_g /\ Permutation exW_p (seq 0 5) /\
  Wl.wl_collision_free Wl.wl_sort exW_g exW_powers Wl.wl_eps 5 (repeat 0 5) true = true /\
  Wl.color_weisfeiler_lehman Wl.wl_sort exW_g exW_powers (-1) = [0; 2; 1; 1; 2] /\
  map (fun u => map (Wl.tab_rel (Wl.cr_iter_tab exW_g 5) u) (seq 0 5)) (seq 0 5)
    = map (fun u => map (Wl.same_label [0; 2; 1; 1; 2] u) (seq 0 5)) (seq 0 5) /\
  perm_graph exW_p exW_g = [[3; 4; 1]; [3; 0; 2]; [4; 1]; [0; 1]; [0; 2]] /\
  Wl.color_weisfeiler_lehman Wl.wl_sort (perm_graph exW_p exW_g) exW_powers (-1) = [2; 2; 1; 0; 1] /\
  perm_vec 0 exW_p [0; 2; 1; 1; 2] = [2; 2; 1; 0; 1] /\
  Wl.are_isomorphic Wl.wl_sort exW_g (perm_graph exW_p exW_g) exW_powers (-1) = Ok true /\
  Wl.are_isomorphic Wl.wl_sort exW_g [[1; 2]; [0; 2]; [0; 1; 3; 4]; [2; 4]; [2; 3]] exW_powers (-1) = Ok false.
Proof.
  split; [|split].
  - intros u v. unfold exW_g, row. do 5 (destruct u as [|u]; [simpl; intuition lia|]).
    destruct u; simpl; intros [].
  - apply NoDup_Permutation.
    + unfold exW_p. repeat constructor; simpl; intuition lia.
    + apply seq_NoDup.
    + intros x. unfold exW_p. simpl. lia.
  - repeat (split; [vm_compute; reflexivity|]). vm_compute; reflexivity.
Qed.

(** The hypothesis of the partial theorems cannot be dropped for an ARBITRARY table: with the (legal
    argument) table of all ones the hash is the degree, and the path on five nodes keeps its middle node
    with its two neighbours, which colour refinement separates in its second round. *)
Example wl_hash_not_injective_example :
  let g := [[1]; [0; 2]; [1; 3]; [2; 4]; [3]] in
  let ones := [1; 1; 1; 1; 1]%Q in
  Wl.wl_collision_free Wl.wl_sort g ones Wl.wl_eps 5 (repeat 0 5) true = false /\
  Wl.color_weisfeiler_lehman Wl.wl_sort g ones (-1) = [0; 1; 1; 1; 0] /\
  Wl.tab_rel (Wl.cr_iter_tab g 5) 1 2 = false.
Proof. cbv zeta. split; [|split]; vm_compute; reflexivity. Qed.

(* =========================================================================================== *)
(** * Renumbering at SOURCE LEVEL: the terms regenerated from the Python sources are equivariant

    [src_modularity_*] (Gen/NpModularity.v, from clustering/metrics.py) and [src_dirichlet_fit] / [src_diffusion_fit]
    (Gen/NpDiffusion.v, from regression/diffusion.py) are regenerated on every run; [rvdenote] is the NumPy / SciPy semantics of
    Model/NpVec.v over R.  For EVERY permutation p of the n nodes ([perm_on n p]: the list p 0, ..., p (n-1) is a permutation of
    0, ..., n-1), every matrix (index function), every label / seed vector and every option value: modularity, its fit and its
    diversity term do not change when the graph is renumbered (A' i j = A (p i) (p j), labels' i = labels (p i)), and the
    temperatures returned by the two diffusion fits on the renumbered graph at node i are those of the original graph at node p i. *)
From SKN Require Import Model.NpExpr Model.NpVec Gen.NpModularity Gen.NpDiffusion Proofs.NpVecProofs Proofs.NpModularityProofs
  Proofs.NpEquivariance.
From Coq Require Import Reals.

Theorem source_modularity_renumbering (n : nat) (p : nat -> nat) (A : nat -> nat -> R) (l : list Z) (deg : bool) (gamma : R) :
  labels_ok n l -> perm_on n p ->
  rvdenote (env_mod n (pmat p A) (plab n p l) deg gamma) src_modularity_mod = rvdenote (env_mod n A l deg gamma) src_modularity_mod /\
  rvdenote (env_mod n (pmat p A) (plab n p l) deg gamma) src_modularity_fit = rvdenote (env_mod n A l deg gamma) src_modularity_fit /\
  rvdenote (env_mod n (pmat p A) (plab n p l) deg gamma) src_modularity_div = rvdenote (env_mod n A l deg gamma) src_modularity_div.
Proof. exact (NpEquivariance.source_modularity_renumbering n p A l deg gamma). Qed.
Print Assumptions source_modularity_renumbering.

Theorem source_dirichlet_renumbering (n : nat) (p : nat -> nat) (A : nat -> nat -> R) (s : nat -> R) (init : vvalue R) (k : nat) (alpha : R) :
  perm_on n p -> init_ok init ->
  exists f' f,
    rvdenote (env_fit n (pmat p A) (fun i => s (p i)) init k alpha) src_dirichlet_fit = Some (WV n f') /\
    rvdenote (env_fit n A s init k alpha) src_dirichlet_fit = Some (WV n f) /\
    forall i, (i < n)%nat -> f' i = f (p i).
Proof. exact (NpEquivariance.source_dirichlet_renumbering n p A s init k alpha). Qed.
Print Assumptions source_dirichlet_renumbering.

Theorem source_diffusion_renumbering (n : nat) (p : nat -> nat) (A : nat -> nat -> R) (s : nat -> R) (init : vvalue R) (k : nat) (alpha : R) :
  perm_on n p -> init_ok init ->
  exists f' f,
    rvdenote (env_fit n (pmat p A) (fun i => s (p i)) init k alpha) src_diffusion_fit = Some (WV n f') /\
    rvdenote (env_fit n A s init k alpha) src_diffusion_fit = Some (WV n f) /\
    forall i, (i < n)%nat -> f' i = f (p i).
Proof. exact (NpEquivariance.source_diffusion_renumbering n p A s init k alpha). Qed.
Print Assumptions source_diffusion_renumbering.

(** class-probability rows (probs_ of BaseClustering._secondary_outputs, Gen/NpSecondary.v, from clustering/base.py): the row of
    node i of the renumbered graph is the row of node p i of the original graph, with the same number of columns *)
From SKN Require Import Gen.NpSecondary Proofs.NpSecondaryProofs.
Theorem source_secondary_probs_renumbering (n : nat) (p : nat -> nat) (A : nat -> nat -> R) (l : list Z) :
  List.length l = n -> perm_on n p ->
  exists K f' f,
    rvdenote (env_sec n (pmat p A) (plab n p l)) src_secondary_probs = Some (WM n K f') /\
    rvdenote (env_sec n A l) src_secondary_probs = Some (WM n K f) /\
    forall i c, f' i c = f (p i) c.
Proof. exact (NpEquivariance.source_secondary_probs_renumbering n p A l). Qed.
Print Assumptions source_secondary_probs_renumbering.

(** node scores: the operator behind PageRank's piteration / lanczos / bicgstab solvers (RandomSurferOperator._matvec, Gen/NpRso.v,
    from linalg/ppr_solver.py) commutes with the renumbering: applied to the renumbered graph, restart vector and argument, it gives
    at node i what it gives on the original data at node p i.  Every iterate of the power iteration, hence its fixed point, is
    therefore permuted. *)
From SKN Require Import Gen.NpRso Proofs.NpRsoProofs.
Theorem source_rso_renumbering (n : nat) (p : nat -> nat) (A : nat -> nat -> R) (s x : nat -> R) (alpha : R) :
  perm_on n p ->
  exists f' f,
    rvdenote (env_rso n (pmat p A) (fun i => s (p i)) (fun i => x (p i)) alpha) src_rso_matvec = Some (WV n f') /\
    rvdenote (env_rso n A s x alpha) src_rso_matvec = Some (WV n f) /\
    forall i, f' i = f (p i).
Proof. exact (NpEquivariance.source_rso_renumbering n p A s x alpha). Qed.
Print Assumptions source_rso_renumbering.

Example c02_nonvacuous_source_renumbering :
  perm_on 3 (fun i => match i with O => 2 | 1 => 0 | _ => 1 end)%nat /\ labels_ok 3 (0 :: 2 :: 0 :: nil)%Z /\ init_ok (@WNone R).
Proof.
  split; [|split].
  - unfold perm_on. cbn. apply Permutation_sym. apply (perm_trans (l' := (0 :: 2 :: 1 :: nil)%nat)).
    + apply perm_skip. apply perm_swap.
    + apply (perm_trans (l' := (2 :: 0 :: 1 :: nil)%nat)); [apply perm_swap | apply Permutation_refl].
  - split; [reflexivity|]. intros [|[|[|i]]] Hi; try lia; cbn; lia.
  - left. reflexivity.
Qed.

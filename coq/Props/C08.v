(** C08 — Cuts, aggregation and quality scores agree with the tree they are given.
    Only statements closed by [exact], their assumptions, and non-vacuity examples.

    Vocabulary (Model/Dendrogram.v, Model/Cuts.v): a dendrogram is a list of rows (left, right, height, size);
    [valid n D] is the boolean validity check (n-1 rows, each merging two distinct live ids, size = leaves below,
    last size n); [leaves n D k] is the leaf set below id k; [hmono n D]: no merge is lower than one of its
    children; [cut_input D0 ret] is the dendrogram actually cut ([reorder_dendrogram D0] when return_dendrogram
    is set and the heights are not sorted, D0 otherwise); [argsort_ok] is the contract of np.argsort (a permutation
    that sorts) — the theorems hold for every oracle meeting it, whatever its tie-breaks. *)
From SKN Require Import Base.Util Model.Dendrogram Model.Cuts Proofs.CutsProofs.
From Coq Require Import Permutation.

(** 1. Every cluster of a cut is exactly the leaf set of one subtree; the labels used are exactly 0..k-1 and
    every leaf carries one label (so the clusters partition the leaves). *)
Theorem cut_clusters_are_subtrees argsort n D0 D nc th sort ret labels od :
  cut_input D0 ret = Ok D -> valid n D = true -> argsort_ok argsort ->
  cut_straight argsort D0 nc th sort ret = Ok (labels, od) ->
  exists ids, subtree_partition n D labels ids /\ (sort = true -> sizes_sorted labels (length ids)).
Proof. exact (cut_straight_subtrees argsort n D0 D nc th sort ret labels od). Qed.
Print Assumptions cut_clusters_are_subtrees.

Theorem cut_balanced_clusters_are_subtrees argsort n D m sort ret labels od :
  valid n D = true -> argsort_ok argsort ->
  cut_balanced argsort D m sort ret = Ok (labels, od) ->
  exists ids, subtree_partition n D labels ids /\ (sort = true -> sizes_sorted labels (length ids)) /\
              (forall l, cluster_size labels l <= m).
Proof. exact (cut_balanced_subtrees argsort n D m sort ret labels od). Qed.
Print Assumptions cut_balanced_clusters_are_subtrees.

(** 2. With sort_clusters the labels are in non-increasing order of cluster size. *)
Theorem cut_labels_sorted_by_size argsort n D0 D nc th ret labels od :
  cut_input D0 ret = Ok D -> valid n D = true -> argsort_ok argsort ->
  cut_straight argsort D0 nc th true ret = Ok (labels, od) ->
  sizes_sorted labels (num_clusters labels).
Proof. exact (cut_straight_sorted argsort n D0 D nc th ret labels od). Qed.
Print Assumptions cut_labels_sorted_by_size.

Theorem cut_balanced_labels_sorted_by_size argsort n D m ret labels od :
  valid n D = true -> argsort_ok argsort ->
  cut_balanced argsort D m true ret = Ok (labels, od) ->
  sizes_sorted labels (num_clusters labels).
Proof. exact (cut_balanced_sorted argsort n D m ret labels od). Qed.
Print Assumptions cut_balanced_labels_sorted_by_size.

(** 3. cut_straight returns at least n_clusters clusters (threshold = None) ... *)
Theorem cut_straight_count argsort n D0 D nc sort ret labels od :
  cut_input D0 ret = Ok D -> valid n D = true -> argsort_ok argsort ->
  cut_straight argsort D0 (Some nc) None sort ret = Ok (labels, od) ->
  nc <= num_clusters labels.
Proof. exact (cut_straight_count_ge argsort n D0 D nc sort ret labels od). Qed.
Print Assumptions cut_straight_count.

(** ... exactly n_clusters when the heights are distinct (and no merge is lower than its children) ... *)
Theorem cut_straight_count_distinct argsort n D0 D nc sort ret labels od :
  cut_input D0 ret = Ok D -> valid n D = true -> hmono n D = true -> distinct_heights D ->
  argsort_ok argsort ->
  cut_straight argsort D0 (Some nc) None sort ret = Ok (labels, od) ->
  num_clusters labels = nc.
Proof. exact (CutsProofs.cut_straight_count_distinct argsort n D0 D nc sort ret labels od). Qed.
Print Assumptions cut_straight_count_distinct.

(** ... and what the code guarantees in general: with cut = max(sorted heights [n - n_clusters], threshold)
    (+infinity, written [None], for n_clusters = 1), exactly the merges STRICTLY below the cut
    ([below_cut cut r = true], i.e. height < cut) are applied: their leaves share one label, and the number of
    clusters is n minus the number of such merges. *)
Theorem cut_straight_applies_merges_below_cut argsort n D0 D nc th sort ret labels od cut :
  cut_input D0 ret = Ok D -> valid n D = true -> hmono n D = true -> argsort_ok argsort ->
  cut_height D nc th = Ok cut ->
  cut_straight argsort D0 nc th sort ret = Ok (labels, od) ->
  num_clusters labels + below cut D = n /\
  (forall t r, nth_error D t = Some r -> below_cut cut r = true ->
     forall u v, In u (leaves n D (n + t)) -> In v (leaves n D (n + t)) -> nth u labels 0 = nth v labels 0).
Proof. exact (cut_straight_exact argsort n D0 D nc th sort ret labels od cut). Qed.
Print Assumptions cut_straight_applies_merges_below_cut.

Theorem cut_straight_threshold_applied argsort n D0 D nc theta sort ret labels od :
  cut_input D0 ret = Ok D -> valid n D = true -> hmono n D = true -> argsort_ok argsort ->
  cut_straight argsort D0 nc (Some theta) sort ret = Ok (labels, od) ->
  forall t r, nth_error D t = Some r -> (r_height r < theta)%Q ->
    forall u v, In u (leaves n D (n + t)) -> In v (leaves n D (n + t)) -> nth u labels 0 = nth v labels 0.
Proof. exact (cut_straight_threshold argsort n D0 D nc theta sort ret labels od). Qed.
Print Assumptions cut_straight_threshold_applied.

(** Every admissible call returns a labelling, n_clusters = 1 included (repaired by 130034d8). *)
Theorem cut_straight_returns argsort n D nc th sort :
  valid n D = true -> 2 <= n ->
  match nc with Some k => 1 <= k <= n | None => True end ->
  exists labels, cut_straight argsort D nc th sort false = Ok (labels, None).
Proof. exact (cut_straight_total argsort n D nc th sort). Qed.
Print Assumptions cut_straight_returns.

(** Legacy (defect D6, code before 130034d8): n_clusters = 1 raised IndexError on EVERY dendrogram
    ([np.sort(heights)[n - 1]] on an array of n - 1 entries), although one cluster is admissible. *)
Theorem legacy_cut_straight_one_cluster_refuted :
  (forall argsort D th sort, legacy_cut_straight argsort D (Some 1) th sort false = Err IndexError) /\
  exists D, valid 3 D = true /\ check_n_clusters 1 3 = Ok tt /\
            legacy_cut_straight stable_argsort D (Some 1) None true false = Err IndexError /\
            cut_straight stable_argsort D (Some 1) None true false = Ok ([0; 0; 0], None).
Proof.
  split; [exact legacy_cut_straight_one_cluster_fails|].
  exists [(0, 1, 1%Q, 2); (3, 2, 2%Q, 3)]. vm_compute. auto.
Qed.
Print Assumptions legacy_cut_straight_one_cluster_refuted.

(** Legacy (defect D7, code before 130034d8): aggregate_dendrogram(return_counts=True) read the count of an
    original leaf through a wrapped negative row index (wrong counts, or IndexError when leaf 0 is kept), and
    returned no count at all for a single cluster; the repaired code returns the sizes of the kept subtrees. *)
Theorem legacy_aggregate_counts_refuted :
  let D := [(0, 1, 1%Q, 2); (3, 2, 2%Q, 3)] in
  valid 3 D = true /\
  legacy_aggregate_dendrogram D 2 true = Ok ([(1, 0, 2%Q, 3)], Some [3; 2]) /\
  legacy_aggregate_dendrogram D 3 true = Err IndexError /\
  legacy_aggregate_dendrogram D 1 true = Ok ([], Some []) /\
  aggregate_dendrogram D 2 true = Ok ([(1, 0, 2%Q, 3)], Some [1; 2]) /\
  aggregate_dendrogram D 3 true = Ok ([(0, 1, 1%Q, 2); (3, 2, 2%Q, 3)], Some [1; 1; 1]) /\
  aggregate_dendrogram D 1 true = Ok ([], Some [3]).
Proof. vm_compute. repeat split; reflexivity. Qed.
Print Assumptions legacy_aggregate_counts_refuted.

(** 4. cut_balanced never returns a cluster larger than max_cluster_size. *)
Theorem cut_balanced_cap argsort n D m sort ret labels od :
  valid n D = true -> argsort_ok argsort ->
  cut_balanced argsort D m sort ret = Ok (labels, od) ->
  forall l, cluster_size labels l <= m.
Proof. exact (cut_balanced_cap_lemma argsort n D m sort ret labels od). Qed.
Print Assumptions cut_balanced_cap.

(** 5a. aggregate_dendrogram: for every valid dendrogram and 1 <= n_clusters <= n the result is a valid
    dendrogram over the kept clusters (leaf l standing for [true_count] = size of the kept subtree), with the
    heights of the last n_clusters - 1 merges, and counts (return_counts) equal to those sizes, summing to n. *)
Theorem aggregate_dendrogram_valid n D nc rc out oc :
  valid n D = true -> aggregate_dendrogram D nc rc = Ok (out, oc) ->
  1 <= nc <= n /\
  let ws := if Nat.eqb nc 1 then [n] else map (true_count n D) (kept_ids n D nc) in
  validw ws out = true /\ length ws = nc /\ sumn ws = n /\
  heights out = heights (skipn (n - nc) D) /\ (rc = true -> oc = Some ws).
Proof. exact (aggregate_dendrogram_ok n D nc rc out oc). Qed.
Print Assumptions aggregate_dendrogram_valid.

Theorem aggregate_dendrogram_returns n D nc rc :
  valid n D = true -> 1 <= nc <= n -> exists out oc, aggregate_dendrogram D nc rc = Ok (out, oc).
Proof. exact (aggregate_dendrogram_total n D nc rc). Qed.
Print Assumptions aggregate_dendrogram_returns.

(** 5b. return_dendrogram = True: every admissible call returns, together with the labels, a dendrogram that is
    valid over the clusters (leaf l standing for the [cluster_size labels l] samples of cluster l, so the
    size column counts original samples and the last size is n), whose heights are exactly the heights of the
    merges of the input that join leaves of different clusters ([unmerged_rows]), in the same order. *)
Theorem reduced_dendrogram_valid argsort n D0 D nc th sort :
  cut_input D0 true = Ok D -> valid n D = true -> 2 <= n -> argsort_ok argsort ->
  match nc with Some k => 1 <= k <= n | None => True end ->
  exists labels Dnew,
    cut_straight argsort D0 nc th sort true = Ok (labels, Some Dnew) /\
    let ws := map (cluster_size labels) (seq 0 (num_clusters labels)) in
    validw ws Dnew = true /\ sumn ws = n /\
    heights Dnew = heights (unmerged_rows n D labels).
Proof. exact (cut_straight_reduced argsort n D0 D nc th sort). Qed.
Print Assumptions reduced_dendrogram_valid.

Theorem cut_balanced_reduced_dendrogram_valid argsort n D m sort :
  valid n D = true -> argsort_ok argsort -> 2 <= m <= n ->
  exists labels Dnew,
    cut_balanced argsort D m sort true = Ok (labels, Some Dnew) /\
    let ws := map (cluster_size labels) (seq 0 (num_clusters labels)) in
    validw ws Dnew = true /\ sumn ws = n /\
    heights Dnew = heights (unmerged_rows n D labels).
Proof. exact (cut_balanced_reduced argsort n D m sort). Qed.
Print Assumptions cut_balanced_reduced_dendrogram_valid.

Theorem cut_balanced_returns argsort n D m sort ret :
  valid n D = true -> argsort_ok argsort -> 2 <= m <= n ->
  exists labels od, cut_balanced argsort D m sort ret = Ok (labels, od).
Proof. exact (cut_balanced_total argsort n D m sort ret). Qed.
Print Assumptions cut_balanced_returns.

(** 6. Dasgupta's cost, as computed by the replay of get_sampling_distributions over the AggregateGraph
    (dict-of-dict neighbours, merged row by row), equals its definition: the edge-weighted average, over the
    edges (u, v) of the graph, of the size (weights = 'uniform') or volume (weights = 'degree': mean of out- and
    in-volume) of the SMALLEST cluster of the tree containing both u and v ([dasgupta_spec] is written with
    [smallest_common], a minimum over all clusters of the tree, not with the replay).
    Graph: COO triples with endpoints in range, no self-loop (a self-loop has no smallest common merge: the code
    charges it to the first merge of its node), positive total weight. *)
Theorem dasgupta_is_lca_average degree n G D :
  valid n D = true ->
  (forall e, In e G -> e_src e < n /\ e_dst e < n /\ e_src e <> e_dst e) ->
  (0 < total_weight G)%Q -> 2 <= n -> G <> [] ->
  exists c, dasgupta_cost degree n G D false = Ok c /\ (c == dasgupta_spec degree n G D)%Q.
Proof. exact (dasgupta_cost_is_spec degree n G D). Qed.
Print Assumptions dasgupta_is_lca_average.

(** Dasgupta's score (1 - normalised cost) lies in [0, 1] for non-negative weights. *)
Theorem dasgupta_score_in_unit_interval degree n G D :
  valid n D = true ->
  (forall e, In e G -> e_src e < n /\ e_dst e < n /\ e_src e <> e_dst e) ->
  (forall e, In e G -> (0 <= e_w e)%Q) ->
  (0 < total_weight G)%Q -> 2 <= n -> G <> [] ->
  exists s, dasgupta_score degree n G D = Ok s /\ (0 <= s <= 1)%Q.
Proof. exact (dasgupta_score_unit degree n G D). Qed.
Print Assumptions dasgupta_score_in_unit_interval.

(** tree_sampling_divergence is modelled ([tsd_terms], [mi_terms], [tree_sampling_divergence] over a [ln]
    oracle) and compared with the implementation at run time; its bounds (Gibbs' inequality, coarse-graining)
    are proved over the reals in the last section of this file (tsd_nonneg, tsd_normalized_le_one). *)

(** The stable argsort meets the oracle contract (the hypotheses above are satisfiable). *)
Theorem argsort_contract_satisfiable : argsort_ok stable_argsort.
Proof. exact stable_argsort_ok. Qed.
Print Assumptions argsort_contract_satisfiable.

(** Non-vacuity: a valid 5-leaf dendrogram with unsorted rows and a tie, cut in three ways. *)
Example c08_nonvacuous :
  let D := [(0, 1, 2%Q, 2); (2, 3, 1%Q, 2); (5, 4, 3%Q, 3); (6, 7, 4%Q, 5)] in
  valid 5 D = true /\ hmono 5 D = true /\
  cut_input D false = Ok D /\
  cut_straight stable_argsort D (Some 3) None true false = Ok ([0; 0; 1; 1; 2], None) /\
  cut_straight stable_argsort D None (Some (5 # 2)%Q) true false = Ok ([0; 0; 1; 1; 2], None) /\
  cut_balanced stable_argsort D 3 true false = Ok ([0; 0; 1; 1; 0], None) /\
  leaves 5 D 7 = [0; 1; 4].
Proof. vm_compute. repeat split; reflexivity. Qed.

Example c08_metrics_nonvacuous :
  let D := [(0, 1, 2%Q, 2); (2, 3, 1%Q, 2); (5, 4, 3%Q, 3); (6, 7, 4%Q, 5)] in
  let G := [(0, 1, 1%Q); (1, 0, 1%Q); (1, 2, 2%Q); (2, 1, 2%Q); (0, 3, 1%Q); (3, 0, 1%Q); (3, 4, 3%Q); (4, 3, 3%Q)] in
  dasgupta_cost false 5 G D false = Ok (32 # 7)%Q /\ (dasgupta_spec false 5 G D == 32 # 7)%Q /\
  dasgupta_cost true 5 G D false = Ok (89 # 7)%Q /\ (dasgupta_spec true 5 G D == 89 # 7)%Q /\
  dasgupta_score false 5 G D = Ok (3 # 35)%Q.
Proof. vm_compute. repeat split; reflexivity. Qed.

(** 7. Tree sampling divergence: bounds over the REAL numbers (Proofs/TsdReal.v; this supersedes the remark
    after [dasgupta_score_in_unit_interval]: the bounds are proved for the formula, and still checked at run
    time on the floating-point implementation).

    The theorems of this part — and only these — use the standard library of real numbers, hence its axioms
    (ClassicalDedekindReals.sig_not_dec, sig_forall_dec, functional_extensionality_dep, Classical_Prop.classic).

    Vocabulary.  A finite pair of distributions is a list of pairs (a_i, b_i) of reals; [mass1] / [mass2] are the
    sums of the a_i / b_i; [okpair (a, b)]: 0 <= a, 0 <= b, and 0 < a -> 0 < b; [kl l] = sum a_i ln (a_i / b_i)
    ([ln] of the standard library is 0 at 0, so the terms with a_i = 0 count for 0: dropping them, as the code
    does with np.where, changes nothing); [coarse groups]: one pair (sum of a, sum of b) per group;
    [normalise score mi] = score / mi if mi > 0, score otherwise (the code's [normalized=True] branch).
    [tsd_real degree n G D normalized] is the formula of [tree_sampling_divergence] of Model/Cuts.v on the SAME
    exact rational terms ([tsd_terms]: the pairs (edge_sampling[t], node_sampling[t]) with edge_sampling[t] <> 0;
    [mi_terms]: for every stored entry (A_uv / w, w_row[u] w_col[v])), injected into R ([q2]), with the real
    logarithm in place of the [ln] oracle. *)
From Coq Require Import Reals.
From SKN Require Import Proofs.TsdReal.
Set Warnings "-notation-overridden".
Open Scope nat_scope.

(** Exact, over Q, no axiom: the two sampling distributions computed by the model of
    [get_sampling_distributions] are probability vectors (self-loops allowed: they are charged to the first merge
    of their node, as in the code). *)
Theorem sampling_distributions_are_probabilities degree n G D :
  valid n D = true ->
  (forall e, In e G -> e_src e < n /\ e_dst e < n) ->
  (forall e, In e G -> (0 <= e_w e)%Q) ->
  (0 < total_weight G)%Q -> 2 <= n ->
  exists sd, get_sampling_distributions degree n G D = Ok sd /\ length sd = n - 1 /\
    (forall x, In x sd -> (0 <= fst (fst x))%Q /\ (0 <= snd (fst x))%Q) /\
    (sumq (map (fun x => fst (fst x)) sd) == 1)%Q /\ (sumq (map (fun x => snd (fst x)) sd) == 1)%Q.
Proof. exact (sampling_distributions_probabilities_lemma degree n G D). Qed.
Print Assumptions sampling_distributions_are_probabilities.

(** Gibbs' inequality: D(p || q) >= 0 as soon as the mass of q does not exceed the mass of p
    (in particular for two probability vectors), q_i > 0 wherever p_i > 0. *)
Theorem kl_nonneg (l : list (R * R)) :
  Forall okpair l -> (mass2 l <= mass1 l)%R -> (0 <= kl l)%R.
Proof. exact (kl_nonneg_gen l). Qed.
Print Assumptions kl_nonneg.

(** The log-sum inequality. *)
Theorem log_sum (l : list (R * R)) :
  Forall okpair l -> (mass1 l * ln (mass1 l / mass2 l) <= kl l)%R.
Proof. exact (log_sum_inequality l). Qed.
Print Assumptions log_sum.

(** Coarse-graining (data processing): the divergence between the images of two distributions under one map
    is at most the divergence between the distributions. *)
Theorem kl_coarse_graining (groups : list (list (R * R))) :
  Forall (Forall okpair) groups -> (kl (coarse groups) <= kl (concat groups))%R.
Proof. exact (kl_coarse_le groups). Qed.
Print Assumptions kl_coarse_graining.

(** The tree sampling divergence is non-negative and at most the normaliser used by the code (the mutual
    information sum_{stored (u,v)} (A_uv / w) ln ((A_uv / w) / (w_row[u] w_col[v])) = divergence between the joint
    edge distribution and the product of the node distributions): (edge_sampling, node_sampling) are the images
    of these two pair-level distributions under (u, v) |-> the merge at which u and v meet.
    Graph: COO triples without repeated (u, v), endpoints in range, non-negative weights, positive total weight
    (self-loops allowed); D any valid dendrogram; weights = 'degree' or 'uniform'. *)
Theorem tsd_nonneg degree n G D :
  valid n D = true ->
  (forall e, In e G -> e_src e < n /\ e_dst e < n) ->
  (forall e, In e G -> (0 <= e_w e)%Q) ->
  (0 < total_weight G)%Q -> 2 <= n -> NoDup (map fst G) -> G <> [] ->
  exists s, tsd_real degree n G D false = Ok s /\ (0 <= s <= kl (map q2 (mi_terms degree n G)))%R.
Proof. exact (tsd_nonneg_lemma degree n G D). Qed.
Print Assumptions tsd_nonneg.

(** The normalised tree sampling divergence lies in [0, 1]. *)
Theorem tsd_normalized_le_one degree n G D :
  valid n D = true ->
  (forall e, In e G -> e_src e < n /\ e_dst e < n) ->
  (forall e, In e G -> (0 <= e_w e)%Q) ->
  (0 < total_weight G)%Q -> 2 <= n -> NoDup (map fst G) -> G <> [] ->
  exists s, tsd_real degree n G D true = Ok s /\ (0 <= s <= 1)%R.
Proof. exact (tsd_normalized_unit_lemma degree n G D). Qed.
Print Assumptions tsd_normalized_le_one.

(** Link with the rational model and its oracle.  (a) If the oracle is within eps of the real logarithm on the
    ratios it is applied to, the unnormalised score of the model is within eps of [tsd_real] (hence >= -eps). *)
Theorem tsd_model_within_eps degree n G D (lnq : Q -> Q) (eps : R) s :
  valid n D = true ->
  (forall e, In e G -> e_src e < n /\ e_dst e < n) ->
  (forall e, In e G -> (0 <= e_w e)%Q) ->
  (0 < total_weight G)%Q -> 2 <= n -> G <> [] ->
  (forall ts x, tsd_terms degree n G D = Ok ts -> In x ts ->
     (Rabs (Q2R (lnq (fst x / snd x)%Q) - ln (Q2R (fst x) / Q2R (snd x))) <= eps)%R) ->
  tree_sampling_divergence lnq degree n G D false = Ok s ->
  exists sr, tsd_real degree n G D false = Ok sr /\ (Rabs (Q2R s - sr) <= eps)%R.
Proof.
  exact (fun Hv HG Hpos Hw Hn HGne => tsd_model_within_eps_lemma degree n G D Hv HG Hpos Hw Hn lnq eps s HGne).
Qed.
Print Assumptions tsd_model_within_eps.

(** (b) Shape only: with an idealised oracle equal to [ln] on every ratio it is applied to, the model returns
    exactly [tsd_real], normalised or not ([tsd_real] is the model's formula term for term; no rational-valued
    oracle meets this hypothesis except on ratios equal to 1). *)
Theorem tsd_real_is_model_formula (lnq : Q -> Q) degree n G D normalized s :
  (forall ts x, tsd_terms degree n G D = Ok ts -> In x (ts ++ mi_terms degree n G) ->
     Q2R (lnq (fst x / snd x)%Q) = ln (Q2R (fst x) / Q2R (snd x))) ->
  tree_sampling_divergence lnq degree n G D normalized = Ok s ->
  tsd_real degree n G D normalized = Ok (Q2R s).
Proof. exact (tsd_real_of_exact_oracle_lemma lnq degree n G D normalized s). Qed.
Print Assumptions tsd_real_is_model_formula.

(** Non-vacuity: the hypotheses of [tsd_normalized_le_one] hold for a weighted graph with a self-loop and a
    5-leaf dendrogram; three of the four merges carry positive edge-sampling probability (the term of the merge
    (5, 4), which no edge crosses, is dropped, as by np.where in the code). *)
Example c08_tsd_nonvacuous :
  let D := [(0, 1, 2%Q, 2); (2, 3, 1%Q, 2); (5, 4, 3%Q, 3); (6, 7, 4%Q, 5)] in
  let G := [(0, 1, 1%Q); (1, 0, 1%Q); (1, 2, 2%Q); (2, 1, 2%Q); (0, 3, 1%Q); (3, 0, 1%Q); (3, 4, 3%Q); (4, 3, 3%Q);
            (2, 2, 1%Q)] in
  valid 5 D = true /\
  (forall e, In e G -> e_src e < 5 /\ e_dst e < 5) /\ (forall e, In e G -> (0 <= e_w e)%Q) /\
  (0 < total_weight G)%Q /\ NoDup (map fst G) /\ G <> [] /\
  (exists ts, tsd_terms true 5 G D = Ok ts /\ length ts = 3) /\
  (exists ts, tsd_terms false 5 G D = Ok ts /\ length ts = 3).
Proof.
  cbv zeta. split; [vm_compute; reflexivity|].
  split; [intros e H; cbn [In] in H; repeat (destruct H as [<-|H]; [vm_compute; split; lia|]); destruct H|].
  split; [intros e H; cbn [In] in H; repeat (destruct H as [<-|H]; [vm_compute; discriminate|]); destruct H|].
  split; [vm_compute; reflexivity|].
  split; [cbn [map fst]; repeat (constructor; [cbn [In]; intros H; repeat (destruct H as [H|H]; [discriminate|]); destruct H|]); constructor|].
  split; [discriminate|].
  split; eexists; (split; [vm_compute; reflexivity | reflexivity]).
Qed.

(** * Part III — the SOURCE TEXT of the cuts (sknetwork/hierarchy/postprocess.py, regenerated on every run)

    [src_cut_balanced], [src_cut_straight_core] and [src_reduce_loop] are statements of the small imperative Python of
    Model/PyImp.v, produced by harness/translators/pyimp.py from the current source (Gen/PyCuts.v): the body of cut_balanced
    after [check_dendrogram], the body of cut_straight from [cluster = {...}] on (with check_n_clusters of utils/check.py
    inlined), and the loop of get_labels that builds the reduced dendrogram.  [exec] runs them on an environment; [embD],
    [embC], [embN], [embNewRow] embed the model's dendrograms / dicts / rows into Python values.  The theorems hold for
    EVERY dendrogram and argument (no validity assumed in the first three): the text computes what the functional model
    of Model/Cuts.v computes, errors included, so Parts I-II speak about the text.  They are proved by symbolic execution
    of the generated terms, not against a pinned copy. *)
From SKN Require Import Model.PyImp Gen.PyCuts Proofs.PyCutsProofs Proofs.PyCutsCompose Proofs.PyLabelsProofs
     Proofs.PyImpFrame Proofs.PyCutsEndToEnd.
From Coq Require Import String.
Local Open Scope string_scope.

Theorem source_cut_balanced_is_model D m (e0 : env) :
  e0 "dendrogram" = Some (embD D) -> e0 "max_cluster_size" = Some (vnat m) ->
  match balanced_state D m with
  | Ok st => exists e', exec src_cut_balanced e0 = POk e' /\ e' "cluster" = Some (embC st) /\
                        e' "dendrogram" = Some (embD D)
  | Err er => exec src_cut_balanced e0 = PErr (conv er)
  end.
Proof. exact (src_cut_balanced_is_model D m e0). Qed.
Print Assumptions source_cut_balanced_is_model.

Theorem source_cut_straight_core_is_model D nc th (e0 : env) :
  let n := S (List.length D) in
  e0 "dendrogram" = Some (embD D) -> e0 "n" = Some (vnat n) ->
  e0 "n_clusters" = Some (embON nc) -> e0 "threshold" = Some (embOQ th) ->
  match (match cut_height D nc th with
         | Err e => Err e
         | Ok cut => replay (straight_guard cut) n D (init_clusters n)
         end) with
  | Ok st => exists e', exec src_cut_straight_core e0 = POk e' /\ e' "cluster" = Some (embC st) /\
                        e' "dendrogram" = Some (embD D)
  | Err er => exec src_cut_straight_core e0 = PErr (conv er)
  end.
Proof. exact (src_cut_straight_core_is_model D nc th e0). Qed.
Print Assumptions source_cut_straight_core_is_model.

Theorem source_reduce_loop_is_model D cindex csize cur cur_new (e0 : env) :
  e0 "dendrogram" = Some (embD D) -> e0 "cluster_index" = Some (embN cindex) ->
  e0 "cluster_size" = Some (embN csize) -> e0 "current_cluster" = Some (vnat cur) ->
  e0 "current_cluster_new" = Some (vnat cur_new) -> e0 "dendrogram_new" = Some (VList []) ->
  keys_lt cur cindex -> keys_lt cur_new csize ->
  match reduce_loop D cindex csize cur cur_new with
  | Ok res => exists e', exec src_reduce_loop e0 = POk e' /\ e' "dendrogram_new" = Some (VList (map embNewRow res)) /\
                         e' "labels" = e0 "labels"
  | Err er => exec src_reduce_loop e0 = PErr (conv er)
  end.
Proof. exact (src_reduce_loop_is_model D cindex csize cur cur_new e0). Qed.
Print Assumptions source_reduce_loop_is_model.

(** On every VALID dendrogram and admissible argument the text of cut_balanced runs to the end without an exception,
    and the [cluster] dict it hands to get_labels has these properties ([cinv]): keys distinct; every value is exactly
    the leaf set of the subtree of its key and is not empty; the values partition the leaves 0..n-1; none is larger
    than max_cluster_size. *)
Theorem source_cut_balanced_clusters n D m (e0 : env) :
  valid n D = true -> 2 <= m <= n ->
  e0 "dendrogram" = Some (embD D) -> e0 "max_cluster_size" = Some (vnat m) ->
  exists e' st, exec src_cut_balanced e0 = POk e' /\ e' "cluster" = Some (embC st) /\
                cinv n D (List.length D) st /\
                Forall (fun kc : nat * list nat => List.length (snd kc) <= m) st.
Proof. exact (src_cut_balanced_clusters n D m e0). Qed.
Print Assumptions source_cut_balanced_clusters.

(** The same for cut_straight: the dict is the replay of the merges strictly below the cut height of the model. *)
Theorem source_cut_straight_clusters n D nc th (e0 : env) :
  valid n D = true -> 2 <= n ->
  match nc with Some k => 1 <= k <= n | None => True end ->
  e0 "dendrogram" = Some (embD D) -> e0 "n" = Some (vnat n) ->
  e0 "n_clusters" = Some (embON nc) -> e0 "threshold" = Some (embOQ th) ->
  exists e' st cut, exec src_cut_straight_core e0 = POk e' /\ e' "cluster" = Some (embC st) /\
                    cut_height D nc th = Ok cut /\
                    replay (straight_guard cut) n D (init_clusters n) = Ok st /\
                    cinv n D (List.length D) st.
Proof. exact (src_cut_straight_clusters n D nc th e0). Qed.
Print Assumptions source_cut_straight_clusters.

(** get_labels as a whole.  [src_get_labels_head] is everything before [if return_dendrogram:] (the clusters in dict order,
    their reordering through np.argsort, the labels array written cluster by cluster), [src_get_labels_ret] adds the initialisation
    and the loop of the reduced dendrogram.  np.argsort is an ORACLE: its answer for the one call is read from the environment and the
    theorem holds for every answer that indexes the clusters (every permutation does).  Result: exactly the labels / reduced rows /
    error of the model's get_labels. *)
Theorem source_get_labels_is_model argsort D st sort ret (e0 : env) :
  let n := S (List.length D) in
  let answer := argsort (map (fun c => (- Z.of_nat (List.length c))%Z) (map snd st)) in
  e0 "dendrogram" = Some (embD D) -> e0 "cluster" = Some (embC st) -> e0 "sort_clusters" = Some (VBool sort) ->
  e0 "oracle:np.argsort" = Some (VList (map vnat answer)) ->
  Forall (fun i => i < List.length st) answer ->
  Forall (Forall (fun v => v < n)) (map snd st) ->
  match get_labels argsort D st sort ret with
  | Ok (labels, od) =>
      exists e', exec (if ret then src_get_labels_ret else src_get_labels_head) e0 = POk e' /\
                 e' "labels" = Some (VList (map vnat labels)) /\
                 match od with
                 | Some Dnew => ret = true /\ e' "dendrogram_new" = Some (VList (map embNewRow Dnew))
                 | None => ret = false
                 end
  | Err er => ret = true /\ exec src_get_labels_ret e0 = PErr (conv er)
  end.
Proof. exact (src_get_labels_is_model argsort D st sort ret e0). Qed.
Print Assumptions source_get_labels_is_model.

(** A statement changes only the variables it syntactically assigns (frame theorem of the language; it is what allows the
    fragments to be composed: the options and the oracle answer survive the first half). *)
Theorem pyimp_frame s (en en' : env) :
  exec s en = POk en' -> forall y, ~ In y (assigned s) -> en' y = en y.
Proof. exact (exec_frame s en en'). Qed.
Print Assumptions pyimp_frame.

(** END TO END.  [src_cut_balanced_all ret] is the regenerated body of cut_balanced followed by the regenerated get_labels
    (everything of the function except [check_dendrogram(dendrogram)] and the [return]); [src_cut_straight_all false] likewise
    from [cluster = {...}] on.  For every valid dendrogram, every argument and every admissible np.argsort they compute exactly the
    model's result, so that the clauses of C08 hold of the source text: *)
Theorem source_cut_balanced_end_to_end argsort n D m sort ret (e0 : env) :
  valid n D = true -> argsort_ok argsort ->
  e0 "dendrogram" = Some (embD D) -> e0 "max_cluster_size" = Some (vnat m) -> e0 "sort_clusters" = Some (VBool sort) ->
  (forall st, balanced_state D m = Ok st -> e0 "oracle:np.argsort" = Some (oracle_answer argsort st)) ->
  match cut_balanced argsort D m sort ret with
  | Ok (labels, od) =>
      exists e', exec (src_cut_balanced_all ret) e0 = POk e' /\ e' "labels" = Some (VList (map vnat labels)) /\
                 match od with
                 | Some Dnew => ret = true /\ e' "dendrogram_new" = Some (VList (map embNewRow Dnew))
                 | None => ret = false
                 end
  | Err er => exec (src_cut_balanced_all ret) e0 = PErr (conv er)
  end.
Proof. exact (src_cut_balanced_end_to_end argsort n D m sort ret e0). Qed.
Print Assumptions source_cut_balanced_end_to_end.

Theorem source_cut_balanced_labels_property argsort n D m sort ret (e0 : env) :
  valid n D = true -> argsort_ok argsort -> 2 <= m <= n ->
  e0 "dendrogram" = Some (embD D) -> e0 "max_cluster_size" = Some (vnat m) -> e0 "sort_clusters" = Some (VBool sort) ->
  (forall st, balanced_state D m = Ok st -> e0 "oracle:np.argsort" = Some (oracle_answer argsort st)) ->
  exists e' labels ids,
    exec (src_cut_balanced_all ret) e0 = POk e' /\ e' "labels" = Some (VList (map vnat labels)) /\
    subtree_partition n D labels ids /\ (sort = true -> sizes_sorted labels (List.length ids)) /\
    (forall l, cluster_size labels l <= m).
Proof. exact (src_cut_balanced_labels_property argsort n D m sort ret e0). Qed.
Print Assumptions source_cut_balanced_labels_property.

Theorem source_cut_straight_labels_property argsort n D nc th sort (e0 : env) :
  valid n D = true -> argsort_ok argsort -> 2 <= n ->
  match nc with Some k => 1 <= k <= n | None => True end ->
  e0 "dendrogram" = Some (embD D) -> e0 "n" = Some (vnat n) ->
  e0 "n_clusters" = Some (embON nc) -> e0 "threshold" = Some (embOQ th) -> e0 "sort_clusters" = Some (VBool sort) ->
  (forall st, (match cut_height D nc th with
               | Err e => Err e
               | Ok cut => replay (straight_guard cut) (S (List.length D)) D (init_clusters (S (List.length D)))
               end) = Ok st -> e0 "oracle:np.argsort" = Some (oracle_answer argsort st)) ->
  exists e' labels ids,
    exec (src_cut_straight_all false) e0 = POk e' /\ e' "labels" = Some (VList (map vnat labels)) /\
    subtree_partition n D labels ids /\ (sort = true -> sizes_sorted labels (List.length ids)).
Proof. exact (src_cut_straight_labels_property argsort n D nc th sort e0). Qed.
Print Assumptions source_cut_straight_labels_property.

(** cut_straight end to end, return_dendrogram included, on a dendrogram that is cut as given ([cut_input D ret = Ok D]: ret = false,
    or heights already sorted): the labels and the reduced dendrogram of the model, or its error. *)
Theorem source_cut_straight_end_to_end argsort n D nc th sort ret (e0 : env) :
  valid n D = true -> argsort_ok argsort -> cut_input D ret = Ok D ->
  e0 "dendrogram" = Some (embD D) -> e0 "n" = Some (vnat n) ->
  e0 "n_clusters" = Some (embON nc) -> e0 "threshold" = Some (embOQ th) -> e0 "sort_clusters" = Some (VBool sort) ->
  (forall st, (match cut_height D nc th with
               | Err e => Err e
               | Ok cut => replay (straight_guard cut) (S (List.length D)) D (init_clusters (S (List.length D)))
               end) = Ok st -> e0 "oracle:np.argsort" = Some (oracle_answer argsort st)) ->
  match cut_straight argsort D nc th sort ret with
  | Ok (labels, od) =>
      exists e', exec (src_cut_straight_all ret) e0 = POk e' /\ e' "labels" = Some (VList (map vnat labels)) /\
                 match od with
                 | Some Dnew => ret = true /\ e' "dendrogram_new" = Some (VList (map embNewRow Dnew))
                 | None => ret = false
                 end
  | Err er => exec (src_cut_straight_all ret) e0 = PErr (conv er)
  end.
Proof. exact (src_cut_straight_end_to_end_ret argsort n D nc th sort ret e0). Qed.
Print Assumptions source_cut_straight_end_to_end.

(** The statements around the translated fragments (the reorder step of cut_straight, the argument lists of the two
    [return get_labels(...)], the initialisation before the loop of get_labels) are pinned to the reviewed text; they
    are covered by the hand-written model and the correspondence runs only. *)
Theorem source_untranslated_parts_reviewed :
  src_cut_balanced_params = ["dendrogram"; "max_cluster_size"; "sort_clusters"; "return_dendrogram"] /\
  src_cut_balanced_tail = ["dendrogram"; "cluster"; "sort_clusters"; "return_dendrogram"] /\
  src_cut_straight_params = ["dendrogram"; "n_clusters"; "threshold"; "sort_clusters"; "return_dendrogram"] /\
  src_cut_straight_tail = ["dendrogram"; "cluster"; "sort_clusters"; "return_dendrogram"] /\
  src_cut_straight_head =
    ["check_dendrogram(dendrogram)"; "n = dendrogram.shape[0] + 1";
     "if return_dendrogram:
    height = dendrogram[:, 2]
    if not np.all(height[:-1] <= height[1:]):
        dendrogram = reorder_dendrogram(dendrogram)"] /\
  src_reduce_init =
    ["cluster_index = {i: label for i, label in enumerate(labels)}";
     "cluster_size = {i: len(cluster) for i, cluster in enumerate(clusters)}";
     "dendrogram_new = []"; "current_cluster = len(labels)"; "current_cluster_new = len(clusters)"] /\
  src_reduce_after = ["dendrogram_new = np.array(dendrogram_new)"; "return (labels, dendrogram_new)"] /\
  src_get_labels_before =
    ["n = len(dendrogram) + 1"; "clusters = list(cluster.values())";
     "if sort_clusters:
    sizes = np.array([len(nodes) for nodes in clusters])
    index = np.argsort(-sizes)
    clusters = [clusters[i] for i in index]";
     "labels = np.zeros(n, dtype=int)";
     "for label, nodes in enumerate(clusters):
    labels[nodes] = label"].
Proof. exact untranslated_parts_reviewed. Qed.
Print Assumptions source_untranslated_parts_reviewed.

(** Non-vacuity: the generated programs really run (evaluated inside Coq) on a 5-leaf dendrogram with a tie, and give the
    dict / the reduced rows one expects. *)
Example c08_source_nonvacuous :
  let D := [(0, 1, 1%Q, 2); (2, 3, 1%Q, 2); (5, 4, 2%Q, 3); (6, 7, 3%Q, 5)] in
  valid 5 D = true /\
  run_var src_cut_balanced [("dendrogram", embD D); ("max_cluster_size", vnat 3)] "cluster"
    = POk (Some (embC [(6, [2; 3]); (7, [0; 1; 4])])) /\
  run_var src_cut_straight_core [("dendrogram", embD D); ("n", vnat 5); ("n_clusters", vnat 3); ("threshold", VNone)] "cluster"
    = POk (Some (embC [(4, [4]); (5, [0; 1]); (6, [2; 3])])) /\
  run_var src_cut_straight_core [("dendrogram", embD D); ("n", vnat 5); ("n_clusters", vnat 7); ("threshold", VNone)] "cluster"
    = PErr PValueError /\
  run_var src_reduce_loop [("dendrogram", embD D); ("cluster_index", embN [(0, 1); (1, 1); (2, 0); (3, 0); (4, 2)]);
                           ("cluster_size", embN [(0, 2); (1, 2); (2, 1)]); ("current_cluster", vnat 5);
                           ("current_cluster_new", vnat 3); ("dendrogram_new", VList [])] "dendrogram_new"
    = POk (Some (VList (map embNewRow [(1, 2, 2%Q, 3); (0, 3, 3%Q, 5)]))).
Proof. cbv zeta. repeat split; vm_compute; reflexivity. Qed.

(** ... and end to end: cut_balanced(D, max_cluster_size=3, return_dendrogram=True) with the stable argsort. *)
Example c08_source_end_to_end_nonvacuous :
  let D := [(0, 1, 1%Q, 2); (2, 3, 1%Q, 2); (5, 4, 2%Q, 3); (6, 7, 3%Q, 5)] in
  let e0 := [("dendrogram", embD D); ("max_cluster_size", vnat 3); ("sort_clusters", VBool true);
             ("oracle:np.argsort", oracle_answer stable_argsort [(6, [2; 3]); (7, [0; 1; 4])])] in
  run_var (src_cut_balanced_all true) e0 "labels" = POk (Some (VList (map vnat [0; 0; 1; 1; 0]))) /\
  run_var (src_cut_balanced_all true) e0 "dendrogram_new" = POk (Some (VList (map embNewRow [(1, 0, 3%Q, 5)]))) /\
  cut_balanced stable_argsort D 3 true true = Ok ([0; 0; 1; 1; 0], Some [(1, 0, 3%Q, 5)]).
Proof. cbv zeta. repeat split; vm_compute; reflexivity. Qed.

(** C08 — stub while the proofs are being written. *)
From SKN Require Import Base.Util Model.Dendrogram Model.Cuts.
Theorem c08_stub : True. Proof. exact I. Qed.
Print Assumptions c08_stub.

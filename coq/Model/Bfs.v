(** Executable model of sknetwork/path/{distances,dag,shortest_path,search}.py.
    Definitions only (no proofs) so that the model still runs when a proof breaks. *)
From SKN Require Import Base.Util.

(** Pattern of a sparse matrix: row u lists the stored column indices of row u
    (any order, duplicates allowed). Weights are ignored by this module ([astype(bool)]). *)
Definition graph := list (list nat).
Record pmat := { p_ncol : nat; p_rows : list (list nat) }.
Definition p_nrow (m : pmat) : nat := length (p_rows m).

Inductive err := ValueError | IndexError | OutOfFuel.
Inductive result (A : Type) := Ok (a : A) | Err (e : err).
Arguments Ok {A} a.
Arguments Err {A} e.

Definition row (g : graph) (u : nat) : list nat := nth u g [].

(** [sparse.csr_matrix(input_matrix.T)] on patterns. *)
Definition transpose (m : pmat) : pmat :=
  {| p_ncol := p_nrow m;
     p_rows := map (fun j => filter (fun i => memn j (row (p_rows m) i)) (seq 0 (p_nrow m)))
                   (seq 0 (p_ncol m)) |}.

(** [bipartite2undirected]: [[0, B], [B^T, 0]], rows first. *)
Definition block_undirected (m : pmat) : graph :=
  map (fun r => map (fun j => p_nrow m + j) r) (p_rows m) ++ p_rows (transpose m).

(** One round of the while loop of get_distances:
    [mask = adjacency_transpose.dot(reach).astype(bool) & ~reach]. *)
Definition frontier (g : graph) (reach : list bool) : list bool :=
  map (fun v => negb (nthb reach v) &&
                existsb (fun u => nthb reach u && memn v (row g u)) (seq 0 (length g)))
      (seq 0 (length g)).

Fixpoint bfs_loop (fuel : nat) (g : graph) (d : Z) (reach : list bool) (dist : list Z)
  : option (list Z) :=
  match fuel with
  | O => None
  | S f =>
      let mask := frontier g reach in
      if existsb (fun b => b) mask
      then bfs_loop f g (d + 1)%Z (map2 orb reach mask)
                    (map2 (fun (b : bool) (x : Z) => if b then d else x) mask dist)
      else Some dist
  end.

(** The loop started as the code starts it: distances 0 on the sources, -1 elsewhere. *)
Definition bfs (g : graph) (mask0 : list bool) : option (list Z) :=
  bfs_loop (S (length g)) g 1%Z mask0 (map (fun b : bool => if b then 0%Z else (-1)%Z) mask0).

(** [mask[idx] = 1] for a list of non-negative indices; IndexError when out of range. *)
Definition set_mask (n : nat) (offset : nat) (idx : list nat) (mask : list bool) : result (list bool) :=
  if forallb (fun i => Nat.ltb (offset + i) n) idx
  then Ok (map (fun v => nthb mask v || memn v (map (fun i => offset + i) idx)) (seq 0 n))
  else Err IndexError.

(** get_distances. Sources are lists of non-negative indices (an int source is a singleton).
    Result: distances, split in (rows, columns) for bipartite treatment. *)
Definition get_distances (m0 : pmat) (source source_row source_col : option (list nat))
           (transpose_flag force_bipartite : bool) : result (list Z * option (list Z)) :=
  let m := if transpose_flag then transpose m0 else m0 in
  let force_bipartite :=
    match source_row, source_col with None, None => force_bipartite | _, _ => true end in
  let bipartite := force_bipartite || negb (Nat.eqb (p_nrow m) (p_ncol m)) in
  let g := if bipartite then block_undirected m else p_rows m in
  let n_row := p_nrow m in
  let n := length g in
  let mask0 := repeat false n in
  let rmask :=
    if bipartite then
      match source, source_row with
      | Some _, Some _ => Err ValueError
      | _, _ =>
          let source_row := match source with Some s => Some s | None => source_row end in
          match source_row, source_col with
          | None, None => Err ValueError
          | _, _ =>
              match (match source_row with Some s => set_mask n 0 s mask0 | None => Ok mask0 end) with
              | Err e => Err e
              | Ok mk => match source_col with Some s => set_mask n n_row s mk | None => Ok mk end
              end
          end
      end
    else
      match source with
      | None => Err ValueError
      | Some s => set_mask n 0 s mask0
      end in
  match rmask with
  | Err e => Err e
  | Ok mk =>
      match bfs g mk with
      | None => Err OutOfFuel
      | Some dist =>
          if bipartite then Ok (firstn n_row dist, Some (skipn n_row dist)) else Ok (dist, None)
      end
  end.

(** get_dag, as coded: for each distinct value of [order], zero out the edges leaving a node
    of that value towards a node of order <= value (all edges when the value is negative). *)
Definition dag_removed (order : list Z) (vals : list Z) (i j : nat) : bool :=
  existsb (fun value : Z =>
             if (value <? 0)%Z then (nthz order i =? value)%Z
             else (nthz order i =? value)%Z && (nthz order j <=? value)%Z) vals.

Definition get_dag (g : graph) (order : list Z) : graph :=
  let vals := nodup Z.eq_dec order in
  map (fun i => filter (fun j => negb (dag_removed order vals i j)) (row g i)) (seq 0 (length g)).

(** get_shortest_path. [fb_to_transpose] / [fb_to_force] say where the call site of
    get_distances binds the caller's force_bipartite flag (extracted from the source by the
    translator, Gen/Routing.v): the model calls get_distances exactly as the code does. *)
Definition get_shortest_path (fb_to_transpose fb_to_force : bool) (m : pmat)
           (source source_row source_col : option (list nat)) (force_bipartite : bool)
  : result graph :=
  match get_distances m source source_row source_col
                      (fb_to_transpose && force_bipartite) (fb_to_force && force_bipartite) with
  | Err e => Err e
  | Ok (d, None) => Ok (get_dag (p_rows m) d)
  | Ok (dr, Some dc) => Ok (get_dag (block_undirected m) (dr ++ dc))
  end.

(** breadth_first_search: [indices = argsort(distances); n = #(distances < 0); indices[n:]].
    The argsort answer is an oracle argument (any permutation that sorts is admissible). *)
Definition bfs_order (dist : list Z) (argsort : list nat) : list nat :=
  skipn (length (filter (fun d => (d <? 0)%Z) dist)) argsort.

(** Specification used by the theorems: walks of exactly k edges from a source. *)
Fixpoint reachk (g : graph) (src : list bool) (k : nat) (v : nat) : Prop :=
  match k with
  | O => nthb src v = true
  | S k' => exists u, reachk g src k' u /\ In v (row g u)
  end.

(** Executable counterpart of the specification (used as an oracle on implementation output):
    the set of nodes at walk-distance exactly k, as a boolean vector. *)
Fixpoint reachk_b (g : graph) (src : list bool) (k : nat) : list bool :=
  match k with
  | O => map (fun v => nthb src v) (seq 0 (length g))
  | S k' => let prev := reachk_b g src k' in
            map (fun v => existsb (fun u => nthb prev u && memn v (row g u)) (seq 0 (length g)))
                (seq 0 (length g))
  end.

(** [dist_ok g src dist]: dist is the hop-distance vector, decided by brute force over k <= n. *)
Definition dist_ok (g : graph) (src : list bool) (dist : list Z) : bool :=
  let n := length g in
  Nat.eqb (length dist) n &&
  forallb (fun v =>
    let hits := filter (fun k => nthb (reachk_b g src k) v) (seq 0 (S n)) in
    match hits with
    | [] => (nthz dist v =? -1)%Z
    | k :: _ => (nthz dist v =? Z.of_nat k)%Z
    end) (seq 0 n).

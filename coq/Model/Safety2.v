(** C17 — flat (L0) models with CHECKED accesses and explicit fuel, second batch (same conventions as
    Model/Safety.v: [rd] / [wr] return [OOB] outside [0, size); every [while] loop takes [fuel] and
    reports [OutOfFuel]; [for x in range(..)] loops are structural recursions). Definitions only.

      1. topology/weisfeiler_lehman_core.pyx   weisfeiler_lehman_coloring
      2. ranking/betweenness.pyx               Betweenness.fit (Brandes)
      3. clustering/leiden_core.pyx            optimize_refine_core
      5. linalg/push.pyx                       the fuel of the work-list loop (model: Safety.push_loop)

    (4. hierarchy/paris.pyx is dict-based; its model is Model/Paris.v: a missing key is [Err KeyError],
    popping the empty vector is [Err IndexError], out of fuel is [None].)

    External routines are ARGUMENTS: [sort] (std::sort with the comparison [is_lower]) and [rnd]
    (the stream of values returned by libc [rand()]). *)
From Coq Require Import Qabs.
From SKN Require Import Base.Util Model.Vote Model.Safety.
Set Warnings "-notation-overridden". (* keep: a line with a parenthesis after the imports *)

(** * 1. weisfeiler_lehman_core.pyx

    [labels] are C ints that the kernel only ever sets to counters >= 0, and the caller hands zeros (or the
    output of a previous call): [nat]. [powers] is the hash table of the caller, a [double[:]] of n entries,
    read at [powers[labels[j]]]. A [ctuple] is (label, hash, node). *)
Definition wtuple := (nat * Q * nat)%type.

(** [for jj in range(j1, j2): j = indices[jj]; hash_ref += powers[labels[j]]] *)
Fixpoint wl_hash (jjs : list nat) (indices labels : list nat) (powers : list Q) (h : Q) : kres Q :=
  match jjs with
  | [] => KOk h
  | jj :: t =>
      do j <- rd indices jj ;;
      do l <- rd labels j ;;
      do p <- rd powers l ;;
      wl_hash t indices labels powers (h + p)%Q
  end.

(** [for i in range(n): ...; new_labels.push_back((labels[i], hash_ref, i))] *)
Fixpoint wl_collect (nodes : list nat) (indptr indices labels : list nat) (powers : list Q)
         (new_labels : list wtuple) : kres (list wtuple) :=
  match nodes with
  | [] => KOk new_labels
  | i :: t =>
      do j1 <- rd indptr i ;;
      do j2 <- rd indptr (S i) ;;
      do h <- wl_hash (seq j1 (j2 - j1)) indices labels powers 0%Q ;;
      do li <- rd labels i ;;
      wl_collect t indptr indices labels powers (new_labels ++ [(li, h, i)])
  end.

(** [for j in range(1, n)]: [tuple_ref = tuple_new; tuple_new = new_labels[j]; ...
     if abs(hash_new - hash_ref) > epsilon or label_new != label_ref: label += 1
     if labels[i] != label: has_changed = True
     labels[i] = label] *)
Fixpoint wl_relabel (js : list nat) (new_labels : list wtuple) (eps : Q) (labels : list nat)
         (tuple_new : wtuple) (label : nat) (changed : bool) : kres (list nat * bool) :=
  match js with
  | [] => KOk (labels, changed)
  | j :: t =>
      let tuple_ref := tuple_new in
      do tn <- rd new_labels j ;;
      let '(label_ref, hash_ref, _) := tuple_ref in
      let '(label_new, hash_new, i) := tn in
      let label' := if Qlt_le_dec eps (Qabs (hash_new - hash_ref)) then S label
                    else if label_new =? label_ref then label else S label in
      do li <- rd labels i ;;
      let changed' := if li =? label' then changed else true in
      do labels' <- wr labels i label' ;;
      wl_relabel t new_labels eps labels' tn label' changed'
  end.

(** One round of the [while] loop. [new_labels[0]] is read whatever n is: with n = 0 the vector is empty. *)
Definition wl_round (sort : list wtuple -> list wtuple) (n : nat) (indptr indices : list nat)
           (powers : list Q) (eps : Q) (labels : list nat) : kres (list nat * bool) :=
  do nl <- wl_collect (seq 0 n) indptr indices labels powers [] ;;
  let sorted := sort nl in
  do t0 <- rd sorted 0 ;;
  do labels1 <- wr labels (snd t0) 0 ;;
  wl_relabel (seq 1 (n - 1)) sorted eps labels1 t0 0 false.

(** [while iteration < max_iter and has_changed]; the result carries has_changed and [iteration].
    A negative [max_iter] (C int) behaves as 0. *)
Fixpoint wl_loop (fuel : nat) (sort : list wtuple -> list wtuple) (n : nat) (indptr indices : list nat)
         (powers : list Q) (eps : Q) (max_iter iteration : nat) (labels : list nat) (changed : bool)
  : kres (list nat * bool * nat) :=
  if (iteration <? max_iter) && changed then
    match fuel with
    | O => OutOfFuel
    | S f =>
        do r <- wl_round sort n indptr indices powers eps labels ;;
        wl_loop f sort n indptr indices powers eps max_iter (S iteration) (fst r) (snd r)
    end
  else KOk (labels, changed, iteration).

(** weisfeiler_lehman_coloring(indptr, indices, labels, powers, max_iter): [n = indptr.shape[0] - 1],
    [epsilon = pow(10, -10)]. *)
Definition wl_eps : Q := (1 # 10000000000)%Q.
Definition wl_kernel (fuel : nat) (sort : list wtuple -> list wtuple) (indptr indices labels : list nat)
           (powers : list Q) (max_iter : nat) : kres (list nat * bool * nat) :=
  wl_loop fuel sort (length indptr - 1) indptr indices powers wl_eps max_iter 0 labels true.

(** What is needed of std::sort: same number of elements, every element one of the input's
    (a permutation satisfies both). *)
Definition sort_contract (sort : list wtuple -> list wtuple) : Prop :=
  forall l, length (sort l) = length l /\ (forall t, In t (sort l) -> In t l).

(** * 2. betweenness.pyx (Brandes)

    [sigma], [dists], [delta], [preds] are std::vectors of n entries indexed with the unchecked
    [operator[]]; [bfs_queue] is a std::queue (front / pop only after [size() != 0]); [seen] a std::vector
    used as a stack (back / pop_back only after [len(seen) != 0]). [neighbors] is a numpy slice of
    [indices] (its elements are read in order). *)
Record fbstate := { fb_queue : list nat; fb_dists : list Z; fb_sigma : list Z; fb_preds : list (list nat) }.

(** [for j in neighbors:
       if dists[j] < 0: dists[j] = dists[i] + 1; bfs_queue.push(j)
       if dists[j] == dists[i] + 1: sigma[j] += sigma[i]; preds[j].push_back(i)] *)
Fixpoint br_row (jjs : list nat) (indices : list nat) (i : nat) (st : fbstate) : kres fbstate :=
  match jjs with
  | [] => KOk st
  | jj :: t =>
      do j <- rd indices jj ;;
      do dj <- rd (fb_dists st) j ;;
      do st1 <- (if (dj <? 0)%Z then
                   do di <- rd (fb_dists st) i ;;
                   do dists' <- wr (fb_dists st) j (di + 1)%Z ;;
                   KOk {| fb_queue := fb_queue st ++ [j]; fb_dists := dists';
                          fb_sigma := fb_sigma st; fb_preds := fb_preds st |}
                 else KOk st) ;;
      do dj1 <- rd (fb_dists st1) j ;;
      do di1 <- rd (fb_dists st1) i ;;
      do st2 <- (if (dj1 =? di1 + 1)%Z then
                   do sj <- rd (fb_sigma st1) j ;;
                   do si <- rd (fb_sigma st1) i ;;
                   do sigma' <- wr (fb_sigma st1) j (sj + si)%Z ;;
                   do pj <- rd (fb_preds st1) j ;;
                   do preds' <- wr (fb_preds st1) j (pj ++ [i]) ;;
                   KOk {| fb_queue := fb_queue st1; fb_dists := fb_dists st1;
                          fb_sigma := sigma'; fb_preds := preds' |}
                 else KOk st1) ;;
      br_row t indices i st2
  end.

(** [while bfs_queue.size() != 0: i = front(); pop(); seen.push_back(i); ...]: one unit of fuel per pop.
    [seen]: head = top of the stack. The result carries the number of pops. *)
Fixpoint br_bfs (fuel : nat) (indptr indices : list nat) (st : fbstate) (seen : list nat) (pops : nat)
  : kres (fbstate * list nat * nat) :=
  match fb_queue st with
  | [] => KOk (st, seen, pops)
  | i :: q =>
      match fuel with
      | O => OutOfFuel
      | S f =>
          do a <- rd indptr i ;;
          do b <- rd indptr (S i) ;;
          do st' <- br_row (seq a (b - a)) indices i
                           {| fb_queue := q; fb_dists := fb_dists st; fb_sigma := fb_sigma st;
                              fb_preds := fb_preds st |} ;;
          br_bfs f indptr indices st' (i :: seen) (S pops)
      end
  end.

(** [for i in preds[j]: delta[i] += sigma[i] / sigma[j] * (1 + delta[j])] *)
Fixpoint br_back_preds (ps : list nat) (sigma : list Z) (delta : list Q) (j : nat) : kres (list Q) :=
  match ps with
  | [] => KOk delta
  | i :: t =>
      do di <- rd delta i ;;
      do si <- rd sigma i ;;
      do sj <- rd sigma j ;;
      do dj <- rd delta j ;;
      do delta' <- wr delta i (di + inject_Z si / inject_Z sj * (1 + dj))%Q ;;
      br_back_preds t sigma delta' j
  end.

(** [while len(seen) != 0: j = seen.back(); seen.pop_back(); ...; if j != source: scores[j] += delta[j]]:
    one unit of fuel per pop; the result carries the number of pops. *)
Fixpoint br_back (fuel : nat) (source : nat) (sigma : list Z) (preds : list (list nat)) (seen : list nat)
         (delta scores : list Q) (pops : nat) : kres (list Q * nat) :=
  match seen with
  | [] => KOk (scores, pops)
  | j :: rest =>
      match fuel with
      | O => OutOfFuel
      | S f =>
          do pj <- rd preds j ;;
          do delta' <- br_back_preds pj sigma delta j ;;
          do scores' <- (if j =? source then KOk scores
                         else do sj <- rd scores j ;; do dj <- rd delta' j ;; wr scores j (sj + dj)%Q) ;;
          br_back f source sigma preds rest delta' scores' (S pops)
      end
  end.

(** Body of [for source in range(n)]. [bfs_fuel] / the back loop's fuel are parameters of the model; the
    kernel statement instantiates them with n and with the number of seen nodes. Result: the scores and
    (BFS pops, back-propagation pops). *)
Definition br_source (bfs_fuel : nat) (n : nat) (indptr indices : list nat) (scores : list Q) (source : nat)
  : kres (list Q * (nat * nat)) :=
  do sigma0 <- wr (repeat 0%Z n) source 1%Z ;;
  do dists0 <- wr (repeat (-1)%Z n) source 0%Z ;;
  do r <- br_bfs bfs_fuel indptr indices
                 {| fb_queue := [source]; fb_dists := dists0; fb_sigma := sigma0; fb_preds := repeat [] n |}
                 [] 0 ;;
  let '(st, seen, p1) := r in
  do b <- br_back (length seen) source (fb_sigma st) (fb_preds st) seen (repeat 0%Q n) scores 0 ;;
  KOk (fst b, (p1, snd b)).

Fixpoint br_sources (bfs_fuel : nat) (srcs : list nat) (n : nat) (indptr indices : list nat) (scores : list Q)
         (log : list (nat * nat)) : kres (list Q * list (nat * nat)) :=
  match srcs with
  | [] => KOk (scores, log)
  | s :: t =>
      do r <- br_source bfs_fuel n indptr indices scores s ;;
      br_sources bfs_fuel t n indptr indices (fst r) (log ++ [snd r])
  end.

(** Betweenness.fit up to the final halving (numpy): [n = adjacency.shape[0]]; BFS fuel n per source. *)
Definition brandes_flat (indptr indices : list nat) : kres (list Q * list (nat * nat)) :=
  let n := length indptr - 1 in
  br_sources n (seq 0 n) n indptr indices (repeat 0%Q n) [].

(** * 3. leiden_core.pyx: optimize_refine_core

    [labels] (coarse partition) is only compared; [labels_refined] indexes the three cluster arrays.
    [increase] is a flag. [rnd k] is the value returned by the k-th call of [rand()]. *)
Record rstate := { r_lr : list nat; r_ocw : list Q; r_icw : list Q; r_cw : list Q; r_inc : bool;
                   r_draws : nat }.

(** [for j in range(start, end): if labels[indices[j]] == label:
       label_target = labels_refined[indices[j]]; label_set.insert(label_target);
       cluster_weights[label_target] += data[j]] *)
Fixpoint ld_gather (js : list nat) (indices : list nat) (data : list Q) (labels lr : list nat) (label : nat)
         (lset : list nat) (cw : list Q) : kres (list nat * list Q) :=
  match js with
  | [] => KOk (lset, cw)
  | j :: t =>
      do jj <- rd indices j ;;
      do lj <- rd labels jj ;;
      if lj =? label then
        do jj' <- rd indices j ;;
        do lt <- rd lr jj' ;;
        do c <- rd cw lt ;;
        do d <- rd data j ;;
        do cw' <- wr cw lt (c + d)%Q ;;
        ld_gather t indices data labels lr label (set_insert lt lset) cw'
      else ld_gather t indices data labels lr label lset cw
  end.

(** [for label_target in label_set: delta_local = ...; if delta_local > 0: label_target_set.insert(..);
     cluster_weights[label_target] = 0] *)
Fixpoint ld_targets (ls : list nat) (res ow iw delta : Q) (icw ocw cw : list Q) (tset : list nat)
  : kres (list nat * list Q) :=
  match ls with
  | [] => KOk (tset, cw)
  | lt :: t =>
      do c <- rd cw lt ;;
      do ic <- rd icw lt ;;
      do oc <- rd ocw lt ;;
      let dl := (2 * c - res * ow * ic - res * iw * oc - delta)%Q in
      do cw' <- wr cw lt 0%Q ;;
      if Qlt_le_dec 0 dl then ld_targets t res ow iw delta icw ocw cw' (set_insert lt tset)
      else ld_targets t res ow iw delta icw ocw cw' tset
  end.

(** [for label_target in label_target_set: k -= 1; if k == 0: break]: the variable keeps the last value
    assigned ([cur] before the loop). With k = 0 on entry the counter goes negative and the loop runs to
    the end: the LAST element is chosen; with k = j >= 1 the j-th. *)
Fixpoint ld_pick (ls : list nat) (k : Z) (cur : nat) : nat :=
  match ls with
  | [] => cur
  | lt :: t => if (k - 1 =? 0)%Z then lt else ld_pick t (k - 1)%Z lt
  end.

Definition ld_node (rnd : nat -> nat) (indptr indices : list nat)
           (data out_weights in_weights self_loops : list Q) (labels : list nat) (res : Q)
           (i : nat) (st : rstate) : kres rstate :=
  do label <- rd labels i ;;
  do label_refined <- rd (r_lr st) i ;;
  do start <- rd indptr i ;;
  do end_ <- rd indptr (S i) ;;
  do g <- ld_gather (seq start (end_ - start)) indices data labels (r_lr st) label [] (r_cw st) ;;
  let lset := remove Nat.eq_dec label_refined (fst g) in
  let cw1 := snd g in
  do st1 <- (match lset with
             | [] => KOk {| r_lr := r_lr st; r_ocw := r_ocw st; r_icw := r_icw st; r_cw := cw1;
                            r_inc := r_inc st; r_draws := r_draws st |}
             | _ :: _ =>
                 do ow <- rd out_weights i ;;
                 do iw <- rd in_weights i ;;
                 do cl <- rd cw1 label_refined ;;
                 do sl <- rd self_loops i ;;
                 do icl <- rd (r_icw st) label_refined ;;
                 do ocl <- rd (r_ocw st) label_refined ;;
                 let delta := (2 * (cl - sl) - res * ow * (icl - iw) - res * iw * (ocl - ow))%Q in
                 do tg <- ld_targets lset res ow iw delta (r_icw st) (r_ocw st) cw1 [] ;;
                 let tset := fst tg in
                 let cw2 := snd tg in
                 match tset with
                 | [] => KOk {| r_lr := r_lr st; r_ocw := r_ocw st; r_icw := r_icw st; r_cw := cw2;
                                r_inc := r_inc st; r_draws := r_draws st |}
                 | t0 :: _ =>
                     let k := Z.of_nat (rnd (r_draws st) mod length tset) in
                     let lt := ld_pick tset k t0 in
                     do lr' <- wr (r_lr st) i lt ;;
                     do o1 <- rd (r_ocw st) label_refined ;;
                     do ocw1 <- wr (r_ocw st) label_refined (o1 - ow)%Q ;;
                     do i1 <- rd (r_icw st) label_refined ;;
                     do icw1 <- wr (r_icw st) label_refined (i1 - iw)%Q ;;
                     do o2 <- rd ocw1 lt ;;
                     do ocw2 <- wr ocw1 lt (o2 + ow)%Q ;;
                     do i2 <- rd icw1 lt ;;
                     do icw2 <- wr icw1 lt (i2 + iw)%Q ;;
                     KOk {| r_lr := lr'; r_ocw := ocw2; r_icw := icw2; r_cw := cw2; r_inc := true;
                            r_draws := S (r_draws st) |}
                 end
             end) ;;
  do cw' <- wr (r_cw st1) label_refined 0%Q ;;
  KOk {| r_lr := r_lr st1; r_ocw := r_ocw st1; r_icw := r_icw st1; r_cw := cw'; r_inc := r_inc st1;
         r_draws := r_draws st1 |}.

Fixpoint ld_pass (nodes : list nat) (rnd : nat -> nat) (indptr indices : list nat)
         (data out_weights in_weights self_loops : list Q) (labels : list nat) (res : Q) (st : rstate)
  : kres rstate :=
  match nodes with
  | [] => KOk st
  | i :: t => do st' <- ld_node rnd indptr indices data out_weights in_weights self_loops labels res i st ;;
              ld_pass t rnd indptr indices data out_weights in_weights self_loops labels res st'
  end.

(** [while increase: increase = 0; for i in range(n): ...] ([increase = 1] on entry): one unit of fuel per
    pass; the result carries the number of passes. *)
Fixpoint ld_loop (fuel : nat) (n : nat) (rnd : nat -> nat) (indptr indices : list nat)
         (data out_weights in_weights self_loops : list Q) (labels : list nat) (res : Q) (st : rstate)
         (passes : nat) : kres (list nat * nat) :=
  match fuel with
  | O => OutOfFuel
  | S f =>
      do st' <- ld_pass (seq 0 n) rnd indptr indices data out_weights in_weights self_loops labels res
                        {| r_lr := r_lr st; r_ocw := r_ocw st; r_icw := r_icw st; r_cw := r_cw st;
                           r_inc := false; r_draws := r_draws st |} ;;
      if r_inc st' then
        ld_loop f n rnd indptr indices data out_weights in_weights self_loops labels res st' (S passes)
      else KOk (r_lr st', S passes)
  end.

(** optimize_refine_core(labels, labels_refined, indices, indptr, data, out_weights, in_weights,
    out_cluster_weights, in_cluster_weights, cluster_weights, self_loops, resolution): [n = labels.shape[0]] *)
Definition optimize_refine_core (fuel : nat) (rnd : nat -> nat) (labels labels_refined indices indptr : list nat)
           (data out_weights in_weights out_cluster_weights in_cluster_weights cluster_weights self_loops : list Q)
           (res : Q) : kres (list nat * nat) :=
  ld_loop fuel (length labels) rnd indptr indices data out_weights in_weights self_loops labels res
          {| r_lr := labels_refined; r_ocw := out_cluster_weights; r_icw := in_cluster_weights;
             r_cw := cluster_weights; r_inc := true; r_draws := 0 |} 0.

(** The generator the kernel carries since fix 0f5490bf (it used libc [rand()] before): an [unsigned int] state, 1 on
    entry, [draw = draw * 1103515245 + 12345] (modulo 2^32) before each choice, value used [draw >> 16].
    [leiden_draw k] is the value of the k-th draw of a call; [optimize_refine_core fuel leiden_draw ...] is the kernel
    as coded (the theorems hold for every stream, this one included). *)
Definition lcg_step (s : N) : N := N.modulo (s * 1103515245 + 12345) 4294967296.
Fixpoint lcg_state (k : nat) : N := match k with O => 1%N | S k' => lcg_step (lcg_state k') end.
Definition leiden_draw (k : nat) : nat := N.to_nat (N.shiftr (lcg_state (S k)) 16).

(** * 5. push.pyx: fuel of [while not worklist.empty()] in [Safety.push_pagerank]
    (n initial entries — the argsort answer — plus at most one later push per node). *)
Definition push_fuel (n : nat) : nat := 2 * n.

(** Executable model of sknetwork/data/parse.py:from_graphml over an ABSTRACT parsed document
    (definitions only, no proofs).

    The document is what xml.etree.ElementTree hands to the code: a tree of elements
    (tag, attributes in document order, text, children). ElementTree is the oracle: tags carry the
    namespace in braces ("{http://graphml.graphdrawing.org/xmlns}node"); the code never strips it, it
    tests [tag.endswith('node')], and so does the model. The code only ever looks three levels below
    the root (graphml > graph|key|desc > node|edge|default|desc > data), so no function here recurses
    on the tree.

    Exceptions are values ([Raise KeyError] ...), in the order in which the code would meet them.
    [Unmodelled] marks corners the model declines to follow (listed where they are raised); the
    harness never compares on them.

    Arrays. The code allocates [np.zeros / np.full] arrays and writes them slot by slot:
    node number [k] writes only slot [k] of every node attribute array; the edges write consecutive
    slots of row / col / dat and of every edge attribute array (one slot, or two when the edge is
    mirrored), starting at 0. The model denotes such an array by its final content: slot-wise the
    LAST value written, else the initial fill; slots never reached keep the fill; a write past the
    end is an IndexError.

    Numbers. [int(text)] / [float(text)] are modelled for plain decimal literals (optional sign,
    digits, optional fraction, surrounding blanks); other spellings Python accepts (exponents,
    underscores, inf, nan) give [ValueError] in the model. Floats are exact rationals; int64 does
    not overflow. Strings are byte strings (UTF-8), the '<U512' truncation is on bytes. *)
From Coq Require Import String Ascii.
From SKN Require Import Base.Util.
Set Warnings "-notation-overridden".
Local Open Scope string_scope.
Local Open Scope list_scope.
Local Open Scope nat_scope.
Local Infix "==s" := String.eqb (at level 70).

(** * Abstract document *)

Inductive xml := Elem (tag : string) (attrs : list (string * string)) (text : option string) (children : list xml).

Definition x_tag (e : xml) : string := match e with Elem t _ _ _ => t end.
Definition x_attrs (e : xml) : list (string * string) := match e with Elem _ a _ _ => a end.
Definition x_text (e : xml) : option string := match e with Elem _ _ t _ => t end.
Definition x_children (e : xml) : list xml := match e with Elem _ _ _ c => c end.

(** Python dicts as association lists in insertion order. *)
Fixpoint alookup {A} (k : string) (l : list (string * A)) : option A :=
  match l with
  | [] => None
  | (k', v) :: t => if String.eqb k' k then Some v else alookup k t
  end.
Fixpoint aset {A} (k : string) (v : A) (l : list (string * A)) : list (string * A) :=
  match l with
  | [] => [(k, v)]
  | (k', v') :: t => if String.eqb k' k then (k, v) :: t else (k', v') :: aset k v t
  end.

Definition attr (k : string) (e : xml) : option string := alookup k (x_attrs e).

(** [s.endswith(suffix)] *)
Definition ends_with (suffix s : string) : bool :=
  let n := String.length s in
  let m := String.length suffix in
  (m <=? n) && String.eqb (substring (n - m) m s) suffix.
Definition is_tag (suffix : string) (e : xml) : bool := ends_with suffix (x_tag e).

(** * Exceptions *)

Inductive exn := KeyError | ValueError | TypeError | AttributeError | IndexError | Unmodelled.
Inductive result (A : Type) := Ok (a : A) | Raise (e : exn).
Arguments Ok {A} a.
Arguments Raise {A} e.

Definition bind {A B} (r : result A) (f : A -> result B) : result B :=
  match r with Ok a => f a | Raise e => Raise e end.
Local Notation "x <- r ;; k" := (bind r (fun x => k)) (at level 61, r at next level, right associativity).

Fixpoint mapM {A B} (f : A -> result B) (l : list A) : result (list B) :=
  match l with
  | [] => Ok []
  | x :: t => y <- f x ;; ys <- mapM f t ;; Ok (y :: ys)
  end.

(** [element.attrib[k]] *)
Definition get_attr (k : string) (e : xml) : result string :=
  match attr k e with Some v => Ok v | None => Raise KeyError end.

(** * Types and casts *)

(** [java_type_to_python_type]: bool / int / str / float, or None for any other spelling. *)
Inductive ptype := PBool | PInt | PStr | PFloat | PNone.
Definition java_type (s : string) : ptype :=
  if s ==s "boolean" then PBool
  else if s ==s "int" then PInt
  else if s ==s "string" then PStr
  else if (s ==s "long") || (s ==s "float") || (s ==s "double") then PFloat
  else PNone.
Definition ptype_eqb (a b : ptype) : bool :=
  match a, b with
  | PBool, PBool | PInt, PInt | PStr, PStr | PFloat, PFloat | PNone, PNone => true
  | _, _ => false
  end.

Inductive value := VBool (b : bool) | VInt (z : Z) | VFloat (q : Q) | VStr (s : string).

Definition type_of (v : value) : ptype :=
  match v with VBool _ => PBool | VInt _ => PInt | VFloat _ => PFloat | VStr _ => PStr end.

(** Decimal literals. *)
Definition digit_of (a : ascii) : option Z :=
  let n := nat_of_ascii a in
  if (48 <=? n) && (n <=? 57) then Some (Z.of_nat (n - 48)) else None.
Fixpoint parse_digits (s : string) (acc : Z) : option Z :=
  match s with
  | EmptyString => Some acc
  | String a t => match digit_of a with Some d => parse_digits t (10 * acc + d)%Z | None => None end
  end.
Definition is_blank (a : ascii) : bool :=
  let n := nat_of_ascii a in (n =? 32) || ((9 <=? n) && (n <=? 13)).
Fixpoint lstrip (s : string) : string :=
  match s with
  | String a t => if is_blank a then lstrip t else s
  | EmptyString => EmptyString
  end.
Fixpoint rstrip (s : string) : string :=
  match s with
  | EmptyString => EmptyString
  | String a t => match rstrip t with
                  | EmptyString => if is_blank a then EmptyString else String a EmptyString
                  | r => String a r
                  end
  end.
Definition strip (s : string) : string := rstrip (lstrip s).

(** sign and unsigned rest *)
Definition split_sign (s : string) : bool * string :=
  match s with
  | String a t => if Ascii.eqb a "-" then (true, t) else if Ascii.eqb a "+" then (false, t) else (false, s)
  | EmptyString => (false, s)
  end.

Definition parse_int (s : string) : option Z :=
  let '(neg, u) := split_sign (strip s) in
  if String.length u =? 0 then None
  else match parse_digits u 0%Z with
       | Some z => Some (if neg then (- z)%Z else z)
       | None => None
       end.

Fixpoint split_dot (s : string) : string * option string :=
  match s with
  | EmptyString => (EmptyString, None)
  | String a t => if Ascii.eqb a "." then (EmptyString, Some t)
                  else let '(x, r) := split_dot t in (String a x, r)
  end.

Definition parse_float (s : string) : option Q :=
  let '(neg, u) := split_sign (strip s) in
  let '(ip, fp) := split_dot u in
  let fr := match fp with Some f => f | None => EmptyString end in
  if (String.length ip =? 0) && (String.length fr =? 0) then None
  else match parse_digits ip 0%Z, parse_digits fr 0%Z with
       | Some a, Some b =>
           let scale := (10 ^ Z.of_nat (String.length fr))%Z in
           let num := (a * scale + b)%Z in
           Some (Qred (Qmake (if neg then (- num)%Z else num) (Z.to_pos scale)))
       | _, _ => None
       end.

(** The two places where the code changed while this model was written (both repaired in /repo):
    - [d_for_checked]: the key named [weight_key] gives the weights only when its domain is 'edge' or
      'all' / absent ([attrib.get('for', 'all') in ('edge', 'all')]); before, any key with that name did;
    - [d_bool_strict]: [cast_graphml_value(bool, text)] is [str(text).strip().lower() in ('true', '1')];
      before, [bool(text)] (any non-empty text, 'false' included, was True).
    [current] is the code as it is now; [legacy] is kept for the refutation witnesses. *)
Record dialect := { d_for_checked : bool; d_bool_strict : bool }.
Definition current : dialect := {| d_for_checked := true; d_bool_strict := true |}.
Definition legacy : dialect := {| d_for_checked := false; d_bool_strict := false |}.

Definition lower_ascii (a : ascii) : ascii :=
  let n := nat_of_ascii a in if (65 <=? n) && (n <=? 90) then ascii_of_nat (n + 32) else a.
Fixpoint lower (s : string) : string :=
  match s with EmptyString => EmptyString | String a t => String (lower_ascii a) (lower t) end.
(** [str(text).strip().lower() in ('true', '1')] (blanks are the ASCII blanks) *)
Definition bool_text (text : option string) : bool :=
  let s := lower (strip (match text with Some s => s | None => "None" end)) in
  (s ==s "true") || (s ==s "1").

(** [cast_graphml_value(value_type, text)]: booleans as above; otherwise [value_type(text)]:
    [int(None)] / [float(None)] are TypeErrors; [str(None)] is the string 'None';
    a None type is not callable. *)
Definition cast (dl : dialect) (t : ptype) (text : option string) : result value :=
  match t with
  | PBool => Ok (VBool (if d_bool_strict dl then bool_text text
                        else match text with Some s => negb (s ==s "") | None => false end))
  | PInt => match text with
            | None => Raise TypeError
            | Some s => match parse_int s with Some z => Ok (VInt z) | None => Raise ValueError end
            end
  | PFloat => match text with
              | None => Raise TypeError
              | Some s => match parse_float s with Some q => Ok (VFloat q) | None => Raise ValueError end
              end
  | PStr => Ok (VStr (match text with Some s => s | None => "None" end))
  | PNone => Raise TypeError
  end.

(** Python truthiness ([if default_value:]). *)
Definition truthy (v : value) : bool :=
  match v with
  | VBool b => b
  | VInt z => negb (z =? 0)%Z
  | VFloat q => negb (Qeq_bool q 0)
  | VStr s => negb (s ==s "")
  end.

(** [np.zeros(size, dtype)] element; [dtype=None] is float64. *)
Definition zero_of (t : ptype) : value :=
  match t with
  | PBool => VBool false
  | PInt => VInt 0
  | PStr => VStr ""
  | PFloat | PNone => VFloat 0
  end.

(** Storing into a '<U[n]' array truncates. *)
Definition store (n : nat) (v : value) : value :=
  match v with VStr s => VStr (substring 0 n s) | _ => v end.

(** * First walk: the graph element(s) *)

Definition el_is_node (e : xml) : bool := is_tag "node" e.
Definition el_is_edge (e : xml) : bool := negb (is_tag "node" e) && is_tag "edge" e.

(** [for index, element in enumerate(graph)]: indices of the elements satisfying [p]. *)
Fixpoint indices_of (p : xml -> bool) (index : nat) (els : list xml) : list nat :=
  match els with
  | [] => []
  | el :: t => if p el then index :: indices_of p (S index) t else indices_of p (S index) t
  end.

(** Is the edge stored in both directions? An edge-level [directed] attribute decides when present
    ("true": no; anything else: yes), otherwise the graph's edgedefault. *)
Definition edge_mirrored (sym : bool) (e : xml) : bool :=
  match attr "directed" e with
  | Some v => negb (v ==s "true")
  | None => sym
  end.
Definition edge_slots (sym : bool) (e : xml) : nat := if edge_mirrored sym e then 2 else 1.

Record scan1 := { s_graph : option xml; s_sym : bool; s_nn : nat; s_ne : nat;
                  s_nidx : list nat; s_eidx : list nat; s_naming : bool }.

Definition scan_init : scan1 :=
  {| s_graph := None; s_sym := false; s_nn := 0; s_ne := 0; s_nidx := []; s_eidx := []; s_naming := true |}.

(** One root child in the first loop. Counters and index lists ACCUMULATE over several graph
    elements while [graph] / [symmetrize] are those of the last one (as coded). *)
Definition scan_step (st : result scan1) (fe : xml) : result scan1 :=
  s <- st ;;
  if is_tag "graph" fe then
    ed <- get_attr "edgedefault" fe ;;
    let sym := ed ==s "undirected" in
    let els := x_children fe in
    Ok {| s_graph := Some fe; s_sym := sym;
          s_nn := s_nn s + length (indices_of el_is_node 0 els);
          s_ne := s_ne s + sumn (map (edge_slots sym) (filter el_is_edge els));
          s_nidx := s_nidx s ++ indices_of el_is_node 0 els;
          s_eidx := s_eidx s ++ indices_of el_is_edge 0 els;
          s_naming := match attr "parse.nodeids" fe with
                      | Some v => negb (v ==s "canonical")
                      | None => s_naming s
                      end |}
  else Ok s.
Definition scan_root (root : xml) : result scan1 := fold_left scan_step (x_children root) (Ok scan_init).

(** * Second walk: keys and descriptions *)

(** An attribute array before the nodes / edges are read: dtype and fill. *)
Definition acol := (ptype * value)%type.

Record kstate := { k_dw : value; k_wty : ptype; k_wid : option string;
                   k_nattr : option (list (string * acol)); k_eattr : option (list (string * acol));
                   k_keys : list (string * (string * ptype));
                   k_desc : option string;
                   k_dnode : list (string * option string); k_dedge : list (string * option string) }.

Definition kinit : kstate :=
  {| k_dw := VInt 1; k_wty := PBool; k_wid := None; k_nattr := None; k_eattr := None; k_keys := [];
     k_desc := None; k_dnode := []; k_dedge := [] |}.

(** [for key_element in file_element: if tag.endswith('default'): default_weight = attribute_type(text)] *)
Fixpoint weight_default (dl : dialect) (ty : ptype) (kes : list xml) (dw : value) : result value :=
  match kes with
  | [] => Ok dw
  | ke :: t => if is_tag "default" ke
               then v <- cast dl ty (x_text ke) ;; weight_default dl ty t v
               else weight_default dl ty t dw
  end.

(** Children of a node / edge key: descriptions and default value. *)
Fixpoint key_children (dl : dialect) (name : string) (ty : ptype) (kes : list xml)
         (descs : list (string * option string)) (dv : option value)
  : result (list (string * option string) * option value) :=
  match kes with
  | [] => Ok (descs, dv)
  | ke :: t =>
      if is_tag "desc" ke then key_children dl name ty t (aset name (x_text ke) descs) dv
      else if is_tag "default" ke then v <- cast dl ty (x_text ke) ;; key_children dl name ty t descs (Some v)
      else key_children dl name ty t descs dv
  end.

(** [np.full(size, default_value, dtype)] if the default is truthy, else [np.zeros(size, dtype)];
    string arrays are '<U[max_string_size]'. *)
Definition fill_of (mss : nat) (ty : ptype) (dv : option value) : value :=
  match dv with
  | Some v => if truthy v then store mss v else zero_of ty
  | None => zero_of ty
  end.

Definition some_or_empty {A} (o : option (list A)) : list A := match o with Some l => l | None => [] end.

(** Is this key the one giving the edge weights? *)
Definition weight_key_test (dl : dialect) (wk name : string) (fe : xml) : bool :=
  (name ==s wk) &&
  (if d_for_checked dl
   then match attr "for" fe with Some d => (d ==s "edge") || (d ==s "all") | None => true end
   else true).

Definition key_step (dl : dialect) (wk : string) (mss : nat) (st : result kstate) (fe : xml) : result kstate :=
  k <- st ;;
  if is_tag "key" fe then
    name <- get_attr "attr.name" fe ;;
    tyname <- get_attr "attr.type" fe ;;
    let ty := java_type tyname in
    if weight_key_test dl wk name fe then
      id <- get_attr "id" fe ;;
      dw <- weight_default dl ty (x_children fe) (k_dw k) ;;
      Ok {| k_dw := dw; k_wty := ty; k_wid := Some id; k_nattr := k_nattr k; k_eattr := k_eattr k;
            k_keys := k_keys k; k_desc := k_desc k; k_dnode := k_dnode k; k_dedge := k_dedge k |}
    else
      dom <- get_attr "for" fe ;;
      k' <- (if dom ==s "node" then
               r <- key_children dl name ty (x_children fe) (k_dnode k) None ;;
               Ok {| k_dw := k_dw k; k_wty := k_wty k; k_wid := k_wid k;
                     k_nattr := Some (aset name (ty, fill_of mss ty (snd r)) (some_or_empty (k_nattr k)));
                     k_eattr := k_eattr k; k_keys := k_keys k; k_desc := k_desc k;
                     k_dnode := fst r; k_dedge := k_dedge k |}
             else if dom ==s "edge" then
               r <- key_children dl name ty (x_children fe) (k_dedge k) None ;;
               Ok {| k_dw := k_dw k; k_wty := k_wty k; k_wid := k_wid k;
                     k_nattr := k_nattr k;
                     k_eattr := Some (aset name (ty, fill_of mss ty (snd r)) (some_or_empty (k_eattr k)));
                     k_keys := k_keys k; k_desc := k_desc k;
                     k_dnode := k_dnode k; k_dedge := fst r |}
             else Ok k) ;;
      id <- get_attr "id" fe ;;
      Ok {| k_dw := k_dw k'; k_wty := k_wty k'; k_wid := k_wid k'; k_nattr := k_nattr k'; k_eattr := k_eattr k';
            k_keys := aset id (name, ty) (k_keys k'); k_desc := k_desc k';
            k_dnode := k_dnode k'; k_dedge := k_dedge k' |}
  else if is_tag "desc" fe then
    Ok {| k_dw := k_dw k; k_wty := k_wty k; k_wid := k_wid k; k_nattr := k_nattr k; k_eattr := k_eattr k;
          k_keys := k_keys k; k_desc := x_text fe; k_dnode := k_dnode k; k_dedge := k_dedge k |}
  else Ok k.
Definition scan_keys (dl : dialect) (wk : string) (mss : nat) (root : xml) : result kstate :=
  fold_left (key_step dl wk mss) (x_children root) (Ok kinit).

(** * Nodes and edges *)

(** [node_map[name] = number] in a loop: the LAST node carrying the name wins. *)
Fixpoint index_last (l : list string) (x : string) (k : nat) : option nat :=
  match l with
  | [] => None
  | y :: t => match index_last t x (S k) with
              | Some r => Some r
              | None => if String.eqb y x then Some k else None
              end
  end.

(** Canonical ids: [int(id[1:])]; an index outside [0, n) (scipy raises at the very end) is
    represented by the out-of-range index [n]. *)
Definition canonical_index (n : nat) (s : string) : result nat :=
  match parse_int (substring 1 (String.length s - 1) s) with
  | None => Raise ValueError
  | Some z => Ok (if (0 <=? z)%Z && (z <? Z.of_nat n)%Z then Z.to_nat z else n)
  end.

(** [node_map[edge.attrib[which]]] or [int(edge.attrib[which][1:])]. *)
Definition endpoint (naming : bool) (ids : list string) (n : nat) (which : string) (e : xml) : result nat :=
  s <- get_attr which e ;;
  if naming then match index_last ids s 0 with Some k => Ok k | None => Raise KeyError end
  else canonical_index n s.

(** One assignment [array[slot] = value]: either the weight array or a named attribute array. *)
Inductive assign := AWeight (v : value) | AAttr (name : string) (v : value).

(** [data.<dom>_attribute[keys[k][0]][slot] = keys[k][1](text)]: right-hand side first (key attribute,
    key table, cast), then the target (AttributeError when no key of that domain was declared, KeyError
    when the name is not an attribute of that domain).
    [Unmodelled]: two keys of one domain sharing a name with different types (NumPy conversion). *)
Definition attr_assign (dl : dialect) (keys : list (string * (string * ptype))) (cols : option (list (string * acol)))
           (mss : nat) (kid : string) (text : option string) : result assign :=
  match alookup kid keys with
  | None => Raise KeyError
  | Some (name, ty) =>
      v <- cast dl ty text ;;
      match cols with
      | None => Raise AttributeError
      | Some al => match alookup name al with
                   | None => Raise KeyError
                   | Some (ty', _) => if ptype_eqb ty' ty then Ok (AAttr name (store mss v)) else Raise Unmodelled
                   end
      end
  end.

(** [for node_attribute in node: if tag.endswith('data'): ...] *)
Fixpoint node_data (dl : dialect) (keys : list (string * (string * ptype))) (cols : option (list (string * acol)))
         (mss : nat) (cs : list xml) : result (list assign) :=
  match cs with
  | [] => Ok []
  | c :: t =>
      if is_tag "data" c then
        kid <- get_attr "key" c ;;
        a <- attr_assign dl keys cols mss kid (x_text c) ;;
        rest <- node_data dl keys cols mss t ;;
        Ok (a :: rest)
      else node_data dl keys cols mss t
  end.

(** [for edge_attribute in edge: if tag.endswith('data'): if attrib['key'] == weight_id: dat[..] = weight_type(text) else: ...] *)
Fixpoint edge_data (dl : dialect) (keys : list (string * (string * ptype))) (wid : option string) (wty : ptype)
         (cols : option (list (string * acol))) (mss : nat) (cs : list xml) : result (list assign) :=
  match cs with
  | [] => Ok []
  | c :: t =>
      if is_tag "data" c then
        kid <- get_attr "key" c ;;
        a <- (if match wid with Some w => kid ==s w | None => false end
              then v <- cast dl wty (x_text c) ;; Ok (AWeight v)
              else attr_assign dl keys cols mss kid (x_text c)) ;;
        rest <- edge_data dl keys wid wty cols mss t ;;
        Ok (a :: rest)
      else edge_data dl keys wid wty cols mss t
  end.

(** Last value written to a slot, else the fill. *)
Definition last_attr (name : string) (ups : list assign) (fill : value) : value :=
  fold_left (fun acc a => match a with AAttr n v => if n ==s name then v else acc | AWeight _ => acc end) ups fill.
Definition last_weight (ups : list assign) (fill : value) : value :=
  fold_left (fun acc a => match a with AWeight v => v | AAttr _ _ => acc end) ups fill.

(** [graph[index]] *)
Definition graph_item (g : xml) (index : nat) : result xml :=
  match nth_error (x_children g) index with Some e => Ok e | None => Raise IndexError end.

Definition process_node (dl : dialect) (g : xml) (naming : bool) (keys : list (string * (string * ptype)))
           (cols : option (list (string * acol))) (mss : nat) (index : nat) : result (string * list assign) :=
  node <- graph_item g index ;;
  name <- (if naming then get_attr "id" node else Ok "") ;;
  ups <- node_data dl keys cols mss (x_children node) ;;
  Ok (name, ups).

(** A stored entry: row, column, assignments made to its slot. *)
Definition slot := (nat * nat * list assign)%type.

Definition process_edge (dl : dialect) (g : xml) (naming : bool) (ids : list string) (n : nat) (sym : bool)
           (keys : list (string * (string * ptype))) (wid : option string) (wty : ptype)
           (cols : option (list (string * acol))) (mss : nat) (index : nat) : result (list slot) :=
  e <- graph_item g index ;;
  n1 <- endpoint naming ids n "source" e ;;
  n2 <- endpoint naming ids n "target" e ;;
  ups <- edge_data dl keys wid wty cols mss (x_children e) ;;
  Ok ((n1, n2, ups) :: (if edge_mirrored sym e then [(n2, n1, ups)] else [])).

(** [np.full(n_edges, default_weight, dtype=weight_type)]: the dtype ([None]: inferred from the value)
    and the converted fill. [Unmodelled]: conversions from / to strings (two weight keys of different types). *)
Definition weight_dtype (wty : ptype) (dw : value) : ptype :=
  match wty with PNone => type_of dw | t => t end.
Definition convert (t : ptype) (v : value) : result value :=
  match t, v with
  | PBool, VBool _ | PInt, VInt _ | PFloat, VFloat _ | PStr, VStr _ => Ok v
  | PBool, VInt z => Ok (VBool (negb (z =? 0)%Z))
  | PBool, VFloat q => Ok (VBool (negb (Qeq_bool q 0)))
  | PInt, VBool b => Ok (VInt (if b then 1 else 0))
  | PInt, VFloat q => Ok (VInt (Z.quot (Qnum q) (Zpos (Qden q))))
  | PFloat, VBool b => Ok (VFloat (if b then 1 else 0))
  | PFloat, VInt z => Ok (VFloat (inject_Z z))
  | PStr, _ => Ok v            (* an array of strings; scipy refuses it at the very end *)
  | _, _ => Raise Unmodelled
  end.

(** * Result *)

Record bunch := { b_n : nat; b_dtype : ptype; b_coo : list (nat * nat * value);
                  b_names : option (list string);
                  b_node_attr : option (list (string * (ptype * list value)));
                  b_edge_attr : option (list (string * (ptype * list value)));
                  b_meta : option (option string * option (list (string * option string) * list (string * option string))) }.

Definition nonempty_text (t : option string) : bool := match t with Some s => negb (s ==s "") | None => false end.
Definition nonempty {A} (l : list A) : bool := match l with [] => false | _ => true end.

(** [data.meta]: present when the file description or an attribute description table is truthy. *)
Definition meta_of (k : kstate) :=
  let attrs := nonempty (k_dnode k) || nonempty (k_dedge k) in
  if nonempty_text (k_desc k) || attrs then
    Some (if nonempty_text (k_desc k) then k_desc k else None,
          if attrs then Some (k_dnode k, k_dedge k) else None)
  else None.

Definition names_width : nat := 512.     (* data.names = np.zeros(n_nodes, dtype='<U512') *)

Definition from_graphml_with (dl : dialect) (wk : string) (mss : nat) (root : xml) : result bunch :=
  s <- scan_root root ;;
  k <- scan_keys dl wk mss root ;;
  match s_graph s with
  | None => Raise ValueError                                   (* No graph defined *)
  | Some g =>
      let dtype := weight_dtype (k_wty k) (k_dw k) in
      wfill <- convert dtype (k_dw k) ;;
      let n := s_nn s in
      let naming := s_naming s in
      nres <- mapM (process_node dl g naming (k_keys k) (k_nattr k) mss) (s_nidx s) ;;
      let ids := map fst nres in
      eres <- mapM (process_edge dl g naming ids n (s_sym s) (k_keys k) (k_wid k) (k_wty k) (k_eattr k) mss) (s_eidx s) ;;
      let slots := concat eres in
      if s_ne s <? length slots then Raise IndexError else
      let pad := s_ne s - length slots in
      let coo := map (fun sl : slot => (fst (fst sl), snd (fst sl), last_weight (snd sl) wfill)) slots
                 ++ repeat (0, 0, wfill) pad in
      if negb (forallb (fun t : nat * nat * value => (fst (fst t) <? n) && (snd (fst t) <? n)) coo) then Raise ValueError else
      match dtype with
      | PStr | PNone => Raise ValueError                       (* scipy.sparse does not support the dtype *)
      | _ =>
          Ok {| b_n := n; b_dtype := dtype; b_coo := coo;
                b_names := if naming then Some (map (substring 0 names_width) ids) else None;
                b_node_attr := option_map (map (fun c : string * acol =>
                                   (fst c, (fst (snd c), map (fun r : string * list assign => last_attr (fst c) (snd r) (snd (snd c))) nres))))
                                 (k_nattr k);
                b_edge_attr := option_map (map (fun c : string * acol =>
                                   (fst c, (fst (snd c), map (fun sl : slot => last_attr (fst c) (snd sl) (snd (snd c))) slots
                                                         ++ repeat (snd (snd c)) pad))))
                                 (k_eattr k);
                b_meta := meta_of k |}
      end
  end.

Definition from_graphml := from_graphml_with current.

(** * Denotation of the adjacency matrix *)

Definition qval (v : value) : Q :=
  match v with
  | VBool b => if b then 1%Q else 0%Q
  | VInt z => inject_Z z
  | VFloat q => q
  | VStr _ => 0%Q
  end.

(** [csr_matrix((dat, (row, col)))] adds up the values stored at one position with the addition of the
    dtype: logical or for bool, [+] for int / float. *)
Definition dsumq (t : ptype) (l : list Q) : Q :=
  match t with
  | PBool => if existsb (fun q => negb (Qeq_bool q 0)) l then 1%Q else 0%Q
  | _ => sumq l
  end.

Definition at_pos (i j : nat) (t : nat * nat * value) : bool := (fst (fst t) =? i) && (snd (fst t) =? j).
Definition gm_entry (b : bunch) (i j : nat) : Q :=
  dsumq (b_dtype b) (map (fun t => qval (snd t)) (filter (at_pos i j) (b_coo b))).

(** * Reading the document (specification side) *)

Definition doc_graphs (root : xml) : list xml := filter (is_tag "graph") (x_children root).
Definition doc_nodes (g : xml) : list xml := filter el_is_node (x_children g).
Definition doc_edges (g : xml) : list xml := filter el_is_edge (x_children g).
Definition doc_sym (g : xml) : bool := match attr "edgedefault" g with Some v => v ==s "undirected" | None => false end.
Definition doc_naming (g : xml) : bool :=
  match attr "parse.nodeids" g with Some v => negb (v ==s "canonical") | None => true end.
Definition attr_or_empty (k : string) (e : xml) : string := match attr k e with Some v => v | None => "" end.
(** Node identifiers in document order (canonical documents: no names are kept). *)
Definition doc_ids (g : xml) : list string :=
  map (fun nd => if doc_naming g then attr_or_empty "id" nd else "") (doc_nodes g).

(** Index of the node an edge end refers to. *)
Definition doc_index (g : xml) (which : string) (e : xml) : option nat :=
  match attr which e with
  | None => None
  | Some s => if doc_naming g then index_last (doc_ids g) s 0
              else match canonical_index (length (doc_nodes g)) s with Ok k => Some k | Raise _ => None end
  end.

(** The key table read off the document: the second walk without its exceptions (a missing attribute
    reads as the empty string, a literal that does not parse keeps the previous value). On every
    document the code accepts this is exactly the table the code builds ([scan_keys_pure]). *)
Definition cast_or (dl : dialect) (t : ptype) (text : option string) (dflt : value) : value :=
  match cast dl t text with Ok v => v | Raise _ => dflt end.
Definition key_type (fe : xml) : ptype := java_type (attr_or_empty "attr.type" fe).
Definition is_weight_key (dl : dialect) (wk : string) (fe : xml) : bool :=
  is_tag "key" fe && weight_key_test dl wk (attr_or_empty "attr.name" fe) fe.

(** Default of a key: its LAST <default> child, cast to the key's type. *)
Definition last_default (dl : dialect) (ty : ptype) (kes : list xml) (start : option value) : option value :=
  fold_left (fun dv ke => if negb (is_tag "desc" ke) && is_tag "default" ke
                          then Some (cast_or dl ty (x_text ke) (zero_of ty)) else dv) kes start.
Definition weight_default_pure (dl : dialect) (ty : ptype) (kes : list xml) (dw : value) : value :=
  fold_left (fun dw ke => if is_tag "default" ke then cast_or dl ty (x_text ke) dw else dw) kes dw.
Definition descs_pure (name : string) (kes : list xml) (descs : list (string * option string)) :=
  fold_left (fun ds ke => if is_tag "desc" ke then aset name (x_text ke) ds else ds) kes descs.

Definition key_step_pure (dl : dialect) (wk : string) (mss : nat) (k : kstate) (fe : xml) : kstate :=
  if is_tag "key" fe then
    let name := attr_or_empty "attr.name" fe in
    let ty := key_type fe in
    if weight_key_test dl wk name fe then
      {| k_dw := weight_default_pure dl ty (x_children fe) (k_dw k); k_wty := ty; k_wid := attr "id" fe;
         k_nattr := k_nattr k; k_eattr := k_eattr k; k_keys := k_keys k; k_desc := k_desc k;
         k_dnode := k_dnode k; k_dedge := k_dedge k |}
    else
      let dom := attr_or_empty "for" fe in
      let col := (ty, fill_of mss ty (last_default dl ty (x_children fe) None)) in
      {| k_dw := k_dw k; k_wty := k_wty k; k_wid := k_wid k;
         k_nattr := if dom ==s "node" then Some (aset name col (some_or_empty (k_nattr k))) else k_nattr k;
         k_eattr := if dom ==s "node" then k_eattr k
                    else if dom ==s "edge" then Some (aset name col (some_or_empty (k_eattr k))) else k_eattr k;
         k_keys := aset (attr_or_empty "id" fe) (name, ty) (k_keys k);
         k_desc := k_desc k;
         k_dnode := if dom ==s "node" then descs_pure name (x_children fe) (k_dnode k) else k_dnode k;
         k_dedge := if dom ==s "node" then k_dedge k
                    else if dom ==s "edge" then descs_pure name (x_children fe) (k_dedge k) else k_dedge k |}
  else if is_tag "desc" fe then
    {| k_dw := k_dw k; k_wty := k_wty k; k_wid := k_wid k; k_nattr := k_nattr k; k_eattr := k_eattr k;
       k_keys := k_keys k; k_desc := x_text fe; k_dnode := k_dnode k; k_dedge := k_dedge k |}
  else k.
Definition doc_keys (dl : dialect) (wk : string) (mss : nat) (root : xml) : kstate :=
  fold_left (key_step_pure dl wk mss) (x_children root) kinit.

(** Type of the weights (dtype of the matrix) and weight of an edge that carries no weight data:
    the default of the weight key, else 1, converted to that type. *)
Definition doc_wtype (k : kstate) : ptype := weight_dtype (k_wty k) (k_dw k).
Definition doc_wfill (k : kstate) : value :=
  match convert (doc_wtype k) (k_dw k) with Ok v => v | Raise _ => k_dw k end.

(** Weight of an edge: the text of its LAST <data> child referring to the weight key, cast to the key's
    type; when there is none, the default weight. *)
Definition weight_data (wid : option string) (e : xml) : list xml :=
  filter (fun c => is_tag "data" c &&
                   match attr "key" c, wid with Some kid, Some w => kid ==s w | _, _ => false end) (x_children e).
Definition doc_weight (dl : dialect) (k : kstate) (e : xml) : value :=
  match rev (weight_data (k_wid k) e) with
  | c :: _ => cast_or dl (k_wty k) (x_text c) (doc_wfill k)
  | [] => doc_wfill k
  end.

(** Weights listed for position (i, j) by one edge: its weight if it goes from i to j, and once more
    if it is mirrored and goes from j to i (a mirrored self-loop is listed twice). *)
Definition ends_are (g : xml) (e : xml) (i j : nat) : bool :=
  match doc_index g "source" e, doc_index g "target" e with
  | Some a, Some b => (a =? i) && (b =? j)
  | _, _ => false
  end.
Definition listed_by (dl : dialect) (k : kstate) (g : xml) (i j : nat) (e : xml) : list value :=
  (if ends_are g e i j then [doc_weight dl k e] else [])
  ++ (if edge_mirrored (doc_sym g) e && ends_are g e j i then [doc_weight dl k e] else []).
Definition spec_gm_entry (dl : dialect) (k : kstate) (g : xml) (i j : nat) : Q :=
  dsumq (doc_wtype k) (map qval (flat_map (listed_by dl k g i j) (doc_edges g))).

(** Value of attribute [name] for one node / edge: the text of the LAST <data> child whose key feeds
    that attribute, cast to the key's type (strings cut to the array width); else the column's fill. *)
Definition data_value (dl : dialect) (keys : list (string * (string * ptype))) (wid : option string) (mss : nat)
           (name : string) (fill : value) (cs : list xml) : value :=
  fold_left (fun acc c =>
               if is_tag "data" c then
                 match attr "key" c with
                 | Some kid =>
                     if match wid with Some w => kid ==s w | None => false end then acc
                     else match alookup kid keys with
                          | Some (nm, ty) => if nm ==s name then store mss (cast_or dl ty (x_text c) acc) else acc
                          | None => acc
                          end
                 | None => acc
                 end
               else acc) cs fill.

(** Stored entries of the matrix, in order: each edge once, a mirrored edge twice in a row. *)
Definition doc_slots (g : xml) : list xml :=
  flat_map (fun e => e :: (if edge_mirrored (doc_sym g) e then [e] else [])) (doc_edges g).

Definition node_columns (dl : dialect) (k : kstate) (mss : nat) (g : xml) :=
  option_map (map (fun c : string * acol =>
     (fst c, (fst (snd c), map (fun nd => data_value dl (k_keys k) None mss (fst c) (snd (snd c)) (x_children nd)) (doc_nodes g)))))
   (k_nattr k).
Definition edge_columns (dl : dialect) (k : kstate) (mss : nat) (g : xml) :=
  option_map (map (fun c : string * acol =>
     (fst c, (fst (snd c), map (fun e => data_value dl (k_keys k) (k_wid k) mss (fst c) (snd (snd c)) (x_children e)) (doc_slots g)))))
   (k_eattr k).

(** * The GraphML reading of the weight key and of booleans (what a reader of the standard expects) *)

(** xs:boolean *)
Definition gml_bool (text : option string) : bool :=
  match text with Some s => (strip s ==s "true") || (strip s ==s "1") | None => false end.
(** A key declares EDGE weights when it carries the weight name and its domain is edge or all (the default domain). *)
Definition is_edge_weight_key (wk : string) (fe : xml) : bool :=
  is_tag "key" fe && (attr_or_empty "attr.name" fe ==s wk) &&
  match attr "for" fe with Some d => (d ==s "edge") || (d ==s "all") | None => true end.

(** * Views for the harness (everything printed in a form the harness parser reads) *)

Inductive pv := PB (b : bool) | PI (z : Z) | PF (num den : Z) | PS (s : string).
Definition pv_of (v : value) : pv :=
  match v with
  | VBool b => PB b
  | VInt z => PI z
  | VFloat q => let r := Qred q in PF (Qnum r) (Zpos (Qden r))
  | VStr s => PS s
  end.
Definition pq (q : Q) : Z * Z := let r := Qred q in (Qnum r, Zpos (Qden r)).

Definition gm_view (r : result bunch) :=
  match r with
  | Raise e => inl e
  | Ok b =>
      inr (b_n b, b_dtype b,
           map (fun i => map (fun j => pq (gm_entry b i j)) (seq 0 (b_n b))) (seq 0 (b_n b)),
           length (b_coo b),
           b_names b,
           (option_map (map (fun c : string * (ptype * list value) => (fst c, fst (snd c), map pv_of (snd (snd c))))) (b_node_attr b),
            option_map (map (fun c : string * (ptype * list value) => (fst c, fst (snd c), map pv_of (snd (snd c))))) (b_edge_attr b)),
           b_meta b)
  end.

(** A second small array language, for sknetwork/regression/diffusion.py (C14): vectors, boolean masks, (sparse)
    matrices seen through their dense denotation, and a counted loop.  As for Model/NpExpr.v the terms are regenerated
    from the Python source on every run (harness/translators/npvec.py -> Gen/NpDiffusion.v); Proofs/NpVecProofs.v
    proves the maximum principle and the clamping of the seeds about the DENOTATION OF THE GENERATED TERMS, for all
    graphs, seeds, initial temperatures and iteration counts.  Definitions only.

    A SciPy sparse matrix is represented by its dense denotation (extent + index function): [normalize], [.T],
    [.dot], [+], scalar [*], [sparse.diags], [sparse.identity] act on it as on the dense matrix.  What this abstraction
    cannot see: explicitly stored zeros.  [get_degrees(M)] (the number of STORED entries of each row) is therefore
    modelled through [XZeroRows]: the mask of the rows all of whose entries are zero, which is what
    [get_degrees(M) == 0] means for a matrix without stored zeros (the same reading as in C01). *)
From SKN Require Import Base.Util Model.Gnn Model.NpExpr.
From Coq Require Import String Qabs.
Local Open Scope nat_scope.

Inductive vexpr :=
| XVar (x : string)
| XLit (m e : Z)
| XBin (o : binop) (a b : vexpr)          (* + - * / with NumPy / SciPy broadcasting (vector, matrix, scalar) *)
| XGe0 (a : vexpr)                        (* a >= 0            -> mask *)
| XLen (a : vexpr)                        (* len(a)            -> count *)
| XOnes (n : vexpr)                       (* np.ones(n) *)
| XMaskMean (a mask : vexpr)              (* a[mask].mean() *)
| XMaskSet (a mask b : vexpr)             (* a[mask] = b[mask]; value: the updated a *)
| XCopy (a : vexpr)                       (* a.copy(), a.tocsr() *)
| XT (a : vexpr)                          (* a.T *)
| XNormalize (a : vexpr)                  (* normalize(M) of linalg/normalizer.py, p = 1 *)
| XZeroRows (a : vexpr)                   (* get_degrees(M) == 0 -> mask (see the header) *)
| XDiagMask (a : vexpr)                   (* sparse.diags(mask.astype(int)) *)
| XIdentity (n : vexpr)                   (* sparse.identity(n) *)
| XDot (m v : vexpr)                      (* M.dot(v) *)
| XLet (x : string) (a b : vexpr)         (* x = a; b *)
| XIfNone (x : string) (t e : vexpr)      (* t if x is None else e *)
| XLoop (count : vexpr) (x : string) (body rest : vexpr)    (* for _ in range(count): x = body ; then rest *)
(* --- clustering/metrics.py (C06) --- *)
| XProbs (kind m : vexpr)                 (* get_probs(weights, M): 'degree' -> M.1 / sum, 'uniform' -> 1 / n *)
| XMembership (labels : vexpr)            (* get_membership(labels): n x (max label + 1) indicator matrix, negative labels ignored *)
| XDiagonal (a : vexpr)                   (* M.diagonal() *)
| XSum (a : vexpr)                        (* v.sum(), M.sum(), M.data.sum() *)
(* --- clustering/base.py: _secondary_outputs (C05) --- *)
| XNLabels (a : vexpr)                    (* max(labels) + 1                       -> count *)
| XNLabels2 (a b : vexpr)                 (* max(max(a), max(b)) + 1               -> count *)
| XMembershipN (labels n : vexpr)         (* get_membership(labels, n_labels=n) *)
(* --- linalg/ppr_solver.py: RandomSurferOperator (C04) --- *)
| XAsBool (a : vexpr)                     (* v.astype(bool) used as a number: 1 where the entry is non-zero, else 0 *)
(* --- linalg/operators.py: Normalizer (C15) --- *)
| XLenCols (a : vexpr)                    (* M.shape[1]                            -> count *)
| XPinvDiag (a : vexpr)                   (* diagonal_pseudo_inverse(v): diag(1 / v_i), null entries stay null *)
| XIfPos (c t e : vexpr)                  (* t if c > 0 else e *)
| XMean (a : vexpr)                       (* v.mean() *)
| XMeanAxis0 (a : vexpr)                  (* M.mean(axis=0) *)
| XSumAxis0 (a : vexpr)                   (* M.sum(axis=0) *)
| XOuter (a b : vexpr)                    (* np.outer(u, v) *)
(* --- gnn/layer.py: Convolution.forward (C19) --- *)
| XSqrt (a : vexpr)                       (* np.sqrt(v) *)
| XAddSelfLoops (a : vexpr)               (* add_self_loops(M): M + I on the (rectangular) diagonal *)
| XIfFlag (x : string) (t e : vexpr)      (* t if <boolean attribute x> else e *)
(* --- classification/metrics.py (C13) --- *)
| XAnd (a b : vexpr)                      (* mask & mask *)
| XGt0 (a : vexpr)                        (* v > 0              -> mask *)
| XZeros (n : vexpr)                      (* np.zeros(n) *)
| XIfCount (c t : vexpr)                  (* if c: t  else: raise      (c a count; the raise is the value None) *)
| XMaskLab (a m : vexpr)                  (* labels[mask] *)
| XCoo (data row col n : vexpr)           (* sparse.csr_matrix((data, (row, col)), shape=(n, n)): duplicate positions are summed *)
| XLabEqMean (a b : vexpr)                (* np.mean(a == b) for two label vectors *)
| XUnique (a : vexpr)                     (* np.unique(labels, return_counts=True)[0] (non-negative labels) *)
| XUniqueCounts (a : vexpr)               (* np.unique(labels, return_counts=True)[1] *)
| XGather (v idx : vexpr).                (* v[idx] for an integer index vector *)

Section Carrier.
  Context {T : Type}.
  Context (tadd tsub tmul tdiv : T -> T -> T) (t0 t1 : T).
  Context (tabs : T -> T) (tleb : T -> T -> bool) (teqb : T -> T -> bool) (tnat : nat -> T) (tlit : Z -> Z -> T).
  Context (tsqrt : T -> T).
  (** [memo n f] must agree with [f] below [n].  The instance used in the theorems is the identity; the instance used for
      execution tabulates [f] once (otherwise every loop iteration would re-evaluate the whole history of closures). *)
  Context (memo : nat -> (nat -> T) -> nat -> T).

  Inductive vvalue :=
  | WS (x : T)
  | WN (n : nat)
  | WV (n : nat) (f : nat -> T)
  | WB (n : nat) (b : nat -> bool)
  | WM (n k : nat) (f : nat -> nat -> T)
  | WNone
  | WLab (l : list Z)                       (* integer label vector (negative = no label) *)
  | WKind (degree : bool).                  (* the string 'degree' (true) / 'uniform' (false) *)

  Definition venv := list (string * vvalue).
  Fixpoint vlookup (x : string) (r : venv) : option vvalue :=
    match r with
    | [] => None
    | (y, v) :: r' => if String.eqb x y then Some v else vlookup x r'
    end.

  Definition vsum (n : nat) (f : nat -> T) : T := g_sum tadd t0 (map f (seq 0 n)).
  Definition count_true (n : nat) (b : nat -> bool) : nat := List.length (filter b (seq 0 n)).
  Definition pinvT (w : T) : T := if teqb w t0 then t0 else tdiv t1 w.
  Definition labmax (l : list Z) : Z := fold_right Z.max (-1)%Z l.
  Definition mask_filter (l : list Z) (n : nat) (b : nat -> bool) : list Z :=
    map (fun p => nth p l (-1)%Z) (filter b (seq 0 n)).
  Definition lab_count (l : list Z) (c : Z) : nat := List.length (filter (Z.eqb c) l).
  (** the distinct non-negative labels of [l] in increasing order *)
  Definition lab_unique (l : list Z) : list Z :=
    filter (fun c => negb (lab_count l c =? 0)) (map Z.of_nat (seq 0 (Z.to_nat (labmax l + 1)))).

  Definition vop (o : binop) : T -> T -> T :=
    match o with
    | BAdd => tadd | BSub => tsub | BMul => tmul | BDiv => tdiv
    | BMax => fun a b => if tleb a b then b else a
    | BGt => fun a b => if tleb a b then t0 else t1
    end.

  Definition scal (v : vvalue) : option T :=
    match v with WS x => Some x | WN n => Some (tnat n) | _ => None end.

  Definition vlift2 (g : T -> T -> T) (a b : vvalue) : option vvalue :=
    match a, b with
    | WV n f, WV m h => if n =? m then Some (WV n (fun i => g (f i) (h i))) else None
    | WM n k f, WM n' k' h =>
        if (n =? n') && (k =? k') then Some (WM n k (fun i j => g (f i j) (h i j))) else None
    | WM n k f, WV m h => if k =? m then Some (WM n k (fun i j => g (f i j) (h j))) else None
    | WV m h, WM n k f => if k =? m then Some (WM n k (fun i j => g (h j) (f i j))) else None
    | WV n f, _ => match scal b with Some y => Some (WV n (fun i => g (f i) y)) | None => None end
    | _, WV n f => match scal a with Some x => Some (WV n (fun i => g x (f i))) | None => None end
    | WM n k f, _ => match scal b with Some y => Some (WM n k (fun i j => g (f i j) y)) | None => None end
    | _, WM n k f => match scal a with Some x => Some (WM n k (fun i j => g x (f i j))) | None => None end
    | _, _ => match scal a, scal b with Some x, Some y => Some (WS (g x y)) | _, _ => None end
    end.

  Fixpoint iter_opt {A : Type} (k : nat) (step : A -> option A) (x : A) : option A :=
    match k with
    | O => Some x
    | S k' => match step x with Some y => iter_opt k' step y | None => None end
    end.

  Fixpoint vdenote (r : venv) (e : vexpr) : option vvalue :=
    match e with
    | XVar x => vlookup x r
    | XLit m e10 => Some (WS (tlit m e10))
    | XBin o a b =>
        match vdenote r a, vdenote r b with
        | Some va, Some vb => vlift2 (vop o) va vb
        | _, _ => None
        end
    | XGe0 a =>
        match vdenote r a with
        | Some (WV n f) => Some (WB n (fun i => tleb t0 (f i)))
        | Some (WLab l) => Some (WB (List.length l) (fun i => (0 <=? nth i l (-1))%Z))
        | _ => None
        end
    | XLen a =>
        match vdenote r a with
        | Some (WV n _) => Some (WN n) | Some (WB n _) => Some (WN n) | Some (WM n _ _) => Some (WN n)
        | Some (WLab l) => Some (WN (List.length l))
        | _ => None
        end
    | XOnes a => match vdenote r a with Some (WN n) => Some (WV n (fun _ => t1)) | _ => None end
    | XMaskMean a m =>
        match vdenote r a, vdenote r m with
        | Some (WV n f), Some (WB n' b) =>
            if n =? n'
            then Some (WS (tdiv (vsum n (fun i => if b i then f i else t0)) (tnat (count_true n b))))
            else None
        | _, _ => None
        end
    | XMaskSet a m c =>
        match vdenote r a, vdenote r m, vdenote r c with
        | Some (WV n f), Some (WB n' b), Some (WV n'' h) =>
            if (n =? n') && (n =? n'') then Some (WV n (memo n (fun i => if b i then h i else f i))) else None
        | _, _, _ => None
        end
    | XCopy a => vdenote r a
    | XT a =>
        match vdenote r a with
        | Some (WM n k f) => Some (WM k n (fun i j => f j i))
        | Some (WV n f) => Some (WV n f)
        | _ => None
        end
    | XNormalize a =>
        match vdenote r a with
        | Some (WM n k f) =>
            Some (WM n k (fun i j => tmul (pinvT (vsum k (fun j' => tabs (f i j')))) (f i j)))
        | _ => None
        end
    | XZeroRows a =>
        match vdenote r a with
        | Some (WM n k f) => Some (WB n (fun i => forallb (fun j => teqb (f i j) t0) (seq 0 k)))
        | _ => None
        end
    | XDiagMask a =>
        match vdenote r a with
        | Some (WB n b) => Some (WM n n (fun i j => if (i =? j) && b i then t1 else t0))
        | _ => None
        end
    | XIdentity a =>
        match vdenote r a with
        | Some (WN n) => Some (WM n n (fun i j => if i =? j then t1 else t0))
        | _ => None
        end
    | XDot m v =>
        match vdenote r m, vdenote r v with
        | Some (WM n k f), Some (WV k' h) =>
            if k =? k' then Some (WV n (memo n (fun i => vsum k (fun j => tmul (f i j) (h j))))) else None
        | Some (WM n k f), Some (WM k' m' h) =>
            if k =? k' then Some (WM n m' (fun i c => vsum k (fun j => tmul (f i j) (h j c)))) else None
        | Some (WV n f), Some (WV n' h) =>
            if n =? n' then Some (WS (vsum n (fun i => tmul (f i) (h i)))) else None
        | _, _ => None
        end
    | XLet x a b => match vdenote r a with Some va => vdenote ((x, va) :: r) b | None => None end
    | XIfNone x t e =>
        match vlookup x r with
        | Some WNone => vdenote r t
        | Some _ => vdenote r e
        | None => None
        end
    | XProbs kd a =>
        match vdenote r kd, vdenote r a with
        | Some (WKind true), Some (WM n k f) =>
            Some (WV n (fun i => tdiv (vsum k (f i)) (vsum n (fun i' => vsum k (f i')))))
        | Some (WKind false), Some (WM n k f) =>
            Some (WV n (fun _ => tdiv t1 (vsum n (fun _ => t1))))
        | _, _ => None
        end
    | XMembership a =>
        match vdenote r a with
        | Some (WLab l) =>
            let kk := Z.to_nat (fold_right Z.max (-1)%Z l + 1) in
            Some (WM (List.length l) kk (fun i c => if Z.eqb (nth i l (-1)%Z) (Z.of_nat c) then t1 else t0))
        | _ => None
        end
    | XNLabels a =>
        match vdenote r a with
        | Some (WLab l) => Some (WN (Z.to_nat (fold_right Z.max (-1)%Z l + 1)))
        | _ => None
        end
    | XNLabels2 a b =>
        match vdenote r a, vdenote r b with
        | Some (WLab l), Some (WLab l') =>
            Some (WN (Z.to_nat (Z.max (fold_right Z.max (-1)%Z l) (fold_right Z.max (-1)%Z l') + 1)))
        | _, _ => None
        end
    | XMembershipN a nn =>
        match vdenote r a, vdenote r nn with
        | Some (WLab l), Some (WN kk) =>
            Some (WM (List.length l) kk (fun i c => if Z.eqb (nth i l (-1)%Z) (Z.of_nat c) then t1 else t0))
        | _, _ => None
        end
    | XLenCols a =>
        match vdenote r a with Some (WM _ k _) => Some (WN k) | _ => None end
    | XPinvDiag a =>
        match vdenote r a with
        | Some (WV n f) => Some (WM n n (fun i j => if i =? j then pinvT (f i) else t0))
        | _ => None
        end
    | XIfPos c t e =>
        match vdenote r c with
        | Some (WS x) => if tleb x t0 then vdenote r e else vdenote r t
        | _ => None
        end
    | XMean a =>
        match vdenote r a with
        | Some (WV n f) => Some (WS (tdiv (vsum n f) (tnat n)))
        | _ => None
        end
    | XMeanAxis0 a =>
        match vdenote r a with
        | Some (WM n k f) => Some (WV k (fun j => tdiv (vsum n (fun i => f i j)) (tnat n)))
        | _ => None
        end
    | XSumAxis0 a =>
        match vdenote r a with
        | Some (WM n k f) => Some (WV k (fun j => vsum n (fun i => f i j)))
        | _ => None
        end
    | XOuter a b =>
        match vdenote r a, vdenote r b with
        | Some (WV n f), Some (WV k h) => Some (WM n k (fun i j => tmul (f i) (h j)))
        | _, _ => None
        end
    | XSqrt a =>
        match vdenote r a with
        | Some (WV n f) => Some (WV n (fun i => tsqrt (f i)))
        | Some (WS x) => Some (WS (tsqrt x))
        | _ => None
        end
    | XAddSelfLoops a =>
        match vdenote r a with
        | Some (WM n k f) => Some (WM n k (fun i j => tadd (if i =? j then t1 else t0) (f i j)))
        | _ => None
        end
    | XIfFlag x t e =>
        match vlookup x r with
        | Some (WKind true) => vdenote r t
        | Some (WKind false) => vdenote r e
        | _ => None
        end
    | XAsBool a =>
        match vdenote r a with
        | Some (WV n f) => Some (WV n (fun i => if teqb (f i) t0 then t0 else t1))
        | _ => None
        end
    | XDiagonal a =>
        match vdenote r a with
        | Some (WM n k f) => Some (WV (Nat.min n k) (fun i => f i i))
        | _ => None
        end
    | XSum a =>
        match vdenote r a with
        | Some (WV n f) => Some (WS (vsum n f))
        | Some (WM n k f) => Some (WS (vsum n (fun i => vsum k (f i))))
        | Some (WB n b) => Some (WN (count_true n b))
        | _ => None
        end
    | XAnd a b =>
        match vdenote r a, vdenote r b with
        | Some (WB n f), Some (WB n' g) => if n =? n' then Some (WB n (fun i => f i && g i)) else None
        | _, _ => None
        end
    | XGt0 a =>
        match vdenote r a with Some (WV n f) => Some (WB n (fun i => negb (tleb (f i) t0))) | _ => None end
    | XZeros a => match vdenote r a with Some (WN n) => Some (WV n (fun _ => t0)) | _ => None end
    | XIfCount c t =>
        match vdenote r c with
        | Some (WN k) => if k =? 0 then None else vdenote r t
        | _ => None
        end
    | XMaskLab a m =>
        match vdenote r a, vdenote r m with
        | Some (WLab l), Some (WB n b) => if List.length l =? n then Some (WLab (mask_filter l n b)) else None
        | _, _ => None
        end
    | XCoo d rw cl nn =>
        match vdenote r d, vdenote r rw, vdenote r cl, vdenote r nn with
        | Some (WV k f), Some (WLab lr), Some (WLab lc), Some (WN n) =>
            if (List.length lr =? k) && (List.length lc =? k)
            then Some (WM n n (fun i j => vsum k (fun p =>
                   if Z.eqb (nth p lr (-1)%Z) (Z.of_nat i) && Z.eqb (nth p lc (-1)%Z) (Z.of_nat j) then f p else t0)))
            else None
        | _, _, _, _ => None
        end
    | XLabEqMean a b =>
        match vdenote r a, vdenote r b with
        | Some (WLab l), Some (WLab l') =>
            if List.length l =? List.length l'
            then Some (WS (tdiv (tnat (count_true (List.length l) (fun p => Z.eqb (nth p l (-1)%Z) (nth p l' (-1)%Z))))
                                (tnat (List.length l))))
            else None
        | _, _ => None
        end
    | XUnique a => match vdenote r a with Some (WLab l) => Some (WLab (lab_unique l)) | _ => None end
    | XUniqueCounts a =>
        match vdenote r a with
        | Some (WLab l) => let u := lab_unique l in
                           Some (WV (List.length u) (fun i => tnat (lab_count l (nth i u (-1)%Z))))
        | _ => None
        end
    | XGather v ix =>
        match vdenote r v, vdenote r ix with
        | Some (WV n f), Some (WLab l) =>
            if forallb (fun z => (0 <=? z)%Z && (z <? Z.of_nat n)%Z) l
            then Some (WV (List.length l) (fun i => f (Z.to_nat (nth i l 0%Z)))) else None
        | _, _ => None
        end
    | XLoop c x body rest =>
        match vdenote r c, vlookup x r with
        | Some (WN k), Some v0 =>
            match iter_opt k (fun v => vdenote ((x, v) :: r) body) v0 with
            | Some v => vdenote ((x, v) :: r) rest
            | None => None
            end
        | _, _ => None
        end
    end.

  Definition wvec (l : list T) : vvalue := WV (List.length l) (fun i => nth i l t0).
  Definition wmat (M : list (list T)) (n k : nat) : vvalue := WM n k (fun i j => nth j (nth i M []) t0).
End Carrier.

Arguments vvalue : clear implicits.

(** * Instance over Q (execution inside Coq for the correspondence runs) *)
Definition qmemo (n : nat) (f : nat -> Q) : nat -> Q :=
  let l := map (fun i => Qred (f i)) (seq 0 n) in fun i => nth i l 0%Q.
Definition qvdenote : venv -> vexpr -> option (vvalue Q) :=
  vdenote Qplus Qminus Qmult Qdiv 0%Q 1%Q Qabs Qle_bool Qeq_bool qnat qlit (fun x => x) qmemo.
(** the same with a finite oracle table for sqrt (a missing entry evaluates to 0, which makes the result differ and is reported) *)
Definition qvdenote_sqrt (tab : list (Q * Q)) : venv -> vexpr -> option (vvalue Q) :=
  vdenote Qplus Qminus Qmult Qdiv 0%Q 1%Q Qabs Qle_bool Qeq_bool qnat qlit (qtable tab) qmemo.
Definition qvresult (v : option (vvalue Q)) : list Q :=
  match v with Some (WV n f) => map (fun i => Qred (f i)) (seq 0 n) | _ => [] end.
Local Open Scope string_scope.
(** environment of the two fit cores: the adjacency matrix and seed vector returned by get_adjacency_values, the
    [init] argument, and the constructor parameters *)
Definition qenv_fit (A : list (list Q)) (n : nat) (seeds : list Q) (init : option Q) (n_iter : nat) (damping : Q) : venv :=
  ("adjacency", wmat 0%Q A n n) :: ("values", wvec 0%Q seeds) ::
  ("init", match init with Some q => WS q | None => WNone end) ::
  ("self.n_iter", WN n_iter) :: ("self.damping_factor", WS damping) :: nil.

(** environment of get_modularity after its prologue: the square adjacency, the (stacked) label vector, the options *)
Definition qenv_modularity (A : list (list Q)) (n : nat) (labels : list Z) (degree : bool) (resolution : Q) : venv :=
  ("adjacency", wmat 0%Q A n n) :: ("labels", WLab labels) :: ("weights", WKind degree) ::
  ("resolution", WS resolution) :: nil.
Definition qsresult (v : option (vvalue Q)) : list Q :=
  match v with Some (WS x) => [Qred x] | _ => [] end.

(** environments of _secondary_outputs: square case (adjacency, labels) and bipartite case (biadjacency, row / column labels) *)
Definition qenv_secondary (A : list (list Q)) (n : nat) (labels : list Z) : venv :=
  ("input_matrix", wmat 0%Q A n n) :: ("self.labels_", WLab labels) :: nil.
Definition qenv_secondary_bip (B : list (list Q)) (n1 n2 : nat) (lr lc : list Z) : venv :=
  ("input_matrix", wmat 0%Q B n1 n2) :: ("self.labels_row_", WLab lr) :: ("self.labels_col_", WLab lc) :: nil.
Definition qmresult (v : option (vvalue Q)) : list (list Q) :=
  match v with Some (WM n k f) => map (fun i => map (fun j => Qred (f i j)) (seq 0 k)) (seq 0 n) | _ => [] end.

(** environment of RandomSurferOperator: constructor arguments and the vector the operator is applied to *)
Definition qenv_rso (A : list (list Q)) (n : nat) (seeds x : list Q) (damping : Q) : venv :=
  ("adjacency", wmat 0%Q A n n) :: ("seeds", wvec 0%Q seeds) :: ("damping_factor", WS damping) :: ("x", wvec 0%Q x) :: nil.

(** environment of Normalizer(adjacency, regularization): the operand is a vector ("matrix" : 1-D) or a matrix (2-D) *)
Definition qenv_normalizer_v (A : list (list Q)) (n k : nat) (reg : Q) (x : list Q) : venv :=
  ("adjacency", wmat 0%Q A n k) :: ("regularization", WS reg) :: ("matrix", wvec 0%Q x) :: nil.
Definition qenv_normalizer_m (A : list (list Q)) (n k : nat) (reg : Q) (X : list (list Q)) (r c : nat) : venv :=
  ("adjacency", wmat 0%Q A n k) :: ("regularization", WS reg) :: ("matrix", wmat 0%Q X r c) :: nil.

(** environment of the classification metrics: the two label vectors *)
Definition qenv_metrics (lt lp : list Z) : @venv Q := ("labels_true", WLab lt) :: ("labels_pred", WLab lp) :: nil.

(** environment of Convolution.forward: adjacency, features, weight, bias and the two boolean options *)
Definition qenv_conv (A : list (list Q)) (n : nat) (X : list (list Q)) (d : nat) (W : list (list Q)) (o : nat) (b : list Q)
           (self_emb use_bias : bool) : venv :=
  ("adjacency", wmat 0%Q A n n) :: ("features", wmat 0%Q X n d) :: ("self.weight", wmat 0%Q W d o) ::
  ("self.bias", wvec 0%Q b) :: ("self.self_embeddings", WKind self_emb) :: ("self.use_bias", WKind use_bias) :: nil.

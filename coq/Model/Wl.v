(** C02 — functional model of the Weisfeiler-Lehman colouring and test

      sknetwork/topology/weisfeiler_lehman_core.pyx   weisfeiler_lehman_coloring  (the kernel)
      sknetwork/topology/weisfeiler_lehman.py         color_weisfeiler_lehman, are_isomorphic

    and the specification (colour refinement). Definitions only (no proofs).

    Reading of the code (the same as the checked flat model Model/Safety2.v, section 1): the graph is the
    CSR pattern ([row g i] = indices[indptr[i] : indptr[i+1]], stored order, duplicates allowed); [labels]
    are C ints that are only ever set to counters >= 0: [nat]; [powers] is the double[:] table built by the
    Python caller, [(-pi / 3.15) ** arange(n)]: it is an ARGUMENT of the model, a list of exact rationals
    (the harness passes the exact values of the float64 entries). A hash is an exact rational here: the
    float sum of the code differs from it by rounding only (relative 1e-16), far below the tolerance 1e-10
    that the code applies when it compares two hashes. A hash is kept in lowest terms ([Qred]: the value is
    unchanged, only its representation is unique). [std::sort] is an ARGUMENT [sort] (it is not stable:
    the order of triples with equal (label, hash) is unspecified); [wl_sort] is one instance. *)
From Coq Require Import Qabs Qreduction Sorted Permutation.
From SKN Require Import Base.Util Model.Bfs.
Set Warnings "-notation-overridden". (* keep: a line with a parenthesis after the imports *)

(** * 1. The kernel: weisfeiler_lehman_coloring *)

(** [ctypedef (int, double, int) ctuple]: (label, hash, node). *)
Definition wtuple := (nat * Q * nat)%type.
Definition t_label (t : wtuple) : nat := fst (fst t).
Definition t_hash (t : wtuple) : Q := snd (fst t).
Definition t_node (t : wtuple) : nat := snd t.
Definition t_key (t : wtuple) : nat * Q := fst t.

Definition Qltb (a b : Q) : bool := negb (Qle_bool b a).

Fixpoint wl_upd (l : list nat) (i : nat) (x : nat) : list nat :=
  match l, i with
  | [], _ => []
  | _ :: t, O => x :: t
  | a :: t, S j => a :: wl_upd t j x
  end.

(** [hash_ref = 0; for jj in range(j1, j2): j = indices[jj]; hash_ref += powers[labels[j]]] *)
Definition wl_hash (powers : list Q) (labels : list nat) (r : list nat) : Q :=
  Qred (fold_left (fun h j => Qred (h + nthq powers (nthn labels j))%Q) r 0%Q).

(** [for i in range(n): ...; new_labels.push_back((labels[i], hash_ref, i))] *)
Definition wl_tuples (g : graph) (powers : list Q) (labels : list nat) : list wtuple :=
  map (fun i => (nthn labels i, wl_hash powers labels (row g i), i)) (seq 0 (length g)).

(** [is_lower(a, b)]: [if a1 == b1: return a2 < b2; return a1 < b1] (exact comparison of the doubles). *)
Definition is_lower (a b : wtuple) : bool :=
  if t_label a =? t_label b then Qltb (t_hash a) (t_hash b) else t_label a <? t_label b.

(** What [csort(new_labels.begin(), new_labels.end(), is_lower)] guarantees: a rearrangement of the
    input in which no element is lower than an earlier one. *)
Definition wl_sorted (l : list wtuple) : Prop := StronglySorted (fun a b => is_lower b a = false) l.
Definition sort_ok (sort : list wtuple -> list wtuple) : Prop :=
  forall l, Permutation (sort l) l /\ wl_sorted (sort l).

(** One such sort (insertion), used when the model is evaluated. *)
Fixpoint wl_insert (t : wtuple) (l : list wtuple) : list wtuple :=
  match l with
  | [] => [t]
  | x :: r => if is_lower t x then t :: l else x :: wl_insert t r
  end.
Definition wl_sort (l : list wtuple) : list wtuple := fold_right wl_insert [] l.

(** [if abs(hash_new - hash_ref) > epsilon or label_new != label_ref: label += 1] *)
Definition wl_bump (eps : Q) (tuple_ref tuple_new : wtuple) : bool :=
  Qltb eps (Qabs (t_hash tuple_new - t_hash tuple_ref)) || negb (t_label tuple_new =? t_label tuple_ref).

(** [for j in range(1, n): tuple_ref = tuple_new; tuple_new = new_labels[j]; ...
     if labels[i] != label: has_changed = True
     labels[i] = label]  ([l] = new_labels[j:], [tuple_new] = new_labels[j-1]) *)
Fixpoint wl_relabel (eps : Q) (l : list wtuple) (tuple_new : wtuple) (label : nat)
         (labels : list nat) (changed : bool) : list nat * bool :=
  match l with
  | [] => (labels, changed)
  | tn :: rest =>
      let label' := if wl_bump eps tuple_new tn then S label else label in
      let changed' := if nthn labels (t_node tn) =? label' then changed else true in
      wl_relabel eps rest tn label' (wl_upd labels (t_node tn) label') changed'
  end.

(** One round of the [while] loop: [has_changed = False; ...; label = 0; tuple_new = new_labels[0];
    labels[tuple_new[2]] = label; for j in range(1, n): ...]. (n = 0 is not reachable from the Python
    callers: they clip max_iter to n.) *)
Definition wl_round (sort : list wtuple -> list wtuple) (g : graph) (powers : list Q) (eps : Q)
           (labels : list nat) : list nat * bool :=
  match sort (wl_tuples g powers labels) with
  | [] => (labels, false)
  | t0 :: rest => wl_relabel eps rest t0 0 (wl_upd labels (t_node t0) 0) false
  end.

(** [while iteration < max_iter and has_changed] with [todo = max_iter - iteration]; the result carries
    has_changed and the number of executed rounds. *)
Fixpoint wl_loop (sort : list wtuple -> list wtuple) (g : graph) (powers : list Q) (eps : Q)
         (todo : nat) (labels : list nat) (changed : bool) (rounds : nat) : list nat * bool * nat :=
  match todo with
  | O => (labels, changed, rounds)
  | S k =>
      if changed then
        let r := wl_round sort g powers eps labels in
        wl_loop sort g powers eps k (fst r) (snd r) (S rounds)
      else (labels, changed, rounds)
  end.

(** [cdef double epsilon = pow(10, -10)] *)
Definition wl_eps : Q := (1 # 10000000000)%Q.

(** weisfeiler_lehman_coloring(indptr, indices, labels, powers, max_iter) -> (labels, has_changed)
    (a negative max_iter, a C int, behaves as 0; the callers pass 0 <= max_iter <= n). *)
Definition wl_kernel (sort : list wtuple -> list wtuple) (g : graph) (powers : list Q)
           (labels : list nat) (max_iter : nat) : list nat * bool * nat :=
  wl_loop sort g powers wl_eps max_iter labels true 0.

(** * 2. weisfeiler_lehman.py *)

(** [if max_iter < 0 or max_iter > n_nodes: max_iter = n_nodes] *)
Definition wl_max_iter (n : nat) (max_iter : Z) : nat :=
  if ((max_iter <? 0) || (Z.of_nat n <? max_iter))%Z then n else Z.to_nat max_iter.

(** color_weisfeiler_lehman(adjacency, max_iter), after check_format / check_square:
    [labels = zeros(n)]; the kernel; [return np.array(labels)]. *)
Definition color_weisfeiler_lehman (sort : list wtuple -> list wtuple) (g : graph) (powers : list Q)
           (max_iter : Z) : list nat :=
  let n := length g in
  fst (fst (wl_kernel sort g powers (repeat 0 n) (wl_max_iter n max_iter))).

(** [_, counts = np.unique(labels, return_counts=True)]: the sizes of the colour classes by
    increasing colour. *)
Definition uniq_counts (labels : list nat) : list nat :=
  filter (fun c => negb (c =? 0))
         (map (fun v => count_occ Nat.eq_dec labels v) (seq 0 (S (list_max labels)))).

(** [(counts1 != counts2).any()]: elementwise for equal lengths, broadcast when one side has a single
    entry, and otherwise NumPy (2.x) raises ValueError "operands could not be broadcast together". *)
Definition counts_differ (c1 c2 : list nat) : result bool :=
  if length c1 =? length c2 then Ok (existsb (fun ab => negb (fst ab =? snd ab)) (combine c1 c2))
  else if length c1 =? 1 then Ok (existsb (fun b => negb (hd 0 c1 =? b)) c2)
  else if length c2 =? 1 then Ok (existsb (fun a => negb (a =? hd 0 c2)) c1)
  else Err ValueError.

(** [while iteration < max_iter and (has_changed1 or has_changed2)]: one kernel round on each graph
    ([max_iter=1]: the kernel's own loop runs exactly once), then the histograms. *)
Fixpoint iso_loop (sort : list wtuple -> list wtuple) (g1 g2 : graph) (powers : list Q) (todo : nat)
         (labels1 labels2 : list nat) (changed1 changed2 : bool) : result bool :=
  match todo with
  | O => Ok true
  | S k =>
      if changed1 || changed2 then
        let r1 := wl_kernel sort g1 powers labels1 1 in
        let r2 := wl_kernel sort g2 powers labels2 1 in
        match counts_differ (uniq_counts (fst (fst r1))) (uniq_counts (fst (fst r2))) with
        | Err e => Err e
        | Ok true => Ok false
        | Ok false => iso_loop sort g1 g2 powers k (fst (fst r1)) (fst (fst r2)) (snd (fst r1)) (snd (fst r2))
        end
      else Ok true
  end.

Definition g_nnz (g : graph) : nat := sumn (map (@length nat) g).

(** are_isomorphic(adjacency1, adjacency2, max_iter), after check_format / check_square (both inputs
    have at least one stored entry): [if shape1 != shape2 or nnz1 != nnz2: return False]. *)
Definition are_isomorphic (sort : list wtuple -> list wtuple) (g1 g2 : graph) (powers : list Q)
           (max_iter : Z) : result bool :=
  if negb (length g1 =? length g2) || negb (g_nnz g1 =? g_nnz g2) then Ok false
  else
    let n := length g1 in
    iso_loop sort g1 g2 powers (wl_max_iter n max_iter) (repeat 0 n) (repeat 0 n) true true.

(** * 3. Specification: colour refinement

    A partition of the nodes is given by its indicator [E u v] ("u and v are in the same class").
    One refinement step keeps u and v together iff they are together and have, for every class, the same
    number of neighbours (stored entries of their rows, with multiplicity) in that class; classes are
    named by their members w. Colour refinement starts from the one-class partition. *)
Definition count_in (E : nat -> bool) (r : list nat) : nat := length (filter E r).

Definition cr_step (g : graph) (E : nat -> nat -> bool) (u v : nat) : bool :=
  E u v && forallb (fun w => count_in (E w) (row g u) =? count_in (E w) (row g v)) (seq 0 (length g)).

Fixpoint cr_iter (g : graph) (k : nat) : nat -> nat -> bool :=
  match k with
  | O => fun _ _ => true
  | S k' => cr_step g (cr_iter g k')
  end.

(** The partition colour refinement ends with: on n nodes a partition can be split properly at most
    n - 1 times, so the n-th iterate is stable (WlProofs.cr_fix_stable). *)
Definition cr_fix (g : graph) : nat -> nat -> bool := cr_iter g (length g).

(** Executable version (one table per round instead of a recursion that re-evaluates the previous
    rounds): [tab_rel (cr_iter_tab g k)] is [cr_iter g k] on the nodes (WlProofs.cr_iter_tab_correct). *)
Definition cr_tab (n : nat) (E : nat -> nat -> bool) : list (list bool) :=
  map (fun u => map (E u) (seq 0 n)) (seq 0 n).
Definition tab_rel (T : list (list bool)) (u v : nat) : bool := nth v (nth u T []) false.
Fixpoint cr_iter_tab (g : graph) (k : nat) : list (list bool) :=
  match k with
  | O => cr_tab (length g) (fun _ _ => true)
  | S k' => cr_tab (length g) (cr_step g (tab_rel (cr_iter_tab g k')))
  end.

(** The partition of a labelling. *)
Definition same_label (labels : list nat) (u v : nat) : bool := nthn labels u =? nthn labels v.

(** The same step on labellings: same label and same multiset of neighbour labels. *)
Definition nbr_labels (g : graph) (labels : list nat) (u : nat) : list nat := map (nthn labels) (row g u).
Definition refines_to (g : graph) (labels : list nat) (u v : nat) : Prop :=
  nthn labels u = nthn labels v /\ Permutation (nbr_labels g labels u) (nbr_labels g labels v).

(** * 4. The computable hypothesis of the partial theorems

    Equality of multisets of naturals. *)
Definition countb (x : nat) (l : list nat) : nat := length (filter (Nat.eqb x) l).
Definition ms_eqb (a b : list nat) : bool :=
  forallb (fun x => countb x a =? countb x b) a && forallb (fun x => countb x a =? countb x b) b.

(** No hash collision in one round: two nodes (u < v: the condition is symmetric) with the same label
    whose hashes the code may take for equal ([abs(h - h') <= epsilon]) have the same multiset of
    neighbour labels. *)
Definition no_hash_collision (g : graph) (powers : list Q) (eps : Q) (labels : list nat) : bool :=
  let hs := map (fun u => wl_hash powers labels (row g u)) (seq 0 (length g)) in
  forallb (fun u => forallb (fun v =>
     if u <? v then
       if nthn labels u =? nthn labels v then
         if Qle_bool (Qabs (nthq hs u - nthq hs v)) eps
         then ms_eqb (nbr_labels g labels u) (nbr_labels g labels v) else true
       else true
     else true) (seq 0 (length g))) (seq 0 (length g)).

(** ... in every round that [wl_loop] executes. *)
Fixpoint wl_collision_free (sort : list wtuple -> list wtuple) (g : graph) (powers : list Q) (eps : Q)
         (todo : nat) (labels : list nat) (changed : bool) : bool :=
  match todo with
  | O => true
  | S k =>
      if changed then
        no_hash_collision g powers eps labels &&
        (let r := wl_round sort g powers eps labels in
         wl_collision_free sort g powers eps k (fst r) (snd r))
      else true
  end.

(** Margin guard of the run-time comparison with the float implementation (not used by any theorem):
    no two nodes with the same label have [abs(h - h')] within [tol] of epsilon, in every executed
    round. Then the decisions [abs(h - h') > epsilon] are the same on the exact sums and on the float64
    sums (which differ from them by a few ulp), hence so are the rank labels. *)
Definition hash_margin_ok (g : graph) (powers : list Q) (eps tol : Q) (labels : list nat) : bool :=
  let hs := map (fun u => wl_hash powers labels (row g u)) (seq 0 (length g)) in
  forallb (fun u => forallb (fun v =>
     if nthn labels u =? nthn labels v then Qltb tol (Qabs (Qabs (nthq hs u - nthq hs v) - eps)) else true)
     (seq 0 (length g))) (seq 0 (length g)).

Fixpoint wl_margin_ok (sort : list wtuple -> list wtuple) (g : graph) (powers : list Q) (eps tol : Q)
         (todo : nat) (labels : list nat) (changed : bool) : bool :=
  match todo with
  | O => true
  | S k =>
      if changed then
        hash_margin_ok g powers eps tol labels &&
        (let r := wl_round sort g powers eps labels in
         wl_margin_ok sort g powers eps tol k (fst r) (snd r))
      else true
  end.

(** * 5. Isomorphic CSR patterns: [g'] is [g] renumbered by [p] (node i becomes p[i]), each row stored
    in any order. [Format.perm_graph p g] is one such [g']. *)
Definition csr_iso (p : list nat) (g g' : graph) : Prop :=
  length g' = length g /\
  forall i, i < length g -> Permutation (row g' (nthn p i)) (map (nthn p) (row g i)).

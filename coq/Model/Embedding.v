(** Executable model, over exact rationals, of everything scikit-network does AROUND the ARPACK calls in
      sknetwork/embedding/spectral.py          (Spectral.fit)
      sknetwork/embedding/svd.py               (GSVD.fit, GSVD.predict, SVD, PCA.fit)
      sknetwork/embedding/random_projection.py (RandomProjection.fit)
      sknetwork/embedding/louvain_embedding.py (reindex_labels, LouvainEmbedding.fit)
      sknetwork/embedding/base.py              (_get_regularization, _split_vars)
      sknetwork/linalg/operators.py            (Regularizer, Normalizer, Laplacian)
      sknetwork/linalg/sparse_lowrank.py       (SparseLR: _matvec, _transpose, left/right_sparse_dot)
      sknetwork/linalg/normalizer.py           (diagonal_pseudo_inverse, get_norms, normalize)
      sknetwork/utils/format.py                (get_adjacency, bipartite2undirected)
    plus the documented dense matrices used as SPECIFICATION and two executable residual validators.

    ORACLES are function arguments, never axioms:
      - ARPACK ([eigsh] / [svds] through LanczosEig / LanczosSVD): the raw solver output
        ([sv], [sV] resp. [sU], [sS], [sVt]) is an input of the wrapper models;
      - [np.argsort]: the index vector is an input;
      - [np.sqrt], [np.power]: functions [Q -> Q] ([sqrt_o], [norm_o], [prow], [pcol], [psl], [psr]);
      - [is_connected]: a boolean;  the Gaussian matrix after [np.linalg.qr]: a matrix;
      - Louvain: its label vectors.
    Dense matrices are lists of rows (Base/QMat.v).  Definitions only (no proofs). *)
From SKN Require Import Base.Util Base.QMat.
From Coq Require Import Qabs Qreduction Qminmax.
Local Open Scope Q_scope.

(* ------------------------------------------------------------------------------------------- *)
(** * Scalars, reduced products *)
Definition Qlt_bool (a b : Q) : bool := negb (Qle_bool b a).
Definition qn (n : nat) : Q := inject_Z (Z.of_nat n).

(** [diagonal_pseudo_inverse]: [sparse.diags(w, format='csr')] stores no zero, [diag.data = 1 / diag.data]. *)
Definition pinv (x : Q) : Q := if Qeq_bool x 0 then 0 else / x.

(** Products are reduced so that exact evaluation inside Coq stays small ([qdot u v == dot u v]). *)
Definition qdot (u v : vec) : Q := Qred (dot u v).
Definition qmat_vec (M : mat) (x : vec) : vec := map (fun r => qdot r x) M.

(** [x.mean()] *)
Definition mean (x : vec) : Q := sumq x / qn (length x).

(** [M[:, index]] *)
Definition take_cols (index : list nat) (M : mat) : mat := map (fun r => map (nthq r) index) M.

(* ------------------------------------------------------------------------------------------- *)
(** * linalg/normalizer.py *)
(** [get_norms(matrix, p=2)]: [data ** 2], [.dot(ones)], [np.sqrt] (oracle [norm_o]). *)
Definition sqnorm (r : vec) : Q := qdot (vmul r r) (vones (length r)).
(** [normalize(matrix, p=2)]: [diagonal_pseudo_inverse(norms).dot(matrix)]; null rows stay null. *)
Definition normalize_row2 (norm_o : Q -> Q) (r : vec) : vec := vscale (pinv (norm_o (sqnorm r))) r.
Definition normalize2 (norm_o : Q -> Q) (M : mat) : mat := map (normalize_row2 norm_o) M.
(** [normalize(matrix, p=1)]: [|data|], [.dot(ones)]. *)
Definition norm1 (r : vec) : Q := qdot (map Qabs r) (vones (length r)).
Definition normalize_row1 (r : vec) : vec := vscale (pinv (norm1 r)) r.

(* ------------------------------------------------------------------------------------------- *)
(** * embedding/base.py, utils/format.py *)
(** [_get_regularization]: a negative value means "only if the graph is not connected, then |value|". *)
Definition get_regularization (reg : Q) (connected : bool) : Q :=
  if Qlt_bool reg 0 then (if connected then 0 else Qabs reg) else reg.

(** [bipartite2undirected]: [[0, B], [B^T, 0]]. *)
Definition block_undirected (nrow ncol : nat) (B : mat) : mat :=
  block (mzero nrow nrow) B (transpose_n ncol B) (mzero ncol ncol).

Definition is_symmetric_b (n : nat) (A : mat) : bool :=
  forallb (fun i => forallb (fun j => Qeq_bool (mget A i j) (mget A j i)) (seq 0 n)) (seq 0 n).

(** [get_adjacency(input, allow_directed, force_bipartite)]:
    [bipartite = force_bipartite or not is_square or not (allow_directed or is_symmetric)]. *)
Definition get_adjacency (allow_directed force_bipartite : bool) (nrow ncol : nat) (B : mat) : mat * bool :=
  let bip := force_bipartite || negb (Nat.eqb nrow ncol) || negb (allow_directed || is_symmetric_b nrow B) in
  (if bip then block_undirected nrow ncol B else B, bip).

(** [_split_vars]: [embedding_row_ = embedding_[:n_row]], [embedding_col_ = embedding_[n_row:]]. *)
Definition split_vars (nrow : nat) (E : mat) : mat * mat := (firstn nrow E, skipn nrow E).

(** [check_n_components(n_components, n_min)] *)
Definition check_n_components (nc nmin : nat) : nat := if Nat.ltb nmin nc then nmin else nc.

(* ------------------------------------------------------------------------------------------- *)
(** * linalg/sparse_lowrank.py : SparseLR = sparse matrix + list of rank-one terms x y^T *)
Record sparselr := { slr_mat : mat; slr_lr : list (vec * vec) }.

(** [_matvec] on a vector: [prod = sparse_mat.dot(v)]; for each (x, y): [prod += x * v.dot(y)]. *)
Definition slr_matvec (S : sparselr) (v : vec) : vec :=
  fold_left (fun prod xy => vadd prod (vscale (qdot v (snd xy)) (fst xy))) (slr_lr S) (qmat_vec (slr_mat S) v).
(** [_transpose]: sparse part transposed, tuples swapped ([ncol] = number of columns of the operator). *)
Definition slr_transpose (ncol : nat) (S : sparselr) : sparselr :=
  {| slr_mat := transpose_n ncol (slr_mat S); slr_lr := map (fun xy => (snd xy, fst xy)) (slr_lr S) |}.
(** [left_sparse_dot(diag(d))]: [(diag.dot(sparse), [(diag.dot(x), y)])]. *)
Definition slr_left_diag (d : vec) (S : sparselr) : sparselr :=
  {| slr_mat := row_scale d (slr_mat S); slr_lr := map (fun xy => (vmul d (fst xy), snd xy)) (slr_lr S) |}.
(** [right_sparse_dot(diag(d))]: [(sparse.dot(diag), [(x, diag.T.dot(y))])]. *)
Definition slr_right_diag (S : sparselr) (d : vec) : sparselr :=
  {| slr_mat := col_scale (slr_mat S) d; slr_lr := map (fun xy => (fst xy, vmul d (snd xy))) (slr_lr S) |}.
Definition slr_plain (A : mat) : sparselr := {| slr_mat := A; slr_lr := [] |}.

(** SPECIFICATION: the dense matrix a SparseLR stands for, A + sum of x y^T. *)
Definition slr_dense (S : sparselr) : mat :=
  fold_left (fun D xy => madd D (outer (fst xy) (snd xy))) (slr_lr S) (slr_mat S).

(* ------------------------------------------------------------------------------------------- *)
(** * linalg/operators.py *)
(** [Regularizer(A, reg)]: [u = reg * ones(n_row)], [v = ones(n_col) / n_col]. *)
Definition regularizer (nrow ncol : nat) (A : mat) (reg : Q) : sparselr :=
  {| slr_mat := A; slr_lr := [(vscale reg (vones nrow), map (fun o => o / qn ncol) (vones ncol))] |}.

(** [Normalizer(A, reg)]: [norm_diag = pinv(A.dot(ones) + reg)];
    [_matvec]: [prod = A.dot(x)]; [if reg > 0: prod += reg * x.mean() * ones]; [norm_diag.dot(prod)]. *)
Definition normalizer_matvec (nrow ncol : nat) (A : mat) (reg : Q) (x : vec) : vec :=
  let nd := map (fun w => pinv (w + reg)) (qmat_vec A (vones ncol)) in
  let prod := qmat_vec A x in
  let prod := if Qlt_bool 0 reg then vadd prod (vscale (reg * mean x) (vones nrow)) else prod in
  vmul nd prod.

(** [Laplacian(A, reg, normalized)]: [weights = A.dot(ones)], [laplacian = diags(weights) - A],
    [norm_diag = pinv(sqrt(weights + reg))] (oracle [sqrt_o]). *)
Definition lap_weights (A : mat) : vec := qmat_vec A (vones (length A)).
Definition lap_norm_diag (sqrt_o : Q -> Q) (A : mat) (reg : Q) : vec :=
  map (fun w => pinv (sqrt_o (w + reg))) (lap_weights A).
(** [_matvec]: [if normalized: x = norm_diag.dot(x)]; [prod = laplacian.dot(x)];
    [if reg > 0: prod += reg * (x - x.mean())]; [if normalized: prod = norm_diag.dot(prod)]. *)
Definition lap_matvec (A : mat) (reg : Q) (normalized : bool) (nd : vec) (x : vec) : vec :=
  let x1 := if normalized then vmul nd x else x in
  let prod := vsub (vmul (lap_weights A) x1) (qmat_vec A x1) in
  let prod := if Qlt_bool 0 reg then vadd prod (vscale reg (map (fun t => t - mean x1) x1)) else prod in
  if normalized then vmul nd prod else prod.

(** SPECIFICATION (docstrings): regularised adjacency [A + reg 11^T / n], its degrees, the transition
    matrix [P = D^-1 A] (pseudo-inverse on null rows) and the Laplacian action [L v = D v - A v]. *)
Definition reg_adj (ncol : nat) (A : mat) (reg : Q) : mat := map (map (fun a => a + reg / qn ncol)) A.
Definition transition (M : mat) : mat := map (fun r => vscale (pinv (sumq r)) r) M.
Definition laplacian_apply (M : mat) (v : vec) : vec := vsub (vmul (row_sums M) v) (mat_vec M v).

(* ------------------------------------------------------------------------------------------- *)
(** * embedding/spectral.py : Spectral.fit *)
(** What is handed to [LanczosEig(which='SM').fit(laplacian, n_components)]. *)
Definition spectral_operator (sqrt_o : Q -> Q) (rw : bool) (A : mat) (reg : Q) (x : vec) : vec :=
  lap_matvec A reg rw (if rw then lap_norm_diag sqrt_o A reg else []) x.
Definition spectral_request (nc n : nat) : nat := (check_n_components nc (n - 2) + 1)%nat.

(** After the solver: [index = argsort(eigenvalues)[1:]]; selection; for 'rw' the back-transform
    [eigenvectors = norm_diag.dot(eigenvectors)], [eigenvalues = 1 - eigenvalues].
    Returns (eigenvalues_, eigenvectors_). *)
Definition spectral_core (sqrt_o : Q -> Q) (rw : bool) (A : mat) (reg : Q)
           (sv : vec) (sV : mat) (argsort : list nat) : vec * mat :=
  let index := tl argsort in
  let evals := map (nthq sv) index in
  let evecs := take_cols index sV in
  if rw then (map (fun m => 1 - m) evals, row_scale (lap_norm_diag sqrt_o A reg) evecs)
  else (evals, evecs).

(** (eigenvalues_, eigenvectors_, embedding_) of the stacked graph. *)
Definition spectral_fit (sqrt_o norm_o : Q -> Q) (rw normalized : bool) (A : mat) (reg : Q)
           (sv : vec) (sV : mat) (argsort : list nat) : vec * mat * mat :=
  let '(evals, evecs) := spectral_core sqrt_o rw A reg sv sV argsort in
  (evals, evecs, if normalized then normalize2 norm_o evecs else evecs).

(** Oracle questions the wrapper asks (the harness answers them with NumPy). *)
Definition spectral_sqrt_keys (A : mat) (reg : Q) : vec := map (fun w => w + reg) (lap_weights A).
Definition spectral_norm_keys (sqrt_o : Q -> Q) (rw : bool) (A : mat) (reg : Q)
           (sv : vec) (sV : mat) (argsort : list nat) : vec :=
  map sqnorm (snd (spectral_core sqrt_o rw A reg sv sV argsort)).

(* ------------------------------------------------------------------------------------------- *)
(** * embedding/svd.py : GSVD (SVD = GSVD with factor_row = factor_col = 0, i.e. prow = pcol = 1) *)
(** [if regularization: Regularizer(adjacency, regularization) else adjacency] *)
Definition gsvd_reg_matrix (nrow ncol : nat) (A : mat) (reg : Q) : sparselr :=
  if Qeq_bool reg 0 then slr_plain A else regularizer nrow ncol A reg.
(** [weights_row = adjacency_reg.dot(ones(n_col))], [weights_col = adjacency_reg.T.dot(ones(n_row))] *)
Definition gsvd_weights (nrow ncol : nat) (A : mat) (reg : Q) : vec * vec :=
  let Ar := gsvd_reg_matrix nrow ncol A reg in
  (slr_matvec Ar (vones ncol), slr_matvec (slr_transpose ncol Ar) (vones nrow)).
(** [diag_row = pinv(power(weights_row, factor_row))], [diag_col] likewise (oracles [prow], [pcol]). *)
Definition gsvd_diag (pw : Q -> Q) (w : vec) : vec := map (fun x => pinv (pw x)) w.
(** What is handed to the SVD solver: [diag_row . adjacency_reg . diag_col]. *)
Definition gsvd_operator (prow pcol : Q -> Q) (nrow ncol : nat) (A : mat) (reg : Q) : sparselr :=
  let W := gsvd_weights nrow ncol A reg in
  slr_left_diag (gsvd_diag prow (fst W)) (slr_right_diag (gsvd_reg_matrix nrow ncol A reg) (gsvd_diag pcol (snd W))).

(** After the solver ([sU], [sS], [sV] = attributes of the solver, [index = argsort(-singular_values)]):
    [singular_values[index]], [U[:, index]], [V[:, index]];
    [embedding_row = (diags(sv ** (1 - fs)) . (diag_row . U)^T)^T], [embedding_col] likewise with [sv ** fs].
    [psl s = s ^ (1 - factor_singular)], [psr s = s ^ factor_singular] are oracles. *)
Definition gsvd_sv (sS : vec) (index : list nat) : vec := map (nthq sS) index.
Definition gsvd_emb_row (prow psl : Q -> Q) (nrow ncol : nat) (A : mat) (reg : Q) (sU : mat) (sS : vec) (index : list nat) : mat :=
  map (fun r => vmul (map psl (gsvd_sv sS index)) r)
      (row_scale (gsvd_diag prow (fst (gsvd_weights nrow ncol A reg))) (take_cols index sU)).
Definition gsvd_emb_col (pcol psr : Q -> Q) (nrow ncol : nat) (A : mat) (reg : Q) (sV : mat) (sS : vec) (index : list nat) : mat :=
  map (fun r => vmul (map psr (gsvd_sv sS index)) r)
      (row_scale (gsvd_diag pcol (snd (gsvd_weights nrow ncol A reg))) (take_cols index sV)).
(** (singular_values_, singular_vectors_left_, singular_vectors_right_, embedding_row, embedding_col), unnormalised. *)
Definition gsvd_core (prow pcol psl psr : Q -> Q) (nrow ncol : nat) (A : mat) (reg : Q)
           (sU : mat) (sS : vec) (sV : mat) (index : list nat) : vec * mat * mat * mat * mat :=
  (gsvd_sv sS index, take_cols index sU, take_cols index sV,
   gsvd_emb_row prow psl nrow ncol A reg sU sS index, gsvd_emb_col pcol psr nrow ncol A reg sV sS index).

Definition gsvd_fit (prow pcol psl psr norm_o : Q -> Q) (normalized : bool) (nrow ncol : nat) (A : mat) (reg : Q)
           (sU : mat) (sS : vec) (sV : mat) (index : list nat) : vec * mat * mat * mat * mat :=
  let '(sv, Ul, Vr, er, ec) := gsvd_core prow pcol psl psr nrow ncol A reg sU sS sV index in
  (sv, Ul, Vr, if normalized then normalize2 norm_o er else er, if normalized then normalize2 norm_o ec else ec).

(** [GSVD.predict] on ONE adjacency vector [x] (a matrix of vectors is handled row by row: every
    operation of predict is row-wise), with the fitted [weights_col_], [singular_values_] ([sv]) and
    [singular_vectors_right_] ([Vr], n_col x k). *)
Definition gsvd_predict_row (prow pcol psr norm_o : Q -> Q) (normalized : bool) (ncol : nat) (reg : Q)
           (weights_col sv : vec) (Vr : mat) (x : vec) : vec :=
  let xr := gsvd_reg_matrix 1 ncol [x] reg in
  let weights_row := slr_matvec xr (vones ncol) in
  let diag_row := gsvd_diag prow weights_row in
  let diag_col := gsvd_diag pcol weights_col in
  let xw := slr_left_diag diag_row (slr_right_diag xr diag_col) in
  (* averaging.dot(singular_vectors_right): one operator product per column of V *)
  let avg := map (fun k => nthq (slr_matvec xw (col k Vr)) 0) (seq 0 (length sv)) in
  let emb := vscale (nthq diag_row 0) avg in
  let emb := map2 Qdiv emb (map psr sv) in
  if normalized then normalize_row2 norm_o emb else emb.

Definition gsvd_weight_keys := gsvd_weights.
Definition gsvd_norm_keys (prow pcol psl psr : Q -> Q) (nrow ncol : nat) (A : mat) (reg : Q)
           (sU : mat) (sS : vec) (sV : mat) (index : list nat) : vec * vec :=
  let '(_, _, _, er, ec) := gsvd_core prow pcol psl psr nrow ncol A reg sU sS sV index in
  (map sqnorm er, map sqnorm ec).
Definition gsvd_predict_norm_key (prow pcol psr : Q -> Q) (ncol : nat) (reg : Q)
           (weights_col sv : vec) (Vr : mat) (x : vec) : Q :=
  sqnorm (gsvd_predict_row prow pcol psr (fun q => q) false ncol reg weights_col sv Vr x).

(** * PCA.fit: [SparseLR(adjacency, (-ones(n_row), adjacency.T.dot(ones(n_row)) / n_row))];
    the embedding is the matrix of left singular vectors as returned by the solver. *)
Definition pca_operator (nrow ncol : nat) (A : mat) : sparselr :=
  {| slr_mat := A;
     slr_lr := [(vneg (vones nrow), map (fun s => s / qn nrow) (qmat_vec (transpose_n ncol A) (vones nrow)))] |}.
(** [mean_col_ = adjacency.T.dot(ones(n_row)) / n_row] (the same vector as in the operator). *)
Definition pca_mean_col (nrow ncol : nat) (A : mat) : vec :=
  map (fun s => s / qn nrow) (qmat_vec (transpose_n ncol A) (vones nrow)).
(** PCA.fit after the solver: (embedding_row_, embedding_col_, singular_values_);
    [if self.normalized: normalize(., p=2)] on both embeddings. *)
Definition pca_fit (norm_o : Q -> Q) (normalized : bool) (sU : mat) (sS : vec) (sV : mat) : mat * mat * vec :=
  (if normalized then normalize2 norm_o sU else sU, if normalized then normalize2 norm_o sV else sV, sS).
(** PCA.predict on ONE adjacency vector:
    [projection = x.dot(V)]; [(projection - mean_col_.dot(V)) / singular_values_]; normalised when asked. *)
Definition pca_predict_row (norm_o : Q -> Q) (normalized : bool) (mean_col sv : vec) (Vr : mat) (x : vec) : vec :=
  let emb := map (fun k => (qdot x (col k Vr) - qdot mean_col (col k Vr)) / nthq sv k) (seq 0 (length sv)) in
  if normalized then normalize_row2 norm_o emb else emb.
Definition pca_predict_norm_key (mean_col sv : vec) (Vr : mat) (x : vec) : Q :=
  sqnorm (pca_predict_row (fun q => q) false mean_col sv Vr x).

(** LEGACY (before fix 11827c95): [PCA.fit] never read [normalized], and [PCA.predict] was GSVD.predict
    evaluating [np.power(self.weights_col_, ...)] with [weights_col_ = None] (TypeError for every argument). *)
Definition pca_fit_legacy (normalized : bool) (sU : mat) (sS : vec) (sV : mat) : mat * mat * vec := (sU, sV, sS).
Inductive predict_error := TypeError.
Definition pca_predict_row_legacy (weights_col : option vec) (x : vec) : vec + predict_error :=
  match weights_col with None => inr TypeError | Some _ => inl x end.
(** SPECIFICATION: the centred matrix A - 1 mean^T, mean_j = column mean. *)
Definition col_means (nrow ncol : nat) (A : mat) : vec := map (fun s => s / qn nrow) (col_sums ncol A).
Definition centered (nrow ncol : nat) (A : mat) : mat := map (fun r => vsub r (col_means nrow ncol A)) A.

(** [LanczosSVD.fit]: [u, s, vt = svds(...)]; [index = argsort(-s)];
    [(u[:, index], vt.T[:, index], s[index])]. *)
Definition lanczos_svd_sort (u : mat) (s : vec) (vt : mat) (index : list nat) : mat * vec * mat :=
  (take_cols index u, map (nthq s) index, take_cols index (transpose_n (length (nth 0 vt [])) vt)).

(* ------------------------------------------------------------------------------------------- *)
(** * embedding/random_projection.py : the loop
    [factor = G; embedding = G.copy(); for t in range(n_iter): factor = alpha * multiplier.dot(factor);
     embedding += factor], column by column ([multiplier.dot] of a matrix acts on each column). *)
Definition vred (v : vec) : vec := map Qred v.   (* same numbers, reduced fractions: keeps exact evaluation small *)
Fixpoint rp_loop (op : vec -> vec) (alpha : Q) (n_iter : nat) (factor emb : vec) : vec :=
  match n_iter with
  | O => emb
  | S k => let f := vred (vscale alpha (op factor)) in rp_loop op alpha k f (vred (vadd emb f))
  end.
Definition rp_multiplier (random_walk : bool) (n : nat) (A : mat) (reg : Q) : vec -> vec :=
  if random_walk then normalizer_matvec n n A reg else slr_matvec (regularizer n n A reg).
(** [G] is the random matrix AFTER [np.linalg.qr] (n x n_components); the result is n x n_components. *)
Definition random_projection_core (random_walk : bool) (n k : nat) (A : mat) (reg alpha : Q) (n_iter : nat) (G : mat) : mat :=
  let op := rp_multiplier random_walk n A reg in
  transpose_n n (map (fun g => rp_loop op alpha n_iter g g) (transpose_n k G)).
Definition random_projection_fit (norm_o : Q -> Q) (random_walk normalized : bool) (n k : nat) (A : mat) (reg alpha : Q)
           (n_iter : nat) (G : mat) : mat :=
  let E := random_projection_core random_walk n k A reg alpha n_iter G in
  if normalized then normalize2 norm_o E else E.
Definition random_projection_norm_keys (random_walk : bool) (n k : nat) (A : mat) (reg alpha : Q) (n_iter : nat) (G : mat) : vec :=
  map sqnorm (random_projection_core random_walk n k A reg alpha n_iter G).

(** SPECIFICATION: (I + alpha M + ... + (alpha M)^K) g for the documented dense matrix M. *)
Fixpoint mat_pow_apply (M : mat) (t : nat) (g : vec) : vec :=
  match t with O => g | S k => mat_vec M (mat_pow_apply M k g) end.
Fixpoint qpow (a : Q) (n : nat) : Q := match n with O => 1 | S k => a * qpow a k end.
Fixpoint rp_spec (M : mat) (alpha : Q) (K : nat) (g : vec) : vec :=
  match K with
  | O => g
  | S k => vadd (rp_spec M alpha k g) (vscale (qpow alpha (S k)) (mat_pow_apply M (S k) g))
  end.

(* ------------------------------------------------------------------------------------------- *)
(** * embedding/louvain_embedding.py *)
Local Close Scope Q_scope.
Local Open Scope nat_scope.
(** [np.unique(labels, return_counts=True)]: sorted distinct labels with their counts. *)
Definition count_label (labels : list nat) (l : nat) : nat := length (filter (Nat.eqb l) labels).
Definition labels_unique (labels : list nat) : list nat :=
  filter (fun l => memn l labels) (seq 0 (S (list_max labels))).
Fixpoint index_of (x : nat) (l : list nat) : option nat :=
  match l with
  | [] => None
  | y :: t => if Nat.eqb x y then Some 0 else option_map S (index_of x t)
  end.
Inductive isolated_mode := Remove | Merge | Keep.

(** [reindex_labels(labels, labels_secondary, which)].  [None] = IndexError
    ([label_index[labels_keep] = ...] on the secondary index array when a kept label exceeds it). *)
Definition reindex_labels (which : isolated_mode) (labels : list nat) (secondary : option (list nat))
  : option (list Z * option (list Z)) :=
  let keep := filter (fun l => 1 <? count_label labels l) (labels_unique labels) in
  let label_index (l : nat) : Z :=
    match which with
    | Remove => match index_of l keep with Some k => Z.of_nat k | None => (-1)%Z end
    | Merge => match index_of l keep with Some k => Z.of_nat k | None => Z.of_nat (length keep) end
    | Keep => Z.of_nat l
    end in
  let labels' := map label_index labels in
  match secondary with
  | None => Some (labels', None)
  | Some sec =>
      let n2 := S (list_max sec) in
      if forallb (fun l => l <? n2) keep
      then Some (labels', Some (map (fun l => match index_of l keep with Some k => Z.of_nat k | None => (-1)%Z end) sec))
      else None
  end.

(** [get_membership(labels)]: shape (n, max(labels)+1), negative labels ignored;
    column c is the indicator vector of label c. *)
Definition n_labels (labels : list Z) : nat := Z.to_nat (fold_right Z.max (-1)%Z labels + 1).
Definition indicator (c : nat) (labels : list Z) : vec := map (fun l => if Z.eqb l (Z.of_nat c) then 1%Q else 0%Q) labels.
(** [normalize(input_matrix).dot(get_membership(labels))] *)
Definition louvain_embedding (A : mat) (labels : list Z) : mat :=
  map (fun r => let p := normalize_row1 r in map (fun c => qdot p (indicator c labels)) (seq 0 (n_labels labels))) A.
(** LouvainEmbedding.fit after Louvain: square input uses [labels_], otherwise the column labels for the
    rows' embedding and the row labels (reindexed against the kept column labels) for the columns'. *)
Definition louvain_embedding_fit (which : isolated_mode) (nrow ncol : nat) (A : mat)
           (labels : list nat) (labels_row : option (list nat)) : option (mat * option mat) :=
  match reindex_labels which labels labels_row with
  | None => None
  | Some (lab, None) => Some (louvain_embedding A lab, None)
  | Some (lab, Some labr) => Some (louvain_embedding A lab, Some (louvain_embedding (transpose_n ncol A) labr))
  end.
(** SPECIFICATION: share of row i's weight that goes to the nodes of cluster c. *)
Definition cluster_weight (r : vec) (labels : list Z) (c : nat) : Q :=
  sumq (map2 (fun a l => if Z.eqb l (Z.of_nat c) then a else 0%Q) r labels).

(* ------------------------------------------------------------------------------------------- *)
(** * Residual validators (run on the implementation's outputs converted exactly to rationals) *)
Local Open Scope Q_scope.
Definition linf (x : vec) : Q := fold_right Qmax 0 (map Qabs x).
Definition all_le (eps : Q) (x : vec) : bool := forallb (fun t => Qle_bool (Qabs t) eps) x.
Definition shape_ok (r c : nat) (M : mat) : bool :=
  Nat.eqb (length M) r && forallb (fun row => Nat.eqb (length row) c) M.
Definition eig_residual (M : mat) (lam : Q) (v : vec) : vec := vsub (mat_vec M v) (vscale lam v).
Definition eig_residual_check (M : mat) (lam : Q) (v : vec) (eps : Q) : bool :=
  shape_ok (length v) (length v) M && all_le eps (eig_residual M lam v).
Definition svd_residual_l (M : mat) (u : vec) (sigma : Q) (v : vec) : vec := vsub (mat_vec M v) (vscale sigma u).
Definition svd_residual_r (M : mat) (u : vec) (sigma : Q) (v : vec) : vec :=
  vsub (mat_vec (transpose_n (length v) M) u) (vscale sigma v).
Definition svd_residual_check (M : mat) (u : vec) (sigma : Q) (v : vec) (eps : Q) : bool :=
  shape_ok (length u) (length v) M && all_le eps (svd_residual_l M u sigma v) && all_le eps (svd_residual_r M u sigma v).

(* ------------------------------------------------------------------------------------------- *)
(** * Oracle tables (harness glue): the function that answers [x] with the value stored for the nearest key. *)
Definition tabfun (t : list (Q * Q)) (x : Q) : Q :=
  snd (fold_left (fun best e => if Qle_bool (Qabs (fst e - x)) (Qabs (fst best - x)) then e else best) t (hd (0, 0) t)).

(** C01, second sentence ("no call modifies anything the caller passed in") - the aliasing side.

    A tiny imperative language over a heap of arrays, and the SAME may-alias / may-mutate analysis that
    harness/translators/argmut.py runs over the Python sources of /repo, as a Coq function.  Definitions only;
    the frame theorem (analysis reports nothing => every array of the entry heap is unchanged), the
    refutation witnesses and the monotonicity lemma are in Proofs/ArgFrameProofs.v.

    Heap      : locations (indices) -> arrays (list Z).  A variable denotes a VIEW: a location and an offset
                (an ndarray that shares the buffer of another one: np.asarray(p), p[1:], p.T, p.data ...).
    Commands  : x := y                 alias          (x = p, np.asarray(p), p.reshape(..), check_format(csr) ...)
                x := y[off:]           slice view     (basic slicing is a view on the same buffer)
                x := copy y            fresh buffer   (p.copy(), p.astype(float), sparse.csr_matrix(dense) ...)
                x := [e1; ...; ek]     pure computation into a fresh buffer (a + b, a.dot(b), np.zeros_like ..)
                x[i] := e              in-place write (x[i] = .., x += .., x.sort(), out=x ...)
                if e then p1 else p2   branch (the analysis joins)
                x := f(actuals)        call, inlined: the body runs in a new frame whose formals are bound to
                                       the views of the actuals; x is bound to the view of the returned variable
                                       (a pass-through helper returns its own parameter). *)
From SKN Require Import Base.Util.
Set Warnings "-notation-overridden".

Definition var := nat.
Definition loc := nat.
Definition view := (loc * nat)%type.                (* location, offset *)
Definition heap := list (list Z).
Definition env := list (var * view).

Fixpoint lookup {A : Type} (x : var) (e : list (var * A)) : option A :=
  match e with
  | [] => None
  | (y, v) :: t => if Nat.eqb x y then Some v else lookup x t
  end.

Inductive expr :=
| EConst (z : Z)
| EGet (x : var) (i : nat)                          (* x[i] *)
| EAdd (a b : expr)
| EMul (a b : expr).

Inductive cmd :=
| CAlias (x y : var)
| CView (x y : var) (off : nat)
| CCopy (x y : var)
| CPure (x : var) (es : list expr)
| CWrite (x : var) (i : nat) (e : expr)
| CIf (e : expr) (p1 p2 : prog)
| CCall (x : var) (formals actuals : list var) (body : prog) (ret : var)
with prog :=
| PNil
| PSeq (c : cmd) (p : prog).

(* ------------------------------------------------------------------------------------------------------ *)
(** * Execution (partial: unbound variable, read or write out of range => None) *)

Fixpoint eval (e : env) (h : heap) (x : expr) : option Z :=
  match x with
  | EConst z => Some z
  | EGet v i => match lookup v e with
                | Some (l, o) => match nth_error h l with
                                 | Some arr => nth_error arr (o + i)
                                 | None => None
                                 end
                | None => None
                end
  | EAdd a b => match eval e h a, eval e h b with Some u, Some v => Some (u + v)%Z | _, _ => None end
  | EMul a b => match eval e h a, eval e h b with Some u, Some v => Some (u * v)%Z | _, _ => None end
  end.

Fixpoint eval_list (e : env) (h : heap) (xs : list expr) : option (list Z) :=
  match xs with
  | [] => Some []
  | x :: t => match eval e h x, eval_list e h t with Some v, Some vs => Some (v :: vs) | _, _ => None end
  end.

Fixpoint lookup_list (e : env) (xs : list var) : option (list view) :=
  match xs with
  | [] => Some []
  | x :: t => match lookup x e, lookup_list e t with Some v, Some vs => Some (v :: vs) | _, _ => None end
  end.

Fixpoint set_nth {A : Type} (l : list A) (i : nat) (v : A) : option (list A) :=
  match l, i with
  | [], _ => None
  | _ :: t, 0 => Some (v :: t)
  | a :: t, S j => match set_nth t j v with Some t' => Some (a :: t') | None => None end
  end.

Definition state := (env * heap)%type.

Fixpoint exec_cmd (c : cmd) (s : state) {struct c} : option state :=
  let (e, h) := s in
  match c with
  | CAlias x y => match lookup y e with Some v => Some ((x, v) :: e, h) | None => None end
  | CView x y off => match lookup y e with Some (l, o) => Some ((x, (l, o + off)) :: e, h) | None => None end
  | CCopy x y => match lookup y e with
                 | Some (l, o) => match nth_error h l with
                                  | Some arr => Some ((x, (length h, 0)) :: e, h ++ [skipn o arr])
                                  | None => None
                                  end
                 | None => None
                 end
  | CPure x es => match eval_list e h es with
                  | Some vs => Some ((x, (length h, 0)) :: e, h ++ [vs])
                  | None => None
                  end
  | CWrite x i ex => match lookup x e, eval e h ex with
                     | Some (l, o), Some v =>
                         match nth_error h l with
                         | Some arr => match set_nth arr (o + i) v with
                                       | Some arr' => match set_nth h l arr' with
                                                      | Some h' => Some (e, h')
                                                      | None => None
                                                      end
                                       | None => None
                                       end
                         | None => None
                         end
                     | _, _ => None
                     end
  | CIf ex p1 p2 => match eval e h ex with
                    | Some v => if Z.eqb v 0 then exec_prog p2 s else exec_prog p1 s
                    | None => None
                    end
  | CCall x formals actuals body ret =>
      match lookup_list e actuals with
      | Some vs => match exec_prog body (combine formals vs, h) with
                   | Some (e', h') => match lookup ret e' with
                                      | Some r => Some ((x, r) :: e, h')
                                      | None => None
                                      end
                   | None => None
                   end
      | None => None
      end
  end
with exec_prog (p : prog) (s : state) {struct p} : option state :=
  match p with
  | PNil => Some s
  | PSeq c q => match exec_cmd c s with Some s' => exec_prog q s' | None => None end
  end.

(* ------------------------------------------------------------------------------------------------------ *)
(** * The analysis: for each variable the set of PARAMETERS (variables bound at entry) whose buffer it may
    share; [m] accumulates the parameters that may be written through.  Assignments to a name are strong
    updates (the new binding shadows the old one), branches are joined, calls are analysed in the abstract
    frame built from the alias sets of the actuals. *)

Definition aenv := list (var * list var).

Definition aget (x : var) (a : aenv) : list var :=
  match lookup x a with Some s => s | None => [] end.

Definition ajoin (a1 a2 : aenv) : aenv :=
  map (fun x => (x, aget x a1 ++ aget x a2)) (map fst a1 ++ map fst a2).

Fixpoint an_cmd (c : cmd) (a : aenv) (m : list var) {struct c} : aenv * list var :=
  match c with
  | CAlias x y => ((x, aget y a) :: a, m)
  | CView x y _ => ((x, aget y a) :: a, m)
  | CCopy x _ => ((x, []) :: a, m)
  | CPure x _ => ((x, []) :: a, m)
  | CWrite x _ _ => (a, aget x a ++ m)
  | CIf _ p1 p2 => let (a1, m1) := an_prog p1 a m in
                   let (a2, m2) := an_prog p2 a m1 in
                   (ajoin a1 a2, m2)
  | CCall x formals actuals body ret =>
      let (a', m') := an_prog body (combine formals (map (fun y => aget y a) actuals)) m in
      ((x, aget ret a') :: a, m')
  end
with an_prog (p : prog) (a : aenv) (m : list var) {struct p} : aenv * list var :=
  match p with
  | PNil => (a, m)
  | PSeq c q => let (a', m') := an_cmd c a m in an_prog q a' m'
  end.

(** Entry: every parameter aliases itself (two parameters may be bound to the same buffer by the caller;
    the theorems account for that). *)
Definition entry_aenv (e0 : env) : aenv := map (fun b => (fst b, [fst b])) e0.

(** The reported set: parameters that may be modified in place. *)
Definition may_mutate (e0 : env) (p : prog) : list var := snd (an_prog p (entry_aenv e0) []).

(** Entry state well formed: every parameter is bound to a location of the heap. *)
Definition wf_entry (e0 : env) (h0 : heap) : Prop :=
  forall x l o, lookup x e0 = Some (l, o) -> l < length h0.

(* ------------------------------------------------------------------------------------------------------ *)
(** * "Adding a copy": [p'] is [p] with some aliases / views replaced by fresh copies. *)

Inductive more_copies_cmd : cmd -> cmd -> Prop :=
| mc_refl c : more_copies_cmd c c
| mc_alias x y : more_copies_cmd (CAlias x y) (CCopy x y)
| mc_view x y off : more_copies_cmd (CView x y off) (CCopy x y)
| mc_if e p1 p2 q1 q2 : more_copies p1 q1 -> more_copies p2 q2 -> more_copies_cmd (CIf e p1 p2) (CIf e q1 q2)
| mc_call x fs acts b b' r : more_copies b b' -> more_copies_cmd (CCall x fs acts b r) (CCall x fs acts b' r)
with more_copies : prog -> prog -> Prop :=
| mc_nil : more_copies PNil PNil
| mc_seq c c' p p' : more_copies_cmd c c' -> more_copies p p' -> more_copies (PSeq c p) (PSeq c' p').

(* ------------------------------------------------------------------------------------------------------ *)
(** * The three historical shapes (parameter = variable 0 bound to location 0; locals 1, 2, ...) *)

(** get_values: [values = np.asarray(values); values[0] = values[0] * 2 ...] - write through an asarray alias *)
Definition prog_asarray : prog :=
  PSeq (CAlias 1 0) (PSeq (CWrite 1 0 (EMul (EGet 1 0) (EConst 2))) PNil).
Definition prog_asarray_fixed : prog :=
  PSeq (CCopy 1 0) (PSeq (CWrite 1 0 (EMul (EGet 1 0) (EConst 2))) PNil).

(** write through a slice view: [tail = position[1:]; tail[0] += 5] *)
Definition prog_slice : prog :=
  PSeq (CView 1 0 1) (PSeq (CWrite 1 0 (EAdd (EGet 1 0) (EConst 5))) PNil).
Definition prog_slice_fixed : prog :=
  PSeq (CCopy 2 0) (PSeq (CView 1 2 1) (PSeq (CWrite 1 0 (EAdd (EGet 1 0) (EConst 5))) PNil)).

(** write through the return value of a pass-through helper:
    [def check(m): return m]   [adj = check(adjacency); adj[1] = 0]   (check_format on a CSR input) *)
Definition helper_passthrough : prog := PNil.                 (* body; returns its formal 7 *)
Definition prog_helper : prog :=
  PSeq (CCall 1 [7] [0] helper_passthrough 7) (PSeq (CWrite 1 1 (EConst 0)) PNil).
Definition helper_copying : prog := PSeq (CCopy 8 7) PNil.      (* body; returns the copy 8 *)
Definition prog_helper_fixed : prog :=
  PSeq (CCall 1 [7] [0] helper_copying 8) (PSeq (CWrite 1 1 (EConst 0)) PNil).

(** a callee that writes into its own parameter (a Cython kernel filling a memoryview), called on an alias *)
Definition kernel_writes : prog := PSeq (CWrite 7 0 (EConst 9)) (PSeq (CPure 8 [EConst 0]) PNil).
Definition prog_kernel : prog :=
  PSeq (CAlias 1 0) (PSeq (CCall 2 [7] [1] kernel_writes 8) PNil).

Definition entry0 : env := [(0, (0, 0))].
Definition heap0 : heap := [[1; 2; 3]%Z].

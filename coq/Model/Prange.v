(** Interleaving semantics of a [prange] loop over shared arrays (C16, C04, C11).

    One loop iteration is a straight-line program of micro-operations on a shared memory of
    integer cells; [x[c] += e] is NOT atomic: it is a [Rd] followed by a [Wr]. Each thread owns
    the list of values it has read so far (its registers). A schedule is a list of thread ids;
    at each step the named thread executes its next micro-operation. Definitions only. *)
From SKN Require Import Base.Util.

Inductive mop :=
| Rd (c : nat)                       (* read shared cell c into the next register *)
| Wr (c : nat) (f : list Z -> Z).    (* write f(registers) to shared cell c *)

Definition prog := list mop.
Definition mem := list Z.

Definition upd (m : mem) (c : nat) (v : Z) : mem :=
  map (fun i => if Nat.eqb i c then v else nthz m i) (seq 0 (length m)).

(** Thread state: remaining program and registers (most recent read last). *)
Record thread := { rest : prog; regs : list Z }.

Definition step_thread (m : mem) (t : thread) : mem * thread :=
  match rest t with
  | [] => (m, t)
  | Rd c :: p => (m, {| rest := p; regs := regs t ++ [nthz m c] |})
  | Wr c f :: p => (upd m c (f (regs t)), {| rest := p; regs := regs t |})
  end.

Definition set_nth {A} (l : list A) (i : nat) (x : A) : list A :=
  firstn i l ++ match skipn i l with [] => [] | _ :: tl => x :: tl end.

(** Execute a schedule (list of thread indices) from memory m and thread states ts. *)
Fixpoint run (sched : list nat) (m : mem) (ts : list thread) : mem * list thread :=
  match sched with
  | [] => (m, ts)
  | a :: s =>
      match nth_error ts a with
      | None => run s m ts
      | Some t => let '(m', t') := step_thread m t in run s m' (set_nth ts a t')
      end
  end.

Definition init_threads (ps : list prog) : list thread :=
  map (fun p => {| rest := p; regs := [] |}) ps.

(** A schedule is complete for ps when thread a is scheduled exactly |ps[a]| times
    (and only existing threads are scheduled). *)
Definition complete (ps : list prog) (sched : list nat) : Prop :=
  (forall a, In a sched -> a < length ps) /\
  forall a, a < length ps -> count_occ Nat.eq_dec sched a = length (nth a ps []).

(** The sequential schedule: iteration 0 entirely, then iteration 1, ... *)
Definition seq_sched (ps : list prog) : list nat :=
  flat_map (fun a => repeat a (length (nth a ps []))) (seq 0 (length ps)).

Definition reads (p : prog) : list nat :=
  flat_map (fun o => match o with Rd c => [c] | Wr _ _ => [] end) p.
Definition writes (p : prog) : list nat :=
  flat_map (fun o => match o with Rd _ => [] | Wr c _ => [c] end) p.

(** Iterations are independent when no iteration writes a cell that another reads or writes. *)
Definition independent (ps : list prog) : Prop :=
  forall a b, a < length ps -> b < length ps -> a <> b ->
    forall c, In c (writes (nth a ps [])) ->
      ~ In c (reads (nth b ps [])) /\ ~ In c (writes (nth b ps [])).

Definition independent_b (ps : list prog) : bool :=
  forallb (fun a => forallb (fun b =>
    Nat.eqb a b ||
    forallb (fun c => negb (memn c (reads (nth b ps []))) && negb (memn c (writes (nth b ps []))))
            (writes (nth a ps []))) (seq 0 (length ps))) (seq 0 (length ps)).

Definition in_range (ps : list prog) (n : nat) : Prop :=
  forall a c, In c (reads (nth a ps []) ++ writes (nth a ps [])) -> c < n.

(** The legacy D-iteration sweep ([fluid[j] += tmp] from two iterations that share neighbour j),
    as two programs: cells 0,1 = fluid of the two nodes being processed, cell 2 = fluid[j]. *)
Definition legacy_diteration_two_nodes : list prog :=
  [ [Rd 0; Wr 0 (fun _ => 0%Z); Rd 2; Wr 2 (fun r => (nthz r 1 + nthz r 0)%Z)];
    [Rd 1; Wr 1 (fun _ => 0%Z); Rd 2; Wr 2 (fun r => (nthz r 1 + nthz r 0)%Z)] ].

(** The inner loop of push.pyx before its repair (fix 16742c7c): iterations j and j' ran under prange; each adds to its
    own residual cell (0 and 1: distinct neighbours) but BOTH push into the one work-list, modelled as cell 2 holding
    the queue content in base 10 ([push x] = read the queue, write [10 q + x]). *)
Definition legacy_push_two_neighbours : list prog :=
  [ [Rd 0; Wr 0 (fun r => (nthz r 0 + 1)%Z); Rd 2; Wr 2 (fun r => (10 * nthz r 1 + 1)%Z)];
    [Rd 1; Wr 1 (fun r => (nthz r 0 + 1)%Z); Rd 2; Wr 2 (fun r => (10 * nthz r 1 + 2)%Z)] ].

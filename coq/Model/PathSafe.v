(** Executable model of the member path check of sknetwork/data/load.py
    ([is_within_directory], [safe_extract]) and of the [os.path] (posixpath) functions it calls.
    Definitions only (no proofs). Paths are Coq [string]s (bytes); POSIX separator "/". *)
From Coq Require Import String Ascii List Bool Arith.
Import ListNotations.
Local Open Scope string_scope.

(** * String helpers *)

(** [s.split(c)]: always at least one field; [split c "" = [""]]. *)
Fixpoint split (c : ascii) (s : string) : list string :=
  match s with
  | EmptyString => [EmptyString]
  | String a t =>
      if Ascii.eqb a c then EmptyString :: split c t
      else match split c t with
           | h :: r => String a h :: r
           | [] => [String a EmptyString]
           end
  end.

(** [sep.join(l)] *)
Fixpoint join (sep : string) (l : list string) : string :=
  match l with
  | [] => EmptyString
  | [x] => x
  | x :: t => x ++ sep ++ join sep t
  end.

Fixpoint contains (c : ascii) (s : string) : bool :=
  match s with
  | EmptyString => false
  | String a t => Ascii.eqb a c || contains c t
  end.

Definition slash : ascii := "/"%char.
Definition sl : string := "/".

Definition starts_with_slash (s : string) : bool :=
  match s with String a _ => Ascii.eqb a slash | _ => false end.

Fixpoint last_char (s : string) : option ascii :=
  match s with
  | EmptyString => None
  | String a EmptyString => Some a
  | String _ t => last_char t
  end.

Definition ends_with_slash (s : string) : bool :=
  match last_char s with Some a => Ascii.eqb a slash | None => false end.

(** * posixpath *)

(** [os.path.join(a, b)] for two arguments. *)
Definition path_join (a b : string) : string :=
  if starts_with_slash b then b
  else if (String.eqb a "" || ends_with_slash a)%bool then a ++ b
  else a ++ sl ++ b.

(** Number of leading slashes kept by [normpath]: 0 for a relative path, 2 for a path that starts
    with exactly two slashes (POSIX quirk reproduced by CPython), 1 otherwise. *)
Definition initial_slashes (s : string) : nat :=
  match s with
  | String a (String b (String c _)) =>
      if Ascii.eqb a slash then
        if Ascii.eqb b slash then (if Ascii.eqb c slash then 1 else 2) else 1
      else 0
  | String a (String b EmptyString) =>
      if Ascii.eqb a slash then (if Ascii.eqb b slash then 2 else 1) else 0
  | String a EmptyString => if Ascii.eqb a slash then 1 else 0
  | EmptyString => 0
  end.

(** The loop of [normpath] over the components; [acc] is [new_comps] reversed.
    [comp in ('', '.')] is skipped; [".."] pops unless nothing can be popped
    (kept for a relative path, dropped at the root of an absolute one) or the last kept one is "..". *)
Fixpoint norm_loop (absolute : bool) (acc : list string) (comps : list string) : list string :=
  match comps with
  | [] => rev acc
  | c :: t =>
      if (String.eqb c "" || String.eqb c ".")%bool then norm_loop absolute acc t
      else if negb (String.eqb c "..") then norm_loop absolute (c :: acc) t
      else match acc with
           | [] => if absolute then norm_loop absolute acc t else norm_loop absolute (c :: acc) t
           | l :: acc' => if String.eqb l ".." then norm_loop absolute (c :: acc) t
                          else norm_loop absolute acc' t
           end
  end.

Definition norm_comps (s : string) : list string :=
  norm_loop (negb (Nat.eqb (initial_slashes s) 0)) [] (split slash s).

Definition slashes (k : nat) : string :=
  match k with 0 => "" | 1 => "/" | _ => "//" end.

(** [os.path.normpath] *)
Definition normpath (s : string) : string :=
  if String.eqb s "" then "." else
  let r := slashes (initial_slashes s) ++ join sl (norm_comps s) in
  if String.eqb r "" then "." else r.

(** [os.path.abspath] with the current directory as an explicit argument. *)
Definition abs_arg (cwd s : string) : string :=
  if starts_with_slash s then s else path_join cwd s.
Definition abspath (cwd s : string) : string := normpath (abs_arg cwd s).

(** The normalised components of the absolute path denoted by [s] — the semantic location. *)
Definition comps (cwd s : string) : list string := norm_comps (abs_arg cwd s).

(** [os.path.commonprefix([a, b])]: character-wise. *)
Fixpoint commonprefix (a b : string) : string :=
  match a, b with
  | String x a', String y b' => if Ascii.eqb x y then String x (commonprefix a' b') else EmptyString
  | _, _ => EmptyString
  end.

Fixpoint common_list (a b : list string) : list string :=
  match a, b with
  | x :: a', y :: b' => if String.eqb x y then x :: common_list a' b' else []
  | _, _ => []
  end.

Definition path_fields (s : string) : list string :=
  filter (fun c => negb (String.eqb c "" || String.eqb c ".")) (split slash s).

(** [os.path.commonpath([a, b])]: component-wise; [None] stands for the ValueError raised when an
    absolute and a relative path are mixed. (CPython takes the common prefix of the lexicographic
    minimum and maximum of the component lists; for two paths that is their longest common prefix.) *)
Definition commonpath (a b : string) : option string :=
  if Bool.eqb (starts_with_slash a) (starts_with_slash b)
  then Some ((if starts_with_slash a then sl else "") ++ join sl (common_list (path_fields a) (path_fields b)))
  else None.

(** * The check as the code builds it *)

(** Which library function compares the two paths, and which normalisation each argument gets:
    read from the source by harness/translators/pathcheck.py into Gen/PathCheck.v. *)
Inductive path_fun := CommonPrefix | CommonPath.
Inductive path_norm := Abspath | Realpath | NoNorm.

(** [realpath] additionally resolves symbolic links; the model covers link-free trees, where it
    coincides with [abspath]. *)
Definition apply_norm (n : path_norm) (cwd s : string) : string :=
  match n with Abspath | Realpath => abspath cwd s | NoNorm => s end.

(** [is_within_directory(directory, target)]:
      abs_directory = N1(directory); abs_target = N2(target)
      prefix = F([abs_directory, abs_target]); return prefix == abs_directory *)
Definition is_within_with (f : path_fun) (nd nt : path_norm) (cwd directory target : string) : bool :=
  let abs_directory := apply_norm nd cwd directory in
  let abs_target := apply_norm nt cwd target in
  match f with
  | CommonPrefix => String.eqb (commonprefix abs_directory abs_target) abs_directory
  | CommonPath => match commonpath abs_directory abs_target with
                  | Some p => String.eqb p abs_directory
                  | None => false
                  end
  end.

(** [safe_extract(tar, path)]: every member name must pass the check on [join(path, name)],
    otherwise an exception is raised before anything is extracted. *)
Definition safe_extract_with (f : path_fun) (nd nt : path_norm) (cwd path : string) (members : list string) : bool :=
  forallb (fun name => is_within_with f nd nt cwd path (path_join path name)) members.

(** * Specification *)

(** Component-wise prefix. *)
Fixpoint prefix (a b : list string) : Prop :=
  match a, b with
  | [], _ => True
  | x :: a', y :: b' => x = y /\ prefix a' b'
  | _ :: _, [] => False
  end.

Fixpoint prefixb (a b : list string) : bool :=
  match a, b with
  | [], _ => true
  | x :: a', y :: b' => String.eqb x y && prefixb a' b'
  | _ :: _, [] => false
  end.

(** Where [tar.extractall(path)] writes a member (link-free archive): [join(path, name)]. *)
Definition extracted_to (cwd path name : string) : list string := comps cwd (path_join path name).

(** The directory argument denotes a path with a single leading slash after normalisation
    (an absolute path starting with exactly two slashes keeps both in CPython's normpath). *)
Definition single_root (cwd directory : string) : Prop := initial_slashes (abs_arg cwd directory) = 1.

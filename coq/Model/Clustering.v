(** Executable model of what surrounds the optimisers in sknetwork/clustering:
    postprocess.py (reindex_labels), utils/membership.py (get_membership),
    base.py (_split_vars, _secondary_outputs), louvain.py / leiden.py (membership composition across
    aggregation levels, _post_processing with un-shuffling), propagation_clustering.py (np.unique
    compaction) and kcenters.py (_compute_mask_centers, _init_centers, label assignment, reporting of
    the centers).  The Louvain / Leiden optimisation kernels themselves are property C06's business.
    Definitions only (no proofs) so that the model still runs when a proof breaks.

    Labels are [Z] where the code accepts any integer (np.unique, get_membership) and [nat] where it
    produces indices.  Every real quantity is an exact rational.  External routines are ARGUMENTS:
      argsort  : list Z -> list nat          np.argsort (default kind: not stable)
      pick     : nat -> list nat -> nat      np.random.choice (step number, candidate array)
      ppr      : list nat -> list Q          PageRank().fit_predict(adjacency, {center: 1 ...})
      scores   : mat                         per-center scores inside PageRankClassifier
      modularity : list Z -> Q               get_modularity of one restart *)
From Coq Require Import Qabs Permutation Sorted.
From SKN Require Import Base.Util.

Inductive err := ValueError | IndexError.
Inductive result (A : Type) := Ok (a : A) | Err (e : err).
Arguments Ok {A} a.
Arguments Err {A} e.

(* ------------------------------------------------------------------------------------------ *)
(** * np.unique on integer vectors *)

(** Insertion into a strictly increasing list. *)
Fixpoint zinsert (x : Z) (l : list Z) : list Z :=
  match l with
  | [] => [x]
  | y :: t => if (x <? y)%Z then x :: l else if (x =? y)%Z then l else y :: zinsert x t
  end.

(** [np.unique(l)]: the sorted distinct values. *)
Definition zuniq (l : list Z) : list Z := fold_right zinsert [] l.

(** Index of the first occurrence ([length l] when absent). *)
Fixpoint zindex (x : Z) (l : list Z) : nat :=
  match l with
  | [] => 0
  | y :: t => if (x =? y)%Z then 0 else S (zindex x t)
  end.

Definition zcount (x : Z) (l : list Z) : nat := length (filter (Z.eqb x) l).

(** [np.unique(l, return_inverse=True)]. *)
Definition unique_inverse (l : list Z) : list Z * list nat :=
  let u := zuniq l in (u, map (fun x => zindex x u) l).

(** [np.unique(l, return_counts=True)[1]]. *)
Definition unique_counts (l : list Z) : list nat := map (fun x => zcount x l) (zuniq l).

(** [np.unique(l, return_index=True)[1]]: index of the first occurrence of each distinct value. *)
Definition unique_index (l : list Z) : list nat := map (fun x => zindex x l) (zuniq l).

(** Contract of np.argsort: a permutation of the positions that sorts the keys. *)
Definition sorted_by (keys : list Z) (perm : list nat) : bool :=
  forallb (fun p => (nthz keys (fst p) <=? nthz keys (snd p))%Z)
          (combine perm (tl perm)).
Definition is_perm_of_range (n : nat) (perm : list nat) : bool :=
  Nat.eqb (length perm) n && forallb (fun v => memn v perm) (seq 0 n).
Definition argsort_ok_b (keys : list Z) (perm : list nat) : bool :=
  is_perm_of_range (length keys) perm && sorted_by keys perm.

(** A reference argsort (stable insertion sort), used for non-vacuity and as a default oracle. *)
Fixpoint ins_by (keys : list Z) (i : nat) (l : list nat) : list nat :=
  match l with
  | [] => [i]
  | j :: t => if (nthz keys i <? nthz keys j)%Z then i :: l else j :: ins_by keys i t
  end.
Definition stable_argsort (keys : list Z) : list nat :=
  fold_left (fun acc i => ins_by keys i acc) (seq 0 (length keys)) [].

(* ------------------------------------------------------------------------------------------ *)
(** * postprocess.py: reindex_labels

    [_, index, counts = np.unique(labels, return_inverse=True, return_counts=True)]
    [_, new_index = np.unique(np.argsort(-counts), return_index=True)]
    [return new_index[index]] *)
Definition reindex_labels (argsort : list Z -> list nat) (labels : list Z) : list nat :=
  let index := snd (unique_inverse labels) in
  let counts := unique_counts labels in
  let order := argsort (map (fun c => (- Z.of_nat c)%Z) counts) in
  let new_index := unique_index (map Z.of_nat order) in
  map (fun i => nthn new_index i) index.

(* ------------------------------------------------------------------------------------------ *)
(** * Dense matrices over Q (the denotation of the scipy sparse matrices involved) *)
Definition mat := list (list Q).
Definition ent (A : mat) (i j : nat) : Q := nthq (nth i A []) j.
Definition mk (n m : nat) (f : nat -> nat -> Q) : mat :=
  map (fun i => map (fun j => f i j) (seq 0 m)) (seq 0 n).

(** [A.dot(B)] for A of shape n x k and B of shape k x m. *)
Definition mmul (n k m : nat) (A B : mat) : mat :=
  mk n m (fun i c => sumq (map (fun j => (ent A i j * ent B j c)%Q) (seq 0 k))).
(** [A.T] for A of shape n x m. *)
Definition mtrans (n m : nat) (A : mat) : mat := mk m n (fun i j => ent A j i).

(** linalg/normalizer.py: [normalize(matrix, p=1)] = diag(norms)^+ . matrix with norms the row sums of
    absolute values; the pseudo-inverse leaves null rows null. *)
Definition row_norm (m : nat) (A : mat) (i : nat) : Q := sumq (map (fun j => Qabs (ent A i j)) (seq 0 m)).
Definition normalize (n m : nat) (A : mat) : mat :=
  mk n m (fun i j => let s := row_norm m A i in if Qeq_bool s 0 then 0%Q else (ent A i j / s)%Q).

Definition row_sum (m : nat) (A : mat) (i : nat) : Q := sumq (map (fun j => ent A i j) (seq 0 m)).
Definition total (n m : nat) (A : mat) : Q := sumq (map (fun i => row_sum m A i) (seq 0 n)).

(* ------------------------------------------------------------------------------------------ *)
(** * utils/membership.py: get_membership *)
Definition zmax (l : list Z) : option Z :=
  match l with [] => None | x :: t => Some (fold_left Z.max t x) end.

(** One-hot rows; a negative label gives a null row. *)
Definition onehot (n k : nat) (lab : nat -> Z) : mat :=
  mk n k (fun i c => if (lab i =? Z.of_nat c)%Z then 1%Q else 0%Q).
Definition membership (labels : list Z) (k : nat) : mat := onehot (length labels) k (nthz labels).

(** [shape = (n, max(labels)+1)] unless n_labels is given; max() of an empty vector, a negative
    dimension and a column index outside the shape are ValueErrors. *)
Definition get_membership (labels : list Z) (n_labels : option nat) : result (nat * mat) :=
  let rk := match n_labels with
            | Some k => Ok k
            | None => match zmax labels with
                      | None => Err ValueError
                      | Some m => if (m + 1 <? 0)%Z then Err ValueError else Ok (Z.to_nat (m + 1))
                      end
            end in
  match rk with
  | Err e => Err e
  | Ok k => if forallb (fun l => (l <? Z.of_nat k)%Z) labels then Ok (k, membership labels k)
            else Err ValueError
  end.

(* ------------------------------------------------------------------------------------------ *)
(** * base.py: _split_vars and _secondary_outputs *)
Definition split_vars {A} (n_row : nat) (labels : list A) : list A * list A :=
  (firstn n_row labels, skipn n_row labels).

(** Not bipartite: [probs = get_membership(labels_)], [probs_ = normalize(A.dot(probs))],
    [aggregate_ = probs.T.dot(A.dot(probs))].  Result: (number of labels, probs_, aggregate_). *)
Definition secondary (A : mat) (labels : list Z) : result (nat * mat * mat) :=
  let n := length labels in
  match get_membership labels None with
  | Err e => Err e
  | Ok (k, M) =>
      let AM := mmul n n k A M in
      Ok (k, normalize n k AM, mmul k n k (mtrans n k M) AM)
  end.

(** Bipartite, with labels_col_ present:
    [n_labels = max(max(labels_row_), max(labels_col_)) + 1],
    [probs_row_ = normalize(B.dot(probs_col))], [probs_col_ = normalize(B.T.dot(probs_row))],
    [aggregate_ = (probs_row.T.dot(B)).dot(probs_col)].
    Result: (n_labels, probs_row_, probs_col_, aggregate_). *)
Definition secondary_bip (B : mat) (lrow lcol : list Z) : result (nat * mat * mat * mat) :=
  let nr := length lrow in
  let nc := length lcol in
  match zmax lrow, zmax lcol with
  | Some a, Some b =>
      if (Z.max a b + 1 <? 0)%Z then Err ValueError else
      let k := Z.to_nat (Z.max a b + 1) in
      match get_membership lrow (Some k), get_membership lcol (Some k) with
      | Ok (_, Mr), Ok (_, Mc) =>
          Ok (k, normalize nr k (mmul nr nc k B Mc),
              normalize nc k (mmul nc nr k (mtrans nr nc B) Mr),
              mmul k nc k (mmul k nr nc (mtrans nr k Mr) B) Mc)
      | Err e, _ => Err e
      | _, Err e => Err e
      end
  | _, _ => Err ValueError
  end.

(** Bipartite with labels_col_ = None (branch of _secondary_outputs no estimator of the package
    reaches; modelled for completeness): [probs_col = normalize(B.T.dot(probs_row))]. *)
Definition secondary_bip_nocol (nc : nat) (B : mat) (lrow : list Z) : result (nat * mat * mat * mat) :=
  let nr := length lrow in
  match get_membership lrow None with
  | Err e => Err e
  | Ok (k, Mr) =>
      let Bt := mtrans nr nc B in
      let Pc := normalize nc k (mmul nc nr k Bt Mr) in
      Ok (k, normalize nr k (mmul nr nc k B Pc), normalize nc k (mmul nc nr k Bt Mr),
          mmul k nc k (mmul k nr nc (mtrans nr k Mr) B) Pc)
  end.

(* ------------------------------------------------------------------------------------------ *)
(** * louvain.py / leiden.py: composition of the memberships, post-processing *)

(** [sparse.identity(n)] *)
Definition identity (n : nat) : mat := mk n n (fun i j => if Nat.eqb i j then 1%Q else 0%Q).

(** [membership = membership.dot(get_membership(labels))] once per aggregation level
    (Louvain: the compacted labels of the level; Leiden: labels_refined, labels_original at the last level).
    The product requires the inner dimensions to agree. *)
Fixpoint compose_levels (n kcur : nat) (M : mat) (levels : list (list Z)) : result (nat * mat) :=
  match levels with
  | [] => Ok (kcur, M)
  | lab :: rest =>
      match get_membership lab None with
      | Err e => Err e
      | Ok (k', M') =>
          if Nat.eqb kcur (length lab) then compose_levels n k' (mmul n kcur k' M M') rest
          else Err ValueError
      end
  end.
Definition louvain_membership (n : nat) (levels : list (list Z)) : result (nat * mat) :=
  compose_levels n n (identity n) levels.

(** [membership.indices]: the column indices of the stored (non-zero) entries, row after row. *)
Definition indices_of (k : nat) (M : mat) : list nat :=
  flat_map (fun r => filter (fun c => negb (Qeq_bool (nthq r c) 0)) (seq 0 k)) M.

(** What the composition is supposed to compute: follow the labels level by level. *)
Definition compose_fn (levels : list (list Z)) (v : nat) : nat :=
  fold_left (fun x lab => Z.to_nat (nthz lab x)) levels v.

(** In-place write [l[i] = x] (ignored when out of range). *)
Definition upd {A} (l : list A) (i : nat) (x : A) : list A :=
  if Nat.ltb i (length l) then firstn i l ++ x :: skipn (S i) l else l.

(** [reverse = np.empty(n); reverse[index] = np.arange(n)]: assignments in order, last write wins. *)
Definition scatter {A} (init : list A) (keys : list nat) (vals : list A) : list A :=
  fold_left (fun acc p => upd acc (fst p) (snd p)) (combine keys vals) init.
Definition reverse_index (index : list nat) : list nat :=
  scatter (repeat 0 (length index)) index (seq 0 (length index)).
(** [labels[reverse]] *)
Definition unshuffle (index : list nat) (labels : list nat) : list nat :=
  map (fun r => nthn labels r) (reverse_index index).

(** Louvain._post_processing (also used by Leiden), up to the assignment of labels_. *)
Definition post_processing (argsort : list Z -> list nat) (sort_clusters shuffle_nodes : bool)
           (index : list nat) (raw : list nat) : list nat :=
  let labels := if sort_clusters then reindex_labels argsort (map Z.of_nat raw) else raw in
  if shuffle_nodes then unshuffle index labels else labels.

(** Louvain.fit / Leiden.fit around the optimiser: the labels of the successive levels are the
    optimiser's answers (an argument); shuffling permutes the graph before, never the answer. *)
Definition louvain_labels (argsort : list Z -> list nat) (sort_clusters shuffle_nodes bipartite : bool)
           (n n_row : nat) (index : list nat) (levels : list (list Z))
  : result (list nat * option (list nat * list nat)) :=
  match louvain_membership n levels with
  | Err e => Err e
  | Ok (k, M) =>
      let labels := post_processing argsort sort_clusters shuffle_nodes index (indices_of k M) in
      if bipartite then let (r, c) := split_vars n_row labels in Ok (r, Some (r, c))
      else Ok (labels, None)
  end.

(* ------------------------------------------------------------------------------------------ *)
(** * propagation_clustering.py: what follows Propagation.fit

    [_, self.labels_ = np.unique(self.labels_, return_inverse=True)],
    [if self.sort_clusters: self.labels_ = reindex_labels(self.labels_)] (since /repo 350bc655),
    then _split_vars when bipartite. *)
Definition propagation_all (argsort : list Z -> list nat) (sort_clusters : bool) (raw : list Z) : list nat :=
  let labels := snd (unique_inverse raw) in
  if sort_clusters then reindex_labels argsort (map Z.of_nat labels) else labels.
Definition propagation_labels (argsort : list Z -> list nat) (sort_clusters bipartite : bool) (n_row : nat)
           (raw : list Z) : list nat * option (list nat * list nat) :=
  let labels := propagation_all argsort sort_clusters raw in
  if bipartite then let (r, c) := split_vars n_row labels in (r, Some (r, c)) else (labels, None).

(** LEGACY (before /repo 350bc655): fit accepted sort_clusters and never read it.  Kept so that the
    defect's return is recognised by name (legacy_propagation_sort_clusters_refuted). *)
Definition legacy_propagation_labels (sort_clusters bipartite : bool) (n_row : nat) (raw : list Z)
  : list nat * option (list nat * list nat) :=
  let labels := snd (unique_inverse raw) in
  if bipartite then let (r, c) := split_vars n_row labels in (r, Some (r, c)) else (labels, None).

(* ------------------------------------------------------------------------------------------ *)
(** * kcenters.py *)
Inductive position := PRow | PCol | PBoth | POther.

(** _compute_mask_centers *)
Definition compute_mask (bipartite : bool) (pos : position) (n_row n_col : nat) : result (list bool) :=
  if bipartite then
    match pos with
    | PRow => Ok (repeat true n_row ++ repeat false n_col)
    | PCol => Ok (repeat false n_row ++ repeat true n_col)
    | PBoth => Ok (repeat true (n_row + n_col))
    | POther => Err ValueError
    end
  else Ok (repeat true n_row).

(** [nodes[mask]] *)
Definition masked (mask : list bool) : list nat := filter (nthb mask) (seq 0 (length mask)).
(** [mask[center] = 0] *)
Definition clear_mask (mask : list bool) (c : nat) : list bool := upd mask c false.

Definition qmin (l : list Q) : option Q :=
  match l with
  | [] => None
  | x :: t => Some (fold_left (fun m y => if Qle_bool m y then m else y) t x)
  end.

(** The loop of _init_centers after the first draw.  [trace] records the candidate array handed to
    np.random.choice at each step (used by the correspondence check). *)
Fixpoint init_loop (steps step : nat) (ppr : list nat -> list Q) (pick : nat -> list nat -> nat)
         (mask : list bool) (centers : list nat) (trace : list (list nat))
  : result (list nat * list (list nat)) :=
  match steps with
  | O => Ok (centers, trace)
  | S s' =>
      let scores := ppr centers in
      let nodes := masked mask in
      match qmin (map (nthq scores) nodes) with
      | None => Err ValueError
      | Some m =>
          let cands := if Qeq_bool m 0 then filter (fun v => Qeq_bool (nthq scores v) 0) nodes
                       else nodes in
          let center := pick step cands in
          init_loop s' (S step) ppr pick (clear_mask mask center) (centers ++ [center]) (trace ++ [cands])
      end
  end.

(** _init_centers: first center uniformly among nodes[mask]; then n_clusters - 1 further draws, among
    the masked nodes of personalised-PageRank score 0 when there is one, else among all masked nodes
    (with probabilities proportional to 1/score: every masked node is possible). *)
Definition init_centers (mask : list bool) (k : nat) (ppr : list nat -> list Q)
           (pick : nat -> list nat -> nat) : result (list nat * list (list nat)) :=
  let nodes := masked mask in
  match nodes with
  | [] => Err ValueError
  | _ => let c0 := pick 0 nodes in
         init_loop (k - 1) 1 ppr pick (clear_mask mask c0) [c0] [nodes]
  end.

(** [np.argmax] of a row of length k (first maximal index). *)
Definition argmax_row (k : nat) (r : nat -> Q) : nat :=
  fold_left (fun best c => if Qle_bool (r c) (r best) then best else c) (seq 1 (k - 1)) 0.

(** [labels_center = {center: label}] turned into the seed vector by get_values (default -1),
    [check_labels] (at least two classes), [labels_unique[np.argmax(scores, axis=1)]]. *)
Definition seed_vector (n : nat) (centers : list nat) : list Z :=
  scatter (repeat (-1)%Z n) centers (map Z.of_nat (seq 0 (length centers))).
Definition assign_labels (n : nat) (centers : list nat) (scores : mat) : result (list Z) :=
  let classes := zuniq (filter (fun l => (0 <=? l)%Z) (seed_vector n centers)) in
  if Nat.ltb (length classes) 2 then Err ValueError
  else Ok (map (fun v => nthz classes (argmax_row (length classes) (ent scores v))) (seq 0 n)).

Fixpoint list_eqb (a b : list nat) : bool :=
  match a, b with
  | [], [] => true
  | x :: s, y :: t => Nat.eqb x y && list_eqb s t
  | _, _ => false
  end.

(** The while loop of one restart.  [centers] is never reassigned in the code (new_centers is computed
    and dropped), so the loop body runs once whenever max_iter >= 1. *)
Fixpoint kc_loop (fuel max_iter n_iter n : nat) (scores : nat -> mat) (prev : option (list nat))
         (centers : list nat) (labels : option (list Z)) : result (option (list Z)) :=
  match fuel with
  | O => Ok labels
  | S f =>
      let same := match prev with Some p => list_eqb p centers | None => false end in
      if negb same && Nat.ltb n_iter max_iter then
        match assign_labels n centers (scores n_iter) with
        | Err e => Err e
        | Ok lab => kc_loop f max_iter (S n_iter) n scores (Some centers) centers (Some lab)
        end
      else Ok labels
  end.

Record kc_out := { kc_labels : list Z; kc_labels_row : option (list Z); kc_labels_col : option (list Z);
                   kc_centers : list nat; kc_centers_row : option (list nat);
                   kc_centers_col : option (list nat) }.

(** Reporting of the centers for bipartite graphs. *)
Definition report_centers (bipartite : bool) (pos : position) (n_row : nat) (centers : list nat)
  : option (list nat) * option (list nat) :=
  if bipartite then
    match pos with
    | PRow => (Some centers, None)
    | PCol => (None, Some (map (fun c => c - n_row) centers))
    | _ => let r := filter (fun c => Nat.ltb c n_row) centers in
           (Some r, Some (map (fun c => c - n_row) (filter (fun c => negb (memn c r)) centers)))
    end
  else (None, None).

Fixpoint argmax_q (best : nat) (bv : Q) (i : nat) (l : list Q) : nat :=
  match l with
  | [] => best
  | x :: t => if Qle_bool x bv then argmax_q best bv (S i) t else argmax_q i x (S i) t
  end.

(** One restart after the other: (labels, centers, modularity) of each. *)
Fixpoint kc_restarts (mask : list bool) (k max_iter : nat)
         (ppr : nat -> list nat -> list Q) (pick : nat -> nat -> list nat -> nat)
         (scores : nat -> nat -> mat) (modularity : nat -> list Z -> Q) (rs : list nat)
  : result (list (list Z * list nat * Q)) :=
  match rs with
  | [] => Ok []
  | r :: rest =>
      match init_centers mask k (ppr r) (pick r) with
      | Err e => Err e
      | Ok (centers, _) =>
          match kc_loop (S max_iter) max_iter 0 (length mask) (scores r) None centers None with
          | Err e => Err e
          | Ok None => Err ValueError
          | Ok (Some lab) =>
              match kc_restarts mask k max_iter ppr pick scores modularity rest with
              | Err e => Err e
              | Ok more => Ok ((lab, centers, modularity r lab) :: more)
              end
          end
      end
  end.

(** KCenters.fit.  Per restart r: [ppr r], [pick r] (the draws of _init_centers), [scores r it]
    (classifier scores of iteration it), [modularity r labels].  max_iter >= 1 is assumed (with
    max_iter = 0 the code fails on labels = None, outside the documented use). *)
Definition kcenters_fit (bipartite : bool) (pos : position) (n_row n_col k n_init max_iter : nat)
           (ppr : nat -> list nat -> list Q) (pick : nat -> nat -> list nat -> nat)
           (scores : nat -> nat -> mat) (modularity : nat -> list Z -> Q) : result kc_out :=
  if Nat.ltb k 2 then Err ValueError else
  if Nat.ltb n_init 1 then Err ValueError else
  match compute_mask bipartite pos n_row n_col with
  | Err e => Err e
  | Ok mask =>
      if Nat.ltb (length (masked mask)) k then Err ValueError else
      match kc_restarts mask k max_iter ppr pick scores modularity (seq 0 n_init) with
      | Err e => Err e
      | Ok [] => Err ValueError
      | Ok (first :: more) =>
          (* idx_max = np.argmax(modularity_): first maximum *)
          let idx := argmax_q 0 (snd first) 1 (map snd more) in
          let best := nth idx (first :: more) first in
          let lab := fst (fst best) in
          let centers := snd (fst best) in
          let cr := fst (report_centers bipartite pos n_row centers) in
          let cc := snd (report_centers bipartite pos n_row centers) in
          if bipartite then
            Ok {| kc_labels := fst (split_vars n_row lab); kc_labels_row := Some (fst (split_vars n_row lab));
                  kc_labels_col := Some (snd (split_vars n_row lab));
                  kc_centers := centers; kc_centers_row := cr; kc_centers_col := cc |}
          else
            Ok {| kc_labels := lab; kc_labels_row := None; kc_labels_col := None;
                  kc_centers := centers; kc_centers_row := cr; kc_centers_col := cc |}
      end
  end.

(* ------------------------------------------------------------------------------------------ *)
(** * Independent specifications (textbook definitions, used by the theorems and as oracles) *)

(** Sum of the weights from cluster a to cluster b. *)
Definition block_sum (n m : nat) (A : mat) (lrow lcol : nat -> Z) (a b : nat) : Q :=
  sumq (map (fun i => sumq (map (fun j =>
     if (lrow i =? Z.of_nat a)%Z && (lcol j =? Z.of_nat b)%Z then ent A i j else 0%Q) (seq 0 m))) (seq 0 n)).

(** A label vector uses exactly the labels 0..k-1. *)
Definition contiguous_b (k : nat) (labels : list nat) : bool :=
  forallb (fun l => Nat.ltb l k) labels && forallb (fun c => memn c labels) (seq 0 k).
(** Cluster sizes are non-increasing in the label. *)
Definition sizes_sorted_b (k : nat) (labels : list nat) : bool :=
  forallb (fun c => Nat.leb (count_occ Nat.eq_dec labels (S c)) (count_occ Nat.eq_dec labels c)) (seq 0 (k - 1)).
(** Two label vectors induce the same partition of the positions. *)
Definition same_partition_b (a : list nat) (b : list Z) : bool :=
  Nat.eqb (length a) (length b) &&
  forallb (fun i => forallb (fun j => Bool.eqb (Nat.eqb (nthn a i) (nthn a j)) (Z.eqb (nthz b i) (nthz b j)))
                            (seq 0 (length a))) (seq 0 (length a)).

(** Contract of the np.argsort oracle, as a proposition. *)
Definition argsort_ok (keys : list Z) (perm : list nat) : Prop :=
  Permutation perm (seq 0 (length keys)) /\ Sorted Z.le (map (nthz keys) perm).

(** Contract of the np.random.choice oracle: the draw is an element of the (non-empty) array. *)
Definition pick_ok (pick : nat -> list nat -> nat) : Prop :=
  forall step cands, cands <> [] -> In (pick step cands) cands.

(** Nodes that may be centers, as documented for center_position. *)
Definition admissible (bipartite : bool) (pos : position) (n_row n_col v : nat) : Prop :=
  if bipartite then
    match pos with
    | PRow => v < n_row
    | PCol => n_row <= v < n_row + n_col
    | PBoth => v < n_row + n_col
    | POther => False
    end
  else v < n_row.

(* ------------------------------------------------------------------------------------------ *)
(** * Helpers for the correspondence harness (input construction, reduced output) *)

(** Dense denotation of COO triples (duplicates are summed, as scipy does). *)
Definition mat_of_triples (n m : nat) (t : list (nat * nat * Q)) : mat :=
  mk n m (fun i j => sumq (map (fun e => if Nat.eqb (fst (fst e)) i && Nat.eqb (snd (fst e)) j
                                        then snd e else 0%Q) t)).
(** Entries are printed as (numerator, denominator) of the reduced fraction. *)
Definition qpair (q : Q) : Z * Z := let r := Qred q in (Qnum r, Zpos (Qden r)).
Definition mred (A : mat) : list (list (Z * Z)) := map (map qpair) A.

Definition secondary_red (A : mat) (labels : list Z) :=
  match secondary A labels with
  | Ok (k, P, G) => Ok (k, mred P, mred G)
  | Err e => Err e
  end.
Definition secondary_bip_red (B : mat) (lrow lcol : list Z) :=
  match secondary_bip B lrow lcol with
  | Ok (k, Pr, Pc, G) => Ok (k, mred Pr, mred Pc, mred G)
  | Err e => Err e
  end.
Definition get_membership_red (labels : list Z) (n_labels : option nat) :=
  match get_membership labels n_labels with
  | Ok (k, M) => Ok (k, mred M)
  | Err e => Err e
  end.

(** C16 — fit history: an abstract estimator and the static analysis of its [fit].

    An estimator object is a store [attr -> option val] ([None] = attribute absent or [None]).  [fit] is a program over
    the store: reads (which append the value read to the list of values read so far), writes of a value computed from
    the values read so far and the input, two-way conditionals on those values, and loops whose trip count is computed
    from them.  The static analysis below is the one that harness/translators/fitstate.py runs on the Python sources
    (method calls are inlined there, so the language has no procedures):
      - a read of an attribute that is not DEFINITELY written earlier in the same run is a stale read;
      - a write is definite in straight-line code; after an [If] only what both branches definitely wrote is definite;
        nothing written in a loop body is definite after the loop (the body may run zero times);
      - [unwritten_of]: attributes the program writes somewhere but not definitely (stale outputs).
    Definitions only; the theorems are in Proofs/FitStateProofs.v. *)
From Coq Require Import List Bool Arith ZArith String.
Import ListNotations.
Open Scope string_scope.
Open Scope list_scope.

Definition attr := string.
Definition val := Z.
Definition store := attr -> option val.
Definition env := list (option val).     (* values read so far, most recent first *)
Definition input := Z.

Definition upd (s : store) (a : attr) (v : option val) : store :=
  fun b => if String.eqb b a then v else s b.

Definition mem (a : attr) (l : list attr) : bool := existsb (String.eqb a) l.
Definition inter (l1 l2 : list attr) : list attr := filter (fun a => mem a l2) l1.

Inductive prog :=
| Done
| Read (a : attr) (k : prog)                                         (* v = self.a / hasattr(self, a) *)
| Write (a : attr) (f : env -> input -> option val) (k : prog)       (* self.a = f(values read, input); f = None: reset *)
| If (c : env -> input -> bool) (p q : prog) (k : prog)              (* if c: p else: q; then k *)
| Repeat (n : env -> input -> nat) (body : prog) (k : prog).         (* for _ in range(n): body; then k *)

Fixpoint iter {A : Type} (n : nat) (f : A -> A) (a : A) : A :=
  match n with 0 => a | S m => iter m f (f a) end.

Fixpoint exec (p : prog) (x : input) (e : env) (s : store) : env * store :=
  match p with
  | Done => (e, s)
  | Read a k => exec k x (s a :: e) s
  | Write a f k => exec k x e (upd s a (f e x))
  | If c p q k => let r := exec (if c e x then p else q) x e s in exec k x (fst r) (snd r)
  | Repeat n b k => let r := iter (n e x) (fun es => exec b x (fst es) (snd es)) (e, s) in exec k x (fst r) (snd r)
  end.

(** One call of [fit]: the estimator after fitting input [x], starting from the estimator [s]. *)
Definition fit (p : prog) (s : store) (x : input) : store := snd (exec p x [] s).

(** The estimator after a history of earlier fits. *)
Definition after_history (p : prog) (s0 : store) (xs : list input) : store := fold_left (fit p) xs s0.

(** Static analysis: [ana p D] = (stale reads of [p] entered with [D] definitely written, definitely written after [p]). *)
Fixpoint ana (p : prog) (D : list attr) : list attr * list attr :=
  match p with
  | Done => ([], D)
  | Read a k => let r := ana k D in ((if mem a D then [] else [a]) ++ fst r, snd r)
  | Write a _ k => ana k (a :: D)
  | If _ p q k =>
      let rp := ana p D in let rq := ana q D in
      let rk := ana k (inter (snd rp) (snd rq)) in
      (fst rp ++ fst rq ++ fst rk, snd rk)
  | Repeat _ b k =>
      let rb := ana b D in let rk := ana k D in
      (fst rb ++ fst rk, snd rk)
  end.

Definition stale_reads_of (p : prog) : list attr := fst (ana p []).
Definition definite_of (p : prog) : list attr := snd (ana p []).

Fixpoint writes_of (p : prog) : list attr :=
  match p with
  | Done => []
  | Read _ k => writes_of k
  | Write a _ k => a :: writes_of k
  | If _ p q k => writes_of p ++ writes_of q ++ writes_of k
  | Repeat _ b k => writes_of b ++ writes_of k
  end.

(** Stale outputs: written on some path, not on every path. *)
Definition unwritten_of (p : prog) : list attr := filter (fun a => negb (mem a (definite_of p))) (writes_of p).

Definition agree (A : list attr) (s1 s2 : store) : Prop := forall a, In a A -> s1 a = s2 a.

(** The analysis verdict used by the check: every stale read is a constructor parameter that [fit] never writes. *)
Definition history_safe (config : list attr) (p : prog) : bool :=
  forallb (fun a => mem a config) (stale_reads_of p) && forallb (fun a => negb (mem a config)) (writes_of p).

(** ** The three historical defect shapes (and their repairs) as programs. *)
Definition empty : store := fun _ => None.
Definition getv (o : option val) : val := match o with Some v => v | None => 0%Z end.

(** (1) stale read — a warm start from the previous result ([scores_] of the earlier fit reused). *)
Definition warm_start : prog :=
  Read "scores_" (Write "scores_" (fun e x => Some (getv (hd None e) + x)%Z) Done).
Definition warm_start_repaired : prog :=
  Write "scores_" (fun _ _ => None) (Read "scores_" (Write "scores_" (fun e x => Some (getv (hd None e) + x)%Z) Done)).

(** (2) constructor-assigned attribute overwritten by fit and read back by the next fit ([self.bipartite] left over):
    input > 0 = "rectangular"; the matrix is treated as bipartite when it is rectangular OR the flag says so. *)
Definition leftover_flag : prog :=
  Read "bipartite"
    (Write "bipartite" (fun e x => Some (if (0 <? x)%Z then 1 else getv (hd None e))%Z)
       (Read "bipartite" (Write "labels_" (fun e x => Some (getv (hd None e) * 100 + x)%Z) Done))).
Definition leftover_flag_repaired : prog :=
  Write "bipartite" (fun e x => Some (if (0 <? x)%Z then 1 else 0)%Z)
    (Read "bipartite" (Write "labels_" (fun e x => Some (getv (hd None e) * 100 + x)%Z) Done)).

(** (3) stale output — [labels_row_] assigned only for a bipartite input and never reset. *)
Definition row_output : prog :=
  Write "labels_" (fun _ x => Some x)
    (If (fun _ x => (0 <? x)%Z) (Write "labels_row_" (fun _ x => Some (x + 1)%Z) Done) Done Done).
Definition row_output_repaired : prog :=
  Write "labels_row_" (fun _ _ => None)
    (Write "labels_" (fun _ x => Some x)
       (If (fun _ x => (0 <? x)%Z) (Write "labels_row_" (fun _ x => Some (x + 1)%Z) Done) Done Done)).

(** A loop: writes inside the body are not definite afterwards. *)
Definition loop_prog : prog :=
  Write "n_iter_" (fun _ _ => Some 0%Z)
    (Repeat (fun _ x => Z.to_nat x)
       (Read "n_iter_" (Write "n_iter_" (fun e _ => Some (getv (hd None e) + 1)%Z) (Write "last_" (fun _ x => Some x) Done)))
       (Read "damping" (Write "scores_" (fun e x => Some (getv (hd None e) + x)%Z) Done))).

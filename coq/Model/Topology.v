(** Executable model of sknetwork/topology/{triangles,cliques,core,minheap}.pyx and the front ends
    they use (utils/format.py: directed2undirected, path/dag.py: get_dag — the latter from Model/Bfs.v).
    Definitions only (no proofs) so that the model still runs when a proof breaks.

    A graph is the pattern of a square CSR matrix: row u lists the stored column indices of row u.
    Not modelled: the capacity of the std::vector's in MinHeap (D12: [reserve] instead of [resize], a
    memory-safety matter that belongs to C17 and does not change results), C [int]/[long]/[short]
    overflow. *)
From SKN Require Import Base.Util Model.Bfs.

(** * Front ends *)

(** Adjacency in the undirected graph associated with a pattern. *)
Definition adjb (g : graph) (i j : nat) : bool := memn j (row g i) || memn i (row g j).

(** [directed2undirected]: pattern of A + A^T in canonical CSR form (sorted, duplicate-free rows). *)
Definition sym_rows (g : graph) : graph :=
  map (fun i => filter (adjb g i) (seq 0 (length g))) (seq 0 (length g)).

(** [np.arange(n)], the default order of get_dag. *)
Definition id_order (n : nat) : list Z := map Z.of_nat (seq 0 n).

(** [get_dag(directed2undirected(adjacency))] as called by count_triangles. *)
Definition tri_dag (g : graph) : graph := get_dag (sym_rows g) (id_order (length g)).

(** * triangles.pyx *)

(** The while loop of count_local_triangles_from_dag on the two index ranges, fuel len1 + len2:
    [==] advances both and counts, [<] advances i, otherwise j. *)
Fixpoint merge_count (fuel : nat) (l1 l2 : list nat) : nat :=
  match fuel with
  | O => 0
  | S f =>
      match l1, l2 with
      | a :: t1, b :: t2 =>
          if a =? b then S (merge_count f t1 t2)
          else if a <? b then merge_count f t1 l2
          else merge_count f l1 t2
      | _, _ => 0
      end
  end.

(** count_local_triangles_from_dag: for every out-neighbour of [node], merge the two out-lists. *)
Definition count_local (d : graph) (node : nat) : nat :=
  sumn (map (fun neighbor =>
               merge_count (length (row d node) + length (row d neighbor)) (row d node) (row d neighbor))
            (row d node)).

(** count_triangles_from_dag, sequential branch. *)
Definition count_triangles_from_dag (d : graph) : nat :=
  sumn (map (count_local d) (seq 0 (length d))).

(** count_triangles_from_dag, prange branch with a [+=] reduction: OpenMP gives every thread a private
    partial sum over the iterations it executes, in the order it executes them, and adds the partial
    sums at the end. A schedule is the list, per thread, of the iterations it ran. *)
Definition count_triangles_sched (d : graph) (sched : list (list nat)) : nat :=
  sumn (map (fun chunk => fold_left (fun acc node => acc + count_local d node) chunk 0) sched).

Definition count_triangles (g : graph) : nat := count_triangles_from_dag (tri_dag g).

(** get_clustering_coefficient: [3 * T / ((d * (d - 1)).sum() / 2)] over the degrees > 1 of the
    symmetrised pattern; [None] when the denominator is 0 (the code returns nan). *)
Definition sym_degrees (g : graph) : list nat := map (@length nat) (sym_rows g).
Definition qnat (n : nat) : Q := inject_Z (Z.of_nat n).
Definition sum_dd1 (degs : list nat) : nat :=
  sumn (map (fun d => d * (d - 1)) (filter (fun d => 1 <? d) degs)).
Definition n_edge_pairs (g : graph) : Q := (qnat (sum_dd1 (sym_degrees g)) / 2)%Q.
Definition clustering_coefficient (g : graph) : option Q :=
  if Qeq_bool (n_edge_pairs g) 0%Q then None
  else Some (Qred (3 * qnat (count_triangles g) / n_edge_pairs g)%Q).

(** * Specifications of the counts (brute-force enumeration) *)

Definition all_triples (n : nat) : list (nat * nat * nat) :=
  flat_map (fun a => flat_map (fun b => map (fun c => (a, b, c)) (seq 0 n)) (seq 0 n)) (seq 0 n).

(** Number of triples a < b < c that are pairwise adjacent. *)
Definition triangles_spec (adj : nat -> nat -> bool) (n : nat) : nat :=
  length (filter (fun t => match t with
                           | (a, b, c) => (a <? b) && (b <? c) && adj a b && adj a c && adj b c
                           end) (all_triples n)).

(** Number of neighbours of v. *)
Definition degree_spec (adj : nat -> nat -> bool) (n v : nat) : nat :=
  length (filter (adj v) (seq 0 n)).

(** Clustering coefficient as defined: 3 T / sum_{v : d_v > 1} d_v (d_v - 1) / 2. *)
Definition triples_spec2 (adj : nat -> nat -> bool) (n : nat) : nat :=
  sumn (map (fun v => let d := degree_spec adj n v in if 1 <? d then d * (d - 1) else 0) (seq 0 n)).
Definition clustering_spec (adj : nat -> nat -> bool) (n : nat) : Q :=
  (3 * qnat (triangles_spec adj n) / (qnat (triples_spec2 adj n) / 2))%Q.

(** Number of connected triples: paths b - v - c with b < c (centre v). *)
Definition connected_triples (adj : nat -> nat -> bool) (n : nat) : nat :=
  length (filter (fun t => match t with (v, b, c) => (b <? c) && adj v b && adj v c end) (all_triples n)).

(** All sub-lists of length k (in list order): the k-subsets of a duplicate-free list. *)
Fixpoint sublists_k (k : nat) (l : list nat) : list (list nat) :=
  match l with
  | [] => match k with O => [[]] | S _ => [] end
  | a :: t => match k with
              | O => [[]]
              | S k' => map (cons a) (sublists_k k' t) ++ sublists_k k t
              end
  end.

Fixpoint pairwise (adj : nat -> nat -> bool) (l : list nat) : bool :=
  match l with
  | [] => true
  | a :: t => forallb (adj a) t && pairwise adj t
  end.

(** Number of k-subsets of [l] that are cliques. *)
Definition count_sub (adj : nat -> nat -> bool) (k : nat) (l : list nat) : nat :=
  length (filter (pairwise adj) (sublists_k k l)).
Definition cliques_spec (adj : nat -> nat -> bool) (n k : nat) : nat := count_sub adj k (seq 0 n).

(** * cliques.pyx, level L1 (sets): count k S = sum_{u in S} count (k-1) (N+(u) /\ S),
    base case clique_size = 2: the sum of the truncated out-degrees. [j] is clique_size - 2. *)
Definition inter (l s : list nat) : list nat := filter (fun w => memn w s) l.

Fixpoint cliques_rec (d : graph) (j : nat) (s : list nat) : nat :=
  match j with
  | O => sumn (map (fun u => length (inter (row d u) s)) s)
  | S j' => sumn (map (fun u => cliques_rec d j' (inter (row d u) s)) s)
  end.

Definition count_cliques_from_dag_L1 (d : graph) (clique_size : nat) : nat :=
  cliques_rec d (clique_size - 2) (seq 0 (length d)).

(** * cliques.pyx, level L0: ListingBox arrays and the in-place reordering of the neighbour lists.
    [b_rows v] stands for indices[indptr[v] : indptr[v+1]] (offsets relative to indptr[v]). *)
Definition upd {A} (l : list A) (i : nat) (x : A) : list A :=
  firstn i l ++ match skipn i l with [] => [] | _ :: t => x :: t end.

Definition nthl (l : list (list nat)) (i : nat) : list nat := nth i l [].

Record box := { b_ns : list nat; b_lab : list nat; b_deg : list (list nat); b_sub : list (list nat);
                b_rows : list (list nat) }.

(** ListingBox.__cinit__ (the arrays of the levels 2..k-1 are zero-filled; level k holds the out-degrees
    and the identity). Levels 0 and 1 are never used (None in the object arrays). *)
Definition box_init (d : graph) (k : nat) : box :=
  let n := length d in
  let deg := map (@length nat) d in
  let max_deg := fold_left Nat.max deg 0 in
  {| b_ns := upd (repeat 0 (S k)) k n;
     b_lab := repeat k n;
     b_deg := map (fun i => if i =? k then deg else repeat 0 n) (seq 0 (S k));
     b_sub := map (fun i => if i =? k then seq 0 n else repeat 0 max_deg) (seq 0 (S k));
     b_rows := d |}.

Definition set_ns (b : box) (i x : nat) : box :=
  {| b_ns := upd (b_ns b) i x; b_lab := b_lab b; b_deg := b_deg b; b_sub := b_sub b; b_rows := b_rows b |}.
Definition set_lab (b : box) (v x : nat) : box :=
  {| b_ns := b_ns b; b_lab := upd (b_lab b) v x; b_deg := b_deg b; b_sub := b_sub b; b_rows := b_rows b |}.
Definition set_deg (b : box) (lvl v x : nat) : box :=
  {| b_ns := b_ns b; b_lab := b_lab b; b_deg := upd (b_deg b) lvl (upd (nthl (b_deg b) lvl) v x);
     b_sub := b_sub b; b_rows := b_rows b |}.
Definition set_sub (b : box) (lvl i x : nat) : box :=
  {| b_ns := b_ns b; b_lab := b_lab b; b_deg := b_deg b;
     b_sub := upd (b_sub b) lvl (upd (nthl (b_sub b) lvl) i x); b_rows := b_rows b |}.
Definition set_row (b : box) (v i x : nat) : box :=
  {| b_ns := b_ns b; b_lab := b_lab b; b_deg := b_deg b; b_sub := b_sub b;
     b_rows := upd (b_rows b) v (upd (nthl (b_rows b) v) i x) |}.

Definition get_deg (b : box) (lvl v : nat) : nat := nthn (nthl (b_deg b) lvl) v.
Definition get_sub (b : box) (lvl i : nat) : nat := nthn (nthl (b_sub b) lvl) i.
Definition get_row (b : box) (v i : nat) : nat := nthn (nthl (b_rows b) v) i.

(** First inner loop: the neighbours of u (first degree_[u] entries) still labelled [cs] form the
    sub-graph of level cs-1. *)
Definition select_step (cs u : nat) (b : box) (j : nat) : box :=
  let v := get_row b u j in
  if nthn (b_lab b) v =? cs then
    let b1 := set_lab b v (cs - 1) in
    let b2 := set_sub b1 (cs - 1) (nthn (b_ns b1) (cs - 1)) v in
    let b3 := set_ns b2 (cs - 1) (S (nthn (b_ns b2) (cs - 1))) in
    set_deg b3 (cs - 1) v 0
  else b.

(** The [while k < k_max] loop on row v (offsets relative to indptr[v]): entries labelled cs-1 are
    counted, the others are swapped to the end of the current window. *)
Fixpoint partition_loop (fuel : nat) (cs v k k_max : nat) (b : box) : box :=
  match fuel with
  | O => b
  | S f =>
      if k <? k_max then
        let w := get_row b v k in
        if nthn (b_lab b) w =? cs - 1 then
          partition_loop f cs v (S k) k_max (set_deg b (cs - 1) v (S (get_deg b (cs - 1) v)))
        else
          let k_max' := k_max - 1 in
          let b1 := set_row b v k (get_row b v k_max') in
          let b2 := set_row b1 v k_max' w in
          partition_loop f cs v k k_max' b2     (* k -= 1; k += 1 *)
      else b
  end.

Fixpoint count_cliques_from_dag (cs : nat) (b : box) : nat * box :=
  match cs with
  | O => (0, b)
  | S O => (0, b)
  | S (S O) =>
      (sumn (map (fun i => get_deg b 2 (get_sub b 2 i)) (seq 0 (nthn (b_ns b) 2))), b)
  | S cs' =>
      fold_left
        (fun (st : nat * box) (i : nat) =>
           let (total, b) := st in
           let u := get_sub b cs i in
           let b := set_ns b cs' 0 in
           let b := fold_left (select_step cs u) (seq 0 (get_deg b cs u)) b in
           let b := fold_left (fun b j => let v := get_sub b cs' j in
                                          partition_loop (get_deg b cs v) cs v 0 (get_deg b cs v) b)
                              (seq 0 (nthn (b_ns b) cs')) b in
           let (c, b) := count_cliques_from_dag cs' b in
           let b := fold_left (fun b j => set_lab b (get_sub b cs' j) cs) (seq 0 (nthn (b_ns b) cs')) b in
           (total + c, b))
        (seq 0 (nthn (b_ns b) cs)) (0, b)
  end.

(** count_cliques. [argsort] is the answer of np.argsort(core values) (an oracle: any permutation is
    admissible for the count); it is passed to get_dag as [order], exactly as the code does. *)
Definition count_cliques (g : graph) (clique_size : nat) (argsort : list nat) : result nat :=
  if clique_size <? 2 then Err ValueError
  else
    let d := get_dag g (map Z.of_nat argsort) in
    Ok (fst (count_cliques_from_dag clique_size (box_init d clique_size))).

Definition count_cliques_L1 (g : graph) (clique_size : nat) (argsort : list nat) : result nat :=
  if clique_size <? 2 then Err ValueError
  else Ok (count_cliques_from_dag_L1 (get_dag g (map Z.of_nat argsort)) clique_size).

(** * core.pyx, level L1: remove SOME node of minimum remaining degree, label it with the running
    maximum of the degrees at removal time. [choice] is the removal sequence (an oracle); the run is
    [None] when the sequence is not admissible (node not alive / not of minimum degree / nodes left). *)
Definition deg_in (g : graph) (alive : list nat) (v : nat) : nat :=
  length (filter (fun w => memn w alive) (row g v)).

Fixpoint peel_run (g : graph) (choice alive : list nat) (c : nat) (labels : list nat)
  : option (list nat) :=
  match choice with
  | [] => match alive with [] => Some labels | _ :: _ => None end
  | v :: rest =>
      if memn v alive && forallb (fun u => deg_in g alive v <=? deg_in g alive u) alive then
        let c' := Nat.max c (deg_in g alive v) in
        peel_run g rest (remove Nat.eq_dec v alive) c' (upd labels v c')
      else None
  end.

Definition peel (g : graph) (choice : list nat) : option (list nat) :=
  peel_run g choice (seq 0 (length g)) 0 (repeat 0 (length g)).

(** Specification of core numbers, independent of any peeling: S is a k-core witness when every
    member has at least k neighbours inside S. *)
Definition kcore_set (g : graph) (k : nat) (s : list nat) : Prop :=
  forall u, In u s -> k <= deg_in g s u.
Definition in_core (g : graph) (k v : nat) : Prop := exists s, In v s /\ kcore_set g k s.
Definition core_number (g : graph) (v k : nat) : Prop :=
  in_core g k v /\ forall k', in_core g k' v -> k' <= k.

(** * minheap.pyx, level L0. Positions are [nat]; [parent] is computed in Z with floor division,
    so parent 0 = -1 as in Python. Reads of [scores] go through the node stored at a position. *)
Record heap := { h_val : list nat; h_pos : list nat; h_size : nat }.

Definition parent (i : nat) : Z := ((Z.of_nat i - 1) / 2)%Z.
Definition left (i : nat) : nat := 2 * i + 1.
Definition right (i : nat) : nat := 2 * i + 2.

Definition heap_init (n : nat) : heap := {| h_val := repeat 0 n; h_pos := repeat 0 n; h_size := 0 |}.
Definition heap_empty (h : heap) : bool := h_size h =? 0.

Definition score_at (h : heap) (scores : list Z) (i : nat) : Z := nthz scores (nthn (h_val h) i).

Definition swap (h : heap) (x y : nat) : heap :=
  let tmp := nthn (h_val h) x in
  let val1 := upd (h_val h) x (nthn (h_val h) y) in
  let val2 := upd val1 y tmp in
  let pos1 := upd (h_pos h) (nthn val2 x) x in
  let pos2 := upd pos1 (nthn val2 y) y in
  {| h_val := val2; h_pos := pos2; h_size := h_size h |}.

(** while (p >= 0) and (scores[val[p]] > scores[val[i]]) *)
Fixpoint insert_loop (fuel : nat) (h : heap) (scores : list Z) (i : nat) (p : Z) : heap :=
  match fuel with
  | O => h
  | S f =>
      if (0 <=? p)%Z && (score_at h scores (Z.to_nat p) >? score_at h scores i)%Z then
        let h' := swap h i (Z.to_nat p) in
        insert_loop f h' scores (Z.to_nat p) (parent (Z.to_nat p))
      else h
  end.

Definition insert_key (h : heap) (k : nat) (scores : list Z) : heap :=
  let h1 := {| h_val := upd (h_val h) (h_size h) k; h_pos := upd (h_pos h) k (h_size h);
               h_size := S (h_size h) |} in
  let i := h_size h in
  insert_loop (S i) h1 scores i (parent i).

(** while (pos != 0) and (scores[val[p]] > scores[val[pos]]) *)
Fixpoint decrease_loop (fuel : nat) (h : heap) (scores : list Z) (pos : nat) (p : Z) : heap :=
  match fuel with
  | O => h
  | S f =>
      if negb (pos =? 0) && (score_at h scores (Z.to_nat p) >? score_at h scores pos)%Z then
        let h' := swap h pos (Z.to_nat p) in
        decrease_loop f h' scores (Z.to_nat p) (parent (Z.to_nat p))
      else h
  end.

Definition decrease_key (h : heap) (i : nat) (scores : list Z) : heap :=
  let pos := nthn (h_pos h) i in
  if pos <? h_size h then decrease_loop (S pos) h scores pos (parent pos) else h.

Fixpoint min_heapify (fuel : nat) (h : heap) (i : nat) (scores : list Z) : heap :=
  match fuel with
  | O => h
  | S f =>
      let l := left i in
      let r := right i in
      let smallest := if (l <? h_size h) && (score_at h scores l <? score_at h scores i)%Z then l else i in
      let smallest := if (r <? h_size h) && (score_at h scores r <? score_at h scores smallest)%Z
                      then r else smallest in
      if negb (smallest =? i) then min_heapify f (swap h i smallest) smallest scores else h
  end.

Definition pop_min (h : heap) (scores : list Z) : nat * heap :=
  if h_size h =? 1 then
    (nthn (h_val h) 0, {| h_val := h_val h; h_pos := h_pos h; h_size := 0 |})
  else
    let root := nthn (h_val h) 0 in
    let val1 := upd (h_val h) 0 (nthn (h_val h) (h_size h - 1)) in
    let pos1 := upd (h_pos h) (nthn val1 0) 0 in
    let h1 := {| h_val := val1; h_pos := pos1; h_size := h_size h - 1 |} in
    (root, min_heapify (S (h_size h)) h1 0 scores).

(** * core.pyx, level L0: compute_core exactly as coded (the degrees of already popped neighbours keep
    being decremented; their stale [pos] = 0 makes decrease_key a no-op). *)
Definition core_inner (g : graph) (min_node : nat) (st : list Z * heap) : list Z * heap :=
  fold_left (fun (st : list Z * heap) (j : nat) =>
               let (degrees, mh) := st in
               let degrees' := upd degrees j (nthz degrees j - 1)%Z in
               (degrees', decrease_key mh j degrees'))
            (row g min_node) st.

Fixpoint core_loop (fuel : nat) (g : graph) (degrees : list Z) (mh : heap) (core_value : Z)
         (labels : list Z) : option (list Z) :=
  if heap_empty mh then Some labels
  else match fuel with
       | O => None
       | S f =>
           let (min_node, mh1) := pop_min mh degrees in
           let core_value' := Z.max core_value (nthz degrees min_node) in
           let (degrees', mh2) := core_inner g min_node (degrees, mh1) in
           core_loop f g degrees' mh2 core_value' (upd labels min_node core_value')
       end.

Definition compute_core (g : graph) : option (list Z) :=
  let n := length g in
  let degrees := map (fun r => Z.of_nat (length r)) g in
  let mh := fold_left (fun mh i => insert_key mh i degrees) (seq 0 n) (heap_init n) in
  core_loop n g degrees mh 0%Z (repeat 0%Z n).

(** Heap invariant used by the partial theorem: [val] and [pos] are inverse on the live part and
    every live non-root entry is at least its parent. *)
Definition heap_ok (h : heap) (scores : list Z) : Prop :=
  h_size h <= length (h_val h) /\
  (forall i, i < h_size h -> nthn (h_val h) i < length (h_pos h) /\ nthn (h_pos h) (nthn (h_val h) i) = i) /\
  (forall i, 0 < i -> i < h_size h -> (score_at h scores (Z.to_nat (parent i)) <= score_at h scores i)%Z).

(** Executable form of [heap_ok], and compute_core instrumented to evaluate it before every pop_min
    (the preservation of the invariant by the four heap operations is not proved; the harness evaluates
    this check on every case it runs). *)
Definition heap_ok_b (h : heap) (scores : list Z) : bool :=
  (h_size h <=? length (h_val h)) &&
  forallb (fun i => (nthn (h_val h) i <? length (h_pos h)) && (nthn (h_pos h) (nthn (h_val h) i) =? i))
          (seq 0 (h_size h)) &&
  forallb (fun i => (score_at h scores (Z.to_nat (parent i)) <=? score_at h scores i)%Z)
          (seq 1 (h_size h - 1)).

Fixpoint core_loop_inv (fuel : nat) (g : graph) (degrees : list Z) (mh : heap) : bool :=
  if heap_empty mh then true
  else match fuel with
       | O => false
       | S f =>
           heap_ok_b mh degrees &&
           (let (min_node, mh1) := pop_min mh degrees in
            let (degrees', mh2) := core_inner g min_node (degrees, mh1) in
            core_loop_inv f g degrees' mh2)
       end.

Definition core_heap_inv (g : graph) : bool :=
  let n := length g in
  let degrees := map (fun r => Z.of_nat (length r)) g in
  let mh := fold_left (fun mh i => insert_key mh i degrees) (seq 0 n) (heap_init n) in
  core_loop_inv n g degrees mh.

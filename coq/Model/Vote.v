(** Executable model of sknetwork/classification/vote.pyx : vote_update, at the flat (L0) level.
    Definitions only (no proofs). Every array read / write is checked ([nth_error]); an access outside
    the array makes the whole call return [VOOB site] so that out-of-bounds accesses are visible
    (the compiled kernel has boundscheck(False): there the same access is undefined behaviour).

    The kernel is modelled statement by statement:

      votes      : vector of [n = labels.shape[0]] zeros, allocated once per call;
      votes_neigh: vector<float>, declared once per call and -- in the current source -- NEVER cleared;
      for ii in range(n_indices):
          i = index[ii];  labels_neigh.clear()
          for j in range(indptr[i], indptr[i+1]):
              jj = indices[j]
              labels_neigh.push_back(labels[jj]);  votes_neigh.push_back(data[jj])     (* data[NODE], not data[j] *)
          labels_unique.clear()
          for jj in range(labels_neigh.size()):
              label = labels_neigh[jj]
              if label >= 0:  labels_unique.insert(label);  votes[label] += votes_neigh[jj]
          best_score = -1
          for label in labels_unique:              (* std::set<int>: increasing order *)
              if votes[label] > best_score:  labels[i] = label;  best_score = votes[label]
              votes[label] = 0

    The listing above is the kernel BEFORE the repair 32660cf6 ([legacy_kernel]). Three facts of the source are
    parameters of the model ([kvariant]); their current values are re-read from vote.pyx by the translator
    harness/translators/vote.py (Gen/VoteConsts.v) on every run:
      [wpos] = the subscript of [data] in [votes_neigh.push_back(data[..])] is the edge position [j]
               (legacy: [jj], the neighbour's node index => [wpos = false]; repaired source: [true]);
      [clr]  = [votes_neigh.clear()] is executed for every node (legacy: absent => [false]; repaired: [true]);
      [vlab] = [votes] has max(n, max(labels) + 1) entries (legacy: n entries => [false]; repaired: [true]). *)
From SKN Require Import Base.Util.

Inductive site :=
  At_index | At_indptr | At_indices | At_labels | At_data | At_votes | At_votes_neigh | At_labels_write.

Inductive vres (A : Type) := VOk (a : A) | VOOB (s : site).
Arguments VOk {A} a.
Arguments VOOB {A} s.

Record kvariant := { wpos : bool; clr : bool; vlab : bool }.

(** the kernel as it was before the repair 32660cf6 (kept so that a regression is recognised by name) *)
Definition legacy_kernel : kvariant := {| wpos := false; clr := false; vlab := false |}.
(** the kernel of the repaired source *)
Definition repaired_kernel : kvariant := {| wpos := true; clr := true; vlab := true |}.

(** [l[i] = x] (no effect when out of range; callers check the range first). *)
Fixpoint upd {A} (l : list A) (i : nat) (x : A) : list A :=
  match l, i with
  | [], _ => []
  | _ :: t, O => x :: t
  | a :: t, S i' => a :: upd t i' x
  end.

(** std::set<int>::insert on a strictly increasing list. *)
Fixpoint set_insert (x : nat) (s : list nat) : list nat :=
  match s with
  | [] => [x]
  | y :: t => if x <? y then x :: s else if x =? y then s else y :: set_insert x t
  end.

(** Inner loop 1: one [push_back] pair per stored entry of row i. *)
Fixpoint gather (kv : kvariant) (indices : list nat) (data : list Q) (labels : list Z)
         (js : list nat) (ln : list Z) (vn : list Q) : vres (list Z * list Q) :=
  match js with
  | [] => VOk (ln, vn)
  | j :: t =>
      match nth_error indices j with
      | None => VOOB At_indices
      | Some jj =>
          match nth_error labels jj with
          | None => VOOB At_labels
          | Some l =>
              match nth_error data (if wpos kv then j else jj) with
              | None => VOOB At_data
              | Some w => gather kv indices data labels t (ln ++ [l]) (vn ++ [w])
              end
          end
      end
  end.

(** Inner loop 2: [p] is the position [jj] in [labels_neigh]; the weight is read at the SAME position of
    [votes_neigh] (which is the vector of the whole call when it is never cleared). *)
Fixpoint tally (ln : list Z) (p : nat) (vn : list Q) (uniq : list nat) (votes : list Q)
  : vres (list nat * list Q) :=
  match ln with
  | [] => VOk (uniq, votes)
  | l :: t =>
      if (l <? 0)%Z then tally t (S p) vn uniq votes
      else
        match nth_error vn p with
        | None => VOOB At_votes_neigh
        | Some w =>
            match nth_error votes (Z.to_nat l) with
            | None => VOOB At_votes
            | Some v => tally t (S p) vn (set_insert (Z.to_nat l) uniq) (upd votes (Z.to_nat l) (v + w)%Q)
            end
        end
  end.

(** Inner loop 3: arg-max over the labels present, in increasing label order, strict [>]:
    among equal votes the smallest label wins. *)
Fixpoint select (uniq : list nat) (i : nat) (best : Q) (labels : list Z) (votes : list Q)
  : vres (list Z * list Q) :=
  match uniq with
  | [] => VOk (labels, votes)
  | l :: t =>
      match nth_error votes l with
      | None => VOOB At_votes
      | Some v =>
          if Qle_bool v best then select t i best labels (upd votes l 0%Q)
          else if i <? length labels then select t i v (upd labels i (Z.of_nat l)) (upd votes l 0%Q)
               else VOOB At_labels_write
      end
  end.

(** State carried through the call: labels, votes, votes_neigh. *)
Definition vstate := (list Z * list Q * list Q)%type.

Definition vote_node (kv : kvariant) (indptr indices : list nat) (data : list Q) (i : nat) (st : vstate)
  : vres vstate :=
  let '(labels, votes, vn) := st in
  match nth_error indptr i, nth_error indptr (S i) with
  | Some a, Some b =>
      match gather kv indices data labels (seq a (b - a)) [] (if clr kv then [] else vn) with
      | VOOB s => VOOB s
      | VOk (ln, vn') =>
          match tally ln 0 vn' [] votes with
          | VOOB s => VOOB s
          | VOk (uniq, votes') =>
              match select uniq i (-1)%Q labels votes' with
              | VOOB s => VOOB s
              | VOk (labels', votes'') => VOk (labels', votes'', vn')
              end
          end
      end
  | _, _ => VOOB At_indptr
  end.

Fixpoint vote_loop (kv : kvariant) (indptr indices : list nat) (data : list Q) (index : list nat) (st : vstate)
  : vres vstate :=
  match index with
  | [] => VOk st
  | i :: t =>
      match vote_node kv indptr indices data i st with
      | VOOB s => VOOB s
      | VOk st' => vote_loop kv indptr indices data t st'
      end
  end.

(** number of entries of [votes] *)
Definition votes_size (kv : kvariant) (labels : list Z) : nat :=
  if vlab kv then Nat.max (length labels) (Z.to_nat (fold_right Z.max (-1)%Z labels + 1)) else length labels.

(** vote_update(indptr, indices, data, labels, index): the labels after one sweep. *)
Definition vote_update (kv : kvariant) (indptr indices : list nat) (data : list Q) (labels : list Z)
           (index : list nat) : vres (list Z) :=
  match vote_loop kv indptr indices data index (labels, repeat 0%Q (votes_size kv labels), []) with
  | VOOB s => VOOB s
  | VOk (labels', _, _) => VOk labels'
  end.

(** * Specification (textbook): total vote of a label among the neighbours of a node.
    A neighbourhood is the list of the stored entries (neighbour, weight) of the node's row. *)
Definition nbrs := list (nat * Q).

Definition total_vote (nb : nbrs) (labels : list Z) (l : Z) : Q :=
  sumq (map (fun p : nat * Q => if (nthz labels (fst p) =? l)%Z then snd p else 0%Q) nb).

Definition has_labelled_neighbour (nb : nbrs) (labels : list Z) : Prop :=
  exists p, In p nb /\ (0 <= nthz labels (fst p))%Z.

(** The local-evidence condition at node i: its label is a real label and no label has more votes. *)
Definition local_max (nb : nbrs) (labels : list Z) (i : nat) : Prop :=
  (0 <= nthz labels i)%Z /\
  forall l, (0 <= l)%Z -> (total_vote nb labels l <= total_vote nb labels (nthz labels i))%Q.

(** Row i of a CSR matrix as a neighbourhood, with the stored weights / with unit weights. *)
Definition row_range (indptr : list nat) (i : nat) : list nat :=
  seq (nthn indptr i) (nthn indptr (S i) - nthn indptr i).
Definition nbrs_weighted (indptr indices : list nat) (data : list Q) (i : nat) : nbrs :=
  map (fun j => (nthn indices j, nthq data j)) (row_range indptr i).
Definition nbrs_unit (indptr indices : list nat) (i : nat) : nbrs :=
  map (fun j => (nthn indices j, 1%Q)) (row_range indptr i).

(** Executable versions (oracle on implementation outputs, and witnesses by vm_compute). *)
Definition has_labelled_neighbour_b (nb : nbrs) (labels : list Z) : bool :=
  existsb (fun p : nat * Q => (0 <=? nthz labels (fst p))%Z) nb.
Definition local_max_b (nb : nbrs) (labels : list Z) (i : nat) : bool :=
  (0 <=? nthz labels i)%Z &&
  forallb (fun p : nat * Q =>
             let l := nthz labels (fst p) in
             (l <? 0)%Z || Qle_bool (total_vote nb labels l) (total_vote nb labels (nthz labels i))) nb.

(** the legacy kernel, by name *)
Definition vote_update_legacy := vote_update legacy_kernel.

(** C15 — model of sknetwork/linalg/{sparse_lowrank,operators,polynome,normalizer,laplacian}.py,
    utils/{membership,neighbors,format,tfidf}.py and ranking/postprocess.py:top_k over exact rationals.
    Executable definitions only.  SciPy's sparse primitives (dot, +, -, scalar *, .T, diags) are modelled
    by simple functions on row lists whose only relevant content is their denotation [dense];
    sqrt / log / argsort / argpartition are function arguments (oracles). *)
From SKN Require Import Base.Util Base.QMat.
From Coq Require Import QArith Qabs.
Local Open Scope Q_scope.

Inductive res (A : Type) : Type := Ok (a : A) | Err.
Arguments Ok {A} a.
Arguments Err {A}.

Definition Qlt_b (a b : Q) : bool := negb (Qle_bool b a).
Definition qnat (n : nat) : Q := inject_Z (Z.of_nat n).
(** pseudo-inverse of a weight: null weights stay null (diagonal_pseudo_inverse never stores them) *)
Definition pinv (q : Q) : Q := if Qeq_bool q 0 then 0 else / q.
Definition vmean (x : vec) : Q := sumq x / qnat (length x).

(* ------------------------------------------------------------------------------------------- *)
(** * Sparse matrices: rows of (column, value) pairs; duplicates are summed by the denotation *)
Notation srow := (list (nat * Q)) (only parsing).
Record smat := { s_ncol : nat; s_rows : list srow }.
Definition s_nrow (s : smat) : nat := length (s_rows s).
Definition entry (row : srow) (j : nat) : Q := sumq (map snd (filter (fun e => Nat.eqb (fst e) j) row)).
Definition dense_row (n : nat) (row : srow) : vec := map (entry row) (seq 0 n).
Definition dense (s : smat) : mat := map (dense_row (s_ncol s)) (s_rows s).
Definition srow_wf (n : nat) (row : srow) : Prop := Forall (fun e => (fst e < n)%nat) row.
Definition swf (s : smat) : Prop := Forall (srow_wf (s_ncol s)) (s_rows s).
Definition swf_b (s : smat) : bool := forallb (forallb (fun e => Nat.ltb (fst e) (s_ncol s))) (s_rows s).

(** scipy: csr.dot(vector), csr.dot(dense matrix with k columns) *)
Definition srow_dot (row : srow) (x : vec) : Q := sumq (map (fun e => snd e * nthq x (fst e)) row).
Definition smv (s : smat) (x : vec) : vec := map (fun row => srow_dot row x) (s_rows s).
Definition srow_mat (k : nat) (row : srow) (X : mat) : vec :=
  vsum k (map (fun e => vscale (snd e) (nth (fst e) X [])) row).
Definition smm (k : nat) (s : smat) (X : mat) : mat := map (fun row => srow_mat k row X) (s_rows s).
(** scipy: elementwise map on stored data, -A, c*A, A+B, A.T, A.dot(B), diags(w, format='csr') *)
Definition smap (f : Q -> Q) (s : smat) : smat :=
  {| s_ncol := s_ncol s; s_rows := map (map (fun e => (fst e, f (snd e)))) (s_rows s) |}.
Definition sneg : smat -> smat := smap Qopp.
Definition sscale (c : Q) : smat -> smat := smap (Qmult c).
Definition sadd (a b : smat) : smat := {| s_ncol := s_ncol a; s_rows := map2 (@app (nat * Q)) (s_rows a) (s_rows b) |}.
Fixpoint tcol (j i : nat) (rows : list srow) : srow :=
  match rows with
  | [] => []
  | r :: rs => map (fun e => (i, snd e)) (filter (fun e => Nat.eqb (fst e) j) r) ++ tcol j (S i) rs
  end.
Definition stranspose (s : smat) : smat :=
  {| s_ncol := s_nrow s; s_rows := map (fun j => tcol j 0 (s_rows s)) (seq 0 (s_ncol s)) |}.
Definition srow_mul (row : srow) (b : smat) : srow :=
  flat_map (fun e => map (fun f => (fst f, snd e * snd f)) (nth (fst e) (s_rows b) [])) row.
Definition smul (a b : smat) : smat := {| s_ncol := s_ncol b; s_rows := map (fun row => srow_mul row b) (s_rows a) |}.
Definition sdiag (w : vec) : smat :=
  {| s_ncol := length w;
     s_rows := map (fun i => if Qeq_bool (nthq w i) 0 then [] else [(i, nthq w i)]) (seq 0 (length w)) |}.
(** linalg/normalizer.py: diagonal_pseudo_inverse — diag.data = 1 / diag.data on the stored (non-null) weights *)
Definition sdiag_pinv (w : vec) : smat := smap Qinv (sdiag w).

(* ------------------------------------------------------------------------------------------- *)
(** * LinearOperator.dot: shape checks around a class's _matvec (scipy/sparse/linalg/_interface.py) *)
Definition lo_dot (shape : nat * nat) (matvec : vec -> vec) (x : vec) : res vec :=
  if negb (Nat.eqb (length x) (snd shape)) then Err
  else let y := matvec x in if Nat.eqb (length y) (fst shape) then Ok y else Err.

(* ------------------------------------------------------------------------------------------- *)
(** * SparseLR (sparse_lowrank.py) *)
Record slr := { sl_sp : smat; sl_lr : list (vec * vec) }.
Definition slr_shape (v : slr) : nat * nat := (s_nrow (sl_sp v), s_ncol (sl_sp v)).
(** the constructor's check on the low-rank tuples (raises ValueError otherwise) *)
Definition slr_ok (v : slr) : bool :=
  forallb (fun xy => Nat.eqb (length (fst xy)) (s_nrow (sl_sp v)) && Nat.eqb (length (snd xy)) (s_ncol (sl_sp v))) (sl_lr v).
Definition mk_slr (s : smat) (lr : list (vec * vec)) : res slr :=
  let v := {| sl_sp := s; sl_lr := lr |} in if slr_ok v then Ok v else Err.

(** _matvec, 1-D branch:  prod = sparse_mat.dot(x); for (x_, y_): prod += x_ * x.dot(y_) *)
Definition slr_matvec (v : slr) (x : vec) : vec :=
  fold_left (fun prod xy => vadd prod (vscale (dot x (snd xy)) (fst xy))) (sl_lr v) (smv (sl_sp v) x).
(** _matvec, 2-D branch (X has k columns): prod += x_[:, None].dot(X.T.dot(y_)[:, None].T) *)
Definition slr_matmat (k : nat) (v : slr) (X : mat) : mat :=
  let Xt := transpose_n k X in
  fold_left (fun prod xy => madd prod (outer (fst xy) (mat_vec Xt (snd xy)))) (sl_lr v) (smm k (sl_sp v) X).
Definition slr_transpose (v : slr) : slr :=
  {| sl_sp := stranspose (sl_sp v); sl_lr := map (fun xy => (snd xy, fst xy)) (sl_lr v) |}.
Definition slr_neg (v : slr) : slr :=
  {| sl_sp := sneg (sl_sp v); sl_lr := map (fun xy => (vneg (fst xy), snd xy)) (sl_lr v) |}.
Definition slr_add_csr (v : slr) (s : smat) : slr := {| sl_sp := sadd (sl_sp v) s; sl_lr := sl_lr v |}.
Definition slr_add (v w : slr) : slr := {| sl_sp := sadd (sl_sp v) (sl_sp w); sl_lr := sl_lr v ++ sl_lr w |}.
Definition slr_sub (v w : slr) : slr := slr_add v (slr_neg w).
Definition slr_sub_csr (v : slr) (s : smat) : slr := slr_add_csr v (sneg s).
Definition slr_mul (c : Q) (v : slr) : slr :=
  {| sl_sp := sscale c (sl_sp v); sl_lr := map (fun xy => (vscale c (fst xy), snd xy)) (sl_lr v) |}.
Definition slr_left (M : smat) (v : slr) : slr :=
  {| sl_sp := smul M (sl_sp v); sl_lr := map (fun xy => (smv M (fst xy), snd xy)) (sl_lr v) |}.
Definition slr_right (v : slr) (M : smat) : slr :=
  {| sl_sp := smul (sl_sp v) M; sl_lr := map (fun xy => (fst xy, smv (stranspose M) (snd xy))) (sl_lr v) |}.
Definition slr_astype (v : slr) : slr := v.   (* float -> float: values unchanged *)
(** sum(axis=0 | 1 | None) *)
Definition slr_sum0 (v : slr) : vec := slr_matvec (slr_transpose v) (vones (fst (slr_shape v))).
Definition slr_sum1 (v : slr) : vec := slr_matvec v (vones (snd (slr_shape v))).
Definition slr_sum (v : slr) : Q := sumq (slr_sum1 v).
(** Regularizer(A, alpha) = SparseLR(A, (alpha * ones(n_row), ones(n_col) / n_col)) *)
Definition regularizer (s : smat) (alpha : Q) : slr :=
  {| sl_sp := s; sl_lr := [(vscale alpha (vones (s_nrow s)), map (fun q => q / qnat (s_ncol s)) (vones (s_ncol s)))] |}.
(** normalize(SparseLR): get_norms = operator.dot(ones) (no absolute value), then left_sparse_dot(diag^+) *)
Definition slr_normalize (v : slr) : slr := slr_left (sdiag_pinv (slr_sum1 v)) v.
(** utils/format.py on SparseLR objects *)
Definition slr_d2u (v : slr) : slr :=
  {| sl_sp := sadd (sl_sp v) (stranspose (sl_sp v)); sl_lr := sl_lr v ++ map (fun xy => (snd xy, fst xy)) (sl_lr v) |}.

(** the dense matrix a SparseLR value denotes *)
Definition slr_dense (v : slr) : mat :=
  fold_left (fun D xy => madd D (outer (fst xy) (snd xy))) (sl_lr v) (dense (sl_sp v)).

(* ------------------------------------------------------------------------------------------- *)
(** * Normalizer (operators.py) *)
Record normalizer := { nz_adj : smat; nz_reg : Q; nz_diag : smat }.
Definition mk_normalizer (a : smat) (reg : Q) : normalizer :=
  {| nz_adj := a; nz_reg := reg;
     nz_diag := sdiag_pinv (map (fun d => d + reg) (smv a (vones (s_ncol a)))) |}.
Definition nz_shape (v : normalizer) : nat * nat := (s_nrow (nz_adj v), s_ncol (nz_adj v)).
Definition nz_matvec (v : normalizer) (x : vec) : vec :=
  let prod := smv (nz_adj v) x in
  let prod := if Qlt_b 0 (nz_reg v) then vadd prod (vscale (nz_reg v * vmean x) (vones (s_nrow (nz_adj v)))) else prod in
  smv (nz_diag v) prod.
Definition col_means (k : nat) (X : mat) : vec := map (fun j => vmean (col j X)) (seq 0 k).
Definition nz_matmat (k : nat) (v : normalizer) (X : mat) : mat :=
  let prod := smm k (nz_adj v) X in
  let prod := if Qlt_b 0 (nz_reg v) then madd prod (mscale (nz_reg v) (outer (vones (s_nrow (nz_adj v))) (col_means k X))) else prod in
  smm k (nz_diag v) prod.
(** _rmatvec (commit 042fc436): prod = norm_diag.dot(x); out = adjacency.T.dot(prod) (+ reg * sum(prod) / n_col).
    There is no _transpose any more: operator.T is SciPy's _TransposedLinearOperator, whose _matvec is this _rmatvec
    (and whose own transpose applies _matvec again), with the reversed shape. *)
Definition nz_rmatvec (v : normalizer) (x : vec) : vec :=
  let prod := smv (nz_diag v) x in
  let out := smv (stranspose (nz_adj v)) prod in
  if Qlt_b 0 (nz_reg v)
  then vadd out (map (fun q => q / qnat (s_ncol (nz_adj v))) (vscale (nz_reg v * sumq prod) (vones (s_ncol (nz_adj v)))))
  else out.
Definition nz_rmatmat (k : nat) (v : normalizer) (X : mat) : mat :=
  let prod := smm k (nz_diag v) X in
  let out := smm k (stranspose (nz_adj v)) prod in
  if Qlt_b 0 (nz_reg v)
  then madd out (map (map (fun q => q / qnat (s_ncol (nz_adj v))))
                     (mscale (nz_reg v) (outer (vones (s_ncol (nz_adj v))) (col_sums k prod))))
  else out.
(** specification: D^+ R with R = A + reg/n_col 11^T the regularised matrix and D = diag(R 1) *)
Definition regularized_dense (a : smat) (reg : Q) : mat :=
  madd (dense a) (mconst (s_nrow a) (s_ncol a) (reg / qnat (s_ncol a))).
Definition normalizer_dense (a : smat) (reg : Q) : mat :=
  let R := regularized_dense a reg in row_scale (map pinv (row_sums R)) R.

(* ------------------------------------------------------------------------------------------- *)
(** * Laplacian (operators.py); [sqrtf] stands for np.sqrt *)
Record laplacian := { lp_n : nat; lp_reg : Q; lp_norm : bool; lp_lap : smat; lp_diag : smat }.
Definition mk_laplacian (sqrtf : Q -> Q) (a : smat) (reg : Q) (norm : bool) : laplacian :=
  let w := smv a (vones (s_nrow a)) in
  {| lp_n := s_nrow a; lp_reg := reg; lp_norm := norm;
     lp_lap := sadd (sdiag w) (sneg a);
     lp_diag := if norm then sdiag_pinv (map (fun d => sqrtf (d + reg)) w) else sdiag [] |}.
Definition lp_matvec (v : laplacian) (x : vec) : vec :=
  let x1 := if lp_norm v then smv (lp_diag v) x else x in
  let prod := smv (lp_lap v) x1 in
  let prod := if Qlt_b 0 (lp_reg v) then vadd prod (vscale (lp_reg v) (map (fun q => q - vmean x1) x1)) else prod in
  if lp_norm v then smv (lp_diag v) prod else prod.
Definition lp_matmat (k : nat) (v : laplacian) (X : mat) : mat :=
  let X1 := if lp_norm v then smm k (lp_diag v) X else X in
  let prod := smm k (lp_lap v) X1 in
  let prod := if Qlt_b 0 (lp_reg v)
              then madd prod (mscale (lp_reg v) (msub X1 (outer (vones (lp_n v)) (col_means k X1)))) else prod in
  if lp_norm v then smm k (lp_diag v) prod else prod.
(** _transpose (commit ca03879a): a copy whose sparse part is transposed (weights, regularisation, normalisation kept) *)
Definition lp_transpose (v : laplacian) : laplacian :=
  {| lp_n := lp_n v; lp_reg := lp_reg v; lp_norm := lp_norm v; lp_lap := stranspose (lp_lap v); lp_diag := lp_diag v |}.
Definition lp_astype (v : laplacian) : laplacian := v.
(** specification: L = diag(R 1) - R for the regularised adjacency R; normalised: N L N, N = diag(sqrt(R 1))^+ *)
Definition laplacian_dense (sqrtf : Q -> Q) (a : smat) (reg : Q) (norm : bool) : mat :=
  let R := regularized_dense a reg in
  let w := row_sums R in
  let L := msub (diag w) R in
  if norm then let s := map (fun d => pinv (sqrtf d)) w in row_scale s (col_scale L s) else L.

(* ------------------------------------------------------------------------------------------- *)
(** * CoNeighbor (operators.py): every algebraic operation mutates the object and returns it;
      [cn_shape] is the LinearOperator shape fixed by __init__ and never updated. *)
Record coneighbor := { cn_shape : nat * nat; cn_back : smat; cn_fwd : smat }.
Definition snorms1 (s : smat) : vec := smv (smap Qabs s) (vones (s_ncol s)).
Definition snormalize (s : smat) : smat := smul (sdiag_pinv (snorms1 s)) s.
(** forward = normalize(adjacency.T).tocsr() or adjacency.T.tocsr(): its own buffer in both cases (commit 1496c670) *)
Definition mk_coneighbor (a : smat) (normalized : bool) : coneighbor :=
  {| cn_shape := (s_nrow a, s_nrow a); cn_back := a;
     cn_fwd := if normalized then snormalize (stranspose a) else stranspose a |}.
Definition cn_matvec (v : coneighbor) (x : vec) : vec := smv (cn_back v) (smv (cn_fwd v) x).
Definition cn_matmat (k : nat) (v : coneighbor) (X : mat) : mat := smm k (cn_back v) (smm k (cn_fwd v) X).
Definition cn_mul (c : Q) (v : coneighbor) : coneighbor :=
  {| cn_shape := cn_shape v; cn_back := sscale c (cn_back v); cn_fwd := cn_fwd v |}.
Definition cn_neg (v : coneighbor) : coneighbor := cn_mul (-(1)) v.
(** left / right_sparse_dot update the recorded shape (commit 2a194d08) *)
Definition cn_left (M : smat) (v : coneighbor) : coneighbor :=
  {| cn_shape := (s_nrow (smul M (cn_back v)), snd (cn_shape v)); cn_back := smul M (cn_back v); cn_fwd := cn_fwd v |}.
Definition cn_right (v : coneighbor) (M : smat) : coneighbor :=
  {| cn_shape := (fst (cn_shape v), s_ncol (smul (cn_fwd v) M)); cn_back := cn_back v; cn_fwd := smul (cn_fwd v) M |}.
(** _transpose: a copy with both factors transposed and exchanged, shape from the new factors *)
Definition cn_transpose (v : coneighbor) : coneighbor :=
  {| cn_shape := (s_nrow (stranspose (cn_fwd v)), s_ncol (stranspose (cn_back v)));
     cn_back := stranspose (cn_fwd v); cn_fwd := stranspose (cn_back v) |}.
Definition cn_astype (v : coneighbor) : coneighbor := v.
(** operator.dot(x): LinearOperator's checks against the recorded shape, scipy's check inside forward.dot *)
Definition cn_dot (v : coneighbor) (x : vec) : res vec :=
  if Nat.eqb (length x) (s_ncol (cn_fwd v)) then lo_dot (cn_shape v) (cn_matvec v) x else Err.
(** the dense matrix the two factors denote (k = number of columns) *)
Definition cn_ncol (v : coneighbor) : nat := s_ncol (cn_fwd v).
Definition cn_dense (v : coneighbor) : mat := mat_mul (cn_ncol v) (dense (cn_back v)) (dense (cn_fwd v)).
(** specification of the base operator: A F^+ A^T, F = diag(A^T 1) (normalized) or I; the adjacency has
    non-negative entries (for which the code's |A|^T 1 is A^T 1) *)
Definition snonneg (s : smat) : Prop := Forall (Forall (fun e => 0 <= snd e)) (s_rows s).
Definition coneighbor_dense (a : smat) (normalized : bool) : mat :=
  let A := dense a in
  let At := transpose_n (s_ncol a) A in
  let f := if normalized then map pinv (row_sums At) else vones (s_ncol a) in
  mat_mul (s_nrow a) A (row_scale f At).

(* ------------------------------------------------------------------------------------------- *)
(** * Polynome (polynome.py): Horner evaluation as coded *)
Record polynome := { pl_mat : smat; pl_coeffs : list Q }.
Definition mk_polynome (a : smat) (coeffs : list Q) : res polynome :=
  match coeffs with
  | [] => Err                                        (* 'A polynome requires at least one coefficient.' *)
  | _ => if Nat.eqb (s_nrow a) (s_ncol a) then Ok {| pl_mat := a; pl_coeffs := coeffs |} else Err   (* check_square *)
  end.
(** y = coeffs[-1] * x; for a in coeffs[::-1][1:]: y = matrix.dot(y) + a * x *)
Definition horner (f : vec -> vec) (coeffs : list Q) (x : vec) : vec :=
  match rev coeffs with
  | [] => x
  | cl :: rest => fold_left (fun y a => vadd (f y) (vscale a x)) rest (vscale cl x)
  end.
Definition horner_mat (f : mat -> mat) (coeffs : list Q) (X : mat) : mat :=
  match rev coeffs with
  | [] => X
  | cl :: rest => fold_left (fun Y a => madd (f Y) (mscale a X)) rest (mscale cl X)
  end.
Definition pl_matvec (v : polynome) (x : vec) : vec := horner (smv (pl_mat v)) (pl_coeffs v) x.
Definition pl_matmat (k : nat) (v : polynome) (X : mat) : mat := horner_mat (smm k (pl_mat v)) (pl_coeffs v) X.
Definition pl_neg (v : polynome) : polynome := {| pl_mat := pl_mat v; pl_coeffs := map Qopp (pl_coeffs v) |}.
Definition pl_mul (c : Q) (v : polynome) : polynome := {| pl_mat := pl_mat v; pl_coeffs := map (Qmult c) (pl_coeffs v) |}.
Definition pl_transpose (v : polynome) : polynome := {| pl_mat := stranspose (pl_mat v); pl_coeffs := pl_coeffs v |}.
(** specification: sum_k c_k A^k *)
Definition msum (r c : nat) (l : list mat) : mat := fold_right madd (mzero r c) l.
Definition poly_dense (n : nat) (A : mat) (coeffs : list Q) : mat :=
  msum n n (map (fun k => mscale (nthq coeffs k) (mat_pow n A k)) (seq 0 (length coeffs))).
Definition power_sum (n : nat) (A : mat) (coeffs : list Q) (x : vec) : vec :=
  vsum n (map (fun k => vscale (nthq coeffs k) (mat_vec (mat_pow n A k) x)) (seq 0 (length coeffs))).

(* ------------------------------------------------------------------------------------------- *)
(** * Operator expressions (what the harness generates), one datatype per class *)
Inductive slr_expr : Type :=
| SBase (s : smat) (lr : list (vec * vec))
| SReg (s : smat) (alpha : Q)
| SNeg (e : slr_expr)
| SAdd (e1 e2 : slr_expr)
| SAddCsr (e : slr_expr) (s : smat)
| SSub (e1 e2 : slr_expr)
| SSubCsr (e : slr_expr) (s : smat)
| SMul (c : Q) (e : slr_expr)
| SLeft (M : smat) (e : slr_expr)
| SRight (e : slr_expr) (M : smat)
| ST (e : slr_expr)
| SAstype (e : slr_expr)
| SNormalize (e : slr_expr)
| SD2U (e : slr_expr).

Fixpoint slr_eval (e : slr_expr) : slr :=
  match e with
  | SBase s lr => {| sl_sp := s; sl_lr := lr |}
  | SReg s alpha => regularizer s alpha
  | SNeg e => slr_neg (slr_eval e)
  | SAdd e1 e2 => slr_add (slr_eval e1) (slr_eval e2)
  | SAddCsr e s => slr_add_csr (slr_eval e) s
  | SSub e1 e2 => slr_sub (slr_eval e1) (slr_eval e2)
  | SSubCsr e s => slr_sub_csr (slr_eval e) s
  | SMul c e => slr_mul c (slr_eval e)
  | SLeft M e => slr_left M (slr_eval e)
  | SRight e M => slr_right (slr_eval e) M
  | ST e => slr_transpose (slr_eval e)
  | SAstype e => slr_astype (slr_eval e)
  | SNormalize e => slr_normalize (slr_eval e)
  | SD2U e => slr_d2u (slr_eval e)
  end.

(** shape of a well-formed expression *)
Fixpoint se_shape (e : slr_expr) : nat * nat :=
  match e with
  | SBase s _ | SReg s _ => (s_nrow s, s_ncol s)
  | SNeg e | SAddCsr e _ | SSubCsr e _ | SMul _ e | SAstype e | SNormalize e | SD2U e => se_shape e
  | SAdd e1 _ | SSub e1 _ => se_shape e1
  | SLeft M e => (s_nrow M, snd (se_shape e))
  | SRight e M => (fst (se_shape e), s_ncol M)
  | ST e => (snd (se_shape e), fst (se_shape e))
  end.

(** the dense matrix an expression denotes, from first principles *)
Fixpoint se_dense (e : slr_expr) : mat :=
  match e with
  | SBase s lr => fold_right (fun xy D => madd D (outer (fst xy) (snd xy))) (dense s) lr
  | SReg s alpha => regularized_dense s alpha
  | SNeg e => mneg (se_dense e)
  | SAdd e1 e2 => madd (se_dense e1) (se_dense e2)
  | SAddCsr e s => madd (se_dense e) (dense s)
  | SSub e1 e2 => msub (se_dense e1) (se_dense e2)
  | SSubCsr e s => msub (se_dense e) (dense s)
  | SMul c e => mscale c (se_dense e)
  | SLeft M e => mat_mul (snd (se_shape e)) (dense M) (se_dense e)
  | SRight e M => mat_mul (s_ncol M) (se_dense e) (dense M)
  | ST e => transpose_n (snd (se_shape e)) (se_dense e)
  | SAstype e => se_dense e
  | SNormalize e => row_scale (map pinv (row_sums (se_dense e))) (se_dense e)
  | SD2U e => madd (se_dense e) (transpose_n (snd (se_shape e)) (se_dense e))
  end.

(** well-formed expressions: indices in range, shapes agree (what SciPy / the constructor demand) *)
Definition lr_ok (r c : nat) (lr : list (vec * vec)) : Prop :=
  Forall (fun xy => length (fst xy) = r /\ length (snd xy) = c) lr.
Fixpoint se_wf (e : slr_expr) : Prop :=
  match e with
  | SBase s lr => swf s /\ lr_ok (s_nrow s) (s_ncol s) lr
  | SReg s _ => swf s /\ (0 < s_ncol s)%nat
  | SNeg e | SMul _ e | ST e | SAstype e | SNormalize e => se_wf e
  | SAdd e1 e2 | SSub e1 e2 => se_wf e1 /\ se_wf e2 /\ se_shape e1 = se_shape e2
  | SAddCsr e s | SSubCsr e s => se_wf e /\ swf s /\ se_shape e = (s_nrow s, s_ncol s)
  | SLeft M e => se_wf e /\ swf M /\ s_ncol M = fst (se_shape e)
  | SRight e M => se_wf e /\ swf M /\ s_nrow M = snd (se_shape e)
  | SD2U e => se_wf e /\ fst (se_shape e) = snd (se_shape e)
  end.

Inductive cn_expr : Type :=
| CBase (a : smat) (normalized : bool)
| CNeg (e : cn_expr)
| CMul (c : Q) (e : cn_expr)
| CLeft (M : smat) (e : cn_expr)
| CRight (e : cn_expr) (M : smat)
| CT (e : cn_expr)
| CAstype (e : cn_expr).

Fixpoint cn_eval (e : cn_expr) : coneighbor :=
  match e with
  | CBase a nrm => mk_coneighbor a nrm
  | CNeg e => cn_neg (cn_eval e)
  | CMul c e => cn_mul c (cn_eval e)
  | CLeft M e => cn_left M (cn_eval e)
  | CRight e M => cn_right (cn_eval e) M
  | CT e => cn_transpose (cn_eval e)
  | CAstype e => cn_astype (cn_eval e)
  end.
(** shape of the matrix the expression denotes (not the recorded LinearOperator shape) *)
Fixpoint ce_shape (e : cn_expr) : nat * nat :=
  match e with
  | CBase a _ => (s_nrow a, s_nrow a)
  | CNeg e | CMul _ e | CAstype e => ce_shape e
  | CLeft M e => (s_nrow M, snd (ce_shape e))
  | CRight e M => (fst (ce_shape e), s_ncol M)
  | CT e => (snd (ce_shape e), fst (ce_shape e))
  end.
Fixpoint ce_dense (e : cn_expr) : mat :=
  match e with
  | CBase a nrm => coneighbor_dense a nrm
  | CNeg e => mneg (ce_dense e)
  | CMul c e => mscale c (ce_dense e)
  | CLeft M e => mat_mul (snd (ce_shape e)) (dense M) (ce_dense e)
  | CRight e M => mat_mul (s_ncol M) (ce_dense e) (dense M)
  | CT e => transpose_n (snd (ce_shape e)) (ce_dense e)
  | CAstype e => ce_dense e
  end.
Fixpoint ce_wf (e : cn_expr) : Prop :=
  match e with
  | CBase a _ => swf a /\ snonneg a
  | CNeg e | CMul _ e | CT e | CAstype e => ce_wf e
  | CLeft M e => ce_wf e /\ swf M /\ s_ncol M = fst (ce_shape e)
  | CRight e M => ce_wf e /\ swf M /\ s_nrow M = snd (ce_shape e)
  end.
Inductive pl_expr : Type :=
| PBase (a : smat) (coeffs : list Q)
| PNeg (e : pl_expr)
| PMul (c : Q) (e : pl_expr)
| PT (e : pl_expr).
Fixpoint pl_eval (e : pl_expr) : polynome :=
  match e with
  | PBase a cs => {| pl_mat := a; pl_coeffs := cs |}
  | PNeg e => pl_neg (pl_eval e)
  | PMul c e => pl_mul c (pl_eval e)
  | PT e => pl_transpose (pl_eval e)
  end.
Fixpoint pe_n (e : pl_expr) : nat :=
  match e with PBase a _ => s_nrow a | PNeg e | PMul _ e | PT e => pe_n e end.
Fixpoint pe_dense (e : pl_expr) : mat :=
  match e with
  | PBase a cs => poly_dense (s_nrow a) (dense a) cs
  | PNeg e => mneg (pe_dense e)
  | PMul c e => mscale c (pe_dense e)
  | PT e => transpose_n (pe_n e) (pe_dense e)
  end.
Fixpoint pe_wf (e : pl_expr) : Prop :=
  match e with
  | PBase a cs => swf a /\ s_nrow a = s_ncol a /\ cs <> []
  | PNeg e | PMul _ e | PT e => pe_wf e
  end.

(** Normalizer / Laplacian expressions: the base operator and its (repeated) transposition / astype *)
Inductive nz_expr : Type := NBase (a : smat) (reg : Q) | NT (e : nz_expr).
(** the Normalizer object under the transpositions, and whether an odd number of them is applied *)
Fixpoint ne_base (e : nz_expr) : normalizer :=
  match e with NBase a reg => mk_normalizer a reg | NT e => ne_base e end.
Fixpoint ne_flag (e : nz_expr) : bool := match e with NBase _ _ => false | NT e => negb (ne_flag e) end.
Definition ne_matvec (e : nz_expr) (x : vec) : vec :=
  if ne_flag e then nz_rmatvec (ne_base e) x else nz_matvec (ne_base e) x.
Definition ne_matmat (k : nat) (e : nz_expr) (X : mat) : mat :=
  if ne_flag e then nz_rmatmat k (ne_base e) X else nz_matmat k (ne_base e) X.
Fixpoint ne_shape (e : nz_expr) : nat * nat :=
  match e with NBase a _ => (s_nrow a, s_ncol a) | NT e => (snd (ne_shape e), fst (ne_shape e)) end.
Fixpoint ne_dense (e : nz_expr) : mat :=
  match e with NBase a reg => normalizer_dense a reg | NT e => transpose_n (snd (ne_shape e)) (ne_dense e) end.
Fixpoint ne_wf (e : nz_expr) : Prop :=
  match e with NBase a reg => swf a /\ (0 < s_ncol a)%nat /\ 0 <= reg | NT e => ne_wf e end.

Inductive lp_expr : Type := LBase (a : smat) (reg : Q) (norm : bool) | LT (e : lp_expr) | LAstype (e : lp_expr).
Fixpoint lp_eval (sqrtf : Q -> Q) (e : lp_expr) : laplacian :=
  match e with
  | LBase a reg norm => mk_laplacian sqrtf a reg norm
  | LT e => lp_transpose (lp_eval sqrtf e)
  | LAstype e => lp_astype (lp_eval sqrtf e)
  end.
Fixpoint le_n (e : lp_expr) : nat := match e with LBase a _ _ => s_nrow a | LT e | LAstype e => le_n e end.
Fixpoint le_dense (sqrtf : Q -> Q) (e : lp_expr) : mat :=
  match e with
  | LBase a reg norm => laplacian_dense sqrtf a reg norm
  | LT e => transpose_n (le_n e) (le_dense sqrtf e)
  | LAstype e => le_dense sqrtf e
  end.
Fixpoint le_wf (e : lp_expr) : Prop :=
  match e with
  | LBase a reg _ => swf a /\ s_nrow a = s_ncol a /\ (0 < s_nrow a)%nat /\ 0 <= reg
  | LT e | LAstype e => le_wf e
  end.
(** all operators *)
Inductive op_expr : Type :=
| OSlr (e : slr_expr) | ONorm (e : nz_expr) | OLap (e : lp_expr) | OCn (e : cn_expr) | OPoly (e : pl_expr).
Definition op_shape (o : op_expr) : nat * nat :=
  match o with
  | OSlr e => se_shape e | ONorm e => ne_shape e | OLap e => (le_n e, le_n e)
  | OCn e => ce_shape e | OPoly e => (pe_n e, pe_n e)
  end.
(** operator.dot(x) for a vector *)
Definition op_apply (sqrtf : Q -> Q) (o : op_expr) (x : vec) : res vec :=
  match o with
  | OSlr e => let v := slr_eval e in lo_dot (slr_shape v) (slr_matvec v) x
  | ONorm e => lo_dot (ne_shape e) (ne_matvec e) x
  | OLap e => let v := lp_eval sqrtf e in lo_dot (lp_n v, lp_n v) (lp_matvec v) x
  | OCn e => cn_dot (cn_eval e) x
  | OPoly e => let v := pl_eval e in lo_dot (s_nrow (pl_mat v), s_ncol (pl_mat v)) (pl_matvec v) x
  end.
(** operator._matvec(X) for a matrix with k columns (the 2-D branches as coded) *)
Definition op_apply_mat (sqrtf : Q -> Q) (k : nat) (o : op_expr) (X : mat) : mat :=
  match o with
  | OSlr e => slr_matmat k (slr_eval e) X
  | ONorm e => ne_matmat k e X
  | OLap e => lp_matmat k (lp_eval sqrtf e) X
  | OCn e => cn_matmat k (cn_eval e) X
  | OPoly e => pl_matmat k (pl_eval e) X
  end.
Definition op_dense (sqrtf : Q -> Q) (o : op_expr) : mat :=
  match o with
  | OSlr e => se_dense e | ONorm e => ne_dense e | OLap e => le_dense sqrtf e
  | OCn e => ce_dense e | OPoly e => pe_dense e
  end.
Definition op_wf (o : op_expr) : Prop :=
  match o with
  | OSlr e => se_wf e | ONorm e => ne_wf e | OLap e => le_wf e | OCn e => ce_wf e | OPoly e => pe_wf e
  end.
(* ------------------------------------------------------------------------------------------- *)
(** * Utilities *)
(** linalg/normalizer.py: get_norms, normalize on CSR input *)
Definition snorms2 (sqrtf : Q -> Q) (s : smat) : vec := map sqrtf (smv (smap (fun q => q * q) s) (vones (s_ncol s))).
Definition snormalize2 (sqrtf : Q -> Q) (s : smat) : smat := smul (sdiag_pinv (snorms2 sqrtf s)) s.
Definition srow_norm1 (row : srow) : Q := sumq (map (fun e => Qabs (snd e)) row).
Definition srow_norm2sq (row : srow) : Q := sumq (map (fun e => snd e * snd e) row).
(** linalg/laplacian.py *)
Definition get_laplacian (a : smat) : smat := sadd (sdiag (smv a (vones (s_nrow a)))) (sneg a).
(** utils/membership.py *)
Definition zmax (l : list Z) : Z := fold_right Z.max (-1)%Z l.
Definition membership_ncol (labels : list Z) (n_labels : option nat) : nat :=
  match n_labels with Some k => k | None => Z.to_nat (zmax labels + 1) end.
Definition get_membership (labels : list Z) (n_labels : option nat) : res smat :=
  if (match labels, n_labels with [], None => true | _, _ => false end) then Err    (* max() of an empty sequence *)
  else
    let nc := membership_ncol labels n_labels in
    if forallb (fun l => Z.ltb l (Z.of_nat nc)) labels
    then Ok {| s_ncol := nc; s_rows := map (fun l => if Z.leb 0 l then [(Z.to_nat l, 1)] else []) labels |}
    else Err.                                             (* column index exceeds matrix dimensions *)
Definition from_membership (m : smat) : res (list Z) :=
  if forallb (fun r => Nat.leb (length r) 1) (s_rows m)
  then Ok (map (fun r => match r with [] => (-1)%Z | e :: _ => Z.of_nat (fst e) end) (s_rows m))
  else Err.                                               (* cannot assign k values to fewer masked slots *)
(** utils/neighbors.py *)
Definition get_neighbors (s : smat) (node : nat) (transpose : bool) : list nat :=
  map fst (nth node (s_rows (if transpose then stranspose s else s)) []).
Definition get_degrees (s : smat) (transpose : bool) : list nat :=
  map (@length (nat * Q)) (s_rows (if transpose then stranspose s else s)).
Definition get_weights (s : smat) (transpose : bool) : vec :=
  let m := if transpose then stranspose s else s in smv m (vones (s_ncol m)).
(** utils/format.py *)
(** (M).astype(bool) of a sum: duplicates summed, null entries dropped, the others become True *)
Definition sbool (s : smat) : smat :=
  {| s_ncol := s_ncol s;
     s_rows := map (fun row => flat_map (fun j => if Qeq_bool (entry row j) 0 then [] else [(j, 1)]) (seq 0 (s_ncol s))) (s_rows s) |}.
Definition directed2undirected (a : smat) (weighted : bool) : smat :=
  let m := sadd a (stranspose a) in if weighted then m else sbool m.
Definition sshift (k : nat) (row : srow) : srow := map (fun e => ((fst e + k)%nat, snd e)) row.
Definition bipartite2undirected (b : smat) : smat :=
  {| s_ncol := (s_nrow b + s_ncol b)%nat;
     s_rows := map (sshift (s_nrow b)) (s_rows b) ++ s_rows (stranspose b) |}.
Definition bipartite2directed (b : smat) : smat :=
  {| s_ncol := (s_nrow b + s_ncol b)%nat;
     s_rows := map (sshift (s_nrow b)) (s_rows b) ++ repeat [] (s_ncol b) |}.
(** utils/tfidf.py; [lnf] stands for np.log *)
Definition spos (s : smat) : smat :=
  {| s_ncol := s_ncol s;
     s_rows := map (fun row => flat_map (fun j => if Qlt_b 0 (entry row j) then [(j, 1)] else []) (seq 0 (s_ncol s))) (s_rows s) |}.
Definition tfidf_idf (lnf : Q -> Q) (count : smat) : vec :=
  map (fun f => if Nat.ltb 0 f then lnf (qnat (s_nrow count) / qnat f) else 0) (get_degrees (spos count) true).
Definition get_tfidf (lnf : Q -> Q) (count : smat) : smat :=
  smul (snormalize count) (sdiag (tfidf_idf lnf count)).
(** ranking/postprocess.py: top_k; [argsort l] sorts increasingly, [argpartition l k] puts the k smallest first *)
Definition top_k (argsort : list Q -> list nat) (argpartition : list Q -> nat -> list nat)
           (scores : list Q) (k : nat) (sort : bool) : res (list nat) :=
  let neg := map Qopp scores in
  if Nat.leb (length scores) k
  then (if sort then Ok (argsort neg) else Ok (seq 0 (length scores)))     (* np.arange(len(scores)), commit 5ac8181a *)
  else let index := firstn k (argpartition neg k) in
       if sort then Ok (map (fun p => nth p index 0%nat) (argsort (map (fun i => nthq neg i) index)))
       else Ok index.

(* ------------------------------------------------------------------------------------------- *)
(** * Legacy: the definitions of the code BEFORE the fix commits 5ac8181a, 042fc436, ca03879a, 1496c670, 2a194d08.
      Kept only so that the refutations (legacy_*_refuted) name the defects; nothing above depends on them. *)
Definition legacy_nz_transpose (v : normalizer) : normalizer := v.              (* Normalizer._transpose returned self *)
Definition legacy_lp_transpose (v : laplacian) : laplacian := v.                 (* Laplacian._transpose returned self *)
Definition legacy_top_k (argsort : list Q -> list nat) (argpartition : list Q -> nat -> list nat)
           (scores : list Q) (k : nat) (sort : bool) : res (list nat) :=
  if Nat.leb (length scores) k && negb sort then Err                             (* np.arange(scores) raised *)
  else top_k argsort argpartition scores k sort.
(** CoNeighbor: [lc_shared] = forward was a view on backward's buffer (normalized=False); the shape was never updated *)
Record legacy_coneighbor := { lc_shape : nat * nat; lc_back : smat; lc_fwd : smat; lc_shared : bool }.
Definition legacy_mk_coneighbor (a : smat) (normalized : bool) : legacy_coneighbor :=
  {| lc_shape := (s_nrow a, s_nrow a); lc_back := a;
     lc_fwd := if normalized then snormalize (stranspose a) else stranspose a; lc_shared := negb normalized |}.
Definition legacy_cn_mul (c : Q) (v : legacy_coneighbor) : legacy_coneighbor :=
  {| lc_shape := lc_shape v; lc_back := sscale c (lc_back v);
     lc_fwd := if lc_shared v then sscale c (lc_fwd v) else lc_fwd v; lc_shared := lc_shared v |}.
Definition legacy_cn_left (M : smat) (v : legacy_coneighbor) : legacy_coneighbor :=
  {| lc_shape := lc_shape v; lc_back := smul M (lc_back v); lc_fwd := lc_fwd v; lc_shared := false |}.
Definition legacy_cn_dot (v : legacy_coneighbor) (x : vec) : res vec :=
  if Nat.eqb (length x) (s_ncol (lc_fwd v)) then lo_dot (lc_shape v) (fun y => smv (lc_back v) (smv (lc_fwd v) y)) x else Err.

(** Executable model of sknetwork/hierarchy/postprocess.py (reorder_dendrogram, get_labels, cut_straight,
    cut_balanced, aggregate_dendrogram), of utils/check.py (check_n_clusters) and of
    hierarchy/metrics.py + paris.pyx:AggregateGraph (get_sampling_distributions, dasgupta_cost,
    dasgupta_score, tree_sampling_divergence).  Definitions only (no proofs).
    Heights and weights are exact rationals; [np.argsort] (unstable) and [np.log] are oracle arguments. *)
From SKN Require Import Base.Util Model.Dendrogram.

Inductive cerr := ValueError | IndexError | KeyError.
Inductive result (A : Type) := Ok (a : A) | Err (e : cerr).
Arguments Ok {A} a.
Arguments Err {A} e.

(** * Sorting ([np.sort] on heights; the sorted sequence is unique, so no oracle is needed) *)
Fixpoint insq (x : Q) (l : list Q) : list Q :=
  match l with
  | [] => [x]
  | y :: t => if Qle_bool x y then x :: l else y :: insq x t
  end.
Definition sortq (l : list Q) : list Q := fold_right insq [] l.

Definition qmax (a b : Q) : Q := if Qle_bool a b then b else a.
Definition qltb (a b : Q) : bool := negb (Qle_bool b a).

(** * reorder_dendrogram

    [np.lexsort((max(i,j), height))]: stable sort of the row numbers by height, ties by the larger child id.
    Row [index[p]] becomes row p and every internal id [n + index[p]] is renamed [n + p]. *)
Definition rkey_le (a b : nat * drow) : bool :=
  let ha := r_height (snd a) in let hb := r_height (snd b) in
  let ma := Nat.max (r_left (snd a)) (r_right (snd a)) in
  let mb := Nat.max (r_left (snd b)) (r_right (snd b)) in
  qltb ha hb || (Qeq_bool ha hb && Nat.leb ma mb).

(* fold_right inserts the rows from the last to the first; an earlier row goes before its equals: stable *)
Fixpoint ins_row (x : nat * drow) (l : list (nat * drow)) : list (nat * drow) :=
  match l with
  | [] => [x]
  | y :: t => if rkey_le x y then x :: l else y :: ins_row x t
  end.
Definition lexsort_rows (D : dendrogram) : list (nat * drow) :=
  fold_right ins_row [] (combine (seq 0 (length D)) D).

Fixpoint pos (x : nat) (l : list nat) : nat :=
  match l with
  | [] => 0
  | y :: t => if Nat.eqb x y then 0 else S (pos x t)
  end.

Definition reorder_dendrogram (D : dendrogram) : result dendrogram :=
  let n := S (length D) in
  let srt := lexsort_rows D in
  let index := map fst srt in
  let rename c := if Nat.ltb c n then c else n + pos (c - n) index in
  if forallb (fun r => Nat.ltb (r_left r) (2 * n - 1) && Nat.ltb (r_right r) (2 * n - 1)) D
  then Ok (map (fun x => let r := snd x in (rename (r_left r), rename (r_right r), r_height r, r_size r)) srt)
  else Err IndexError.

(** * The [cluster] dict of the cuts: id -> list of leaves, in insertion order. *)
Definition cstate := list (nat * list nat).
Definition init_clusters (n : nat) : cstate := map (fun i => (i, [i])) (seq 0 n).

(** One iteration of the replay loops:
    [if <guard> and i in cluster and j in cluster: cluster[n + t] = cluster.pop(i) + cluster.pop(j)].
    [guard] receives the row and the two clusters (cut_straight: height < cut; cut_balanced: sizes).
    [cluster.pop(j)] after [cluster.pop(i)] raises KeyError when i = j. *)
Definition cut_step (guard : drow -> list nat -> list nat -> bool) (key : nat) (r : drow) (st : cstate)
  : result cstate :=
  match alookup (r_left r) st, alookup (r_right r) st with
  | Some ci, Some cj =>
      if guard r ci cj then
        match alookup (r_right r) (aremove (r_left r) st) with
        | Some cj' => Ok (aremove (r_right r) (aremove (r_left r) st) ++ [(key, ci ++ cj')])
        | None => Err KeyError
        end
      else Ok st
  | _, _ => Ok st
  end.

Fixpoint replay (guard : drow -> list nat -> list nat -> bool) (key : nat) (rows : dendrogram) (st : cstate)
  : result cstate :=
  match rows with
  | [] => Ok st
  | r :: rest =>
      match cut_step guard key r st with
      | Ok st' => replay guard (S key) rest st'
      | Err e => Err e
      end
  end.

(** * get_labels *)

(** [labels = zeros(n); for label, nodes in enumerate(clusters): labels[nodes] = label]:
    the label of v is the position of the last cluster containing v, 0 if there is none. *)
Fixpoint label_of (cs : list (list nat)) (l : nat) (v : nat) (acc : nat) : nat :=
  match cs with
  | [] => acc
  | c :: rest => label_of rest (S l) v (if memn v c then l else acc)
  end.
Definition labels_of (n : nat) (cs : list (list nat)) : list nat :=
  map (fun v => label_of cs 0 v 0) (seq 0 n).

(** The reduced dendrogram of get_labels (return_dendrogram=True):
    [cindex] = cluster_index (old id -> new id), [csize] = cluster_size (new id -> size),
    [cur] = current_cluster, [cur_new] = current_cluster_new.  dict.pop of a missing key: KeyError. *)
Fixpoint reduce_loop (rows : dendrogram) (cindex csize : list (nat * nat)) (cur cur_new : nat)
  : result dendrogram :=
  match rows with
  | [] => Ok []
  | r :: rest =>
      match alookup (r_left r) cindex with
      | None => Err KeyError
      | Some i_new =>
          let cindex1 := aremove (r_left r) cindex in
          match alookup (r_right r) cindex1 with
          | None => Err KeyError
          | Some j_new =>
              let cindex2 := aremove (r_right r) cindex1 in
              if negb (Nat.eqb i_new j_new) then
                match alookup i_new csize with
                | None => Err KeyError
                | Some si =>
                    let csize1 := aremove i_new csize in
                    match alookup j_new csize1 with
                    | None => Err KeyError
                    | Some sj =>
                        let csize2 := aremove j_new csize1 in
                        let size := si + sj in
                        match reduce_loop rest (cindex2 ++ [(cur, cur_new)]) (csize2 ++ [(cur_new, size)])
                                          (S cur) (S cur_new) with
                        | Ok out => Ok ((i_new, j_new, r_height r, size) :: out)
                        | Err e => Err e
                        end
                    end
                end
              else reduce_loop rest (cindex2 ++ [(cur, i_new)]) csize (S cur) cur_new
          end
      end
  end.

(** [argsort] stands for [np.argsort] (default kind: not stable); it receives [-sizes]. *)
Definition get_labels (argsort : list Z -> list nat) (D : dendrogram) (st : cstate)
           (sort_clusters return_dendrogram : bool) : result (list nat * option dendrogram) :=
  let n := S (length D) in
  let clusters0 := map snd st in
  let clusters :=
    if sort_clusters then
      let index := argsort (map (fun c => (- Z.of_nat (length c))%Z) clusters0) in
      map (fun i => nth i clusters0 []) index
    else clusters0 in
  let labels := labels_of n clusters in
  if return_dendrogram then
    let cindex := combine (seq 0 n) labels in
    let csize := combine (seq 0 (length clusters)) (map (@length nat) clusters) in
    match reduce_loop D cindex csize (length labels) (length clusters) with
    | Ok Dnew => Ok (labels, Some Dnew)
    | Err e => Err e
    end
  else Ok (labels, None).

(** * check_n_clusters(n_clusters, n, n_min=1) *)
Definition check_n_clusters (n_clusters n : nat) : result unit :=
  if Nat.ltb n n_clusters then Err ValueError
  else if Nat.ltb n_clusters 1 then Err ValueError
  else Ok tt.

(** * cut_straight *)

(** The dendrogram actually cut: reordered when return_dendrogram is set and the heights are not sorted. *)
Definition cut_input (D : dendrogram) (return_dendrogram : bool) : result dendrogram :=
  if return_dendrogram && negb (sortedq (heights D)) then reorder_dendrogram D else Ok D.

(** The cut height: [None] stands for [np.inf].
    [if n_clusters == 1: cut = np.inf else: cut = np.sort(dendrogram[:, 2])[n - n_clusters]];
    [if threshold is not None: cut = max(cut, threshold)]  (max(inf, threshold) = inf). *)
Definition resolve_n_clusters (n : nat) (n_clusters : option nat) (threshold : option Q) : result nat :=
  match n_clusters with
  | None => match threshold with None => Ok 2 | Some _ => Ok n end
  | Some k => match check_n_clusters k n with Ok _ => Ok k | Err e => Err e end
  end.

Definition cut_height (D : dendrogram) (n_clusters : option nat) (threshold : option Q) : result (option Q) :=
  let n := S (length D) in
  match resolve_n_clusters n n_clusters threshold with
  | Err e => Err e
  | Ok nc =>
      if Nat.eqb nc 1 then Ok None
      else
        match nth_error (sortq (heights D)) (n - nc) with
        | None => Err IndexError
        | Some c => Ok (Some (match threshold with None => c | Some th => qmax c th end))
        end
  end.

(** Before the fix 130034d8 ("cut_straight accepts n_clusters=1"): no special case, and the sorted array of
    n - 1 heights was indexed at n - 1 for n_clusters = 1 (defect D6). Kept to recognise the defect's return. *)
Definition legacy_cut_height (D : dendrogram) (n_clusters : option nat) (threshold : option Q) : result (option Q) :=
  let n := S (length D) in
  match resolve_n_clusters n n_clusters threshold with
  | Err e => Err e
  | Ok nc =>
      match nth_error (sortq (heights D)) (n - nc) with
      | None => Err IndexError
      | Some c => Ok (Some (match threshold with None => c | Some th => qmax c th end))
      end
  end.

(** [dendrogram[t][2] < cut] *)
Definition below_cut (cut : option Q) (r : drow) : bool :=
  match cut with None => true | Some c => qltb (r_height r) c end.

Definition straight_guard (cut : option Q) (r : drow) (_ _ : list nat) : bool := below_cut cut r.

(** The state of the [cluster] dict at the call of get_labels, with the dendrogram that was cut. *)
Definition straight_state_with (ch : dendrogram -> option nat -> option Q -> result (option Q))
           (D0 : dendrogram) (n_clusters : option nat) (threshold : option Q)
           (return_dendrogram : bool) : result (dendrogram * cstate) :=
  match cut_input D0 return_dendrogram with
  | Err e => Err e
  | Ok D =>
      let n := S (length D) in
      match ch D n_clusters threshold with
      | Err e => Err e
      | Ok cut =>
          match replay (straight_guard cut) n D (init_clusters n) with
          | Err e => Err e
          | Ok st => Ok (D, st)
          end
      end
  end.

Definition straight_state := straight_state_with cut_height.

Definition cut_straight (argsort : list Z -> list nat) (D0 : dendrogram) (n_clusters : option nat)
           (threshold : option Q) (sort_clusters return_dendrogram : bool)
  : result (list nat * option dendrogram) :=
  match straight_state D0 n_clusters threshold return_dendrogram with
  | Err e => Err e
  | Ok (D, st) => get_labels argsort D st sort_clusters return_dendrogram
  end.

Definition legacy_cut_straight (argsort : list Z -> list nat) (D0 : dendrogram) (n_clusters : option nat)
           (threshold : option Q) (sort_clusters return_dendrogram : bool)
  : result (list nat * option dendrogram) :=
  match straight_state_with legacy_cut_height D0 n_clusters threshold return_dendrogram with
  | Err e => Err e
  | Ok (D, st) => get_labels argsort D st sort_clusters return_dendrogram
  end.

(** * cut_balanced *)
Definition balanced_guard (max_size : nat) (_ : drow) (ci cj : list nat) : bool :=
  Nat.leb (length ci + length cj) max_size.

Definition balanced_state (D : dendrogram) (max_cluster_size : nat) : result cstate :=
  let n := S (length D) in
  if Nat.ltb max_cluster_size 2 || Nat.ltb n max_cluster_size then Err ValueError
  else replay (balanced_guard max_cluster_size) n D (init_clusters n).

Definition cut_balanced (argsort : list Z -> list nat) (D : dendrogram) (max_cluster_size : nat)
           (sort_clusters return_dendrogram : bool) : result (list nat * option dendrogram) :=
  match balanced_state D max_cluster_size with
  | Err e => Err e
  | Ok st => get_labels argsort D st sort_clusters return_dendrogram
  end.

(** The clusters in dict order (what [np.argsort] is asked to order), for the harness. *)
Definition straight_clusters (D0 : dendrogram) (n_clusters : option nat) (threshold : option Q)
           (return_dendrogram : bool) : result (list (list nat)) :=
  match straight_state D0 n_clusters threshold return_dendrogram with
  | Err e => Err e | Ok (_, st) => Ok (map snd st) end.
Definition balanced_clusters (D : dendrogram) (max_cluster_size : nat) : result (list (list nat)) :=
  match balanced_state D max_cluster_size with Err e => Err e | Ok st => Ok (map snd st) end.

(** * aggregate_dendrogram *)

(** [sorted(set(col0) | set(col1))] *)
Definition sorted_ids (ids : list nat) : list nat :=
  filter (fun x => memn x ids) (seq 0 (S (list_max ids))).

Fixpoint mapr {A B} (f : A -> result B) (l : list A) : result (list B) :=
  match l with
  | [] => Ok []
  | a :: t => match f a with
              | Err e => Err e
              | Ok b => match mapr f t with Ok bs => Ok (b :: bs) | Err e => Err e end
              end
  end.

(** [counts = np.ones(n_clusters); internal = leaves >= n_nodes;
     counts[internal] = dendrogram[leaves[internal] - n_nodes, 3]] — a row index past the end raises. *)
Definition leaf_count (n : nat) (D : dendrogram) (l : nat) : result nat :=
  if Nat.ltb l n then Ok 1
  else match nth_error D (l - n) with Some r => Ok (r_size r) | None => Err IndexError end.

(** Before the fix 130034d8: [dendrogram[leaves - n_nodes, 3]] for every kept id, with NumPy index semantics on
    an array of [len] rows: a negative index z is read as [len + z]; out of [-len, len) raises IndexError
    (defect D7: original leaves got the size of an unrelated row, or IndexError for leaf 0). *)
Definition np_row_size (D : dendrogram) (z : Z) : result nat :=
  let len := Z.of_nat (length D) in
  let z' := if (z <? 0)%Z then (len + z)%Z else z in
  if (z' <? 0)%Z || (len <=? z')%Z then Err IndexError
  else Ok (r_size (nth (Z.to_nat z') D drow0)).
Definition legacy_leaf_count (n : nat) (D : dendrogram) (l : nat) : result nat :=
  np_row_size D (Z.of_nat l - Z.of_nat n)%Z.

Definition aggregate_dendrogram_with (single_cluster_special : bool) (count : nat -> dendrogram -> nat -> result nat)
           (D : dendrogram) (n_clusters : nat) (return_counts : bool)
  : result (dendrogram * option (list nat)) :=
  let n := S (length D) in
  match check_n_clusters n_clusters n with
  | Err e => Err e
  | Ok _ =>
      let newD := skipn (n - n_clusters) D in
      let node_indices := sorted_ids (map r_left newD ++ map r_right newD) in
      let new_index x := pos x node_indices in
      let out := map (fun r => (new_index (r_left r), new_index (r_right r), r_height r, r_size r)) newD in
      if return_counts then
        if single_cluster_special && Nat.eqb n_clusters 1 then Ok (out, Some [n])
        else
          let lv := firstn n_clusters node_indices in
          match mapr (count n D) lv with
          | Err e => Err e
          | Ok counts => Ok (out, Some counts)
          end
      else Ok (out, None)
  end.

Definition aggregate_dendrogram := aggregate_dendrogram_with true leaf_count.
Definition legacy_aggregate_dendrogram := aggregate_dendrogram_with false legacy_leaf_count.

(** The counts the docstring promises ("sizes of the merged subtrees"; their sum is n):
    1 for an original leaf, the size column of its row for an internal id. *)
Definition true_count (n : nat) (D : dendrogram) (l : nat) : nat :=
  if Nat.ltb l n then 1 else r_size (nth (l - n) D drow0).

(** The ids of the input dendrogram that become the leaves 0..k-1 of the aggregated one (k >= 2). *)
Definition kept_ids (n : nat) (D : dendrogram) (k : nat) : list nat :=
  let newD := skipn (n - k) D in firstn k (sorted_ids (map r_left newD ++ map r_right newD)).

(** * Specification vocabulary for the cuts *)
From Coq Require Import Permutation.

(** Contract of [np.argsort]: the answer is a permutation of the positions that sorts the input. *)
Definition argsort_ok (argsort : list Z -> list nat) : Prop :=
  forall l, Permutation (argsort l) (seq 0 (length l)) /\
            forall a b, a <= b -> b < length l ->
                        (nth (nth a (argsort l) 0%nat) l 0 <= nth (nth b (argsort l) 0%nat) l 0)%Z.

(** One admissible answer (stable insertion sort), used for examples and as the harness fall-back. *)
Fixpoint ins_z (x : nat * Z) (l : list (nat * Z)) : list (nat * Z) :=
  match l with
  | [] => [x]
  | y :: t => if (snd x <=? snd y)%Z then x :: l else y :: ins_z x t
  end.
Definition stable_argsort (l : list Z) : list nat :=
  map fst (fold_right ins_z [] (combine (seq 0 (length l)) l)).

(** Size of cluster l = number of leaves labelled l. *)
Definition cluster_size (labels : list nat) (l : nat) : nat := count_occ Nat.eq_dec labels l.

(** [labels] over the leaves 0..n-1 uses exactly the labels 0..k-1, and cluster l is exactly the leaf set
    of the subtree rooted at id [nth l ids 0] (so the clusters partition the leaves into subtrees). *)
Definition subtree_partition (n : nat) (D : dendrogram) (labels ids : list nat) : Prop :=
  length labels = n /\
  (forall v, v < n -> nth v labels 0 < length ids) /\
  (forall l v, l < length ids -> v < n -> (nth v labels 0 = l <-> In v (leaves n D (nth l ids 0)))) /\
  (forall l, l < length ids -> exists v, v < n /\ nth v labels 0 = l).

(** Labels in non-increasing order of cluster size. *)
Definition sizes_sorted (labels : list nat) (k : nat) : Prop :=
  forall a b, a <= b -> b < k -> cluster_size labels b <= cluster_size labels a.

(** Number of clusters of a labelling. *)
Definition num_clusters (labels : list nat) : nat := length (nodup Nat.eq_dec labels).

(** Rows of [rows] (numbered from t) whose flag is false. *)
Fixpoint urows (fl : nat -> bool) (t : nat) (rows : dendrogram) : dendrogram :=
  match rows with
  | [] => []
  | r :: rest => if fl t then urows fl (S t) rest else r :: urows fl (S t) rest
  end.

(** All the leaves of a list carry one label. *)
Definition all_same (labels : list nat) (L : list nat) : bool :=
  forallb (fun u => Nat.eqb (nth u labels 0) (nth (hd 0 L) labels 0)) L.

(** The merges of D that join leaves of different clusters (those a cut did not apply), in row order. *)
Definition unmerged_rows (n : nat) (D : dendrogram) (labels : list nat) : dendrogram :=
  urows (fun t => all_same labels (leaves n D (n + t))) 0 D.

(** Number of merges strictly below the cut height. *)
Definition below (cut : option Q) (D : dendrogram) : nat := length (filter (below_cut cut) D).

(** No two merges at the same height. *)
Definition distinct_heights (D : dendrogram) : Prop :=
  forall t1 t2 r1 r2, nth_error D t1 = Some r1 -> nth_error D t2 = Some r2 -> t1 <> t2 ->
                      ~ (r_height r1 == r_height r2)%Q.

(** * Metrics *)

(** A weighted graph on n nodes as COO triples (u, v, weight), no repeated (u, v). *)
Definition wgraph := list (nat * nat * Q).
Definition e_src (e : nat * nat * Q) := fst (fst e).
Definition e_dst (e : nat * nat * Q) := snd (fst e).
Definition e_w (e : nat * nat * Q) := snd e.

(** Sums and arithmetic results are kept in lowest terms ([Qred]) so that the model stays fast. *)
Definition qsum (l : list Q) : Q := fold_right (fun a b => Qred (a + b)) 0%Q l.

Definition adj (G : wgraph) (u v : nat) : Q :=
  qsum (map e_w (filter (fun e => Nat.eqb (e_src e) u && Nat.eqb (e_dst e) v) G)).
Definition stored (G : wgraph) (u v : nat) : bool :=
  existsb (fun e => Nat.eqb (e_src e) u && Nat.eqb (e_dst e) v) G.
Definition total_weight (G : wgraph) : Q := qsum (map e_w G).
Definition out_weight (G : wgraph) (u : nat) : Q := qsum (map e_w (filter (fun e => Nat.eqb (e_src e) u) G)).
Definition in_weight (G : wgraph) (v : nat) : Q := qsum (map e_w (filter (fun e => Nat.eqb (e_dst e) v) G)).

(** [get_probs(weights, adjacency)] / [get_probs(weights, adjacency.T)]; degree = true for 'degree'. *)
Definition probs_row (degree : bool) (n : nat) (G : wgraph) : list Q :=
  map (fun u => Qred (if degree then (out_weight G u / total_weight G)%Q else (1 / inject_Z (Z.of_nat n))%Q)) (seq 0 n).
Definition probs_col (degree : bool) (n : nat) (G : wgraph) : list Q :=
  map (fun u => Qred (if degree then (in_weight G u / total_weight G)%Q else (1 / inject_Z (Z.of_nat n))%Q)) (seq 0 n).

(** AggregateGraph: [neighbors] as a dict of dicts; cluster out / in weights as dicts. *)
Definition nbrs := list (nat * list (nat * Q)).
Record agraph := { ag_next : nat; ag_nb : nbrs; ag_out : list (nat * Q); ag_in : list (nat * Q) }.

Definition getw (r : list (nat * Q)) (y : nat) : Q := match alookup y r with Some q => q | None => 0%Q end.
Definition getrow (nb : nbrs) (x : nat) : list (nat * Q) := match alookup x nb with Some r => r | None => [] end.

(** [AggregateGraph.__init__] on [directed2undirected(adjacency)] = A + A^T:
    neighbors[u][v] = (A_uv + A_vu) / sum(A + A^T) for every stored entry of A + A^T. *)
Definition ag_init (degree : bool) (n : nat) (G : wgraph) : agraph :=
  let tw := (2 * total_weight G)%Q in
  {| ag_next := n;
     ag_nb := map (fun u => (u, map (fun v => (v, Qred ((adj G u v + adj G v u) / tw)%Q))
                                    (filter (fun v => stored G u v || stored G v u) (seq 0 n)))) (seq 0 n);
     ag_out := combine (seq 0 n) (probs_row degree n G);
     ag_in := combine (seq 0 n) (probs_col degree n G) |}.

(** [AggregateGraph.merge(a, b)].  The code walks the neighbours x of a and b and rewrites [neighbors[x]];
    on the symmetric structure built by __init__ these are exactly the rows containing a or b. *)
Definition ag_merge (g : agraph) (a b : nat) : result agraph :=
  match alookup a (ag_nb g), alookup b (ag_nb g), alookup a (ag_out g), alookup b (ag_out g),
        alookup a (ag_in g), alookup b (ag_in g) with
  | Some ra, Some rb, Some oa, Some ob, Some ia, Some ib =>
      if Nat.eqb a b then Err KeyError else
      let c := ag_next g in
      let others := filter (fun x => negb (Nat.eqb x a) && negb (Nat.eqb x b))
                           (nodup Nat.eq_dec (akeys ra ++ akeys rb)) in
      let self := Qred (getw ra a + getw ra b + getw rb a + getw rb b)%Q in
      let newrow := (c, self) :: map (fun x => (x, Qred (getw ra x + getw rb x)%Q)) others in
      let nb1 := aremove b (aremove a (ag_nb g)) in
      let nb2 := map (fun xr : nat * list (nat * Q) =>
                        let (x, rx) := xr in
                        if amem a rx || amem b rx
                        then (x, aremove b (aremove a rx) ++ [(c, Qred (getw rx a + getw rx b)%Q)])
                        else (x, rx)) nb1 in
      Ok {| ag_next := S c;
            ag_nb := nb2 ++ [(c, newrow)];
            ag_out := aremove b (aremove a (ag_out g)) ++ [(c, Qred (oa + ob)%Q)];
            ag_in := aremove b (aremove a (ag_in g)) ++ [(c, Qred (ia + ib)%Q)] |}
  | _, _, _, _, _, _ => Err KeyError
  end.

(** One iteration of get_sampling_distributions: (edge_sampling[t], node_sampling[t], cluster_weight[t]). *)
Definition sampling_step (n : nat) (g : agraph) (i j : nat) : result (Q * Q * Q) :=
  match alookup i (ag_nb g), alookup i (ag_out g), alookup j (ag_out g), alookup i (ag_in g), alookup j (ag_in g) with
  | Some ri, Some oi, Some oj, Some ii, Some ij =>
      let selfs := filter (fun x => Nat.ltb x n) (if Nat.eqb i j then [i] else [i; j]) in
      let es := ((if amem j ri then 2 * getw ri j else 0) +
                 qsum (map (fun x => if amem x (getrow (ag_nb g) x) then getw (getrow (ag_nb g) x) x else 0) selfs))%Q in
      let ns := (oi * ij + oj * ii +
                 qsum (map (fun x => getw (ag_out g) x * getw (ag_in g) x) selfs))%Q in
      let cw := (oi + oj + ii + ij)%Q in
      Ok (Qred es, Qred ns, Qred (cw / 2)%Q)
  | _, _, _, _, _ => Err KeyError
  end.

Fixpoint sampling_loop (n : nat) (rows : dendrogram) (g : agraph) : result (list (Q * Q * Q)) :=
  match rows with
  | [] => Ok []
  | r :: rest =>
      match sampling_step n g (r_left r) (r_right r) with
      | Err e => Err e
      | Ok x =>
          match ag_merge g (r_left r) (r_right r) with
          | Err e => Err e
          | Ok g' => match sampling_loop n rest g' with Ok xs => Ok (x :: xs) | Err e => Err e end
          end
      end
  end.

(** The loop runs [for t in range(n - 1)] over [dendrogram[t]]: a shorter dendrogram raises IndexError,
    extra rows are ignored. *)
Definition get_sampling_distributions (degree : bool) (n : nat) (G : wgraph) (D : dendrogram)
  : result (list (Q * Q * Q)) :=
  if Nat.ltb (length D) (n - 1) then Err IndexError
  else sampling_loop n (firstn (n - 1) D) (ag_init degree n G).

Definition dasgupta_cost (degree : bool) (n : nat) (G : wgraph) (D : dendrogram) (normalized : bool) : result Q :=
  if Nat.eqb (length G) 0 then Err ValueError      (* check_format: empty matrix *)
  else if Nat.ltb n 2 then Err ValueError          (* check_min_size *)
  else
    match get_sampling_distributions degree n G D with
    | Err e => Err e
    | Ok sd =>
        let cost := qsum (map (fun x => (fst (fst x) * snd x)%Q) sd) in
        Ok (if normalized then cost
            else if degree then Qred (cost * total_weight G)%Q else Qred (cost * inject_Z (Z.of_nat n))%Q)
    end.

Definition dasgupta_score (degree : bool) (n : nat) (G : wgraph) (D : dendrogram) : result Q :=
  match dasgupta_cost degree n G D true with
  | Ok c => Ok (Qred (1 - c))%Q
  | Err e => Err e
  end.

(** Specification (property text): the weighted average, over the edges (u, v), of the size — or of the
    volume — of the smallest cluster of the tree containing both u and v. *)
Definition tree_clusters (n : nat) (D : dendrogram) : list (list nat) :=
  map (fun t => leaves n D (n + t)) (seq 0 (length D)).

Definition smallest_common (n : nat) (D : dendrogram) (u v : nat) : list nat :=
  let cands := filter (fun c => memn u c && memn v c) (tree_clusters n D) in
  fold_right (fun c best => match best with [] => c | _ => if Nat.leb (length c) (length best) then c else best end)
             [] cands.

(** Weight of a cluster: its size (uniform) or the mean of its out- and in-volumes (degree). *)
Definition cluster_measure (degree : bool) (G : wgraph) (c : list nat) : Q :=
  if degree then ((sumq (map (out_weight G) c) + sumq (map (in_weight G) c)) / 2)%Q
  else inject_Z (Z.of_nat (length c)).

Definition dasgupta_spec (degree : bool) (n : nat) (G : wgraph) (D : dendrogram) : Q :=
  (sumq (map (fun e => (e_w e * cluster_measure degree G (smallest_common n D (e_src e) (e_dst e)))%Q) G)
   / total_weight G)%Q.

(** tree_sampling_divergence with [ln] for [np.log].
    [tsd_terms]: the pairs (edge_sampling[t], node_sampling[t]) with edge_sampling[t] <> 0;
    [mi_terms]: for every stored entry, (A_uv / w, w_row[u] * w_col[v]). *)
Definition tsd_terms (degree : bool) (n : nat) (G : wgraph) (D : dendrogram) : result (list (Q * Q)) :=
  if Nat.eqb (length G) 0 then Err ValueError
  else if Nat.ltb n 2 then Err ValueError
  else match get_sampling_distributions degree n G D with
       | Err e => Err e
       | Ok sd => Ok (map (fun x => (fst (fst x), snd (fst x)))
                          (filter (fun x => negb (Qeq_bool (fst (fst x)) 0)) sd))
       end.

Definition mi_terms (degree : bool) (n : nat) (G : wgraph) : list (Q * Q) :=
  let wr := probs_row degree n G in let wc := probs_col degree n G in
  map (fun e => (Qred (e_w e / total_weight G)%Q, Qred (nthq wr (e_src e) * nthq wc (e_dst e))%Q)) G.

Definition tree_sampling_divergence (ln : Q -> Q) (degree : bool) (n : nat) (G : wgraph) (D : dendrogram)
           (normalized : bool) : result Q :=
  match tsd_terms degree n G D with
  | Err e => Err e
  | Ok ts =>
      let score := sumq (map (fun x => (fst x * ln (fst x / snd x))%Q) ts) in
      if normalized then
        let mi := sumq (map (fun x => (fst x * ln (fst x / snd x))%Q) (mi_terms degree n G)) in
        Ok (if Qle_bool mi 0 then score else (score / mi)%Q)
      else Ok score
  end.

(** Executable model over exact rationals of
      sknetwork/linalg/normalizer.py   (normalize, p = 1)
      sknetwork/linalg/ppr_solver.py   (RandomSurferOperator, get_pagerank: all six solvers)
      sknetwork/linalg/polynome.py     (Polynome._matvec, Ruffini-Horner)
      sknetwork/linalg/diteration.pyx  (diffusion: sequential sweep)
      sknetwork/linalg/push.pyx        (push_pagerank, one thread)
      sknetwork/utils/values.py, utils/format.py (get_adjacency_values, which = 'probs')
    and the specification of PageRank.  Definitions only (no proofs).

    Conventions. A weighted digraph is [list wrow]: row i lists the stored entries (column, weight)
    of row i of the adjacency matrix; the entry (i,j) denotes the sum of the stored weights at (i,j).
    Vectors are [list Q]; [V l] reads a vector as a function [nat -> Q] (0 outside).
    Matrix-vector products are written through the entry function (no decision is taken inside a
    product; the order of a floating-point summation is below the tolerance of the comparison).
    Every stored result is reduced with [Qred] so that exact iterations stay small. *)
From SKN Require Import Base.Util.
From Coq Require Import Qabs Qreduction.
Close Scope Q_scope.
Open Scope nat_scope.

(* ------------------------------------------------------------------------------------------ *)
(** * Finite sums, vectors *)

(** [bsum n f] = f 0 + ... + f (n-1). *)
Fixpoint bsum (n : nat) (f : nat -> Q) : Q :=
  match n with
  | O => 0%Q
  | S k => (bsum k f + f k)%Q
  end.

Definition vec := nat -> Q.
Definition V (l : list Q) : vec := nthq l.
Definition vsum (n : nat) (f : vec) : Q := bsum n f.
Definition norm1 (n : nat) (f : vec) : Q := bsum n (fun i => Qabs (f i)).
(** Dense matrix as an entry function, [mv n M z] = M z. *)
Definition mat := nat -> nat -> Q.
Definition mv (n : nat) (M : mat) (z : vec) : vec := fun i => bsum n (fun j => (M i j * z j)%Q).

Definition tab (n : nat) (f : vec) : list Q := map (fun i => Qred (f i)) (seq 0 n).
Definition lsum (l : list Q) : Q := Qred (bsum (length l) (V l)).
Definition lnorm1 (l : list Q) : Q := Qred (norm1 (length l) (V l)).
Definition vadd (a b : list Q) : list Q := map2 (fun x y => Qred (x + y)%Q) a b.
Definition vsub (a b : list Q) : list Q := map2 (fun x y => Qred (x - y)%Q) a b.
Definition vscale (c : Q) (a : list Q) : list Q := map (fun x => Qred (c * x)%Q) a.
(** [a / a.sum()] *)
Definition vnormalize (a : list Q) : list Q := let s := lsum a in map (fun x => Qred (x / s)%Q) a.

Definition Qltb (a b : Q) : bool := negb (Qle_bool b a).

(** [l[j] = v] (no effect out of range: the kernels only write indices stored in the matrix). *)
Fixpoint upd (l : list Q) (j : nat) (v : Q) : list Q :=
  match l, j with
  | [], _ => []
  | _ :: t, O => v :: t
  | x :: t, S j' => x :: upd t j' v
  end.

(* ------------------------------------------------------------------------------------------ *)
(** * Sparse rows, normalisation *)

Definition wrow := list (nat * Q).
Definition wgraph := list wrow.
Definition wrow_of (g : wgraph) (i : nat) : wrow := nth i g [].
(** denotation of entry j of a row *)
Definition entry (r : wrow) (j : nat) : Q := sumq (map snd (filter (fun e => Nat.eqb (fst e) j) r)).
Definition wf_row (n : nat) (r : wrow) : bool := forallb (fun e => Nat.ltb (fst e) n) r.
Definition nonneg_row (r : wrow) : bool := forallb (fun e => Qle_bool 0 (snd e)) r.
Definition wf_graph (g : wgraph) : bool := forallb (wf_row (length g)) g.
Definition nonneg_graph (g : wgraph) : bool := forallb nonneg_row g.

(** linalg/normalizer.py: [norms = |matrix|.dot(ones)]; [diag = diagonal_pseudo_inverse(norms)] has no
    entry for a zero norm; [diag.dot(matrix)]: null rows stay null. *)
Definition row_norm (r : wrow) : Q := sumq (map (fun e => Qabs (snd e)) r).
Definition normalize_row (r : wrow) : wrow :=
  let s := Qred (row_norm r) in
  if Qeq_bool s 0 then [] else map (fun e => (fst e, Qred (snd e / s)%Q)) r.
Definition normalize (g : wgraph) : wgraph := map normalize_row g.

(** Transition probabilities P i j from already normalised rows / from the graph. *)
Definition Pn (pr : wgraph) : mat := fun i j => entry (wrow_of pr i) j.
Definition P (g : wgraph) : mat := Pn (normalize g).

(** [out_degrees = adjacency.dot(np.ones(n)).astype(bool)] *)
Definition has_out (g : wgraph) (i : nat) : Q :=
  if Qeq_bool (sumq (map snd (wrow_of g i))) 0 then 0%Q else 1%Q.

(** The matrix [a] of the operator: [a = (damping_factor * normalize(adjacency)).T], a j i = alpha * P i j. *)
Definition Ma (pr : wgraph) (alpha : Q) : mat := fun j i => (alpha * Pn pr i j)%Q.

(* ------------------------------------------------------------------------------------------ *)
(** * Seeds: get_adjacency_values (..., default_value = 0, which = 'probs') *)

Inductive err := ValueError | IndexError.
Inductive result (A : Type) := Ok (a : A) | Err (e : err).
Arguments Ok {A} a.
Arguments Err {A} e.

Inductive seedsrc := SArray (l : list Q) | SDict (d : list (nat * Q)).

(** [values[keys] = values_]: the last assignment wins. *)
Fixpoint dict_get (d : list (nat * Q)) (i : nat) : option Q :=
  match d with
  | [] => None
  | (k, x) :: t => match dict_get t i with
                   | Some y => Some y
                   | None => if Nat.eqb k i then Some x else None
                   end
  end.

(** utils/values.py get_values: array of the right length; dict over a vector of [default]
    ([np.min] of an empty dict raises ValueError, a key >= n raises IndexError); None = all ones. *)
Definition get_values (n : nat) (values : option seedsrc) (default : Q) : result (list Q) :=
  match values with
  | None => Ok (repeat 1%Q n)
  | Some (SArray l) => if Nat.eqb (length l) n then Ok l else Err ValueError
  | Some (SDict d) =>
      match d with
      | [] => Err ValueError
      | _ => if forallb (fun e => Nat.ltb (fst e) n) d
             then Ok (map (fun i => match dict_get d i with Some x => x | None => default end) (seq 0 n))
             else Err IndexError
      end
  end.

Definition stack_values (n_row n_col : nat) (values_row values_col : option seedsrc) (default : Q)
  : result (list Q) :=
  let rc := match values_row, values_col with
            | None, None => (Some (SArray (repeat 1%Q n_row)), Some (SArray (repeat default n_col)))
            | None, Some _ => (Some (SArray (repeat default n_row)), values_col)
            | Some _, None => (values_row, Some (SArray (repeat default n_col)))
            | Some _, Some _ => (values_row, values_col)
            end in
  match get_values n_row (fst rc) default with
  | Err e => Err e
  | Ok a => match get_values n_col (snd rc) default with
            | Err e => Err e
            | Ok b => Ok (a ++ b)
            end
  end.

(** [matrix.T] on weighted rows and the block adjacency [[0, B], [B^T, 0]] of a biadjacency matrix. *)
Definition wtranspose (n_col : nat) (rows : wgraph) : wgraph :=
  map (fun j => flat_map (fun i => map (fun e => (i, snd e))
                                       (filter (fun e => Nat.eqb (fst e) j) (wrow_of rows i)))
                         (seq 0 (length rows)))
      (seq 0 n_col).
Definition block_undirected (n_col : nat) (rows : wgraph) : wgraph :=
  map (fun r => map (fun e => (length rows + fst e, snd e)) r) rows ++ wtranspose n_col rows.

(** [if values.sum() > 0: values /= values.sum()] *)
Definition to_probs (v : list Q) : list Q :=
  let s := lsum v in if Qltb 0 s then map (fun x => Qred (x / s)%Q) v else v.

Definition nnz (rows : wgraph) : nat := sumn (map (@length (nat * Q)) rows).

(** get_adjacency_values as PageRank.fit calls it. Returns (adjacency, seeds, bipartite). *)
Definition get_adjacency_values (n_col : nat) (rows : wgraph) (force_bipartite : bool)
           (values values_row values_col : option seedsrc) : result (wgraph * list Q * bool) :=
  if Nat.eqb (nnz rows) 0 then Err ValueError else
  let force_bipartite := match values_row, values_col with None, None => force_bipartite | _, _ => true end in
  let bipartite := force_bipartite || negb (Nat.eqb (length rows) n_col) in
  if bipartite then
    match (match values with
           | None => stack_values (length rows) n_col values_row values_col 0%Q
           | Some _ => stack_values (length rows) n_col values None 0%Q
           end) with
    | Err e => Err e
    | Ok v => Ok (block_undirected n_col rows, to_probs v, true)
    end
  else
    match get_values (length rows) values 0%Q with
    | Err e => Err e
    | Ok v => Ok (rows, to_probs v, false)
    end.

(* ------------------------------------------------------------------------------------------ *)
(** * RandomSurferOperator (current code)

    [a = alpha * normalize(adjacency).T], [b = seeds], [restart = 1 - alpha * out_degrees],
    [_matvec(x) = a.dot(x) + b * restart.dot(x)]. *)
Definition restart (g : wgraph) (alpha : Q) : vec := fun i => (1 - alpha * has_out g i)%Q.
Definition surfer_fun (n : nat) (g pr : wgraph) (alpha : Q) (y x : vec) : vec :=
  fun j => (mv n (Ma pr alpha) x j + y j * bsum n (fun i => restart g alpha i * x i))%Q.
Definition surfer_matvec (g : wgraph) (alpha : Q) (y x : list Q) : list Q :=
  let n := length g in
  let pr := normalize g in
  let rx := Qred (bsum n (fun i => restart g alpha i * V x i)%Q) in
  tab n (fun j => (mv n (Ma pr alpha) (V x) j + V y j * rx)%Q).

(** The operator before the repair (kept so that a regression is recognised by name):
    [b = (1 - alpha * out_degrees) * seeds] elementwise, [_matvec(x) = a.dot(x) + b * x.sum()]. *)
Definition old_surfer_matvec (g : wgraph) (alpha : Q) (y x : list Q) : list Q :=
  let n := length g in
  let pr := normalize g in
  let sx := lsum x in
  tab n (fun j => (mv n (Ma pr alpha) (V x) j + (restart g alpha j * V y j) * sx)%Q).

(** piteration: [scores_ = rso.dot(scores); scores_ /= scores_.sum();
    if norm1(scores - scores_) < tol: break else: scores = scores_]. *)
Definition piteration_step (op : list Q -> list Q) (x : list Q) : list Q := vnormalize (op x).
Fixpoint piteration_loop (k : nat) (op : list Q -> list Q) (tol : Q) (scores : list Q) : list Q :=
  match k with
  | O => scores
  | S k' =>
      let s' := piteration_step op scores in
      if Qltb (lnorm1 (vsub scores s')) tol then scores else piteration_loop k' op tol s'
  end.
Definition piteration (g : wgraph) (alpha : Q) (y : list Q) (n_iter : nat) (tol : Q) : list Q :=
  piteration_loop n_iter (surfer_matvec g alpha y) tol y.

(* ------------------------------------------------------------------------------------------ *)
(** * Polynome._matvec (Ruffini-Horner) and the RH solver

    [y = coeffs[-1] * x; for a in coeffs[::-1][1:]: y = matrix.dot(y) + a * x]. *)
Definition horner (op : list Q -> list Q) (coeffs : list Q) (x : list Q) : list Q :=
  match rev coeffs with
  | [] => []                                   (* the constructor raises ValueError *)
  | c :: rest => fold_left (fun y a => vadd (op y) (vscale a x)) rest (vscale c x)
  end.
Definition mvl (n : nat) (M : mat) (x : list Q) : list Q := tab n (mv n M (V x)).
(** [Polynome(alpha * normalize(adjacency).T, ones(n_iter + 1)).dot(seeds)] *)
Definition rh (g : wgraph) (alpha : Q) (y : list Q) (n_iter : nat) : list Q :=
  let pr := normalize g in
  horner (mvl (length g) (Ma pr alpha)) (repeat 1%Q (S n_iter)) y.

(* ------------------------------------------------------------------------------------------ *)
(** * diteration.pyx: diffusion (sequential sweep) *)
Record dstate := { d_scores : list Q; d_fluid : list Q; d_residu : Q }.

(** [for jj in range(j1, j2): fluid[indices[jj]] += tmp * data[jj]] *)
Definition push_row (tmp : Q) (r : wrow) (fluid : list Q) : list Q :=
  fold_left (fun fl e => upd fl (fst e) (Qred (V fl (fst e) + tmp * snd e)%Q)) r fluid.

Definition dit_node (pr : wgraph) (alpha : Q) (s : dstate) (i : nat) : dstate :=
  let sent := V (d_fluid s) i in
  if Qltb 0 sent then
    let scores' := upd (d_scores s) i (Qred (V (d_scores s) i + sent)%Q) in
    let fluid0 := upd (d_fluid s) i 0%Q in
    let tmp := (sent * alpha)%Q in
    match wrow_of pr i with
    | [] => {| d_scores := scores'; d_fluid := fluid0; d_residu := Qred (d_residu s - sent)%Q |}
    | r => {| d_scores := scores'; d_fluid := push_row tmp r fluid0;
              d_residu := Qred (d_residu s - sent * (1 - alpha))%Q |}
    end
  else s.

Definition dit_sweep (pr : wgraph) (alpha : Q) (s : dstate) : dstate :=
  fold_left (dit_node pr alpha) (seq 0 (length pr)) s.

(** [for k in range(n_iter): sweep; if residu < tol * restart_prob: return]. The boolean tells
    whether the loop left through the tolerance test. *)
Fixpoint dit_loop (k : nat) (pr : wgraph) (alpha tol : Q) (s : dstate) : dstate * bool :=
  match k with
  | O => (s, false)
  | S k' =>
      let s' := dit_sweep pr alpha s in
      if Qltb (d_residu s') (tol * (1 - alpha))%Q then (s', true) else dit_loop k' pr alpha tol s'
  end.

(** [scores = zeros; fluid = (1 - alpha) * seeds; residu = 1 - alpha]. *)
Definition dit_init (n : nat) (alpha : Q) (y : list Q) : dstate :=
  {| d_scores := repeat 0%Q n; d_fluid := vscale (1 - alpha)%Q y; d_residu := (1 - alpha)%Q |}.
Definition diteration_state (g : wgraph) (alpha : Q) (y : list Q) (n_iter : nat) (tol : Q) : dstate * bool :=
  dit_loop n_iter (normalize g) alpha tol (dit_init (length g) alpha y).
Definition diteration (g : wgraph) (alpha : Q) (y : list Q) (n_iter : nat) (tol : Q) : list Q :=
  d_scores (fst (diteration_state g alpha y n_iter tol)).

(* ------------------------------------------------------------------------------------------ *)
(** * push.pyx: push_pagerank (one thread; kept exactly as coded for the refutation)

    [degrees = adjacency.dot(ones).astype(int32)] (integer weights: exact), unweighted pushes;
    [order] is the answer of [np.argsort(-residuals)] (an oracle: any sorting permutation). *)
Definition degree (g : wgraph) (i : nat) : Q := sumq (map snd (wrow_of g i)).
Definition in_neighbors (g : wgraph) (v : nat) : list nat :=
  flat_map (fun u => map (fun _ => u) (filter (fun e => Nat.eqb (fst e) v) (wrow_of g u))) (seq 0 (length g)).
Definition push_init (g : wgraph) (alpha : Q) (y : list Q) : list Q :=
  tab (length g) (fun v => (sumq (map (fun u => 1 / degree g u)%Q (in_neighbors g v))
                            * ((1 - alpha) * alpha * (1 + V y v)))%Q).

(** One vertex: [scores[v] += residuals[v]]; for each out-neighbour w in storage order:
    [tmp = r[w]; r[w] += r[v] * (1 - alpha) / degrees[v]; if r[w] > tol > tmp: worklist.push(w)]. *)
Definition push_vertex (g : wgraph) (alpha tol : Q) (v : nat) (st : list Q * list Q * list nat)
  : list Q * list Q * list nat :=
  let '(scores, res, wl) := st in
  let scores' := upd scores v (Qred (V scores v + V res v)%Q) in
  let '(res', wl') :=
    fold_left (fun (a : list Q * list nat) (e : nat * Q) =>
                 let '(r, w) := a in
                 let nb := fst e in
                 let tmp := V r nb in
                 let r' := upd r nb (Qred (tmp + V r v * (1 - alpha) / degree g v)%Q) in
                 if Qltb tol (V r' nb) && Qltb tmp tol then (r', w ++ [nb]) else (r', w))
              (wrow_of g v) (res, wl) in
  (scores', res', wl').

Fixpoint push_loop (fuel : nat) (g : wgraph) (alpha tol : Q) (st : list Q * list Q * list nat)
  : option (list Q) :=
  match fuel with
  | O => None
  | S f =>
      let '(scores, res, wl) := st in
      match wl with
      | [] => Some scores
      | v :: rest => push_loop f g alpha tol (push_vertex g alpha tol v (scores, res, rest))
      end
  end.

(** [scores = full(n, 1 - alpha)]; result [scores / norm1(scores)] (scores are positive). *)
Definition push_pagerank (fuel : nat) (g : wgraph) (alpha tol : Q) (y : list Q) (order : list nat)
  : option (list Q) :=
  match push_loop fuel g alpha tol (repeat (1 - alpha)%Q (length g), push_init g alpha y, order) with
  | None => None
  | Some s => Some (let nrm := lnorm1 s in map (fun x => Qred (x / nrm)%Q) s)
  end.

(* ------------------------------------------------------------------------------------------ *)
(** * get_pagerank: dispatch and final normalisation [scores / scores.sum()]

    bicgstab / ARPACK are oracles: [oracle] is the vector they returned
    (bicgstab: the approximate solution of (I - a) x = b; lanczos: the real part of the eigenvector,
    of which the code takes the absolute value). [order] is push's argsort answer. *)
Inductive solver := Piteration | Diteration | Bicgstab | Lanczos | RH | Push.

Definition get_pagerank (g : wgraph) (y : list Q) (alpha : Q) (n_iter : nat) (tol : Q) (s : solver)
           (oracle : list Q) (order : list nat) : option (list Q) :=
  match s with
  | Piteration => Some (vnormalize (piteration g alpha y n_iter tol))
  | Diteration => Some (vnormalize (diteration g alpha y n_iter tol))
  | RH => Some (vnormalize (rh g alpha y n_iter))
  | Bicgstab => Some (vnormalize oracle)
  | Lanczos => Some (vnormalize (map Qabs oracle))
  | Push => match push_pagerank (S (length g) * S (length g) * 64) g alpha tol y order with
            | None => None
            | Some sc => Some (vnormalize sc)
            end
  end.

(** PageRank.fit: seeds through get_adjacency_values, then get_pagerank; bipartite: split. *)
Definition pagerank_fit (n_col : nat) (rows : wgraph) (force_bipartite : bool)
           (values values_row values_col : option seedsrc)
           (alpha : Q) (n_iter : nat) (tol : Q) (s : solver) (oracle : list Q) (order : list nat)
  : result (option (list Q * list Q)) :=
  match get_adjacency_values n_col rows force_bipartite values values_row values_col with
  | Err e => Err e
  | Ok (adj, seeds, bip) =>
      match get_pagerank adj seeds alpha n_iter tol s oracle order with
      | None => Ok None
      | Some sc => Ok (Some (if bip then (firstn (length rows) sc, skipn (length rows) sc) else (sc, [])))
      end
  end.

(* ------------------------------------------------------------------------------------------ *)
(** * Specification

    [is_solution n Pm alpha y x]: x = alpha P^T x + (1 - alpha) y on the first n coordinates.
    [is_pagerank n Pm alpha y p]: p is the solution divided by its sum (the probability vector
    proportional to the solution).  P has null rows for the nodes without out-links. *)
Definition PT (alpha : Q) (Pm : mat) : mat := fun j i => (alpha * Pm i j)%Q.
Definition is_solution (n : nat) (Pm : mat) (alpha : Q) (y x : vec) : Prop :=
  forall j, j < n -> (x j == mv n (PT alpha Pm) x j + (1 - alpha) * y j)%Q.
Definition is_pagerank (n : nat) (Pm : mat) (alpha : Q) (y p : vec) : Prop :=
  exists x, is_solution n Pm alpha y x /\ ~ (vsum n x == 0)%Q /\
            forall j, j < n -> (p j == x j / vsum n x)%Q.

(** The surfer of the property text: follows an out-link with probability alpha, otherwise restarts
    from y, and always restarts from a node without out-links. Its transition kernel (column j of
    the chain = where the walker sitting at i goes) and stationarity. *)
Definition surfer_kernel (Pm : mat) (out : vec) (alpha : Q) (y : vec) : mat :=
  fun j i => (alpha * Pm i j + (1 - alpha * out i) * y j)%Q.
Definition is_stationary (n : nat) (K : mat) (p : vec) : Prop :=
  (vsum n p == 1)%Q /\ forall j, j < n -> (p j == mv n K p j)%Q.

(** Powers of a matrix applied to a vector, the polynomial sum_k cs[k] M^k x, and scalar powers
    (used to state what Horner's scheme and the RH solver compute). *)
Fixpoint pow_mv (n : nat) (M : mat) (k : nat) (z : vec) : vec :=
  match k with
  | O => z
  | S k' => mv n M (pow_mv n M k' z)
  end.
Definition power_sum (n : nat) (M : mat) (cs : list Q) (x : vec) : vec :=
  fun j => bsum (length cs) (fun k => nthq cs k * pow_mv n M k x j)%Q.
Fixpoint apow (a : Q) (k : nat) : Q :=
  match k with
  | O => 1%Q
  | S k' => (a * apow a k')%Q
  end.

(** Executable checks used as oracles. *)
(** exact: the residual of x is 0 *)
Definition solution_check (g : wgraph) (alpha : Q) (y x : list Q) : bool :=
  let n := length g in
  let pr := normalize g in
  Nat.eqb (length x) n &&
  forallb (fun j => Qeq_bool (V x j) (mv n (Ma pr alpha) (V x) j + (1 - alpha) * V y j)%Q) (seq 0 n).

(** [residual_check g alpha y p eps]: validator for an approximate PageRank vector p (any scaling).
    Scale p to x = c p with c = (1-alpha) / (sum p - alpha * out.p) (so that x has the mass a solution has),
    r = |x - (a x + (1-alpha) y)|_1, delta = r / (1-alpha) (distance to the solution),
    s = sum x; accept when delta < |s| and delta (|s| + |x|_1) <= eps |s| (|s| - delta). *)
Definition residual_parts (g : wgraph) (alpha : Q) (y p : list Q) : Q * Q * Q * Q :=
  let n := length g in
  let pr := normalize g in
  let den := Qred (bsum n (V p) - alpha * bsum n (fun i => has_out g i * V p i))%Q in
  let c := Qred ((1 - alpha) / den)%Q in
  let x := vscale c p in
  let r := Qred (norm1 n (fun j => V x j - (mv n (Ma pr alpha) (V x) j + (1 - alpha) * V y j)))%Q in
  let delta := Qred (r / (1 - alpha))%Q in
  (den, delta, Qred (Qabs (bsum n (V x))), Qred (norm1 n (V x))).

Definition residual_check (g : wgraph) (alpha : Q) (y p : list Q) (eps : Q) : bool :=
  let '(den, delta, s, nx) := residual_parts g alpha y p in
  Nat.eqb (length p) (length g) && Nat.eqb (length y) (length g) &&
  wf_graph g && nonneg_graph g && Qle_bool 0 alpha && Qltb alpha 1 &&
  negb (Qeq_bool den 0) && Qltb delta s && Qle_bool (delta * (s + nx)) (eps * s * (s - delta)).

(** Executable models of the semi-supervised classifiers (definitions only, no proofs):
      sknetwork/classification/propagation.py   Propagation._instantiate_vars, Propagation.fit
      sknetwork/classification/diffusion.py     DiffusionClassifier.fit
      sknetwork/classification/knn.py           NNClassifier._fit_core
      sknetwork/classification/base_rank.py     RankClassifier.fit (PageRankClassifier), scores -> labels / probs
      sknetwork/linkpred/nn.py                  NNLinker._fit_core
      sknetwork/classification/metrics.py       accuracy, confusion matrix, precision / recall / F1, averages
    Reals are exact rationals; NumPy's argsort / shuffle / argpartition, the embedding, the per-class ranking
    scores and exp are ARGUMENTS (oracles), their contracts are hypotheses of the theorems. *)
From SKN Require Import Base.Util Model.Vote Model.Bfs.
From Coq Require Import Qabs.
Close Scope Q_scope.
Open Scope nat_scope.

(** * Shared numerics *)

Definition mat := list (list Q).
Definition mrow (T : mat) (i : nat) : list Q := nth i T [].

(** sum with a reduction after every addition (same value as [sumq], keeps denominators small when run) *)
Definition sumqr (l : list Q) : Q := fold_right (fun x acc => Qred (x + acc)%Q) 0%Q l.

(** linalg/normalizer.py: normalize(matrix, p=1) on one dense row: divide by the sum of absolute values;
    a null row remains null. *)
Definition normalize_row (r : list Q) : list Q :=
  let s := sumq (map Qabs r) in
  if Qeq_bool s 0 then r else map (fun x => Qred (x / s)%Q) r.

(** np.argmax: first position of the maximum (0 on an empty row). *)
Fixpoint argmax_from (r : list Q) (pos best_pos : nat) (best : Q) : nat :=
  match r with
  | [] => best_pos
  | x :: t => if Qle_bool x best then argmax_from t (S pos) best_pos best
              else argmax_from t (S pos) pos x
  end.
Definition argmax_first (r : list Q) : nat :=
  match r with [] => 0 | x :: t => argmax_from t 1 0 x end.

(** np.unique(labels[labels >= 0]): increasing, without repetition. *)
Definition uniq_labels (labels : list Z) : list Z :=
  map Z.of_nat (fold_left (fun s x => if (x <? 0)%Z then s else set_insert (Z.to_nat x) s) labels []).

Fixpoint index_of (x : Z) (l : list Z) : option nat :=
  match l with
  | [] => None
  | y :: t => if (x =? y)%Z then Some 0 else option_map S (index_of x t)
  end.

Definition maxz (l : list Z) : Z := fold_right Z.max (-1)%Z l.
(** number of columns of a membership / probability matrix: max(labels) + 1 *)
Definition n_cols (labels : list Z) : nat := Z.to_nat (maxz labels + 1).

Definition onehot (k c : nat) : list Q := map (fun j => if j =? c then 1%Q else 0%Q) (seq 0 k).

Fixpoint list_eqb_Z (a b : list Z) : bool :=
  match a, b with
  | [], [] => true
  | x :: ta, y :: tb => (x =? y)%Z && list_eqb_Z ta tb
  | _, _ => false
  end.

(** * Propagation *)

Record csr := { c_indptr : list nat; c_indices : list nat; c_data : list Q }.

Definition adjrows := list (list (nat * Q)).
Definition csr_rows (c : csr) (n : nat) : adjrows :=
  map (fun i => nbrs_weighted (c_indptr c) (c_indices c) (c_data c) i) (seq 0 n).

Inductive node_order := ORandom | ODecreasing | OIncreasing | ONone.
(** the test of _instantiate_vars deciding "clustering mode" (every node is updated, seeds included):
    legacy source (before 4b87643c) [len(set(labels)) == n] = [CT_distinct]; [CT_nonneg] = "no negative value";
    [CT_distinct_nonneg] = both (repaired source). The value in force is read from the source (Gen/VoteConsts.v). *)
Inductive cluster_test := CT_distinct | CT_nonneg | CT_distinct_nonneg.
(** length of the vector of ones used as [data] when weighted=False: [n] (legacy, before 32660cf6) or nnz. *)
Inductive ones_size := Ones_n | Ones_nnz.
(** how 'increasing' / 'decreasing' reorder the free nodes: [OI_position] = [index_remain = index[index_remain]]
    (legacy, before c0b9c86b: the entries of the argsort at the POSITIONS index_remain); [OI_filter] = the argsort
    restricted to the free nodes ([index[np.isin(index, index_remain)]], repaired source). *)
Inductive order_impl := OI_position | OI_filter.
Record pvariant := { pv_kernel : kvariant; pv_ctest : cluster_test; pv_ones : ones_size; pv_order : order_impl }.

Definition clustering_mode (ct : cluster_test) (seeds : list Z) : bool :=
  match ct with
  | CT_distinct => length (nodup Z.eq_dec seeds) =? length seeds
  | CT_nonneg => forallb (fun l => (0 <=? l)%Z) seeds
  | CT_distinct_nonneg => (length (nodup Z.eq_dec seeds) =? length seeds) && forallb (fun l => (0 <=? l)%Z) seeds
  end.

(** _instantiate_vars: (index_seed, index_remain, labels_seed) *)
Definition instantiate_vars (ct : cluster_test) (seeds : list Z) : list nat * list nat * list Z :=
  let n := length seeds in
  if clustering_mode ct seeds then (seq 0 n, seq 0 n, seeds)
  else
    let index_seed := filter (fun i => (0 <=? nthz seeds i)%Z) (seq 0 n) in
    let index_remain := filter (fun i => (nthz seeds i <? 0)%Z) (seq 0 n) in
    (index_seed, index_remain, map (nthz seeds) index_seed).

(** labels[index_seed] = labels_seed *)
Fixpoint scatter (base : list Z) (idx : list nat) (vals : list Z) : list Z :=
  match idx, vals with
  | i :: ti, v :: tv => scatter (upd base i v) ti tv
  | _, _ => base
  end.

(** the update order. [oracle] is what NumPy returned: the shuffled index_remain for 'random', the argsort of
    the (negated) in-weights for 'decreasing' / 'increasing' -- used as the source uses it:
    [index_remain = index[index_remain]]. *)
Definition order_index (oi : order_impl) (order : node_order) (oracle : list nat) (index_remain : list nat)
  : list nat :=
  match order with
  | ONone => index_remain
  | ORandom => oracle
  | ODecreasing | OIncreasing =>
      match oi with
      | OI_position => map (nthn oracle) index_remain
      | OI_filter => filter (fun i => memn i index_remain) oracle
      end
  end.

Inductive pres (A : Type) := POk (a : A) | POOB (s : site) | POutOfFuel.
Arguments POk {A} a.
Arguments POOB {A} s.
Arguments POutOfFuel {A}.

(** while t < n_iter and not array_equal(labels_remain, labels[index_remain]): ...
    [n_iter = None] is the default (infinity); then the model needs fuel and reports [POutOfFuel] when it is
    exhausted. Result: final labels, number of sweeps, and whether the loop ended on the array_equal test. *)
Fixpoint prop_loop (kv : kvariant) (c : csr) (data : list Q) (index : list nat) (n_iter : option nat)
         (fuel t : nat) (labels_remain labels : list Z) : pres (list Z * nat * bool) :=
  let cur := map (nthz labels) index in
  let same := list_eqb_Z labels_remain cur in
  if (match n_iter with Some k => t <? k | None => true end) && negb same then
    match fuel with
    | O => POutOfFuel
    | S f =>
        match vote_update kv (c_indptr c) (c_indices c) data labels index with
        | VOOB s => POOB s
        | VOk labels' => prop_loop kv c data index n_iter f (S t) cur labels'
        end
    end
  else POk (labels, t, same).

(** probs = normalize(adjacency.dot(get_membership(labels))) *)
Definition prop_probs (adj : adjrows) (labels : list Z) : mat :=
  let k := n_cols labels in
  map (fun r : list (nat * Q) =>
         normalize_row (map (fun c => sumqr (map (fun p : nat * Q =>
                                                    if (nthz labels (fst p) =? Z.of_nat c)%Z then snd p else 0%Q) r))
                            (seq 0 k))) adj.

Record prop_result := { pr_labels : list Z; pr_probs : mat; pr_sweeps : nat; pr_fixed : bool; pr_index : list nat }.

Definition propagation (pv : pvariant) (c : csr) (seeds : list Z) (order : node_order) (oracle : list nat)
           (weighted : bool) (n_iter : option nat) (fuel : nat) : pres prop_result :=
  let n := length seeds in
  let '(index_seed, index_remain0, labels_seed) := instantiate_vars (pv_ctest pv) seeds in
  let index_remain := order_index (pv_order pv) order oracle index_remain0 in
  let labels0 := scatter (repeat (-1)%Z n) index_seed labels_seed in
  let data := if weighted then c_data c
              else repeat 1%Q (match pv_ones pv with Ones_n => n | Ones_nnz => length (c_indices c) end) in
  match prop_loop (pv_kernel pv) c data index_remain n_iter fuel 0 (repeat 0%Z (length index_remain)) labels0 with
  | POOB s => POOB s
  | POutOfFuel => POutOfFuel
  | POk (labels, t, same) =>
      POk {| pr_labels := labels; pr_probs := prop_probs (csr_rows c n) labels; pr_sweeps := t;
             pr_fixed := same; pr_index := index_remain |}
  end.

(** * RankClassifier (PageRankClassifier): scores per class (oracle, one row per node, one column per class
    of [uniq_labels seeds]) -> labels and probabilities.
    probs is kept sparse as the source builds it (coo with [col = labels_unique[col]]): one (label, value)
    pair per class. *)
Definition rank_classify (seeds : list Z) (scores : mat) : list Z * list (list (Z * Q)) :=
  let lu := uniq_labels seeds in
  let sc := map normalize_row scores in
  (map (fun r => nth (argmax_first r) lu (-1)%Z) sc, map (fun r => combine lu r) sc).

(** * DiffusionClassifier *)

(** normalize(adjacency) on one sparse row *)
Definition norm_adj_row (r : list (nat * Q)) : list (nat * Q) :=
  let s := sumq (map (fun p : nat * Q => Qabs (snd p)) r) in
  if Qeq_bool s 0 then r else map (fun p : nat * Q => (fst p, Qred (snd p / s)%Q)) r.

Definition dot_row (k : nat) (r : list (nat * Q)) (T : mat) : list Q :=
  map (fun c => sumqr (map (fun p : nat * Q => (snd p * nthq (mrow T (fst p)) c)%Q) r)) (seq 0 k).

(** one iteration: temperatures = diffusion.dot(temperatures); temperatures[labels >= 0] = temperatures_seeds *)
Definition dc_step (k : nat) (P : adjrows) (labels : list Z) (T0 T : mat) : mat :=
  map (fun i => if (0 <=? nthz labels i)%Z then mrow T0 i else dot_row k (nth i P []) T)
      (seq 0 (length labels)).

Definition col_mean (n : nat) (T : mat) (c : nat) : Q :=
  (sumqr (map (fun r => nthq r c) T) / inject_Z (Z.of_nat n))%Q.
Definition center (k : nat) (T : mat) : mat :=
  let n := length T in
  map (fun r => map (fun c => Qred (nthq r c - col_mean n T c)%Q) (seq 0 k)) T.

(** initial temperatures. The source writes [temperatures[labels < 0] = 0.5] into the array
    [get_membership(labels_reindex).toarray()], whose dtype is bool: the stored value is True, i.e. 1
    (not 0.5) for every class of an unlabelled node. Modelled as the code behaves. *)
Definition dc_init (k : nat) (lu : list Z) (labels : list Z) : mat :=
  map (fun l => if (0 <=? l)%Z then match index_of l lu with Some c => onehot k c | None => repeat 0%Q k end
                else repeat 1%Q k) labels.

(** Result [None]: the ValueError of the source (no non-negative label). [expf] is exp (oracle). *)
Definition dc_fit (adj : adjrows) (labels : list Z) (n_iter : nat) (centering : bool) (scale : Q)
           (expf : Q -> Q) : option (list Z * mat) :=
  let lu := uniq_labels labels in
  let k := length lu in
  if k =? 0 then None
  else
    let T0 := dc_init k lu labels in
    let P := map norm_adj_row adj in
    let T := Nat.iter n_iter (dc_step k P labels T0) T0 in
    let Tc := if centering then center k T else T in
    let lab := map (fun r => nth (argmax_first r) lu (-1)%Z) Tc in
    let Te := if centering then map (map (fun x => expf (scale * x)%Q)) Tc else Tc in
    match bfs (map (map fst) adj) (map (fun l => (0 <=? l)%Z) labels) with
    | None => None
    | Some dist =>
        Some (map2 (fun (d l : Z) => if (d <? 0)%Z then (-1)%Z else l) dist lab,
              map normalize_row (map2 (fun (d : Z) (r : list Q) => if (d <? 0)%Z then repeat 0%Q k else r) dist Te))
    end.

(** * NNClassifier._fit_core
    [emb]: the embedding, one dense row per node (oracle); [argparts]: for each node of index_test, in order,
    the answer of np.argpartition(distances, n_neighbors) (positions into index_train). *)
Definition dotq (u v : list Q) : Q := sumq (map2 Qmult u v).
Definition sqnorm (v : list Q) : Q := dotq v v.

(** check_n_neighbors *)
Definition check_n_neighbors (n_neighbors n_seeds : nat) : nat :=
  if n_seeds <=? n_neighbors then n_seeds - 1 else n_neighbors.

Definition nn_distances (emb : mat) (index_train : list nat) (i : nat) : list Q :=
  let v := mrow emb i in
  map (fun t => (sqnorm (mrow emb t) - 2 * dotq (mrow emb t) v + sqnorm v)%Q) index_train.

Definition count_if {A} (f : A -> bool) (l : list A) : nat := length (filter f l).

Definition nn_fit_core (labels : list Z) (index_train index_test : list nat) (n_neighbors : nat)
           (argparts : list (list nat)) : mat * list Z :=
  let k := check_n_neighbors n_neighbors (length index_train) in
  (* (row, col) pairs of the sparse membership matrix, duplicates summed by csr_matrix *)
  let trip :=
    concat (map2 (fun i ap => map (fun p => (i, nthz labels (nthn index_train p))) (firstn k ap)) index_test argparts)
    ++ map (fun t => (t, nthz labels t)) index_train in
  let ncol := n_cols labels in
  let dense :=
    map (fun i => map (fun c => inject_Z (Z.of_nat (count_if (fun p : nat * Z => (fst p =? i) && (snd p =? Z.of_nat c)%Z) trip)))
                      (seq 0 ncol)) (seq 0 (length labels)) in
  let probs := map normalize_row dense in
  (probs, map (fun r => Z.of_nat (argmax_first r)) probs).

(** * NNLinker._fit_core, one source row: [sims] = similarities to the candidate columns, [k] = n_neighbors after
    check_n_neighbors, [ap] = np.argpartition(-sims, k). Links kept: the first k of [ap], minus those below the
    threshold, in increasing column order (np.flatnonzero of the mask). *)
Definition nnlinker_row (sims : list Q) (k : nat) (thr : Q) (ap : list nat) : list (nat * Q) :=
  let nn := firstn k ap in
  map (fun c => (c, nthq sims c))
      (filter (fun c => memn c nn && Qle_bool thr (nthq sims c)) (seq 0 (length sims))).

(** the whole _fit_core: [emb] one dense row per node (already normalised by fit), [mask] the source rows;
    bipartite when len(mask) < number of embedded nodes; [aps]: argpartition answers, one per source row in order. *)
Definition nnlinker_fit_core (emb : mat) (mask : list bool) (n_neighbors : nat) (thr : Q) (aps : list (list nat))
  : list (nat * list (nat * Q)) :=
  let n := length emb in
  let n_row := length mask in
  let index_col := if n_row <? n then seq n_row (n - n_row) else seq 0 n in
  let k := check_n_neighbors n_neighbors (length index_col) in
  map2 (fun i ap => (i, nnlinker_row (map (fun c => dotq (mrow emb c) (mrow emb i)) index_col) k thr ap))
       (filter (fun i => nthb mask i) (seq 0 n_row)) aps.

(** * Classification metrics (metrics.py). Negative labels ignored: a sample counts when both labels are >= 0. *)

Definition masked (lt lp : list Z) : list (Z * Z) :=
  filter (fun tp : Z * Z => (0 <=? fst tp)%Z && (0 <=? snd tp)%Z) (combine lt lp).

Definition qnat (n : nat) : Q := inject_Z (Z.of_nat n).

(** get_accuracy_score; [None] = the ValueError "no sample with both labels non-negative" *)
Definition accuracy (lt lp : list Z) : option Q :=
  let m := masked lt lp in
  if length m =? 0 then None
  else Some (qnat (count_if (fun tp : Z * Z => (fst tp =? snd tp)%Z) m) / qnat (length m))%Q.

(** get_confusion_matrix: n_labels = max(max(true), max(pred)) + 1 over ALL samples; entry (i, j) = number of
    counted samples with true label i and predicted label j *)
Definition n_labels (lt lp : list Z) : nat := Z.to_nat (Z.max (maxz lt) (maxz lp) + 1).
Definition confusion (lt lp : list Z) : option (list (list nat)) :=
  let m := masked lt lp in
  if length m =? 0 then None
  else let k := n_labels lt lp in
       Some (map (fun i => map (fun j => count_if (fun tp : Z * Z => (fst tp =? Z.of_nat i)%Z && (snd tp =? Z.of_nat j)%Z) m)
                               (seq 0 k)) (seq 0 k)).

Definition centry (C : list (list nat)) (i j : nat) : nat := nth j (nth i C []) 0.

(** get_f1_scores(..., return_precision_recall=True): (f1, precisions, recalls), one per label *)
Definition prf_of_confusion (C : list (list nat)) : list Q * list Q * list Q :=
  let k := length C in
  let correct := map (fun i => centry C i i) (seq 0 k) in
  let ctrue := map (fun i => sumn (map (fun j => centry C i j) (seq 0 k))) (seq 0 k) in
  let cpred := map (fun j => sumn (map (fun i => centry C i j) (seq 0 k))) (seq 0 k) in
  let ratio := fun a b : nat => if b =? 0 then 0%Q else (qnat a / qnat b)%Q in
  let recalls := map2 ratio correct ctrue in
  let precisions := map2 ratio correct cpred in
  let f1 := map2 (fun p r : Q => if Qle_bool p 0 || Qle_bool r 0 then 0%Q else (2 / (1 / p + 1 / r))%Q)
                 precisions recalls in
  (f1, precisions, recalls).

Definition f1_scores (lt lp : list Z) : option (list Q * list Q * list Q) :=
  option_map prf_of_confusion (confusion lt lp).

Inductive average := Micro | Macro | Weighted.

(** get_average_f1_score. 'weighted': weights are the counts of the labels in labels_true[labels_true >= 0]
    (ALL samples with a non-negative true label, whether or not their prediction is counted). *)
Definition average_f1 (lt lp : list Z) (avg : average) : option Q :=
  match avg with
  | Micro => accuracy lt lp
  | Macro => option_map (fun x : list Q * list Q * list Q =>
                           let f1 := fst (fst x) in (sumq f1 / qnat (length f1))%Q) (f1_scores lt lp)
  | Weighted =>
      option_map (fun x : list Q * list Q * list Q =>
                    let f1 := fst (fst x) in
                    let lu := uniq_labels lt in
                    let counts := map (fun l => count_if (fun t => (t =? l)%Z) lt) lu in
                    (sumq (map2 (fun l c => (nthq f1 (Z.to_nat l) * qnat c)%Q) lu counts) / qnat (sumn counts))%Q)
                 (f1_scores lt lp)
  end.

(** ** Textbook definitions from per-class sample counts (specification) *)
Definition tp (m : list (Z * Z)) (k : Z) : nat := count_if (fun x : Z * Z => (fst x =? k)%Z && (snd x =? k)%Z) m.
Definition fp (m : list (Z * Z)) (k : Z) : nat := count_if (fun x : Z * Z => negb (fst x =? k)%Z && (snd x =? k)%Z) m.
Definition fn (m : list (Z * Z)) (k : Z) : nat := count_if (fun x : Z * Z => (fst x =? k)%Z && negb (snd x =? k)%Z) m.

Definition spec_precision (m : list (Z * Z)) (k : Z) : Q :=
  if tp m k + fp m k =? 0 then 0%Q else (qnat (tp m k) / qnat (tp m k + fp m k))%Q.
Definition spec_recall (m : list (Z * Z)) (k : Z) : Q :=
  if tp m k + fn m k =? 0 then 0%Q else (qnat (tp m k) / qnat (tp m k + fn m k))%Q.
Definition spec_f1 (m : list (Z * Z)) (k : Z) : Q :=
  if tp m k =? 0 then 0%Q else (qnat (2 * tp m k) / qnat (2 * tp m k + fp m k + fn m k))%Q.
